(* Proofs for C01 on the core value model: fuel monotonicity of unm / mar, the round-trip theorem,
   the weak fixpoint form, refutation witnesses. *)
From Coq Require Import List Arith Bool PeanoNat Lia.
Import ListNotations.
Require Import TL.Model.Core TL.Model.CoreC01 TL.Proofs.CoreHash.

(* ------------------------------------------------------------------ results: "more fuel" order *)
Definition le_res {A} (a b : res A) : Prop := a = OutOfFuel \/ a = b.

Lemma le_res_refl {A} (a : res A) : le_res a a.
Proof. right; reflexivity. Qed.

Lemma le_res_ok {A} (a b : res A) x : le_res a b -> a = Ok x -> b = Ok x.
Proof. intros [H | H] Ha; congruence. Qed.

Lemma le_res_trans {A} (a b c : res A) : le_res a b -> le_res b c -> le_res a c.
Proof. intros [H | H] [H' | H']; subst; unfold le_res; auto. Qed.

Lemma le_bind {A B} (a b : res A) (k k' : A -> res B) :
  le_res a b -> (forall x, le_res (k x) (k' x)) -> le_res (bind a k) (bind b k').
Proof.
  intros [H | H] Hk; subst.
  - left; reflexivity.
  - destruct b; cbn; auto using le_res_refl.
Qed.

Lemma le_mapM {A B} (f g : A -> res B) (l : list A) :
  (forall x, le_res (f x) (g x)) -> le_res (mapM f l) (mapM g l).
Proof.
  intros H; induction l as [| x r IH]; cbn.
  - apply le_res_refl.
  - apply le_bind; [apply H |]. intros y. apply le_bind; [exact IH |]. intros; apply le_res_refl.
Qed.

Lemma le_hashing rt {A B} (key : B -> pv) (f g : A -> res B) x :
  le_res (f x) (g x) -> le_res (hashing rt key f x) (hashing rt key g x).
Proof. intros H. unfold hashing. apply le_bind; [exact H | intros; apply le_res_refl]. Qed.

Lemma le_elem_conv rt k (f g : pv -> res pv) x :
  le_res (f x) (g x) -> le_res (elem_conv rt k f x) (elem_conv rt k g x).
Proof. intros H. unfold elem_conv. destruct (hashes k); [apply le_hashing; exact H | exact H]. Qed.

Lemma le_fold {A B} (f g : res B -> A -> res B) (l : list A) :
  (forall acc acc' x, le_res acc acc' -> le_res (f acc x) (g acc' x)) ->
  forall acc acc', le_res acc acc' -> le_res (fold_left f l acc) (fold_left g l acc').
Proof.
  intros H; induction l as [| x r IH]; cbn; intros acc acc' Ha; auto.
Qed.

Ltac class_case E c IH :=
  destruct (E c) as [[cd | t''] |]; try apply le_res_refl; try apply IH;
  apply le_bind; [apply le_res_refl |]; intros d;
  apply le_bind; [apply le_res_refl |]; intros kvs;
  apply le_bind; [| intros; apply le_res_refl];
  apply le_fold; [| apply le_res_refl];
  intros acc acc' kv Ha; apply le_bind; [exact Ha |]; intros kw;
  destruct (fst kv) as [a | f | | | |]; try apply le_res_refl;
  destruct (field_ty cd f); try apply le_res_refl;
  apply le_bind; [apply IH |]; intros; apply le_res_refl.

Ltac mclass_case E c IH :=
  destruct (E c) as [[cd | t''] |]; try apply le_res_refl; try apply IH;
  apply le_bind; [apply le_res_refl |]; intros kvs;
  apply le_bind; [| intros; apply le_res_refl];
  apply le_fold; [| apply le_res_refl];
  intros acc acc' kv Ha; apply le_bind; [exact Ha |]; intros kw;
  destruct (fst kv) as [a | f | | | |]; try apply le_res_refl;
  destruct (field_ty cd f); try apply le_res_refl;
  apply le_bind; [apply IH |]; intros; apply le_res_refl.

Section Mono.
Variable rt : runtime.
Variable E : env.

Lemma le_first_ok (fs gs : list (pv -> res pv)) x :
  Forall2 (fun f g => le_res (f x) (g x)) fs gs -> le_res (first_ok rt fs x) (first_ok rt gs x).
Proof.
  induction 1 as [| f g fs gs Hfg _ IH]; cbn.
  - apply le_res_refl.
  - destruct Hfg as [Hf | Hf].
    + rewrite Hf. left; reflexivity.
    + rewrite Hf. destruct (g x); try apply le_res_refl.
      destruct (suppressed rt e); [exact IH | apply le_res_refl].
Qed.

Lemma Forall2_map_le (f g : ty -> pv -> res pv) (ts : list ty) x :
  (forall t, le_res (f t x) (g t x)) ->
  Forall2 (fun a b => le_res (a x) (b x)) (map f ts) (map g ts).
Proof. intros H; induction ts; cbn; constructor; auto. Qed.

Lemma unm_mono : forall n t x, le_res (unm rt E n t x) (unm rt E (S n) t x).
Proof.
  induction n as [| n IH]; intros t x; [left; reflexivity |].
  change (unm rt E (S (S n)) t x) with
    (match t with
     | TLeaf s | TRefLeaf s => leaf_u rt s x
     | TNone => none_u rt x
     | TSeq k a =>
         bind (load rt x) (fun d => bind (itervalues rt d) (fun vs =>
         bind (mapM (elem_conv rt k (unm rt E (S n) a)) vs) (fun rs => construct_seq rt k rs)))
     | TMap k kt vt =>
         bind (load rt x) (fun d => bind (iteritems rt E d) (fun kvs =>
         bind (mapM (hashing rt fst (fun kv => bind (unm rt E (S n) kt (fst kv)) (fun k' =>
                               bind (unm rt E (S n) vt (snd kv)) (fun v' => Ok (k', v'))))) kvs)
              (fun rs => construct_map rt k rs)))
     | TTuple ts =>
         bind (load rt x) (fun d => bind (itervalues rt d) (fun vs =>
         if Nat.ltb (length vs) (length ts) then Raise EValue
         else
         bind (mapM (fun tv => unm rt E (S n) (fst tv) (snd tv)) (zip_trunc ts vs)) (fun rs => Ok (PSeq KTuple rs))))
     | TUnion ts => first_ok rt (map (unm rt E (S n)) (union_stack_u ts)) x
     | TName c | TRef c | TAliasStr _ c =>
         match E c with
         | None => Raise EOther
         | Some (NType t') => unm rt E (S n) t' x
         | Some (NClass cd) =>
             bind (load rt x) (fun d => bind (iteritems rt E d) (fun kvs =>
             bind (fold_left (fun acc kv =>
                     bind acc (fun kw =>
                       match fst kv with
                       | PKey f => match field_ty cd f with
                                   | Some ft => bind (unm rt E (S n) ft (snd kv)) (fun v' => Ok (kw_set f v' kw))
                                   | None => Ok kw end
                       | k => if unhashable rt k then Raise EType else Ok kw
                       end)) kvs (Ok []))
                  (fun kw => construct_class c cd kw)))
         end
     | TNewType _ t' | TAlias _ t' | TFinal t' | TClassVar t' | TRefTo t' => unm rt E (S n) t' x
     end).
  cbn [unm].
  destruct t as [s| |k a|k kt vt|ts|ts|c|c|s|t'|i t'|i t'|i c|t'|t']; try apply le_res_refl; try apply IH.
  - apply le_bind; [apply le_res_refl |]; intros d.
    apply le_bind; [apply le_res_refl |]; intros vs.
    apply le_bind; [apply le_mapM; intros; apply le_elem_conv; apply IH |]; intros; apply le_res_refl.
  - apply le_bind; [apply le_res_refl |]; intros d.
    apply le_bind; [apply le_res_refl |]; intros vs.
    apply le_bind; [| intros; apply le_res_refl].
    apply le_mapM; intros kv. apply le_hashing. apply le_bind; [apply IH |]; intros.
    apply le_bind; [apply IH |]; intros; apply le_res_refl.
  - apply le_bind; [apply le_res_refl |]; intros d.
    apply le_bind; [apply le_res_refl |]; intros vs.
    destruct (Nat.ltb (length vs) (length ts)); [apply le_res_refl |].
    apply le_bind; [apply le_mapM; intros; apply IH |]; intros; apply le_res_refl.
  - apply le_first_ok. apply Forall2_map_le. intros; apply IH.
  - class_case E c IH.
  - class_case E c IH.
  - class_case E c IH.
Qed.


Lemma mar_mono : forall n t x, le_res (mar rt E n t x) (mar rt E (S n) t x).
Proof.
  induction n as [| n IH]; intros t x; [left; reflexivity |].
  change (mar rt E (S (S n)) t x) with
    (match t with
     | TLeaf s | TRefLeaf s => leaf_m rt s x
     | TNone => if is_none_val rt x then Ok x else Raise EValue
     | TSeq k a => bind (itervalues rt x) (fun vs => bind (mapM (mar rt E (S n) a) vs) (fun rs => Ok (PSeq KList rs)))
     | TMap k kt vt =>
         bind (iteritems rt E x) (fun kvs =>
         bind (mapM (hashing rt fst (fun kv => bind (mar rt E (S n) kt (fst kv)) (fun k' =>
                               bind (mar rt E (S n) vt (snd kv)) (fun v' => Ok (k', v'))))) kvs)
              (fun rs => construct_map rt KDict rs))
     | TTuple ts =>
         bind (itervalues rt x) (fun vs =>
         bind (mapM (fun tv => mar rt E (S n) (fst tv) (snd tv)) (zip_trunc ts vs)) (fun rs => Ok (PSeq KList rs)))
     | TUnion ts =>
         if isoptional ts && is_none_val rt x then Ok x
         else first_ok rt (map (mar rt E (S n)) ts) x
     | TName c | TRef c | TAliasStr _ c =>
         match E c with
         | None => Raise EOther
         | Some (NType t') => mar rt E (S n) t' x
         | Some (NClass cd) =>
             bind (iteritems rt E x) (fun kvs =>
             bind (fold_left (fun acc kv =>
                     bind acc (fun kw =>
                       match fst kv with
                       | PKey f => match field_ty cd f with
                                   | Some ft => bind (mar rt E (S n) ft (snd kv)) (fun v' => Ok (kw_set f v' kw))
                                   | None => Ok kw end
                       | k => if unhashable rt k then Raise EType else Ok kw
                       end)) kvs (Ok []))
                  (fun kw => Ok (PDict KDict (map (fun fv => (PKey (fst fv), snd fv)) kw))))
         end
     | TNewType _ t' | TAlias _ t' | TFinal t' | TClassVar t' | TRefTo t' => mar rt E (S n) t' x
     end).
  cbn [mar].
  destruct t as [s| |k a|k kt vt|ts|ts|c|c|s|t'|i t'|i t'|i c|t'|t']; try apply le_res_refl; try apply IH.
  - apply le_bind; [apply le_res_refl |]; intros vs.
    apply le_bind; [apply le_mapM; intros; apply IH |]; intros; apply le_res_refl.
  - apply le_bind; [apply le_res_refl |]; intros vs.
    apply le_bind; [| intros; apply le_res_refl].
    apply le_mapM; intros kv. apply le_hashing. apply le_bind; [apply IH |]; intros.
    apply le_bind; [apply IH |]; intros; apply le_res_refl.
  - apply le_bind; [apply le_res_refl |]; intros vs.
    apply le_bind; [apply le_mapM; intros; apply IH |]; intros; apply le_res_refl.
  - destruct (isoptional ts && is_none_val rt x); [apply le_res_refl |].
    apply le_first_ok. apply Forall2_map_le. intros; apply IH.
  - mclass_case E c IH.
  - mclass_case E c IH.
  - mclass_case E c IH.
Qed.

Lemma unm_ge : forall n m t x, n <= m -> le_res (unm rt E n t x) (unm rt E m t x).
Proof.
  intros n m t x H; induction H as [| m H IH]; [apply le_res_refl |].
  eapply le_res_trans; [exact IH | apply unm_mono].
Qed.

Lemma mar_ge : forall n m t x, n <= m -> le_res (mar rt E n t x) (mar rt E m t x).
Proof.
  intros n m t x H; induction H as [| m H IH]; [apply le_res_refl |].
  eapply le_res_trans; [exact IH | apply mar_mono].
Qed.

End Mono.

(* ------------------------------------------------------------------ list helpers *)
Lemma mapM_round {A B} (f : A -> res B) (g : B -> res A) :
  forall l ws, (forall x w, In x l -> f x = Ok w -> g w = Ok x) ->
  mapM f l = Ok ws -> mapM g ws = Ok l.
Proof.
  induction l as [| x r IH]; cbn; intros ws H Hm.
  - inversion Hm; reflexivity.
  - destruct (f x) as [y | | |] eqn:Hx; cbn in Hm; try discriminate.
    destruct (mapM f r) as [t | | |] eqn:Hr; cbn in Hm; try discriminate.
    inversion Hm; subst ws; cbn.
    rewrite (H x y (or_introl eq_refl) Hx); cbn.
    rewrite (IH t (fun x' w' Hin => H x' w' (or_intror Hin)) eq_refl); reflexivity.
Qed.

Lemma mapM_pair_fst (f1 f2 : pv -> res pv) :
  forall (l : list (pv * pv)) rs,
  mapM (fun kv => bind (f1 (fst kv)) (fun k' => bind (f2 (snd kv)) (fun v' => Ok (k', v')))) l = Ok rs ->
  mapM f1 (map fst l) = Ok (map fst rs).
Proof.
  induction l as [| [a b] r IH]; cbn; intros rs Hm.
  - inversion Hm; reflexivity.
  - destruct (f1 a) as [a' | | |]; cbn in Hm; try discriminate.
    destruct (f2 b) as [b' | | |]; cbn in Hm; try discriminate.
    destruct (mapM _ r) as [t | | |] eqn:Hr; cbn in Hm; try discriminate.
    inversion Hm; subst rs; cbn. rewrite (IH t eq_refl); reflexivity.
Qed.

Lemma forallb2_length {A B} (p : A -> B -> bool) : forall a b, forallb2 p a b = true -> length a = length b.
Proof.
  induction a as [| x r IH]; destruct b as [| y t]; cbn; intros H; try discriminate; auto.
  apply andb_prop in H; destruct H as [_ H]. f_equal; auto.
Qed.

Lemma mapM_length {A B} (f : A -> res B) : forall l ws, mapM f l = Ok ws -> length ws = length l.
Proof.
  induction l as [| x r IH]; cbn; intros ws Hm.
  - inversion Hm; reflexivity.
  - destruct (f x); cbn in Hm; try discriminate. destruct (mapM f r) eqn:Hr; cbn in Hm; try discriminate.
    inversion Hm; subst; cbn. f_equal; auto.
Qed.

Lemma zip_trunc_length {A B} : forall (a : list A) (b : list B), length a = length b -> length (zip_trunc a b) = length a.
Proof. induction a; destruct b; cbn; intros H; try discriminate; auto. Qed.

Lemma tuple_arity_ok (f : ty * pv -> res pv) ts (l ws : list pv) :
  length ts = length l -> mapM f (zip_trunc ts l) = Ok ws -> Nat.ltb (length ws) (length ts) = false.
Proof.
  intros Hl Hm. apply mapM_length in Hm. rewrite zip_trunc_length in Hm by exact Hl.
  rewrite Hm. apply Nat.ltb_irrefl.
Qed.

Lemma mapM_zip_round (f g : ty -> pv -> res pv) (P : ty -> pv -> bool) :
  (forall t x w, P t x = true -> f t x = Ok w -> g t w = Ok x) ->
  forall ts l ws, forallb2 P ts l = true ->
  mapM (fun tv => f (fst tv) (snd tv)) (zip_trunc ts l) = Ok ws ->
  mapM (fun tv => g (fst tv) (snd tv)) (zip_trunc ts ws) = Ok l.
Proof.
  intros H; induction ts as [| t r IH]; destruct l as [| x l]; cbn; intros ws HP Hm; try discriminate.
  - inversion Hm; reflexivity.
  - apply andb_prop in HP; destruct HP as [Hp HP].
    destruct (f t x) as [y | | |] eqn:Hx; cbn in Hm; try discriminate.
    destruct (mapM _ (zip_trunc r l)) as [t' | | |] eqn:Hr; cbn in Hm; try discriminate.
    inversion Hm; subst ws; cbn.
    rewrite (H t x y Hp Hx); cbn. rewrite (IH l t' HP Hr); reflexivity.
Qed.

Lemma forallb2_and3 {A B} (p q r : A -> B -> bool) :
  forall a b, forallb2 p a b = true -> forallb2 q a b = true -> forallb2 r a b = true ->
  forallb2 (fun x y => p x y && q x y && r x y) a b = true.
Proof.
  induction a as [| x a IH]; destruct b as [| y b]; cbn; intros Hp Hq Hr; try discriminate; auto.
  apply andb_prop in Hp; destruct Hp as [Hp1 Hp2].
  apply andb_prop in Hq; destruct Hq as [Hq1 Hq2].
  apply andb_prop in Hr; destruct Hr as [Hr1 Hr2].
  rewrite Hp1, Hq1, Hr1; cbn. auto.
Qed.

Lemma seqkind_eqb_eq a b : seqkind_eqb a b = true -> a = b.
Proof. destruct a, b; cbn; congruence. Qed.
Lemma dictkind_eqb_eq a b : dictkind_eqb a b = true -> a = b.
Proof. destruct a, b; cbn; congruence. Qed.

Lemma list_eqb_nat_eq : forall a b, list_eqb Nat.eqb a b = true -> a = b.
Proof.
  induction a as [| x a IH]; destruct b as [| y b]; cbn; intros H; try discriminate; auto.
  apply andb_prop in H; destruct H as [H1 H2]. apply Nat.eqb_eq in H1. f_equal; auto.
Qed.

Lemma nodup_nat_NoDup : forall l, nodup_nat l = true -> NoDup l.
Proof.
  induction l as [| x l IH]; cbn; intros H; constructor.
  - apply andb_prop in H; destruct H as [H _]. intros Hin.
    apply negb_true_iff in H. assert (existsb (Nat.eqb x) l = true); [| congruence].
    apply existsb_exists. exists x; split; auto. apply Nat.eqb_refl.
  - apply andb_prop in H; destruct H; auto.
Qed.

(* ------------------------------------------------------------------ sets and dicts *)
Section Containers.
Variable rt : runtime.

Lemma mem_pv_app x : forall a b, mem_pv rt x (a ++ b) = mem_pv rt x a || mem_pv rt x b.
Proof. induction a as [| y a IH]; cbn; intros b; auto. rewrite IH, orb_assoc; reflexivity. Qed.

Lemma dedupe_nodup : forall l seen, nodup_from rt seen l = true -> dedupe rt l seen = l.
Proof.
  induction l as [| x l IH]; cbn; intros seen H; auto.
  apply andb_prop in H; destruct H as [H1 H2]. apply negb_true_iff in H1. rewrite H1.
  f_equal; auto.
Qed.

Lemma dict_set_fresh k v : forall d, mem_pv rt k (map fst d) = false -> dict_set rt k v d = d ++ [(k, v)].
Proof.
  induction d as [| [k' v'] d IH]; cbn; intros H; auto.
  apply orb_false_iff in H; destruct H as [H1 H2]. rewrite H1. f_equal; auto.
Qed.

Lemma dict_fold_fresh : forall l d seen,
  (forall x, mem_pv rt x seen = mem_pv rt x (map fst d)) ->
  nodup_from rt seen (map fst l) = true ->
  fold_left (fun d kv => dict_set rt (fst kv) (snd kv) d) l d = d ++ l.
Proof.
  induction l as [| [k v] l IH]; cbn; intros d seen Hs H.
  - rewrite app_nil_r; reflexivity.
  - apply andb_prop in H; destruct H as [H1 H2]. apply negb_true_iff in H1.
    rewrite dict_set_fresh by (rewrite <- Hs; exact H1).
    rewrite (IH (d ++ [(k, v)]) (k :: seen)); [rewrite <- app_assoc; reflexivity | | exact H2].
    intros x; cbn. rewrite map_app, mem_pv_app; cbn. rewrite Hs, orb_false_r, orb_comm; reflexivity.
Qed.

Lemma dict_of_nodup l : nodup_from rt [] (map fst l) = true -> dict_of rt l = l.
Proof. intros H. unfold dict_of. rewrite (dict_fold_fresh l [] []); auto. Qed.

End Containers.

(* ------------------------------------------------------------------ structured classes *)
Lemma kw_set_fresh f v : forall kw, ~ In f (map fst kw) -> kw_set f v kw = kw ++ [(f, v)].
Proof.
  induction kw as [| [g w] kw IH]; cbn; intros H; auto.
  destruct (Nat.eqb f g) eqn:Hfg.
  - apply Nat.eqb_eq in Hfg. exfalso; apply H; left; auto.
  - f_equal. apply IH. intros Hin; apply H; right; exact Hin.
Qed.

Lemma kw_lookup_skip f v : forall pre r, ~ In f (map fst pre) -> kw_lookup f (pre ++ (f, v) :: r) = Some v.
Proof.
  induction pre as [| [g w] pre IH]; cbn; intros r H.
  - rewrite Nat.eqb_refl; reflexivity.
  - destruct (Nat.eqb f g) eqn:Hfg.
    + apply Nat.eqb_eq in Hfg. exfalso; apply H; left; auto.
    + apply IH. intros Hin; apply H; right; exact Hin.
Qed.

Lemma fill_fields_exact : forall flds pre rest,
  map fst rest = map fname flds -> NoDup (map fst (pre ++ rest)) ->
  fill_fields flds (pre ++ rest) = Ok rest.
Proof.
  induction flds as [| fd flds IH]; intros pre rest Hm Hn.
  - destruct rest; [reflexivity | discriminate].
  - destruct rest as [| [g v] rest]; [discriminate |].
    cbn in Hm. inversion Hm as [[Hg Hrest]]. cbn [fill_fields].
    rewrite <- Hg. rewrite kw_lookup_skip.
    + replace (pre ++ (g, v) :: rest) with ((pre ++ [(g, v)]) ++ rest) by (rewrite <- app_assoc; reflexivity).
      rewrite IH; [cbn; rewrite Hg; reflexivity | exact Hrest |].
      rewrite <- app_assoc; exact Hn.
    + rewrite map_app in Hn. cbn in Hn. apply NoDup_remove_2 in Hn.
      intros Hin; apply Hn. apply in_or_app; left; exact Hin.
Qed.

Lemma combine_map_tokv : forall names l, combine (map PKey names) l = map tokv (combine names l).
Proof. induction names as [| n names IH]; destruct l; cbn; auto. unfold tokv at 1; cbn. f_equal; auto. Qed.

Lemma map_fst_combine {A B} : forall (a : list A) (b : list B), length a = length b -> map fst (combine a b) = a.
Proof. induction a; destruct b; cbn; intros H; try discriminate; auto. f_equal; auto. Qed.
Lemma map_snd_combine {A B} : forall (a : list A) (b : list B), length a = length b -> map snd (combine a b) = b.
Proof. induction a; destruct b; cbn; intros H; try discriminate; auto. f_equal; auto. Qed.

Lemma td_fields_tokv : forall kvs fs, td_fields kvs = Some fs -> kvs = map tokv fs.
Proof.
  induction kvs as [| [k v] kvs IH]; cbn; intros fs H.
  - inversion H; reflexivity.
  - destruct k; try discriminate. destruct (td_fields kvs) as [t |]; try discriminate.
    inversion H; subst fs; cbn. unfold tokv at 1; cbn. f_equal; auto.
Qed.

Section Classes.
Variable rt : runtime.
Variable E : env.

Lemma class_iteritems c cd v fs :
  E c = Some (NClass cd) -> class_fields c cd v = Some fs -> iteritems rt E v = Ok (map tokv fs).
Proof.
  intros HE H. unfold class_fields in H.
  destruct (cflavour cd); destruct v as [a | f | k l | k l | c' l | c' l]; try discriminate.
  - destruct (Nat.eqb c c' && _); inversion H; subst; reflexivity.
  - destruct (Nat.eqb c c' && Nat.eqb _ _) eqn:Hc; inversion H; subst.
    apply andb_prop in Hc; destruct Hc as [Hc _]. apply Nat.eqb_eq in Hc; subst c'.
    cbn. unfold named_fields; rewrite HE. rewrite combine_map_tokv; reflexivity.
  - destruct k; try discriminate. destruct (td_fields l) as [fs0 |] eqn:Htd; try discriminate.
    destruct (req_ok cd fs0); inversion H; subst. cbn. rewrite (td_fields_tokv _ _ Htd); reflexivity.
  - destruct (Nat.eqb c c' && _); inversion H; subst; reflexivity.
Qed.

Lemma class_construct c cd v fs :
  class_fields c cd v = Some fs -> NoDup (map fst fs) -> construct_class c cd fs = Ok v.
Proof.
  intros H Hn. unfold class_fields in H. unfold construct_class.
  destruct (cflavour cd); destruct v as [a | f | k l | k l | c' l | c' l]; try discriminate.
  - destruct (Nat.eqb c c' && _) eqn:Hc; inversion H; subst.
    apply andb_prop in Hc; destruct Hc as [Hc Hl]. apply Nat.eqb_eq in Hc; subst c'.
    apply list_eqb_nat_eq in Hl.
    pose proof (fill_fields_exact (cfields cd) [] fs Hl Hn) as Hf; cbn [app] in Hf; rewrite Hf; reflexivity.
  - destruct (Nat.eqb c c' && Nat.eqb _ _) eqn:Hc; inversion H; subst.
    apply andb_prop in Hc; destruct Hc as [Hc Hl]. apply Nat.eqb_eq in Hc; subst c'.
    apply Nat.eqb_eq in Hl.
    assert (Hlen : length (map fname (cfields cd)) = length l) by (rewrite map_length; auto).
    pose proof (fill_fields_exact (cfields cd) [] _ (map_fst_combine _ _ Hlen) Hn) as Hf; cbn [app] in Hf; rewrite Hf. cbn.
    rewrite (map_snd_combine _ _ Hlen); reflexivity.
  - destruct k; try discriminate. destruct (td_fields l) as [fs0 |] eqn:Htd; try discriminate.
    destruct (req_ok cd fs0) eqn:Hreq; inversion H; subst.
    unfold req_ok in Hreq. rewrite Hreq. rewrite (td_fields_tokv _ _ Htd); reflexivity.
  - destruct (Nat.eqb c c' && _) eqn:Hc; inversion H; subst.
    apply andb_prop in Hc; destruct Hc as [Hc Hl]. apply Nat.eqb_eq in Hc; subst c'.
    apply list_eqb_nat_eq in Hl.
    pose proof (fill_fields_exact (cfields cd) [] fs Hl Hn) as Hf; cbn [app] in Hf; rewrite Hf; reflexivity.
Qed.

(* the per-field loop of StructuredType routines, for any member conversion h *)
Definition fstep (h : ty -> pv -> res pv) (cd : classdef) :=
  fun (acc : res (list (nat * pv))) (kv : pv * pv) =>
    bind acc (fun kw =>
      match fst kv with
      | PKey f => match field_ty cd f with
                  | Some ft => bind (h ft (snd kv)) (fun v' => Ok (kw_set f v' kw))
                  | None => Ok kw end
      | k => if unhashable rt k then Raise EType else Ok kw
      end).

Definition FR (h : ty -> pv -> res pv) (cd : classdef) (a b : list (nat * pv)) : Prop :=
  Forall2 (fun x y => fst y = fst x /\ exists ft, field_ty cd (fst x) = Some ft /\ h ft (snd x) = Ok (snd y)) a b.

Lemma FR_names h cd a b : FR h cd a b -> map fst b = map fst a.
Proof. induction 1 as [| x y a b [H _] _ IH]; cbn; congruence. Qed.

Lemma fold_nonok h cd : forall l r, (forall kw, r <> Ok kw) -> fold_left (fstep h cd) l r = r.
Proof.
  induction l as [| kv l IH]; cbn; intros r Hr; auto.
  destruct r as [a | e | |]; [exfalso; eapply Hr; reflexivity | | |];
    (rewrite IH; cbn; auto; intros; discriminate).
Qed.

Lemma fold_fields_fwd h cd : forall a b acc,
  FR h cd a b -> NoDup (map fst acc ++ map fst a) ->
  fold_left (fstep h cd) (map tokv a) (Ok acc) = Ok (acc ++ b).
Proof.
  intros a b acc HF; revert acc.
  induction HF as [| [f v] [g w] a b [Hg [ft [Hft Hh]]] _ IH]; intros acc Hn; cbn.
  - rewrite app_nil_r; reflexivity.
  - cbn in Hg, Hft, Hh. subst g. rewrite Hft, Hh. cbn.
    cbn in Hn. rewrite kw_set_fresh.
    + rewrite IH; [rewrite <- app_assoc; reflexivity |].
      rewrite map_app, <- app_assoc; exact Hn.
    + apply NoDup_remove_2 in Hn. intros Hin; apply Hn. apply in_or_app; left; exact Hin.
Qed.

Lemma fold_fields_inv h cd : forall a acc kw,
  Forall (fun x => field_ty cd (fst x) <> None) a -> NoDup (map fst acc ++ map fst a) ->
  fold_left (fstep h cd) (map tokv a) (Ok acc) = Ok kw ->
  exists b, FR h cd a b /\ kw = acc ++ b.
Proof.
  induction a as [| [f v] a IH]; intros acc kw Hd Hn Hf; cbn in Hf.
  - inversion Hf; subst. exists []. split; [constructor | rewrite app_nil_r; reflexivity].
  - inversion Hd as [| x l Hd1 Hd2]; subst. cbn in Hd1.
    destruct (field_ty cd f) as [ft |] eqn:Hft; [| congruence].
    destruct (h ft v) as [w | e | |] eqn:Hh; cbn in Hf;
      try (rewrite fold_nonok in Hf; [discriminate | intros; discriminate]).
    cbn in Hn. rewrite kw_set_fresh in Hf.
    + destruct (IH (acc ++ [(f, w)]) kw Hd2) as [b [Hb Hkw]]; [| exact Hf |].
      * rewrite map_app, <- app_assoc; exact Hn.
      * exists ((f, w) :: b). split.
        -- constructor; [| exact Hb]. cbn. split; auto. exists ft; auto.
        -- rewrite Hkw, <- app_assoc; reflexivity.
    + apply NoDup_remove_2 in Hn. intros Hin; apply Hn. apply in_or_app; left; exact Hin.
Qed.

End Classes.

(* ------------------------------------------------------------------ unions *)
Section Unions.
Variable rt : runtime.

Lemma first_acceptor_spec (f : ty -> pv -> res pv) v : forall ts pre0 pre t w,
  first_acceptor rt f pre0 ts v = Some (pre, t, w) ->
  (exists post, pre0 ++ ts = pre ++ t :: post) /\ f t v = Ok w /\ first_ok rt (map f ts) v = Ok w.
Proof.
  induction ts as [| u ts IH]; cbn; intros pre0 pre t w H; [discriminate |].
  destruct (f u v) as [y | e | |] eqn:Hu; try discriminate.
  - inversion H; subst. split; [exists ts; reflexivity | split; auto].
  - destruct (suppressed rt e); [| discriminate].
    destruct (IH _ _ _ _ H) as [[post Hp] [Hf Hk]].
    split; [exists post; rewrite <- Hp, <- app_assoc; reflexivity | split; auto].
Qed.

Lemma first_ok_skip (g : ty -> pv -> res pv) x : forall pre rest,
  forallb (fun u => res_is_reject (suppressed rt) (g u x)) pre = true ->
  first_ok rt (map g (pre ++ rest)) x = first_ok rt (map g rest) x.
Proof.
  induction pre as [| u pre IH]; cbn; intros rest H; auto.
  apply andb_prop in H; destruct H as [H1 H2].
  destruct (g u x) as [y | e | |]; cbn in H1; try discriminate. rewrite H1. auto.
Qed.

Lemma isoptional_in ts : In TNone ts -> isoptional ts = true.
Proof. intros H. unfold isoptional. apply existsb_exists. exists TNone; split; auto. Qed.

Lemma isoptional_head ts : isoptional ts = true -> exists r, filter is_none_ty ts = TNone :: r.
Proof.
  induction ts as [| t ts IH]; cbn; intros H; [discriminate |].
  destruct t; cbn in *; try (apply IH; exact H). eexists; reflexivity.
Qed.

Lemma stack_split ts pre t post :
  ts = pre ++ t :: post -> is_none_ty t = false ->
  exists rest, union_stack_u ts = stack_before ts pre ++ t :: rest.
Proof.
  intros Hts Ht. unfold union_stack_u, stack_before. destruct (isoptional ts).
  - unfold none_first.
    assert (Hf : filter (fun t0 => negb (is_none_ty t0)) ts =
                 filter (fun t0 => negb (is_none_ty t0)) pre ++ t :: filter (fun t0 => negb (is_none_ty t0)) post).
    { rewrite Hts, filter_app. cbn. rewrite Ht. reflexivity. }
    rewrite Hf. eexists. rewrite <- app_assoc. reflexivity.
  - exists post; exact Hts.
Qed.

End Unions.

(* ------------------------------------------------------------------ the round trip *)
Section Round.
Variable rt : runtime.
Variable lv : nat -> pv -> bool.
Variable E : env.
Hypothesis L : RoundLaws rt lv.

Definition ok3 (n : nat) (t : ty) (v : pv) : bool :=
  valid rt lv E n t v && c01_guard rt E n t v && union_unamb rt lv E n t v.
Definition RT (n : nat) : Prop :=
  forall t v w, ok3 n t v = true -> mar rt E n t v = Ok w -> unm rt E n t w = Ok v.

Lemma ok3_split n t v : ok3 n t v = true ->
  valid rt lv E n t v = true /\ c01_guard rt E n t v = true /\ union_unamb rt lv E n t v = true.
Proof. unfold ok3; intros H. apply andb_prop in H; destruct H as [H H3]. apply andb_prop in H; tauto. Qed.
Lemma ok3_join n t v :
  valid rt lv E n t v = true -> c01_guard rt E n t v = true -> union_unamb rt lv E n t v = true -> ok3 n t v = true.
Proof. unfold ok3; intros -> -> ->; reflexivity. Qed.

Lemma FR_flip n cd : RT n -> forall fs b,
  FR (mar rt E n) cd fs b ->
  (forall x ft, In x fs -> field_ty cd (fst x) = Some ft -> ok3 n ft (snd x) = true) ->
  FR (unm rt E n) cd b fs.
Proof.
  intros IH fs b HF; induction HF as [| x y fs b [Hn [ft [Hft Hh]]] _ IHF]; intros Hok; constructor.
  - split; [symmetry; exact Hn |]. exists ft. rewrite Hn. split; [exact Hft |].
    apply IH; [| exact Hh]. apply (Hok x ft); [left; reflexivity | exact Hft].
  - apply IHF. intros x' ft' Hin. apply Hok; right; exact Hin.
Qed.

Lemma round_named n c : RT n -> forall v w,
  ok3 (S n) (TName c) v = true -> mar rt E (S n) (TName c) v = Ok w -> unm rt E (S n) (TName c) w = Ok v.
Proof.
  intros IH v w Hok Hm. apply ok3_split in Hok. destruct Hok as [Hv [Hg Hu]].
  cbn [valid] in Hv; cbn [c01_guard] in Hg; cbn [union_unamb] in Hu; cbn [mar] in Hm; cbn [unm].
  destruct (E c) as [[cd | t'] |] eqn:HE; try discriminate.
  - destruct (class_fields c cd v) as [fs |] eqn:Hcf; try discriminate.
    apply andb_prop in Hv; destruct Hv as [Hnd Hv].
    apply nodup_nat_NoDup in Hnd.
    rewrite (class_iteritems rt E c cd v fs HE Hcf) in Hm. cbn [bind] in Hm.
    destruct (fold_left _ (map tokv fs) (Ok [])) as [kw | | |] eqn:Hf in Hm; cbn [bind] in Hm; try discriminate.
    inversion Hm; subst w; clear Hm.
    change (fold_left (fstep rt (mar rt E n) cd) (map tokv fs) (Ok []) = Ok kw) in Hf.
    apply fold_fields_inv in Hf.
    + destruct Hf as [b [Hb Hkw]]. cbn [app] in Hkw. subst kw.
      cbn [load is_scalar bind iteritems].
      change (bind (fold_left (fstep rt (unm rt E n) cd) (map tokv b) (Ok [])) (fun kw => construct_class c cd kw) = Ok v).
      rewrite (fold_fields_fwd rt (unm rt E n) cd b fs []).
      * cbn [app bind]. apply class_construct; assumption.
      * apply FR_flip; [exact IH | exact Hb |].
        intros x ft Hin Hft.
        rewrite forallb_forall in Hv, Hg, Hu.
        specialize (Hv x Hin); specialize (Hg x Hin); specialize (Hu x Hin).
        rewrite Hft in Hv, Hg, Hu. apply ok3_join; assumption.
      * cbn [map app]. rewrite (FR_names _ _ _ _ Hb). exact Hnd.
    + apply Forall_forall. intros x Hin. rewrite forallb_forall in Hv. specialize (Hv x Hin).
      destruct (field_ty cd (fst x)); [discriminate | discriminate].
    + cbn [map app]. exact Hnd.
  - apply IH; [apply ok3_join; assumption | exact Hm].
Qed.

Lemma valid0_union ts v : existsb (fun t' => valid rt lv E 0 t' v) ts = false.
Proof. induction ts; cbn; auto. Qed.

Theorem round_core : forall n, RT n.
Proof.
  induction n as [| n IH]; intros t v w Hok Hm.
  - apply ok3_split in Hok. destruct Hok as [Hv _]. cbn in Hv. discriminate.
  - destruct t as [s| |k a|k kt vt|ts|ts|c|c|s|t'|i t'|i t'|i c|t'|t'].
    + (* leaf *) apply ok3_split in Hok. destruct Hok as [Hv _]. cbn [valid] in Hv. cbn [mar] in Hm. cbn [unm].
      eapply leaf_round; eauto.
    + (* None *) apply ok3_split in Hok. destruct Hok as [Hv _]. cbn [valid] in Hv. cbn [mar] in Hm. cbn [unm].
      rewrite Hv in Hm. inversion Hm; subst w. apply (none_round _ _ L); exact Hv.
    + (* subscripted iterable *)
      apply ok3_split in Hok. destruct Hok as [Hv [Hg Hu]].
      cbn [valid] in Hv; cbn [c01_guard] in Hg; cbn [union_unamb] in Hu.
      destruct v as [a0 | f0 | k0 l | k0 l | c0 l | c0 l]; try discriminate.
      apply andb_prop in Hv; destruct Hv as [Hv Hset]. apply andb_prop in Hv; destruct Hv as [Hk Hv].
      apply seqkind_eqb_eq in Hk; subst k0.
      cbn [mar itervalues bind] in Hm.
      destruct (mapM (mar rt E n a) l) as [ws | | |] eqn:Hws; cbn [bind] in Hm; try discriminate.
      inversion Hm; subst w; clear Hm.
      cbn [unm load is_scalar bind itervalues]. apply (proj2 (seq_step_ok_iff rt _ _ _ _)).
      rewrite (mapM_round (mar rt E n a) (unm rt E n a) l ws); [| | exact Hws].
      * cbn [bind]. unfold construct_seq.
        destruct k; try reflexivity;
          (apply andb_prop in Hset; destruct Hset as [Hh Hd]; apply negb_true_iff in Hh; rewrite Hh;
           rewrite dedupe_nodup by exact Hd; reflexivity).
      * intros x w' Hin Hx. apply IH; [| exact Hx].
        rewrite forallb_forall in Hv, Hg, Hu. apply ok3_join; auto.
    + (* subscripted mapping *)
      apply ok3_split in Hok. destruct Hok as [Hv [Hg Hu]].
      cbn [valid] in Hv; cbn [c01_guard] in Hg; cbn [union_unamb] in Hu.
      destruct v as [a0 | f0 | k0 l | k0 l | c0 l | c0 l]; try discriminate.
      apply andb_prop in Hv; destruct Hv as [Hv Hnd]. apply andb_prop in Hv; destruct Hv as [Hv Hh].
      apply andb_prop in Hv; destruct Hv as [Hk Hv].
      apply dictkind_eqb_eq in Hk; subst k0. apply negb_true_iff in Hh.
      apply andb_prop in Hg; destruct Hg as [Hg Hkeys].
      cbn [mar iteritems bind] in Hm. apply (proj1 (map_step_ok_iff rt _ _ _ _)) in Hm.
      destruct (mapM _ l) as [rs | | |] eqn:Hrs in Hm; cbn [bind] in Hm; try discriminate.
      unfold construct_map in Hm.
      destruct (existsb (fun kv => unhashable rt (fst kv)) rs); try discriminate.
      inversion Hm; subst w; clear Hm.
      rewrite (mapM_pair_fst _ _ _ _ Hrs) in Hkeys.
      rewrite (dict_of_nodup rt rs Hkeys).
      cbn [unm load is_scalar bind iteritems]. apply (proj2 (map_step_ok_iff rt _ _ _ _)).
      rewrite (mapM_round (fun kv => bind (mar rt E n kt (fst kv)) (fun k' =>
                               bind (mar rt E n vt (snd kv)) (fun v' => Ok (k', v'))))
                          (fun kv => bind (unm rt E n kt (fst kv)) (fun k' =>
                               bind (unm rt E n vt (snd kv)) (fun v' => Ok (k', v')))) l rs); [| | exact Hrs].
      * cbn [bind]. unfold construct_map. rewrite Hh. rewrite (dict_of_nodup rt l Hnd). reflexivity.
      * intros [xk xv] [wk wv] Hin Hx. cbn [fst snd] in *.
        rewrite forallb_forall in Hv, Hg, Hu.
        specialize (Hv _ Hin); specialize (Hg _ Hin); specialize (Hu _ Hin). cbn [fst snd] in *.
        apply andb_prop in Hv; destruct Hv as [Hv1 Hv2].
        apply andb_prop in Hg; destruct Hg as [Hg1 Hg2].
        apply andb_prop in Hu; destruct Hu as [Hu1 Hu2].
        destruct (mar rt E n kt xk) as [wk' | | |] eqn:H1; cbn [bind] in Hx; try discriminate.
        destruct (mar rt E n vt xv) as [wv' | | |] eqn:H2; cbn [bind] in Hx; try discriminate.
        inversion Hx; subst wk' wv'.
        rewrite (IH kt xk wk (ok3_join _ _ _ Hv1 Hg1 Hu1) H1). cbn [bind].
        rewrite (IH vt xv wv (ok3_join _ _ _ Hv2 Hg2 Hu2) H2). reflexivity.
    + (* fixed tuple *)
      apply ok3_split in Hok. destruct Hok as [Hv [Hg Hu]].
      cbn [valid] in Hv; cbn [c01_guard] in Hg; cbn [union_unamb] in Hu.
      destruct v as [a0 | f0 | k0 l | k0 l | c0 l | c0 l]; try discriminate.
      destruct k0; try discriminate.
      cbn [mar itervalues bind] in Hm.
      destruct (mapM _ (zip_trunc ts l)) as [ws | | |] eqn:Hws in Hm; cbn [bind] in Hm; try discriminate.
      inversion Hm; subst w; clear Hm.
      cbn [unm load is_scalar bind itervalues].
      rewrite (tuple_arity_ok _ ts l ws (forallb2_length _ _ _ Hv) Hws).
      rewrite (mapM_zip_round (mar rt E n) (unm rt E n) (ok3 n) IH ts l ws); [reflexivity | | exact Hws].
      apply forallb2_and3; assumption.
    + (* union *)
      apply ok3_split in Hok. destruct Hok as [Hv [_ Hu]].
      cbn [valid] in Hv; cbn [union_unamb] in Hu. cbn [mar] in Hm. cbn [unm].
      destruct n as [| n']; [rewrite valid0_union in Hv; discriminate |].
      destruct (isoptional ts && is_none_val rt v) eqn:Hc.
      * inversion Hm; subst w; clear Hm.
        apply andb_prop in Hc; destruct Hc as [Hopt Hnone].
        unfold union_stack_u. rewrite Hopt. unfold none_first.
        destruct (isoptional_head ts Hopt) as [r Hr]. rewrite Hr. cbn [app map first_ok unm].
        rewrite (none_round _ _ L v Hnone). reflexivity.
      * destruct (first_acceptor rt (mar rt E (S n')) [] ts v) as [[[pre t0] w0] |] eqn:Hfa; try discriminate.
        destruct (first_acceptor_spec rt _ _ _ _ _ _ _ Hfa) as [[post Hts] [Hmt Hfo]].
        rewrite Hfo in Hm. inversion Hm; subst w0; clear Hm.
        cbn [app] in Hts.
        apply andb_prop in Hu; destruct Hu as [Hu Hrej]. apply andb_prop in Hu; destruct Hu as [Hu Hu3].
        apply andb_prop in Hu; destruct Hu as [Hv0 Hg0].
        assert (Hnn : is_none_ty t0 = false).
        { destruct t0; try reflexivity. exfalso.
          cbn [valid] in Hv0. rewrite Hv0, andb_true_r in Hc.
          rewrite isoptional_in in Hc; [discriminate |]. rewrite Hts. apply in_or_app; right; left; reflexivity. }
        destruct (stack_split ts pre t0 post Hts Hnn) as [rest Hst]. rewrite Hst.
        rewrite (first_ok_skip rt (unm rt E (S n')) w _ _ Hrej).
        cbn [map first_ok].
        rewrite (IH t0 v w (ok3_join _ _ _ Hv0 Hg0 Hu3) Hmt). reflexivity.
    + exact (round_named n c IH v w Hok Hm).
    + exact (round_named n c IH v w Hok Hm).
    + (* ref to leaf *) apply ok3_split in Hok. destruct Hok as [Hv _]. cbn [valid] in Hv. cbn [mar] in Hm. cbn [unm].
      eapply leaf_round; eauto.
    + apply ok3_split in Hok. destruct Hok as [Hv [Hg Hu]]. apply (IH t' v w); [apply ok3_join; assumption | exact Hm].
    + apply ok3_split in Hok. destruct Hok as [Hv [Hg Hu]]. apply (IH t' v w); [apply ok3_join; assumption | exact Hm].
    + apply ok3_split in Hok. destruct Hok as [Hv [Hg Hu]]. apply (IH t' v w); [apply ok3_join; assumption | exact Hm].
    + exact (round_named n c IH v w Hok Hm).
    + apply ok3_split in Hok. destruct Hok as [Hv [Hg Hu]]. apply (IH t' v w); [apply ok3_join; assumption | exact Hm].
    + apply ok3_split in Hok. destruct Hok as [Hv [Hg Hu]]. apply (IH t' v w); [apply ok3_join; assumption | exact Hm].
Qed.

End Round.

(* ------------------------------------------------------------------ the theorem with fuel *)
Theorem roundtrip_fuel rt lv E : RoundLaws rt lv ->
  forall n fuel T v w, fuel <= n ->
  valid rt lv E n T v = true -> c01_guard rt E n T v = true -> union_unamb rt lv E n T v = true ->
  mar rt E fuel T v = Ok w ->
  forall f, f >= n -> unm rt E f T w = Ok v.
Proof.
  intros L n fuel T v w Hle Hv Hg Hu Hm f Hf.
  assert (Hm' : mar rt E n T v = Ok w) by (eapply le_res_ok; [apply mar_ge; exact Hle | exact Hm]).
  pose proof (round_core rt lv E L n T v w (ok3_join rt lv E n T v Hv Hg Hu) Hm') as Hr.
  eapply le_res_ok; [apply unm_ge; exact Hf | exact Hr].
Qed.

(* ------------------------------------------------------------------ toy runtime: laws hold, witnesses *)
Lemma toy_laws : RoundLaws toy_rt toy_lv.
Proof.
  split.
  - intros s v w Hlv Hm. destruct v as [a | | | | |]; try discriminate.
    destruct s as [| [| [| [| s]]]];
      destruct a as [| [| [| [| [| [| [| [| [| a]]]]]]]]]; cbn in Hlv; try discriminate;
      vm_compute in Hm; inversion Hm; reflexivity.
  - intros v Hn. destruct v as [a | | | | |]; try discriminate.
    destruct a as [| a]; [reflexivity | discriminate].
Qed.

Definition C01_full_stmt : Prop :=
  forall rt lv E n T v w, RoundLaws rt lv ->
    valid rt lv E n T v = true -> c01_guard rt E n T v = true -> stmt_unamb rt lv E n T v = true ->
    mar rt E n T v = Ok w -> unm rt E n T w = Ok v.

(* Union[PurePath, int] and the int 5: the path member's marshaller (str) answers first although the
   path unmarshaller rejects the int's own wire form; the value comes back as a path. *)
Lemma refute_union_foreign_marshaller :
  exists rt lv E n T v w v', RoundLaws rt lv /\
    valid rt lv E n T v = true /\ c01_guard rt E n T v = true /\ stmt_unamb rt lv E n T v = true /\
    union_unamb rt lv E n T v = false /\
    mar rt E n T v = Ok w /\ unm rt E n T w = Ok v' /\ v' <> v.
Proof.
  exists toy_rt, toy_lv, toy_env, 3, (TUnion [TLeaf 0; TLeaf 1]), (PAtom 1), (PAtom 2), (PAtom 3).
  split; [exact toy_laws |]. repeat split; try (vm_compute; reflexivity). discriminate.
Qed.

Lemma refute_full_stmt : ~ C01_full_stmt.
Proof.
  intros H.
  assert (Hx : unm toy_rt toy_env 3 (TUnion [TLeaf 0; TLeaf 1]) (PAtom 2) = Ok (PAtom 1)).
  { apply (H toy_rt toy_lv toy_env 3 (TUnion [TLeaf 0; TLeaf 1]) (PAtom 1) (PAtom 2) toy_laws);
      vm_compute; reflexivity. }
  vm_compute in Hx. discriminate.
Qed.

Lemma toy_roundtrip_instance :
  valid toy_rt toy_lv toy_env 8 (TName 3) toy_value = true /\
  c01_guard toy_rt toy_env 8 (TName 3) toy_value = true /\
  union_unamb toy_rt toy_lv toy_env 8 (TName 3) toy_value = true /\
  exists w, mar toy_rt toy_env 8 (TName 3) toy_value = Ok w /\
            forall f, f >= 8 -> unm toy_rt toy_env f (TName 3) w = Ok toy_value.
Proof.
  repeat split; try (vm_compute; reflexivity).
  eexists; split; [vm_compute; reflexivity |].
  intros f Hf. eapply (roundtrip_fuel toy_rt toy_lv toy_env toy_laws 8 8); try (vm_compute; reflexivity); auto.
Qed.

(* ------------------------------------------------------------------ structural equality decides = *)
Section PvInd.
Variable P : pv -> Prop.
Hypothesis Hatom : forall a, P (PAtom a).
Hypothesis Hkey : forall f, P (PKey f).
Hypothesis Hseq : forall k l, Forall P l -> P (PSeq k l).
Hypothesis Hdict : forall k l, Forall (fun kv => P (fst kv) /\ P (snd kv)) l -> P (PDict k l).
Hypothesis Hobj : forall c l, Forall (fun fv => P (snd fv)) l -> P (PObj c l).
Hypothesis Hnamed : forall c l, Forall P l -> P (PNamed c l).
Fixpoint pv_ind' (v : pv) : P v :=
  match v with
  | PAtom a => Hatom a
  | PKey f => Hkey f
  | PSeq k l => Hseq k l ((fix go (l : list pv) : Forall P l :=
        match l with [] => Forall_nil _ | x :: r => Forall_cons _ (pv_ind' x) (go r) end) l)
  | PDict k l => Hdict k l ((fix go (l : list (pv * pv)) : Forall (fun kv => P (fst kv) /\ P (snd kv)) l :=
        match l with [] => Forall_nil _ | x :: r => Forall_cons _ (conj (pv_ind' (fst x)) (pv_ind' (snd x))) (go r) end) l)
  | PObj c l => Hobj c l ((fix go (l : list (nat * pv)) : Forall (fun fv => P (snd fv)) l :=
        match l with [] => Forall_nil _ | x :: r => Forall_cons _ (pv_ind' (snd x)) (go r) end) l)
  | PNamed c l => Hnamed c l ((fix go (l : list pv) : Forall P l :=
        match l with [] => Forall_nil _ | x :: r => Forall_cons _ (pv_ind' x) (go r) end) l)
  end.
End PvInd.

Lemma pv_eqb_eq : forall a b, pv_eqb a b = true -> a = b.
Proof.
  induction a as [a | f | k l IH | k l IH | c l IH | c l IH] using pv_ind';
    intros b H; destruct b as [a' | f' | k' l' | k' l' | c' l' | c' l']; cbn in H; try discriminate.
  - apply Nat.eqb_eq in H; congruence.
  - apply Nat.eqb_eq in H; congruence.
  - apply andb_prop in H; destruct H as [Hk H]. apply seqkind_eqb_eq in Hk; subst k'. f_equal.
    revert l' H; induction IH as [| x l Hx _ IHl]; intros [| y l'] H; try discriminate; auto.
    apply andb_prop in H; destruct H as [H1 H2]. f_equal; auto.
  - apply andb_prop in H; destruct H as [Hk H]. apply dictkind_eqb_eq in Hk; subst k'. f_equal.
    revert l' H; induction IH as [| [x1 x2] l [Hx1 Hx2] _ IHl]; intros [| [y1 y2] l'] H; try discriminate; auto.
    apply andb_prop in H; destruct H as [H1 H2]. apply andb_prop in H1; destruct H1 as [H1 H1'].
    cbn in Hx1, Hx2. f_equal; [f_equal; auto | auto].
  - apply andb_prop in H; destruct H as [Hk H]. apply Nat.eqb_eq in Hk; subst c'. f_equal.
    revert l' H; induction IH as [| [f x] l Hx _ IHl]; intros [| [g y] l'] H; try discriminate; auto.
    apply andb_prop in H; destruct H as [H1 H2]. apply andb_prop in H1; destruct H1 as [H1 H1'].
    apply Nat.eqb_eq in H1. cbn in Hx. f_equal; [f_equal; auto | auto].
  - apply andb_prop in H; destruct H as [Hk H]. apply Nat.eqb_eq in Hk; subst c'. f_equal.
    revert l' H; induction IH as [| x l Hx _ IHl]; intros [| y l'] H; try discriminate; auto.
    apply andb_prop in H; destruct H as [H1 H2]. f_equal; auto.
Qed.

(* ------------------------------------------------------------------ the weak (fixpoint) form *)
Lemma mapM_fix {A B} (f : A -> res B) (g : B -> res A) :
  forall l ws, (forall x w, In x l -> f x = Ok w -> exists x', g w = Ok x' /\ f x' = Ok w) ->
  mapM f l = Ok ws -> exists l', mapM g ws = Ok l' /\ mapM f l' = Ok ws.
Proof.
  induction l as [| x r IH]; cbn; intros ws H Hm.
  - inversion Hm; exists []; split; reflexivity.
  - destruct (f x) as [y | | |] eqn:Hx; cbn in Hm; try discriminate.
    destruct (mapM f r) as [t | | |] eqn:Hr; cbn in Hm; try discriminate.
    inversion Hm; subst ws.
    destruct (H x y (or_introl eq_refl) Hx) as [x' [Hg Hf]].
    destruct (IH t (fun x0 w0 Hin => H x0 w0 (or_intror Hin)) eq_refl) as [r' [Hgr Hfr]].
    exists (x' :: r'); cbn. rewrite Hg; cbn. rewrite Hgr; cbn. rewrite Hf; cbn. rewrite Hfr; cbn. split; reflexivity.
Qed.

Lemma mapM_zip_fix (f g : ty -> pv -> res pv) (P : ty -> pv -> bool) :
  (forall t x w, P t x = true -> f t x = Ok w -> exists x', g t w = Ok x' /\ f t x' = Ok w) ->
  forall ts l ws, forallb2 P ts l = true ->
  mapM (fun tv => f (fst tv) (snd tv)) (zip_trunc ts l) = Ok ws ->
  exists l', mapM (fun tv => g (fst tv) (snd tv)) (zip_trunc ts ws) = Ok l' /\
             mapM (fun tv => f (fst tv) (snd tv)) (zip_trunc ts l') = Ok ws.
Proof.
  intros H; induction ts as [| t r IH]; destruct l as [| x l]; cbn; intros ws HP Hm; try discriminate.
  - inversion Hm; exists []; split; reflexivity.
  - apply andb_prop in HP; destruct HP as [Hp HP].
    destruct (f t x) as [y | | |] eqn:Hx; cbn in Hm; try discriminate.
    destruct (mapM _ (zip_trunc r l)) as [t' | | |] eqn:Hr; cbn in Hm; try discriminate.
    inversion Hm; subst ws; cbn.
    destruct (H t x y Hp Hx) as [x' [Hg Hf]].
    destruct (IH l t' HP Hr) as [l' [Hgl Hfl]].
    exists (x' :: l'); cbn. rewrite Hg; cbn. rewrite Hgl; cbn. rewrite Hf; cbn. rewrite Hfl; cbn. split; reflexivity.
Qed.

Lemma existsb_map_fst {A B} (p : A -> bool) (l : list (A * B)) :
  existsb (fun kv => p (fst kv)) l = existsb p (map fst l).
Proof. induction l as [| [a b] l IH]; cbn; auto. rewrite IH; reflexivity. Qed.

Lemma td_fields_of_tokv : forall fs, td_fields (map tokv fs) = Some fs.
Proof. induction fs as [| [f v] fs IH]; cbn; auto. rewrite IH; reflexivity. Qed.

Lemma combine_fst_snd {A B} (l : list (A * B)) : combine (map fst l) (map snd l) = l.
Proof. induction l as [| [a b] l IH]; cbn; auto. rewrite IH; reflexivity. Qed.

Lemma list_eqb_nat_refl : forall a, list_eqb Nat.eqb a a = true.
Proof. induction a; cbn; auto. rewrite Nat.eqb_refl; auto. Qed.

Lemma kw_lookup_names f : forall (a b : list (nat * pv)), map fst a = map fst b ->
  (kw_lookup f a = None <-> kw_lookup f b = None).
Proof.
  induction a as [| [g v] a IH]; destruct b as [| [g' v'] b]; cbn; intros H; try discriminate; [tauto |].
  inversion H; subst. destruct (Nat.eqb f g'); [split; discriminate | apply IH; assumption].
Qed.

Lemma has_kw_names f (a b : list (nat * pv)) : map fst a = map fst b -> has_kw f a = has_kw f b.
Proof.
  intros H. unfold has_kw. pose proof (kw_lookup_names f a b H) as [H1 H2].
  destruct (kw_lookup f a), (kw_lookup f b); auto.
  - specialize (H2 eq_refl); discriminate.
  - specialize (H1 eq_refl); discriminate.
Qed.

Lemma class_rebuild c cd v fs fs' :
  class_fields c cd v = Some fs -> map fst fs' = map fst fs -> NoDup (map fst fs) ->
  exists v', construct_class c cd fs' = Ok v' /\ class_fields c cd v' = Some fs'.
Proof.
  intros H Hn Hd. unfold class_fields in H. unfold construct_class, class_fields.
  destruct (cflavour cd); destruct v as [a | f | k l | k l | c' l | c' l]; try discriminate.
  - destruct (Nat.eqb c c' && _) eqn:Hc; inversion H; subst.
    apply andb_prop in Hc; destruct Hc as [Hc Hl]. apply list_eqb_nat_eq in Hl.
    assert (Hl' : map fst fs' = map fname (cfields cd)) by congruence.
    assert (Hd' : NoDup (map fst ([] ++ fs'))) by (cbn; rewrite Hn; exact Hd).
    pose proof (fill_fields_exact (cfields cd) [] fs' Hl' Hd') as Hf; cbn [app] in Hf; rewrite Hf. cbn.
    exists (PObj c fs'); split; [reflexivity |]. cbn. rewrite Nat.eqb_refl, Hl', list_eqb_nat_refl. reflexivity.
  - destruct (Nat.eqb c c' && Nat.eqb _ _) eqn:Hc; inversion H; subst.
    apply andb_prop in Hc; destruct Hc as [Hc Hl]. apply Nat.eqb_eq in Hl.
    assert (Hlen : length (map fname (cfields cd)) = length l) by (rewrite map_length; auto).
    rewrite (map_fst_combine _ _ Hlen) in Hn, Hd.
    assert (Hd' : NoDup (map fst ([] ++ fs'))) by (cbn; rewrite Hn; exact Hd).
    pose proof (fill_fields_exact (cfields cd) [] fs' Hn Hd') as Hf; cbn [app] in Hf; rewrite Hf. cbn.
    exists (PNamed c (map snd fs')); split; [reflexivity |]. cbn. rewrite Nat.eqb_refl. rewrite map_length.
    assert (Hl2 : length fs' = length (cfields cd)).
    { rewrite <- (map_length fst fs'), Hn, map_length; reflexivity. }
    rewrite Hl2, Nat.eqb_refl. cbn. rewrite <- Hn, combine_fst_snd. reflexivity.
  - destruct k; try discriminate. destruct (td_fields l) as [fs0 |] eqn:Htd; try discriminate.
    destruct (req_ok cd fs0) eqn:Hreq; inversion H; subst.
    assert (Hreq' : req_ok cd fs' = true).
    { unfold req_ok in *. rewrite forallb_forall in Hreq. apply forallb_forall. intros fd Hin.
      rewrite (has_kw_names (fname fd) fs' fs Hn). apply Hreq; exact Hin. }
    exists (PDict KDict (map tokv fs')); split.
    + unfold req_ok in Hreq'. rewrite Hreq'. reflexivity.
    + cbn. rewrite td_fields_of_tokv, Hreq'. reflexivity.
  - destruct (Nat.eqb c c' && _) eqn:Hc; inversion H; subst.
    apply andb_prop in Hc; destruct Hc as [Hc Hl]. apply list_eqb_nat_eq in Hl.
    assert (Hl' : map fst fs' = map fname (cfields cd)) by congruence.
    assert (Hd' : NoDup (map fst ([] ++ fs'))) by (cbn; rewrite Hn; exact Hd).
    pose proof (fill_fields_exact (cfields cd) [] fs' Hl' Hd') as Hf; cbn [app] in Hf; rewrite Hf. cbn.
    exists (PObj c fs'); split; [reflexivity |]. cbn. rewrite Nat.eqb_refl, Hl', list_eqb_nat_refl. reflexivity.
Qed.

Section Fix.
Variable rt : runtime.
Variable lv : nat -> pv -> bool.
Variable E : env.
Hypothesis L : RoundLaws rt lv.

Definition FX (n : nat) : Prop :=
  forall t v m, fix_ok rt lv E n t v = true -> mar rt E n t v = Ok m ->
  exists v', unm rt E n t m = Ok v' /\ mar rt E n t v' = Ok m.

Lemma FR_fix n cd : FX n -> forall fs b,
  FR (mar rt E n) cd fs b ->
  (forall x ft, In x fs -> field_ty cd (fst x) = Some ft -> fix_ok rt lv E n ft (snd x) = true) ->
  exists fs', FR (unm rt E n) cd b fs' /\ FR (mar rt E n) cd fs' b.
Proof.
  intros IH fs b HF; induction HF as [| x y fs b [Hn [ft [Hft Hh]]] _ IHF]; intros Hok.
  - exists []; split; constructor.
  - destruct (IH ft (snd x) (snd y) (Hok x ft (or_introl eq_refl) Hft) Hh) as [x' [Hu Hm]].
    destruct IHF as [fs' [H1 H2]]; [intros x0 ft0 Hin; apply Hok; right; exact Hin |].
    exists ((fst x, x') :: fs'). split; constructor; auto; cbn.
    + split; [symmetry; exact Hn |]. exists ft. rewrite Hn. split; auto.
    + split; [exact Hn |]. exists ft. split; auto.
Qed.

Lemma fix_named n c : FX n -> forall v m,
  fix_ok rt lv E (S n) (TName c) v = true -> mar rt E (S n) (TName c) v = Ok m ->
  exists v', unm rt E (S n) (TName c) m = Ok v' /\ mar rt E (S n) (TName c) v' = Ok m.
Proof.
  intros IH v m Hv Hm. cbn [fix_ok] in Hv; cbn [mar] in Hm; cbn [unm mar].
  destruct (E c) as [[cd | t'] |] eqn:HE; try discriminate.
  - destruct (class_fields c cd v) as [fs |] eqn:Hcf; try discriminate.
    apply andb_prop in Hv; destruct Hv as [Hnd Hv]. apply nodup_nat_NoDup in Hnd.
    rewrite (class_iteritems rt E c cd v fs HE Hcf) in Hm. cbn [bind] in Hm.
    destruct (fold_left _ (map tokv fs) (Ok [])) as [kw | | |] eqn:Hf in Hm; cbn [bind] in Hm; try discriminate.
    inversion Hm; subst m; clear Hm.
    change (fold_left (fstep rt (mar rt E n) cd) (map tokv fs) (Ok []) = Ok kw) in Hf.
    apply fold_fields_inv in Hf.
    + destruct Hf as [b [Hb Hkw]]. cbn [app] in Hkw. subst kw.
      destruct (FR_fix n cd IH fs b Hb) as [fs' [Hu Hm']].
      { intros x ft Hin Hft. rewrite forallb_forall in Hv. specialize (Hv x Hin). rewrite Hft in Hv. exact Hv. }
      assert (Hnames : map fst fs' = map fst fs).
      { rewrite (FR_names _ _ _ _ Hu). apply (FR_names _ _ _ _ Hb). }
      destruct (class_rebuild c cd v fs fs' Hcf Hnames Hnd) as [v' [Hc1 Hc2]].
      exists v'. split.
      * cbn [load is_scalar bind iteritems].
        change (bind (fold_left (fstep rt (unm rt E n) cd) (map tokv b) (Ok [])) (fun kw => construct_class c cd kw) = Ok v').
        rewrite (fold_fields_fwd rt (unm rt E n) cd b fs' []); [cbn [app bind]; exact Hc1 | exact Hu |].
        cbn [map app]. rewrite (FR_names _ _ _ _ Hb). exact Hnd.
      * rewrite (class_iteritems rt E c cd v' fs' HE Hc2). cbn [bind].
        change (bind (fold_left (fstep rt (mar rt E n) cd) (map tokv fs') (Ok [])) (fun kw => Ok (PDict KDict (map tokv kw))) = Ok (PDict KDict (map tokv b))).
        rewrite (fold_fields_fwd rt (mar rt E n) cd fs' b []); [reflexivity | exact Hm' |].
        cbn [map app]. rewrite Hnames. exact Hnd.
    + apply Forall_forall. intros x Hin. rewrite forallb_forall in Hv. specialize (Hv x Hin).
      destruct (field_ty cd (fst x)); [discriminate | discriminate].
    + cbn [map app]. exact Hnd.
  - exact (IH t' v m Hv Hm).
Qed.

Theorem fix_core : forall n, FX n.
Proof.
  induction n as [| n IH]; intros t v m Hv Hm; [cbn in Hv; discriminate |].
  destruct t as [s| |k a|k kt vt|ts|ts|c|c|s|t'|i t'|i t'|i c|t'|t'].
  - cbn [fix_ok] in Hv. cbn [mar] in Hm. cbn [unm mar]. exists v. split; [eapply leaf_round; eauto | exact Hm].
  - cbn [fix_ok] in Hv. cbn [mar] in Hm. cbn [unm mar]. rewrite Hv in Hm. inversion Hm; subst m. exists v.
    split; [apply (none_round _ _ L); exact Hv | rewrite Hv; reflexivity].
  - (* subscripted iterable *)
    cbn [fix_ok] in Hv. destruct v as [a0 | f0 | k0 l | k0 l | c0 l | c0 l]; try discriminate.
    apply andb_prop in Hv; destruct Hv as [Hv Hset]. apply andb_prop in Hv; destruct Hv as [Hk Hv].
    apply seqkind_eqb_eq in Hk; subst k0.
    cbn [mar itervalues bind] in Hm.
    destruct (mapM (mar rt E n a) l) as [ws | | |] eqn:Hws; cbn [bind] in Hm; try discriminate.
    inversion Hm; subst m; clear Hm.
    destruct (mapM_fix (mar rt E n a) (unm rt E n a) l ws) as [l' [Hu Hm']]; [| exact Hws |].
    { intros x w Hin Hx. rewrite forallb_forall in Hv. exact (IH a x w (Hv x Hin) Hx). }
    exists (PSeq k l'). split.
    + cbn [unm load is_scalar bind itervalues]. apply (proj2 (seq_step_ok_iff rt _ _ _ _)). rewrite Hu. cbn [bind]. unfold construct_seq.
      destruct k; try reflexivity; rewrite Hu in Hset;
        (apply andb_prop in Hset; destruct Hset as [Hh Hd]; apply negb_true_iff in Hh; rewrite Hh;
         rewrite dedupe_nodup by exact Hd; reflexivity).
    + cbn [mar itervalues bind]. rewrite Hm'. reflexivity.
  - (* subscripted mapping *)
    cbn [fix_ok] in Hv. destruct v as [a0 | f0 | k0 l | k0 l | c0 l | c0 l]; try discriminate.
    apply andb_prop in Hv; destruct Hv as [Hv Hkeys]. apply andb_prop in Hv; destruct Hv as [Hk Hv].
    apply dictkind_eqb_eq in Hk; subst k0.
    cbn [mar iteritems bind] in Hm. apply (proj1 (map_step_ok_iff rt _ _ _ _)) in Hm.
    destruct (mapM _ l) as [rs | | |] eqn:Hrs in Hm; cbn [bind] in Hm; try discriminate.
    unfold construct_map in Hm.
    destruct (existsb (fun kv => unhashable rt (fst kv)) rs) eqn:Hhw; try discriminate.
    inversion Hm; subst m; clear Hm.
    rewrite (mapM_pair_fst _ _ _ _ Hrs) in Hkeys.
    apply andb_prop in Hkeys; destruct Hkeys as [Hndw Hkeys].
    rewrite (dict_of_nodup rt rs Hndw).
    destruct (mapM_fix (fun kv => bind (mar rt E n kt (fst kv)) (fun k' =>
                               bind (mar rt E n vt (snd kv)) (fun v' => Ok (k', v'))))
                       (fun kv => bind (unm rt E n kt (fst kv)) (fun k' =>
                               bind (unm rt E n vt (snd kv)) (fun v' => Ok (k', v')))) l rs) as [l' [Hu Hm']];
      [| exact Hrs |].
    { intros [xk xv] [wk wv] Hin Hx. cbn [fst snd] in *.
      rewrite forallb_forall in Hv. specialize (Hv _ Hin). cbn [fst snd] in Hv.
      apply andb_prop in Hv; destruct Hv as [Hv1 Hv2].
      destruct (mar rt E n kt xk) as [wk' | | |] eqn:H1; cbn [bind] in Hx; try discriminate.
      destruct (mar rt E n vt xv) as [wv' | | |] eqn:H2; cbn [bind] in Hx; try discriminate.
      inversion Hx; subst wk' wv'.
      destruct (IH kt xk wk Hv1 H1) as [xk' [Hu1 Hm1]]. destruct (IH vt xv wv Hv2 H2) as [xv' [Hu2 Hm2]].
      exists (xk', xv'). cbn [fst snd]. rewrite Hu1, Hm1; cbn [bind]. rewrite Hu2, Hm2; cbn [bind]. split; reflexivity. }
    rewrite (mapM_pair_fst _ _ _ _ Hu) in Hkeys.
    apply andb_prop in Hkeys; destruct Hkeys as [Hh Hnd]. apply negb_true_iff in Hh.
    exists (PDict k l'). split.
    + cbn [unm load is_scalar bind iteritems]. apply (proj2 (map_step_ok_iff rt _ _ _ _)). rewrite Hu. cbn [bind]. unfold construct_map.
      rewrite existsb_map_fst, Hh. rewrite (dict_of_nodup rt l' Hnd). reflexivity.
    + cbn [mar iteritems bind]. apply (proj2 (map_step_ok_iff rt _ _ _ _)). rewrite Hm'. cbn [bind]. unfold construct_map. rewrite Hhw.
      rewrite (dict_of_nodup rt rs Hndw). reflexivity.
  - (* fixed tuple *)
    cbn [fix_ok] in Hv. destruct v as [a0 | f0 | k0 l | k0 l | c0 l | c0 l]; try discriminate.
    destruct k0; try discriminate.
    cbn [mar itervalues bind] in Hm.
    destruct (mapM _ (zip_trunc ts l)) as [ws | | |] eqn:Hws in Hm; cbn [bind] in Hm; try discriminate.
    inversion Hm; subst m; clear Hm.
    destruct (mapM_zip_fix (mar rt E n) (unm rt E n) (fix_ok rt lv E n) IH ts l ws Hv Hws) as [l' [Hu Hm']].
    exists (PSeq KTuple l'). split.
    + cbn [unm load is_scalar bind itervalues].
      rewrite (tuple_arity_ok _ ts l ws (forallb2_length _ _ _ Hv) Hws). rewrite Hu. reflexivity.
    + cbn [mar itervalues bind]. rewrite Hm'. reflexivity.
  - (* union: the local fixpoint is checked by evaluation *)
    cbn [fix_ok] in Hv. rewrite Hm in Hv.
    destruct (unm rt E (S n) (TUnion ts) m) as [v' | | |] eqn:Hu; try discriminate.
    destruct (mar rt E (S n) (TUnion ts) v') as [m' | | |] eqn:Hm'; try discriminate.
    apply pv_eqb_eq in Hv. subst m'. exists v'. split; [reflexivity | exact Hm'].
  - exact (fix_named n c IH v m Hv Hm).
  - exact (fix_named n c IH v m Hv Hm).
  - cbn [fix_ok] in Hv. cbn [mar] in Hm. cbn [unm mar]. exists v. split; [eapply leaf_round; eauto | exact Hm].
  - exact (IH t' v m Hv Hm).
  - exact (IH t' v m Hv Hm).
  - exact (IH t' v m Hv Hm).
  - exact (fix_named n c IH v m Hv Hm).
  - exact (IH t' v m Hv Hm).
  - exact (IH t' v m Hv Hm).
Qed.

End Fix.

Theorem fixpoint_fuel rt lv E : RoundLaws rt lv ->
  forall n fuel T v m, fuel <= n -> fix_ok rt lv E n T v = true -> mar rt E fuel T v = Ok m ->
  exists v', (forall f, f >= n -> unm rt E f T m = Ok v') /\ (forall f, f >= n -> mar rt E f T v' = Ok m).
Proof.
  intros L n fuel T v m Hle Hv Hm.
  assert (Hm' : mar rt E n T v = Ok m) by (eapply le_res_ok; [apply mar_ge; exact Hle | exact Hm]).
  destruct (fix_core rt lv E L n T v m Hv Hm') as [v' [Hu Hm2]].
  exists v'. split; intros f Hf.
  - eapply le_res_ok; [apply unm_ge; exact Hf | exact Hu].
  - eapply le_res_ok; [apply mar_ge; exact Hf | exact Hm2].
Qed.

(* Union[date, str] and the str "2020-01-01T00:00:00": the date member accepts the str member's wire form,
   and writes the date it read as "2020-01-01": the weak fixpoint fails. *)
Lemma refute_fixpoint_noncanonical :
  exists rt lv E n T v m v' m', RoundLaws rt lv /\
    valid rt lv E n T v = true /\ stmt_unamb rt lv E n T v = false /\ fix_ok rt lv E n T v = false /\
    mar rt E n T v = Ok m /\ unm rt E n T m = Ok v' /\ mar rt E n T v' = Ok m' /\ m' <> m.
Proof.
  exists toy_rt, toy_lv, toy_env, 3, (TUnion [TLeaf 3; TLeaf 2]), (PAtom 7), (PAtom 7), (PAtom 6), (PAtom 8).
  split; [exact toy_laws |]. repeat split; try (vm_compute; reflexivity). discriminate.
Qed.

Lemma toy_fixpoint_instance :
  union_unamb toy_rt toy_lv toy_env 3 (TUnion [TLeaf 1; TLeaf 2]) (PAtom 2) = false /\
  fix_ok toy_rt toy_lv toy_env 4 (TSeq KList (TUnion [TLeaf 1; TLeaf 2])) (PSeq KList [PAtom 2; PAtom 4]) = true /\
  mar toy_rt toy_env 4 (TSeq KList (TUnion [TLeaf 1; TLeaf 2])) (PSeq KList [PAtom 2; PAtom 4]) = Ok (PSeq KList [PAtom 1; PAtom 4]) /\
  unm toy_rt toy_env 4 (TSeq KList (TUnion [TLeaf 1; TLeaf 2])) (PSeq KList [PAtom 1; PAtom 4]) = Ok (PSeq KList [PAtom 1; PAtom 4]).
Proof. repeat split; vm_compute; reflexivity. Qed.

(* ------------------------------------------------------------------ scalar mapping keys satisfy c01_guard *)
Section Keys.
Variable rt : runtime.
Variable lv : nat -> pv -> bool.
Variable E : env.
Hypothesis Inj : leaf_m_inj rt lv.

Lemma key_leaf_spec : forall n kt s, key_leaf E n kt = Some s ->
  forall x, mar rt E n kt x = leaf_m rt s x /\ valid rt lv E n kt x = lv s x.
Proof.
  induction n as [| n IH]; intros kt s H x; [discriminate |].
  destruct kt as [s0| |k a|k kt' vt|ts|ts|c|c|s0|t'|i t'|i t'|i c|t'|t']; cbn [key_leaf] in H; try discriminate;
    cbn [mar valid];
    try (inversion H; subst; split; reflexivity);
    try (apply IH; exact H);
    (destruct (E c) as [[cd | t''] |]; try discriminate; apply IH; exact H).
Qed.

Definition KR (s : nat) (v w : pv) : Prop := lv s v = true /\ leaf_m rt s v = Ok w.

Lemma mem_transfer s v w : KR s v w -> forall seen seenw, Forall2 (KR s) seen seenw ->
  mem_pv rt w seenw = true -> mem_pv rt v seen = true.
Proof.
  intros [Hv Hw]; induction 1 as [| v0 w0 seen seenw [Hv0 Hw0] _ IH]; cbn; intros H; [discriminate |].
  apply orb_prop in H; destruct H as [H | H].
  - rewrite (Inj s v v0 w w0 Hv Hv0 Hw Hw0 H). reflexivity.
  - rewrite (IH H). apply orb_true_r.
Qed.

Lemma nodup_transfer s : forall keys ws, Forall2 (KR s) keys ws ->
  forall seen seenw, Forall2 (KR s) seen seenw ->
  nodup_from rt seen keys = true -> nodup_from rt seenw ws = true.
Proof.
  induction 1 as [| v w keys ws Hvw _ IH]; cbn; intros seen seenw Hs H; auto.
  apply andb_prop in H; destruct H as [H1 H2]. apply negb_true_iff in H1.
  rewrite (IH (v :: seen) (w :: seenw) (Forall2_cons _ _ Hvw Hs) H2), andb_true_r.
  apply negb_true_iff. destruct (mem_pv rt w seenw) eqn:Hm; auto.
  rewrite (mem_transfer s v w Hvw seen seenw Hs Hm) in H1. discriminate.
Qed.

Lemma keys_of_leaf_law n kt s keys ws :
  key_leaf E n kt = Some s -> forallb (valid rt lv E n kt) keys = true ->
  nodup_from rt [] keys = true -> mapM (mar rt E n kt) keys = Ok ws -> nodup_from rt [] ws = true.
Proof.
  intros Hk Hv Hn Hm.
  apply (nodup_transfer s keys ws) with (seen := []); [| constructor | exact Hn].
  clear Hn. revert ws Hm. induction keys as [| x keys IH]; cbn; intros ws Hm.
  - inversion Hm; constructor.
  - cbn in Hv. apply andb_prop in Hv; destruct Hv as [Hx Hv].
    destruct (key_leaf_spec n kt s Hk x) as [Hmx Hvx].
    destruct (mar rt E n kt x) as [w | | |] eqn:Hw; cbn in Hm; try discriminate.
    destruct (mapM (mar rt E n kt) keys) as [t | | |] eqn:Ht; cbn in Hm; try discriminate.
    inversion Hm; subst ws. constructor; [| apply IH; auto].
    split; [rewrite <- Hvx; exact Hx | rewrite <- Hmx; reflexivity].
Qed.

End Keys.
