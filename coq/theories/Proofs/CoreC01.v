(* Proofs for C01 on the core value model: fuel monotonicity of unm / mar, the round-trip theorem,
   the weak fixpoint form, refutation witnesses. *)
From Coq Require Import List Arith Bool PeanoNat Lia.
Import ListNotations.
Require Import TL.Model.Core TL.Model.CoreC01.

(* ------------------------------------------------------------------ results: "more fuel" order *)
Definition le_res {A} (a b : res A) : Prop := a = OutOfFuel \/ a = b.

Lemma le_res_refl {A} (a : res A) : le_res a a.
Proof. right; reflexivity. Qed.

Lemma le_res_ok {A} (a b : res A) x : le_res a b -> a = Ok x -> b = Ok x.
Proof. intros [H | H] Ha; congruence. Qed.

Lemma le_res_trans {A} (a b c : res A) : le_res a b -> le_res b c -> le_res a c.
Proof. intros [H | H] [H' | H']; subst; unfold le_res; auto. Qed.

Lemma le_bind {A B} (a b : res A) (k k' : A -> res B) :
  le_res a b -> (forall x, le_res (k x) (k' x)) -> le_res (bind a k) (bind b k').
Proof.
  intros [H | H] Hk; subst.
  - left; reflexivity.
  - destruct b; cbn; auto using le_res_refl.
Qed.

Lemma le_mapM {A B} (f g : A -> res B) (l : list A) :
  (forall x, le_res (f x) (g x)) -> le_res (mapM f l) (mapM g l).
Proof.
  intros H; induction l as [| x r IH]; cbn.
  - apply le_res_refl.
  - apply le_bind; [apply H |]. intros y. apply le_bind; [exact IH |]. intros; apply le_res_refl.
Qed.

Lemma le_fold {A B} (f g : res B -> A -> res B) (l : list A) :
  (forall acc acc' x, le_res acc acc' -> le_res (f acc x) (g acc' x)) ->
  forall acc acc', le_res acc acc' -> le_res (fold_left f l acc) (fold_left g l acc').
Proof.
  intros H; induction l as [| x r IH]; cbn; intros acc acc' Ha; auto.
Qed.

Ltac class_case E c IH :=
  destruct (E c) as [[cd | t''] |]; try apply le_res_refl; try apply IH;
  apply le_bind; [apply le_res_refl |]; intros d;
  apply le_bind; [apply le_res_refl |]; intros kvs;
  apply le_bind; [| intros; apply le_res_refl];
  apply le_fold; [| apply le_res_refl];
  intros acc acc' kv Ha; apply le_bind; [exact Ha |]; intros kw;
  destruct (fst kv) as [a | f | | | |]; try apply le_res_refl;
  destruct (field_ty cd f); try apply le_res_refl;
  apply le_bind; [apply IH |]; intros; apply le_res_refl.

Ltac mclass_case E c IH :=
  destruct (E c) as [[cd | t''] |]; try apply le_res_refl; try apply IH;
  apply le_bind; [apply le_res_refl |]; intros kvs;
  apply le_bind; [| intros; apply le_res_refl];
  apply le_fold; [| apply le_res_refl];
  intros acc acc' kv Ha; apply le_bind; [exact Ha |]; intros kw;
  destruct (fst kv) as [a | f | | | |]; try apply le_res_refl;
  destruct (field_ty cd f); try apply le_res_refl;
  apply le_bind; [apply IH |]; intros; apply le_res_refl.

Section Mono.
Variable rt : runtime.
Variable E : env.

Lemma le_first_ok (fs gs : list (pv -> res pv)) x :
  Forall2 (fun f g => le_res (f x) (g x)) fs gs -> le_res (first_ok rt fs x) (first_ok rt gs x).
Proof.
  induction 1 as [| f g fs gs Hfg _ IH]; cbn.
  - apply le_res_refl.
  - destruct Hfg as [Hf | Hf].
    + rewrite Hf. left; reflexivity.
    + rewrite Hf. destruct (g x); try apply le_res_refl.
      destruct (suppressed rt e); [exact IH | apply le_res_refl].
Qed.

Lemma Forall2_map_le (f g : ty -> pv -> res pv) (ts : list ty) x :
  (forall t, le_res (f t x) (g t x)) ->
  Forall2 (fun a b => le_res (a x) (b x)) (map f ts) (map g ts).
Proof. intros H; induction ts; cbn; constructor; auto. Qed.

Lemma unm_mono : forall n t x, le_res (unm rt E n t x) (unm rt E (S n) t x).
Proof.
  induction n as [| n IH]; intros t x; [left; reflexivity |].
  change (unm rt E (S (S n)) t x) with
    (match t with
     | TLeaf s | TRefLeaf s => leaf_u rt s x
     | TNone => none_u rt x
     | TSeq k a =>
         bind (load rt x) (fun d => bind (itervalues rt d) (fun vs =>
         bind (mapM (unm rt E (S n) a) vs) (fun rs => construct_seq rt k rs)))
     | TMap k kt vt =>
         bind (load rt x) (fun d => bind (iteritems rt E d) (fun kvs =>
         bind (mapM (fun kv => bind (unm rt E (S n) kt (fst kv)) (fun k' =>
                               bind (unm rt E (S n) vt (snd kv)) (fun v' => Ok (k', v')))) kvs)
              (fun rs => construct_map rt k rs)))
     | TTuple ts =>
         bind (load rt x) (fun d => bind (itervalues rt d) (fun vs =>
         bind (mapM (fun tv => unm rt E (S n) (fst tv) (snd tv)) (zip_trunc ts vs)) (fun rs => Ok (PSeq KTuple rs))))
     | TUnion ts => first_ok rt (map (unm rt E (S n)) (union_stack_u ts)) x
     | TName c | TRef c | TAliasStr _ c =>
         match E c with
         | None => Raise EOther
         | Some (NType t') => unm rt E (S n) t' x
         | Some (NClass cd) =>
             bind (load rt x) (fun d => bind (iteritems rt E d) (fun kvs =>
             bind (fold_left (fun acc kv =>
                     bind acc (fun kw =>
                       match fst kv with
                       | PKey f => match field_ty cd f with
                                   | Some ft => bind (unm rt E (S n) ft (snd kv)) (fun v' => Ok (kw_set f v' kw))
                                   | None => Ok kw end
                       | k => if unhashable rt k then Raise EType else Ok kw
                       end)) kvs (Ok []))
                  (fun kw => construct_class c cd kw)))
         end
     | TNewType _ t' | TAlias _ t' | TFinal t' | TClassVar t' | TRefTo t' => unm rt E (S n) t' x
     end).
  cbn [unm].
  destruct t as [s| |k a|k kt vt|ts|ts|c|c|s|t'|i t'|i t'|i c|t'|t']; try apply le_res_refl; try apply IH.
  - apply le_bind; [apply le_res_refl |]; intros d.
    apply le_bind; [apply le_res_refl |]; intros vs.
    apply le_bind; [apply le_mapM; intros; apply IH |]; intros; apply le_res_refl.
  - apply le_bind; [apply le_res_refl |]; intros d.
    apply le_bind; [apply le_res_refl |]; intros vs.
    apply le_bind; [| intros; apply le_res_refl].
    apply le_mapM; intros kv. apply le_bind; [apply IH |]; intros.
    apply le_bind; [apply IH |]; intros; apply le_res_refl.
  - apply le_bind; [apply le_res_refl |]; intros d.
    apply le_bind; [apply le_res_refl |]; intros vs.
    apply le_bind; [apply le_mapM; intros; apply IH |]; intros; apply le_res_refl.
  - apply le_first_ok. apply Forall2_map_le. intros; apply IH.
  - class_case E c IH.
  - class_case E c IH.
  - class_case E c IH.
Qed.


Lemma mar_mono : forall n t x, le_res (mar rt E n t x) (mar rt E (S n) t x).
Proof.
  induction n as [| n IH]; intros t x; [left; reflexivity |].
  change (mar rt E (S (S n)) t x) with
    (match t with
     | TLeaf s | TRefLeaf s => leaf_m rt s x
     | TNone => Ok x
     | TSeq k a => bind (itervalues rt x) (fun vs => bind (mapM (mar rt E (S n) a) vs) (fun rs => Ok (PSeq KList rs)))
     | TMap k kt vt =>
         bind (iteritems rt E x) (fun kvs =>
         bind (mapM (fun kv => bind (mar rt E (S n) kt (fst kv)) (fun k' =>
                               bind (mar rt E (S n) vt (snd kv)) (fun v' => Ok (k', v')))) kvs)
              (fun rs => construct_map rt KDict rs))
     | TTuple ts =>
         bind (itervalues rt x) (fun vs =>
         bind (mapM (fun tv => mar rt E (S n) (fst tv) (snd tv)) (zip_trunc ts vs)) (fun rs => Ok (PSeq KList rs)))
     | TUnion ts =>
         if isoptional ts && is_none_val rt x then Ok x
         else first_ok rt (map (mar rt E (S n)) ts) x
     | TName c | TRef c | TAliasStr _ c =>
         match E c with
         | None => Raise EOther
         | Some (NType t') => mar rt E (S n) t' x
         | Some (NClass cd) =>
             bind (iteritems rt E x) (fun kvs =>
             bind (fold_left (fun acc kv =>
                     bind acc (fun kw =>
                       match fst kv with
                       | PKey f => match field_ty cd f with
                                   | Some ft => bind (mar rt E (S n) ft (snd kv)) (fun v' => Ok (kw_set f v' kw))
                                   | None => Ok kw end
                       | k => if unhashable rt k then Raise EType else Ok kw
                       end)) kvs (Ok []))
                  (fun kw => Ok (PDict KDict (map (fun fv => (PKey (fst fv), snd fv)) kw))))
         end
     | TNewType _ t' | TAlias _ t' | TFinal t' | TClassVar t' | TRefTo t' => mar rt E (S n) t' x
     end).
  cbn [mar].
  destruct t as [s| |k a|k kt vt|ts|ts|c|c|s|t'|i t'|i t'|i c|t'|t']; try apply le_res_refl; try apply IH.
  - apply le_bind; [apply le_res_refl |]; intros vs.
    apply le_bind; [apply le_mapM; intros; apply IH |]; intros; apply le_res_refl.
  - apply le_bind; [apply le_res_refl |]; intros vs.
    apply le_bind; [| intros; apply le_res_refl].
    apply le_mapM; intros kv. apply le_bind; [apply IH |]; intros.
    apply le_bind; [apply IH |]; intros; apply le_res_refl.
  - apply le_bind; [apply le_res_refl |]; intros vs.
    apply le_bind; [apply le_mapM; intros; apply IH |]; intros; apply le_res_refl.
  - destruct (isoptional ts && is_none_val rt x); [apply le_res_refl |].
    apply le_first_ok. apply Forall2_map_le. intros; apply IH.
  - mclass_case E c IH.
  - mclass_case E c IH.
  - mclass_case E c IH.
Qed.

Lemma unm_ge : forall n m t x, n <= m -> le_res (unm rt E n t x) (unm rt E m t x).
Proof.
  intros n m t x H; induction H as [| m H IH]; [apply le_res_refl |].
  eapply le_res_trans; [exact IH | apply unm_mono].
Qed.

Lemma mar_ge : forall n m t x, n <= m -> le_res (mar rt E n t x) (mar rt E m t x).
Proof.
  intros n m t x H; induction H as [| m H IH]; [apply le_res_refl |].
  eapply le_res_trans; [exact IH | apply mar_mono].
Qed.

End Mono.

(* ------------------------------------------------------------------ list helpers *)
Lemma mapM_round {A B} (f : A -> res B) (g : B -> res A) :
  forall l ws, (forall x w, In x l -> f x = Ok w -> g w = Ok x) ->
  mapM f l = Ok ws -> mapM g ws = Ok l.
Proof.
  induction l as [| x r IH]; cbn; intros ws H Hm.
  - inversion Hm; reflexivity.
  - destruct (f x) as [y | | |] eqn:Hx; cbn in Hm; try discriminate.
    destruct (mapM f r) as [t | | |] eqn:Hr; cbn in Hm; try discriminate.
    inversion Hm; subst ws; cbn.
    rewrite (H x y (or_introl eq_refl) Hx); cbn.
    rewrite (IH t (fun x' w' Hin => H x' w' (or_intror Hin)) eq_refl); reflexivity.
Qed.

Lemma mapM_pair_fst (f1 f2 : pv -> res pv) :
  forall (l : list (pv * pv)) rs,
  mapM (fun kv => bind (f1 (fst kv)) (fun k' => bind (f2 (snd kv)) (fun v' => Ok (k', v')))) l = Ok rs ->
  mapM f1 (map fst l) = Ok (map fst rs).
Proof.
  induction l as [| [a b] r IH]; cbn; intros rs Hm.
  - inversion Hm; reflexivity.
  - destruct (f1 a) as [a' | | |]; cbn in Hm; try discriminate.
    destruct (f2 b) as [b' | | |]; cbn in Hm; try discriminate.
    destruct (mapM _ r) as [t | | |] eqn:Hr; cbn in Hm; try discriminate.
    inversion Hm; subst rs; cbn. rewrite (IH t eq_refl); reflexivity.
Qed.

Lemma forallb2_length {A B} (p : A -> B -> bool) : forall a b, forallb2 p a b = true -> length a = length b.
Proof.
  induction a as [| x r IH]; destruct b as [| y t]; cbn; intros H; try discriminate; auto.
  apply andb_prop in H; destruct H as [_ H]. f_equal; auto.
Qed.

Lemma mapM_zip_round (f g : ty -> pv -> res pv) (P : ty -> pv -> bool) :
  (forall t x w, P t x = true -> f t x = Ok w -> g t w = Ok x) ->
  forall ts l ws, forallb2 P ts l = true ->
  mapM (fun tv => f (fst tv) (snd tv)) (zip_trunc ts l) = Ok ws ->
  mapM (fun tv => g (fst tv) (snd tv)) (zip_trunc ts ws) = Ok l.
Proof.
  intros H; induction ts as [| t r IH]; destruct l as [| x l]; cbn; intros ws HP Hm; try discriminate.
  - inversion Hm; reflexivity.
  - apply andb_prop in HP; destruct HP as [Hp HP].
    destruct (f t x) as [y | | |] eqn:Hx; cbn in Hm; try discriminate.
    destruct (mapM _ (zip_trunc r l)) as [t' | | |] eqn:Hr; cbn in Hm; try discriminate.
    inversion Hm; subst ws; cbn.
    rewrite (H t x y Hp Hx); cbn. rewrite (IH l t' HP Hr); reflexivity.
Qed.

Lemma forallb2_and3 {A B} (p q r : A -> B -> bool) :
  forall a b, forallb2 p a b = true -> forallb2 q a b = true -> forallb2 r a b = true ->
  forallb2 (fun x y => p x y && q x y && r x y) a b = true.
Proof.
  induction a as [| x a IH]; destruct b as [| y b]; cbn; intros Hp Hq Hr; try discriminate; auto.
  apply andb_prop in Hp; destruct Hp as [Hp1 Hp2].
  apply andb_prop in Hq; destruct Hq as [Hq1 Hq2].
  apply andb_prop in Hr; destruct Hr as [Hr1 Hr2].
  rewrite Hp1, Hq1, Hr1; cbn. auto.
Qed.

Lemma seqkind_eqb_eq a b : seqkind_eqb a b = true -> a = b.
Proof. destruct a, b; cbn; congruence. Qed.
Lemma dictkind_eqb_eq a b : dictkind_eqb a b = true -> a = b.
Proof. destruct a, b; cbn; congruence. Qed.

Lemma list_eqb_nat_eq : forall a b, list_eqb Nat.eqb a b = true -> a = b.
Proof.
  induction a as [| x a IH]; destruct b as [| y b]; cbn; intros H; try discriminate; auto.
  apply andb_prop in H; destruct H as [H1 H2]. apply Nat.eqb_eq in H1. f_equal; auto.
Qed.

Lemma nodup_nat_NoDup : forall l, nodup_nat l = true -> NoDup l.
Proof.
  induction l as [| x l IH]; cbn; intros H; constructor.
  - apply andb_prop in H; destruct H as [H _]. intros Hin.
    apply negb_true_iff in H. assert (existsb (Nat.eqb x) l = true); [| congruence].
    apply existsb_exists. exists x; split; auto. apply Nat.eqb_refl.
  - apply andb_prop in H; destruct H; auto.
Qed.

(* ------------------------------------------------------------------ sets and dicts *)
Section Containers.
Variable rt : runtime.

Lemma mem_pv_app x : forall a b, mem_pv rt x (a ++ b) = mem_pv rt x a || mem_pv rt x b.
Proof. induction a as [| y a IH]; cbn; intros b; auto. rewrite IH, orb_assoc; reflexivity. Qed.

Lemma dedupe_nodup : forall l seen, nodup_from rt seen l = true -> dedupe rt l seen = l.
Proof.
  induction l as [| x l IH]; cbn; intros seen H; auto.
  apply andb_prop in H; destruct H as [H1 H2]. apply negb_true_iff in H1. rewrite H1.
  f_equal; auto.
Qed.

Lemma dict_set_fresh k v : forall d, mem_pv rt k (map fst d) = false -> dict_set rt k v d = d ++ [(k, v)].
Proof.
  induction d as [| [k' v'] d IH]; cbn; intros H; auto.
  apply orb_false_iff in H; destruct H as [H1 H2]. rewrite H1. f_equal; auto.
Qed.

Lemma dict_fold_fresh : forall l d seen,
  (forall x, mem_pv rt x seen = mem_pv rt x (map fst d)) ->
  nodup_from rt seen (map fst l) = true ->
  fold_left (fun d kv => dict_set rt (fst kv) (snd kv) d) l d = d ++ l.
Proof.
  induction l as [| [k v] l IH]; cbn; intros d seen Hs H.
  - rewrite app_nil_r; reflexivity.
  - apply andb_prop in H; destruct H as [H1 H2]. apply negb_true_iff in H1.
    rewrite dict_set_fresh by (rewrite <- Hs; exact H1).
    rewrite (IH (d ++ [(k, v)]) (k :: seen)); [rewrite <- app_assoc; reflexivity | | exact H2].
    intros x; cbn. rewrite map_app, mem_pv_app; cbn. rewrite Hs, orb_false_r, orb_comm; reflexivity.
Qed.

Lemma dict_of_nodup l : nodup_from rt [] (map fst l) = true -> dict_of rt l = l.
Proof. intros H. unfold dict_of. rewrite (dict_fold_fresh l [] []); auto. Qed.

End Containers.
