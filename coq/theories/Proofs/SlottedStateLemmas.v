(* Proofs about the instance-level model (Model/SlottedState.v). *)
From Coq Require Import List String Bool Arith PeanoNat.
Import ListNotations.
Require Import TL.Model.Slotted TL.Model.SlottedState TL.Proofs.SlottedLemmas.

Definition setkv (s : store) (p : attr * obj) : store := set_key (fst p) (snd p) s.

Lemma set_items_slots : forall (l : store) i,
  (forall k, In k (keys l) -> mem k (i_slotnames i) = true) ->
  set_items i l = SOk {| i_slotnames := i_slotnames i; i_slots := fold_left setkv l (i_slots i); i_dict := i_dict i |}.
Proof.
  induction l as [|[k v] r IH]; intros i H.
  - destruct i; reflexivity.
  - cbn [set_items]. unfold obj_setattr. rewrite (H k (or_introl eq_refl)).
    rewrite IH; [reflexivity|]. intros k' Hk'. cbn [i_slotnames]. apply H. right. exact Hk'.
Qed.

Lemma set_items_dict : forall (l : store) i d0, i_dict i = Some d0 ->
  (forall k, In k (keys l) -> mem k (i_slotnames i) = false) ->
  set_items i l = SOk {| i_slotnames := i_slotnames i; i_slots := i_slots i; i_dict := Some (fold_left setkv l d0) |}.
Proof.
  induction l as [|[k v] r IH]; intros i d0 Hd H.
  - destruct i. cbn in Hd. subst. reflexivity.
  - cbn [set_items]. unfold obj_setattr. rewrite (H k (or_introl eq_refl)), Hd.
    rewrite (IH _ (set_key k v d0)); [reflexivity|reflexivity|].
    intros k' Hk'. cbn [i_slotnames]. apply H. right. exact Hk'.
Qed.

Lemma assoc_cons : forall k a (v : obj) r, assoc k ((a, v) :: r) = if String.eqb k a then Some v else assoc k r.
Proof. reflexivity. Qed.

Lemma assoc_fold : forall (l : store) s0 k, nodupb (keys l) = true ->
  assoc k (fold_left setkv l s0) = match assoc k l with Some v => Some v | None => assoc k s0 end.
Proof.
  induction l as [|[a v] r IH]; intros s0 k H; [reflexivity|].
  cbn [keys map fst nodupb] in H. apply andb_true_iff in H. destruct H as [Ha Hr].
  cbn [fold_left]. rewrite (IH _ k Hr). unfold setkv. cbn [fst snd]. rewrite assoc_cons.
  destruct (String.eqb k a) eqn:E.
  - apply seqb_true in E. subst a.
    assert (N : assoc k r = None).
    { apply assoc_none_has_key. destruct (has_key k r) eqn:Hk; [|reflexivity].
      apply has_key_In in Hk. destruct Hk as [o Hin]. apply negb_true_iff in Ha. apply mem_false_notin in Ha.
      exfalso. apply Ha. unfold keys in *. change k with (fst (k, o)). apply in_map. exact Hin. }
    rewrite N. apply assoc_set_key_same.
  - destruct (assoc k r); [reflexivity|]. apply assoc_set_key_other. exact E.
Qed.

Lemma assoc_fold_nil : forall (l : store) k, nodupb (keys l) = true -> assoc k (fold_left setkv l []) = assoc k l.
Proof. intros l k H. rewrite (assoc_fold l [] k H). destruct (assoc k l); reflexivity. Qed.

Lemma dict_part_none : forall i, dict_part i = None -> i_dict i = None \/ i_dict i = Some [].
Proof. intros i H. unfold dict_part in H. destruct (i_dict i) as [[|x r]|]; [right|discriminate|left]; reflexivity. Qed.

Lemma dict_part_some : forall i d, dict_part i = Some d -> i_dict i = Some d /\ d <> [].
Proof.
  intros i d H. unfold dict_part in H. destruct (i_dict i) as [[|x r]|]; try discriminate.
  inversion H. split; [reflexivity|discriminate].
Qed.

Lemma restore_ok : forall i, wf_inst i = true ->
  exists r, restore i = SOk r /\ i_slotnames r = i_slotnames i
            /\ same_store (i_slots r) (i_slots i) /\ same_dict (i_dict r) (i_dict i).
Proof.
  intros i Hwf. unfold wf_inst in Hwf. apply andb_true_iff in Hwf. destruct Hwf as [Hwf Hd].
  apply andb_true_iff in Hwf. destruct Hwf as [Hsn Hsd]. rewrite forallb_forall in Hsn.
  unfold restore, getstate.
  destruct (i_slots i) as [|x s] eqn:Es.
  - destruct (dict_part i) as [d|] eqn:Edp.
    + destruct (dict_part_some i d Edp) as [Hid Hne]. rewrite Hid in Hd. apply andb_true_iff in Hd.
      destruct Hd as [Hdn Hdd]. rewrite forallb_forall in Hdn.
      cbn [slots_setstate].
      rewrite (set_items_dict d (blank i) []);
        [|unfold blank; cbn [i_dict]; rewrite Hid; reflexivity
         |intros k Hk; cbn [blank i_slotnames]; apply negb_true_iff; apply Hdn; exact Hk].
      eexists. split; [reflexivity|]. cbn [i_slotnames i_slots i_dict blank]. split; [reflexivity|]. split.
      * intro k. reflexivity.
      * rewrite Hid. intro k. apply assoc_fold_nil. exact Hdd.
    + exists (blank i). split; [reflexivity|]. split; [reflexivity|].
      split; [intro k; reflexivity|]. unfold blank. cbn [i_dict].
      destruct (dict_part_none i Edp) as [H|H]; rewrite H; [exact I|intro k; reflexivity].
  - set (s' := x :: s) in *.
    assert (Hslot : forall k, In k (keys s') -> mem k (i_slotnames i) = true) by (intros k Hk; apply Hsn; exact Hk).
    cbn [slots_setstate set_parts]. destruct (dict_part i) as [d|] eqn:Edp.
    + destruct (dict_part_some i d Edp) as [Hid Hne]. rewrite Hid in Hd. apply andb_true_iff in Hd.
      destruct Hd as [Hdn Hdd]. rewrite forallb_forall in Hdn.
      destruct d as [|y d']; [contradiction|]. set (d := y :: d') in *.
      rewrite (set_items_dict d (blank i) []);
        [|unfold blank; cbn [i_dict]; rewrite Hid; reflexivity
         |intros k Hk; cbn [blank i_slotnames]; apply negb_true_iff; apply Hdn; exact Hk].
      unfold s'. cbn [set_parts]. fold s'.
      rewrite set_items_slots; [|exact Hslot]. cbn [i_slotnames i_slots i_dict blank].
      eexists. split; [reflexivity|]. cbn [i_slotnames i_slots i_dict]. split; [reflexivity|]. split.
      * intro k. apply assoc_fold_nil. exact Hsd.
      * rewrite Hid. intro k. apply assoc_fold_nil. exact Hdd.
    + unfold s'. cbn [set_parts]. fold s'.
      rewrite set_items_slots; [|exact Hslot]. cbn [i_slotnames i_slots i_dict blank].
      eexists. split; [reflexivity|]. cbn [i_slotnames i_slots i_dict]. split; [reflexivity|]. split.
      * intro k. apply assoc_fold_nil. exact Hsd.
      * destruct (dict_part_none i Edp) as [H|H]; rewrite H; [exact I|intro k; reflexivity].
Qed.

Lemma restore_fieldless : forall i, wf_inst i = true -> i_slots i = [] ->
  exists r, restore i = SOk r /\ i_slots r = [] /\ same_dict (i_dict r) (i_dict i).
Proof.
  intros i Hwf Hs. destruct (restore_ok i Hwf) as [r [A [_ [B C]]]]. exists r. split; [exact A|]. split; [|exact C].
  rewrite Hs in B. destruct (i_slots r) as [|[k v] t]; [reflexivity|].
  specialize (B k). cbn [assoc fst snd] in B. rewrite seqb_refl in B. discriminate.
Qed.
