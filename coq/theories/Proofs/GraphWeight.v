(* A termination weight certificate exists for every finite universe closed under members. *)
From Coq Require Import List Arith Bool PeanoNat String Lia.
Import ListNotations.
Require Import TL.Model.Graph TL.Proofs.GraphLemmas TL.Proofs.GraphTermination.
Require Import TL.Proofs.TopoRank TL.Proofs.GraphAcyclic.

Section Weight.
  Variable E : env.
  Variable univ : list gty.
  Hypothesis closed : forall t var c, In t univ -> In (var, c) (level E (unwrap t)) -> skip var c = false -> In c univ.

  Definition term (rec : gty -> list gty -> nat) (path : list gty) (k : option str * gty) : nat :=
    if can_be_cyclic E (unwrap (snd k)) then rec (snd k) (snd k :: path) else gsize (snd k).
  Definition tsum (rec : gty -> list gty -> nat) (path : list gty) (kids : list (option str * gty)) : nat :=
    fold_right (fun k acc => term rec path k + acc) 0 kids.

  (* fuel = number of universe members that may still join the path *)
  Fixpoint wf (k : nat) (t : gty) (path : list gty) : nat :=
    S (tsum (match k with 0 => fun _ _ => 0 | S k' => wf k' end) path
            (filter (repush E path) (level E (unwrap t)))).

  Definition weight (t : gty) (path : list gty) : nat :=
    if can_be_cyclic E (unwrap t) then wf (unvis univ path) t path else gsize t.

  Lemma tsum_le : forall r1 r2 path kids,
    (forall k, In k kids -> term r1 path k <= term r2 path k) -> tsum r1 path kids <= tsum r2 path kids.
  Proof.
    intros r1 r2 path kids; induction kids as [|k r IH]; intros H; [apply Nat.le_refl|].
    cbn [tsum fold_right]. pose proof (H k (or_introl eq_refl)).
    assert (tsum r1 path r <= tsum r2 path r) by (apply IH; intros k' Hk'; apply H; right; exact Hk').
    unfold tsum in *. lia.
  Qed.

  Lemma wf_mono : forall k k' t path, k <= k' -> wf k t path <= wf k' t path.
  Proof.
    induction k as [|k IH]; intros k' t path Hle.
    - destruct k' as [|k'']; [apply Nat.le_refl|]. cbn [wf]. apply le_n_S. apply tsum_le.
      intros kc _. unfold term. destruct (can_be_cyclic E (unwrap (snd kc))); lia.
    - destruct k' as [|k'']; [lia|]. cbn [wf]. apply le_n_S. apply tsum_le.
      intros kc _. unfold term. destruct (can_be_cyclic E (unwrap (snd kc))); [apply IH; lia | lia].
  Qed.

  Lemma wsum_tsum : forall (w : gty -> list gty -> nat) rec path kids,
    (forall k, In k kids -> w (snd k) (snd k :: path) <= term rec path k) ->
    wsum w path kids <= tsum rec path kids.
  Proof.
    intros w rec path kids; induction kids as [|k r IH]; intros H; [apply Nat.le_refl|].
    cbn [wsum tsum fold_right]. pose proof (H k (or_introl eq_refl)).
    assert (wsum w path r <= tsum rec path r) by (apply IH; intros k' Hk'; apply H; right; exact Hk').
    unfold wsum, tsum in *. lia.
  Qed.

  (* members of an annotation that cannot be cyclic weigh less than it *)
  Lemma noncc_level_size : forall u, can_be_cyclic E u = false ->
    fold_right (fun k acc => gsize (snd k) + acc) 0 (level E u) < gsize u.
  Proof.
    intros u Hcc. unfold can_be_cyclic, is_subscripted in Hcc.
    apply orb_false_iff in Hcc; destruct Hcc as [Hb Hs]. apply negb_false_iff in Hs.
    destruct u as [s| | | |l|g a|sp ms|k|m' n' t|m' n' t|m' n' bd|t|a mo];
      try (cbn [is_stdlib resolve_super in_stdlib_set] in Hs; discriminate);
      try (cbn; lia).
    unfold level. cbn [args_of hints]. rewrite app_nil_r. rewrite gsize_union.
    assert (Hsum : forall l, fold_right (fun k acc => gsize (snd k) + acc) 0 (map (fun x => (@None str, x)) l) = gsum l).
    { induction l as [|x r IH]; [reflexivity|]. cbn [map fold_right snd]. rewrite IH. reflexivity. }
    rewrite Hsum. lia.
  Qed.

  Lemma filter_sum_le : forall (f : option str * gty -> bool) (h : option str * gty -> nat) l,
    fold_right (fun k acc => h k + acc) 0 (filter f l) <= fold_right (fun k acc => h k + acc) 0 l.
  Proof. intros f h l; induction l as [|k r IH]; cbn; [lia | destruct (f k); cbn; lia]. Qed.

  Lemma repush_skip : forall path var c, repush E path (var, c) = true -> skip var c = false.
  Proof. intros path var c H. unfold repush in H. apply andb_true_iff in H. destruct H as [H _]. apply negb_true_iff in H. exact H. Qed.

  Theorem weight_ok : forall t path, In t univ ->
    1 + wsum weight path (filter (repush E path) (level E (unwrap t))) <= weight t path.
  Proof.
    intros t path Ht. unfold weight at 2. destruct (can_be_cyclic E (unwrap t)) eqn:Hcc.
    - (* cyclic-capable *)
      destruct (unvis univ path) as [|k'] eqn:Hun; cbn [wf]; apply le_n_S; apply wsum_tsum;
        intros [var c] Hk; apply filter_In in Hk; destruct Hk as [Hlev Hrp]; cbn [snd];
        pose proof (repush_skip _ _ _ Hrp) as Hsk; pose proof (closed t var c Ht Hlev Hsk) as Hc;
        unfold term, weight; cbn [snd]; destruct (can_be_cyclic E (unwrap c)) eqn:Hccc; try apply Nat.le_refl.
      + (* no universe member is left outside the path: such a child is on the path *)
        exfalso. unfold repush in Hrp. rewrite Hsk, Hccc in Hrp. cbn in Hrp. apply andb_true_iff in Hrp.
        destruct Hrp as [_ Hrv]. apply negb_true_iff in Hrv. unfold revisit in Hrv. apply orb_false_iff in Hrv.
        destruct Hrv as [Hm _]. pose proof (unvis_cons_lt univ c path Hc Hm). lia.
      + unfold repush in Hrp. rewrite Hsk, Hccc in Hrp. cbn in Hrp. apply andb_true_iff in Hrp.
        destruct Hrp as [_ Hrv]. apply negb_true_iff in Hrv. unfold revisit in Hrv. apply orb_false_iff in Hrv.
        destruct Hrv as [Hm _]. pose proof (unvis_cons_lt univ c path Hc Hm). apply wf_mono. lia.
    - (* cannot be cyclic: every member cannot either *)
      pose proof (noncc_level_size _ Hcc) as Hsz. pose proof (gsize_unwrap_le t) as Hle.
      assert (Hw : wsum weight path (filter (repush E path) (level E (unwrap t))) <=
                   fold_right (fun k acc => gsize (snd k) + acc) 0 (filter (repush E path) (level E (unwrap t)))).
      { assert (Hall : forall k, In k (filter (repush E path) (level E (unwrap t))) -> can_be_cyclic E (unwrap (snd k)) = false).
        { intros [var c] Hk. apply filter_In in Hk. destruct Hk as [Hlev Hrp]. cbn [snd].
          destruct (noncc_closed E _ Hcc var c Hlev (repush_skip _ _ _ Hrp)) as [H _]. exact H. }
        revert Hall. induction (filter (repush E path) (level E (unwrap t))) as [|k r IH]; intros Hall; [apply Nat.le_refl|].
        cbn [wsum fold_right]. assert (Hk : weight (snd k) (snd k :: path) = gsize (snd k)).
        { unfold weight. rewrite (Hall k (or_introl eq_refl)). reflexivity. }
        rewrite Hk. assert (wsum weight path r <= fold_right (fun k acc => gsize (snd k) + acc) 0 r)
          by (apply IH; intros k' Hk'; apply Hall; right; exact Hk').
        unfold wsum in *. lia. }
      pose proof (filter_sum_le (repush E path) (fun k => gsize (snd k)) (level E (unwrap t))). lia.
  Qed.

  (* ---------------- an explicit bound ---------------- *)
  Definition maxG : nat := list_max (map gsize univ).
  Definition maxM : nat := list_max (map (fun t => List.length (level E (unwrap t))) univ).
  Fixpoint wbound (k : nat) : nat :=
    match k with 0 => S (maxM * maxG) | S k' => S (maxM * Nat.max (wbound k') maxG) end.
  Definition Wtotal : nat := wbound (List.length univ) + maxG.

  Lemma gsize_le_maxG : forall t, In t univ -> gsize t <= maxG.
  Proof. intros t H. unfold maxG. apply list_max_In. apply in_map. exact H. Qed.

  Lemma tsum_bound : forall rec path kids b,
    (forall k, In k kids -> term rec path k <= b) -> tsum rec path kids <= List.length kids * b.
  Proof.
    intros rec path kids b; induction kids as [|k r IH]; intros H; [cbn; lia|].
    cbn [tsum fold_right List.length]. pose proof (H k (or_introl eq_refl)).
    assert (tsum rec path r <= List.length r * b) by (apply IH; intros k' Hk'; apply H; right; exact Hk').
    unfold tsum in *. lia.
  Qed.

  Lemma filter_len : forall (f : option str * gty -> bool) l, List.length (filter f l) <= List.length l.
  Proof. intros f l; induction l as [|x r IH]; cbn; [lia | destruct (f x); cbn; lia]. Qed.

  Lemma wf_bound : forall k t path, In t univ -> wf k t path <= wbound k.
  Proof.
    induction k as [|k IH]; intros t path Ht; cbn [wf wbound]; apply le_n_S.
    - etransitivity; [apply (tsum_bound _ _ _ maxG)|].
      + intros [var c] Hk. apply filter_In in Hk. destruct Hk as [Hlev Hrp]. unfold term; cbn [snd].
        destruct (can_be_cyclic E (unwrap c)); [lia|].
        apply gsize_le_maxG. eapply closed; eauto. eapply repush_skip; eauto.
      + apply Nat.mul_le_mono_r. etransitivity; [apply filter_len|]. unfold maxM.
        apply list_max_In. apply in_map_iff. exists t; auto.
    - etransitivity; [apply (tsum_bound _ _ _ (Nat.max (wbound k) maxG))|].
      + intros [var c] Hk. apply filter_In in Hk. destruct Hk as [Hlev Hrp]. unfold term; cbn [snd].
        assert (Hc : In c univ) by (eapply closed; eauto; eapply repush_skip; eauto).
        destruct (can_be_cyclic E (unwrap c)).
        * etransitivity; [apply IH; exact Hc | apply Nat.le_max_l].
        * etransitivity; [apply gsize_le_maxG; exact Hc | apply Nat.le_max_r].
      + apply Nat.mul_le_mono_r. etransitivity; [apply filter_len|]. unfold maxM.
        apply list_max_In. apply in_map_iff. exists t; auto.
  Qed.

  Lemma wbound_step : forall k, wbound k <= wbound (S k).
  Proof.
    induction k as [|k IH].
    - cbn [wbound]. apply le_n_S. apply Nat.mul_le_mono_l. apply Nat.le_max_r.
    - change (wbound (S (S k))) with (S (maxM * Nat.max (wbound (S k)) maxG)).
      change (wbound (S k)) with (S (maxM * Nat.max (wbound k) maxG)) at 1.
      apply le_n_S. apply Nat.mul_le_mono_l. apply Nat.max_le_compat_r. exact IH.
  Qed.
  Lemma wbound_mono : forall k k', k <= k' -> wbound k <= wbound k'.
  Proof.
    intros k k' H; induction H as [|k' H IH]; [apply Nat.le_refl|].
    etransitivity; [exact IH | apply wbound_step].
  Qed.

  Theorem weight_bound : forall t path, In t univ -> weight t path <= Wtotal.
  Proof.
    intros t path Ht. unfold weight, Wtotal. destruct (can_be_cyclic E (unwrap t)).
    - etransitivity; [apply wf_bound; exact Ht|]. pose proof (wbound_mono _ _ (unvis_le_univ univ path)). lia.
    - pose proof (gsize_le_maxG t Ht). lia.
  Qed.

  Theorem terminates_closed : forall root, In root univ ->
    forall fuel, fuel >= Wtotal * S (List.length univ) -> type_graph fuel E root <> OutOfFuel.
  Proof. intros root Hr fuel Hf. exact (terminates E univ weight Wtotal closed weight_ok weight_bound root Hr fuel Hf). Qed.
End Weight.
