(* Proofs about Model/Ctx.v: under key_laws, the TypeContext machine (with its memo
   entries) refines the write-once specification on every history allowed by ops_ok. *)
From Coq Require Import List Bool Arith Lia PeanoNat.
Import ListNotations.
Require Import TL.Model.Ctx TL.Model.CtxEq.

Section CtxProofs.
Variables key val : Type.
Variable key_eqb : key -> key -> bool.
Variable is_ref : key -> bool.
Variables unwrap fref : key -> key.
Variable names : key -> key -> bool.
Hypothesis KL : key_laws key key_eqb is_ref unwrap fref names.

Notation st := (st key val).
Notation find := (find key val key_eqb).
Notation contains := (contains key val key_eqb).
Notation set := (set key val key_eqb).
Notation getitem := (getitem key val key_eqb is_ref unwrap fref names).
Notation get := (get key val key_eqb is_ref unwrap fref names).
Notation step := (step key val key_eqb is_ref unwrap fref names).
Notation run := (run key val key_eqb is_ref unwrap fref names).
Notation spec_lookup := (spec_lookup key val key_eqb is_ref unwrap fref names).
Notation spec_step := (spec_step key val key_eqb is_ref unwrap fref names).
Notation spec_run := (spec_run key val key_eqb is_ref unwrap fref names).
Notation spec_final := (spec_final key val key_eqb is_ref unwrap fref names).
Notation op_ok := (op_ok key val key_eqb is_ref unwrap fref names).
Notation ops_ok := (ops_ok key val key_eqb is_ref unwrap fref names).
Notation scan := (scan key val is_ref names).
Notation first_named := (first_named key val is_ref names).
Notation named_stored := (named_stored key val is_ref names).
Notation op := (op key val).

(* ---------- the key equivalence ---------- *)
Lemma eqb_l a b c : key_eqb a b = true -> key_eqb a c = key_eqb b c.
Proof. intros H. destruct (key_eqb a c) eqn:E1, (key_eqb b c) eqn:E2; try reflexivity.
  - rewrite (kl_trans _ _ _ _ _ _ KL b a c (kl_sym _ _ _ _ _ _ KL a b H) E1) in E2. discriminate.
  - rewrite (kl_trans _ _ _ _ _ _ KL a b c H E2) in E1. discriminate. Qed.

Lemma eqb_r a b c : key_eqb a b = true -> key_eqb c a = key_eqb c b.
Proof. intros H. destruct (key_eqb c a) eqn:E1, (key_eqb c b) eqn:E2; try reflexivity.
  - rewrite (kl_trans _ _ _ _ _ _ KL c a b E1 H) in E2. discriminate.
  - rewrite (kl_trans _ _ _ _ _ _ KL c b a E2 (kl_sym _ _ _ _ _ _ KL a b H)) in E1. discriminate. Qed.

(* ---------- the dict ---------- *)
Lemma find_compat c a b : key_eqb a b = true -> find c a = find c b.
Proof. intros H. induction c as [|[k' v'] r IH]; cbn [Ctx.find]; [reflexivity|].
  rewrite (eqb_l a b k' H), IH. reflexivity. Qed.

Lemma find_set c k v k2 : find (set c k v) k2 = if key_eqb k2 k then Some v else find c k2.
Proof. induction c as [|[k' v'] r IH]; cbn [Ctx.set Ctx.find].
  - destruct (key_eqb k2 k); reflexivity.
  - destruct (key_eqb k k') eqn:E; cbn [Ctx.find].
    + rewrite (eqb_r k k' k2 E). destruct (key_eqb k2 k'); reflexivity.
    + rewrite IH. destruct (key_eqb k2 k') eqn:E2; [|reflexivity].
      destruct (key_eqb k2 k) eqn:E3; [|reflexivity].
      rewrite (kl_trans _ _ _ _ _ _ KL k k2 k' (kl_sym _ _ _ _ _ _ KL k2 k E3) E2) in E. discriminate. Qed.

Lemma find_set_same c k v : find (set c k v) k = Some v.
Proof. rewrite find_set, (kl_refl _ _ _ _ _ _ KL). reflexivity. Qed.

Lemma getitem_S f c k : getitem (S f) c k =
  match find c k with
  | Some v => (Ok v, c)
  | None => if is_ref k then (RaiseKey, c)
            else if contains c (unwrap k)
                 then match getitem f c (unwrap k) with
                      | (Ok v, c1) => (Ok v, set c1 k v)
                      | (r, c1) => (r, c1)
                      end
                 else if contains c (fref k) then getitem f c (fref k)
                 else match scan c k with
                      | Some other => getitem f c other
                      | None => (RaiseKey, c)
                      end
  end.
Proof. reflexivity. Qed.

Lemma getitem_hit fuel c k v : find c k = Some v -> getitem fuel c k = (Ok v, c).
Proof. intros H. destruct fuel; cbn [Ctx.getitem]; rewrite H; reflexivity. Qed.

(* ---------- the scan over the stored keys ---------- *)
Definition isrefp (p : key * val) : bool := is_ref (fst p).
Definition refs_of (c : st) : st := filter isrefp c.

Lemma first_named_refs c k : first_named c k = first_named (refs_of c) k.
Proof. induction c as [|[r v] rest IH]; cbn [Ctx.first_named refs_of filter]; [reflexivity|].
  unfold isrefp at 1. cbn [fst]. destruct (is_ref r) eqn:Er; cbn [andb Ctx.first_named].
  - rewrite Er. cbn [andb]. destruct (names r k); [reflexivity|exact IH].
  - exact IH. Qed.

Lemma scan_some c k o : scan c k = Some o -> is_ref o && names o k = true.
Proof. induction c as [|[r v] rest IH]; cbn [Ctx.scan]; intros Es; [discriminate|].
  destruct (is_ref r && names r k) eqn:E; [injection Es as <-; exact E|exact (IH Es)]. Qed.

Lemma first_named_in S k v : first_named S k = Some v ->
  exists r, In (r, v) S /\ is_ref r && names r k = true.
Proof. induction S as [|[r w] rest IH]; cbn [Ctx.first_named]; intros H; [discriminate|].
  destruct (is_ref r && names r k) eqn:E.
  - injection H as <-. exists r. split; [left; reflexivity|exact E].
  - destruct (IH H) as (r2 & Hin & Hp). exists r2. split; [right; exact Hin|exact Hp]. Qed.

Lemma find_in S k v : In (k, v) S -> exists w, find S k = Some w.
Proof. induction S as [|[k' v'] rest IH]; intros Hin; [destruct Hin|]. cbn [Ctx.find].
  destruct (key_eqb k k') eqn:E; [exists v'; reflexivity|].
  destruct Hin as [Hin|Hin]; [|exact (IH Hin)].
  injection Hin as -> ->. rewrite (kl_refl _ _ _ _ _ _ KL) in E. discriminate. Qed.

(* the key the loop stops at is stored, and subscribing it (a plain dict lookup: the first entry
   with an equal key) gives the value of the first stored reference naming k *)
Lemma scan_find c k :
  match scan c k with
  | Some o => exists v, find c o = Some v /\ first_named c k = Some v
  | None => first_named c k = None
  end.
Proof. induction c as [|[r v] rest IH]; cbn [Ctx.scan Ctx.first_named]; [reflexivity|].
  destruct (is_ref r && names r k) eqn:Ep.
  - exists v. cbn [Ctx.find]. rewrite (kl_refl _ _ _ _ _ _ KL). split; reflexivity.
  - destruct (scan rest k) as [o|] eqn:Es; [|exact IH].
    destruct IH as (w & Hf & Hn). exists w. split; [|exact Hn].
    cbn [Ctx.find]. destruct (key_eqb o r) eqn:Eo; [|exact Hf].
    (* an equal key earlier in the dict would be a reference naming k as well *)
    exfalso.
    pose proof (scan_some rest k o Es) as Ho.
    rewrite (kl_ref_compat _ _ _ _ _ _ KL o r Eo), (kl_names_compat _ _ _ _ _ _ KL o r k Eo), Ep in Ho.
    discriminate. Qed.

Lemma refs_of_set_nonref c k v : is_ref k = false -> refs_of (set c k v) = refs_of c.
Proof. intros Hk. induction c as [|[k' v'] r IH]; cbn [Ctx.set refs_of filter].
  - unfold isrefp. cbn [fst]. rewrite Hk. reflexivity.
  - destruct (key_eqb k k') eqn:E; cbn [filter].
    + unfold isrefp. cbn [fst]. rewrite <- (kl_ref_compat _ _ _ _ _ _ KL k k' E), Hk. reflexivity.
    + fold (refs_of (set r k v)). fold (refs_of r). rewrite IH. reflexivity. Qed.

Lemma set_fresh c k v : find c k = None -> set c k v = c ++ [(k, v)].
Proof. induction c as [|[k' v'] r IH]; cbn [Ctx.set Ctx.find app]; intros H; [reflexivity|].
  destruct (key_eqb k k'); [discriminate|]. rewrite (IH H). reflexivity. Qed.

Lemma refs_of_set_fresh c k v : find c k = None -> refs_of (set c k v) = refs_of c ++ refs_of [(k, v)].
Proof. intros H. rewrite (set_fresh c k v H). unfold refs_of. apply filter_app. Qed.

(* ---------- the refinement relation ----------
   every inserted pair is in the concrete dict; every other concrete entry is a memo entry:
   a non-reference key, different from its unwrapped form, carrying the value stored
   under its unwrapped form; the stored references are the inserted ones, in insertion order
   (what the loop over the dict sees). *)
Definition R (c S : st) : Prop :=
  (forall k v, find S k = Some v -> find c k = Some v) /\
  (forall k v, find c k = Some v -> find S k = None ->
     is_ref k = false /\ key_eqb (unwrap k) k = false /\ find S (unwrap k) = Some v) /\
  refs_of c = refs_of S.

Lemma R_nil : R [] [].
Proof. split; [|split]; [intros k v H; cbn in H; discriminate|intros k v H; cbn in H; discriminate|reflexivity]. Qed.

Lemma R_none c S k : R c S -> find c k = None -> find S k = None.
Proof. intros (Ha & _ & _) H. destruct (find S k) as [v|] eqn:E; [|reflexivity].
  rewrite (Ha k v E) in H. discriminate. Qed.

Lemma R_hit c S k v : R c S -> find c k = Some v -> spec_lookup S k = Some v.
Proof. intros (Ha & Hb & _) H. unfold Ctx.spec_lookup. destruct (find S k) as [w|] eqn:E; cbn [orelse].
  - rewrite (Ha k w E) in H. exact H.
  - destruct (Hb k v H E) as (Hr & _ & Hu). rewrite Hr, Hu. reflexivity. Qed.

(* a concrete entry under a reference, or under a key that is its own unwrapped form,
   is an inserted one *)
Lemma R_plain c S k v : R c S -> find c k = Some v ->
  is_ref k = true \/ key_eqb (unwrap k) k = true -> find S k = Some v.
Proof. intros (Ha & Hb & _) H Hk. destruct (find S k) as [w|] eqn:E.
  - rewrite (Ha k w E) in H. exact H.
  - destruct (Hb k v H E) as (Hr & Hne & _). destruct Hk as [Hk|Hk]; congruence. Qed.

Lemma R_first_named c S k : R c S -> first_named c k = first_named S k.
Proof. intros (_ & _ & Hc). rewrite (first_named_refs c k), (first_named_refs S k), Hc. reflexivity. Qed.

Definition res_of_opt (o : option val) : res val :=
  match o with Some v => Ok v | None => RaiseKey end.

(* one __missing__ frame suffices: every nested subscription is a direct hit *)
Lemma getitem_refines c S fuel k : R c S -> 1 <= fuel ->
  fst (getitem fuel c k) = res_of_opt (spec_lookup S k) /\ R (snd (getitem fuel c k)) S.
Proof.
  intros HR Hf. destruct fuel as [|f]; try lia. clear Hf.
  rewrite getitem_S. destruct (find c k) as [v|] eqn:Ek.
  - cbn [fst snd]. rewrite (R_hit c S k v HR Ek). split; [reflexivity|exact HR].
  - pose proof (R_none c S k HR Ek) as ESk.
    destruct (is_ref k) eqn:Er.
    + cbn [fst snd]. split; [|exact HR]. unfold Ctx.spec_lookup. rewrite ESk, Er. reflexivity.
    + unfold Ctx.contains. destruct (find c (unwrap k)) as [v|] eqn:Eu; cbn [is_some].
      * rewrite (getitem_hit f c (unwrap k) v Eu). cbn [fst snd].
        assert (ESu : find S (unwrap k) = Some v).
        { apply (R_plain c S (unwrap k) v HR Eu). right. exact (kl_unwrap_idem _ _ _ _ _ _ KL k Er). }
        split.
        { unfold Ctx.spec_lookup. rewrite ESk, Er, ESu. reflexivity. }
        destruct HR as (Ha & Hb & Hc). split; [|split].
        { intros k2 w H2. rewrite find_set. destruct (key_eqb k2 k) eqn:E2.
          - rewrite (find_compat S k2 k E2), ESk in H2. discriminate.
          - exact (Ha k2 w H2). }
        { intros k2 w H2 HS2. rewrite find_set in H2. destruct (key_eqb k2 k) eqn:E2.
          - injection H2 as <-.
            pose proof (kl_unwrap_compat _ _ _ _ _ _ KL k2 k E2) as Eu2.
            split; [rewrite (kl_ref_compat _ _ _ _ _ _ KL k2 k E2); exact Er|]. split.
            + destruct (key_eqb (unwrap k2) k2) eqn:E3; [|reflexivity].
              assert (E4 : key_eqb (unwrap k) k = true).
              { apply (kl_trans _ _ _ _ _ _ KL _ (unwrap k2)); [apply (kl_sym _ _ _ _ _ _ KL); exact Eu2|].
                apply (kl_trans _ _ _ _ _ _ KL _ k2); assumption. }
              rewrite (find_compat c (unwrap k) k E4), Ek in Eu. discriminate.
            + rewrite (find_compat S (unwrap k2) (unwrap k) Eu2). exact ESu.
          - exact (Hb k2 w H2 HS2). }
        { rewrite (refs_of_set_nonref c k v Er). exact Hc. }
      * pose proof (R_none c S (unwrap k) HR Eu) as ESu.
        pose proof (kl_fref_ref _ _ _ _ _ _ KL k Er) as Efr.
        destruct (find c (fref k)) as [v|] eqn:Ef; cbn [is_some].
        -- rewrite (getitem_hit f c (fref k) v Ef). cbn [fst snd]. split; [|exact HR].
           unfold Ctx.spec_lookup. rewrite ESk, Er, ESu.
           rewrite (R_plain c S (fref k) v HR Ef (or_introl Efr)). reflexivity.
        -- pose proof (R_none c S (fref k) HR Ef) as ESf.
           pose proof (scan_find c k) as Hs. rewrite (R_first_named c S k HR) in Hs.
           destruct (scan c k) as [o|].
           ++ destruct Hs as (w & Hw & Hn). rewrite (getitem_hit f c o w Hw). cbn [fst snd].
              split; [|exact HR]. unfold Ctx.spec_lookup. rewrite ESk, Er, ESu, ESf, Hn. reflexivity.
           ++ cbn [fst snd]. split; [|exact HR].
              unfold Ctx.spec_lookup. rewrite ESk, Er, ESu, ESf, Hs. reflexivity.
Qed.

Lemma R_set c S k v : R c S -> contains S k = false -> R (set c k v) (set S k v).
Proof. intros (Ha & Hb & Hc) Hk. unfold Ctx.contains in Hk.
  destruct (find S k) as [x|] eqn:ESk; [discriminate|]. split; [|split].
  - intros k2 w. rewrite !find_set. destruct (key_eqb k2 k); [trivial|apply Ha].
  - intros k2 w. rewrite !find_set. destruct (key_eqb k2 k) eqn:E2; [discriminate|].
    intros H2 HS2. destruct (Hb k2 w H2 HS2) as (Hr & Hne & Hu). split; [exact Hr|]. split; [exact Hne|].
    destruct (key_eqb (unwrap k2) k) eqn:E3; [|exact Hu].
    rewrite (find_compat S (unwrap k2) k E3), ESk in Hu. discriminate.
  - destruct (is_ref k) eqn:Er.
    + (* a reference key is never a memo key: it is fresh in the concrete dict too, appended to both *)
      assert (Eck : find c k = None).
      { destruct (find c k) as [w|] eqn:E; [|reflexivity].
        destruct (Hb k w E ESk) as (Hr & _). congruence. }
      rewrite (refs_of_set_fresh c k v Eck), (refs_of_set_fresh S k v ESk), Hc. reflexivity.
    + rewrite !refs_of_set_nonref by exact Er. exact Hc. Qed.

Lemma contains_refines c S k : R c S ->
  contains S k || negb (is_some (spec_lookup S k)) = true -> contains c k = contains S k.
Proof. intros HR H. unfold Ctx.contains in *. destruct (find S k) as [v|] eqn:ES; cbn [is_some orb] in *.
  - destruct HR as (Ha & _). rewrite (Ha k v ES). reflexivity.
  - destruct (find c k) as [v|] eqn:Ec; [|reflexivity].
    rewrite (R_hit c S k v HR Ec) in H. discriminate. Qed.

Lemma step_refines c S fuel o : R c S -> 1 <= fuel -> op_ok S o = true ->
  fst (step fuel c o) = fst (spec_step S o) /\ R (snd (step fuel c o)) (snd (spec_step S o)).
Proof. intros HR Hf Hok. destruct o as [k v|k|k d|k]; cbn [Ctx.step Ctx.spec_step Ctx.op_ok] in *.
  - cbn [fst snd]. split; [reflexivity|]. apply R_set; [exact HR|].
    destruct (contains S k); [discriminate|reflexivity].
  - destruct (getitem_refines c S fuel k HR Hf) as [H1 H2].
    destruct (getitem fuel c k) as [r c']; cbn [fst snd] in *. subst r. split; [|exact H2].
    destruct (spec_lookup S k); reflexivity.
  - unfold Ctx.get. destruct (getitem_refines c S fuel k HR Hf) as [H1 H2].
    destruct (getitem fuel c k) as [r c']; cbn [fst snd] in *. subst r.
    destruct (spec_lookup S k); cbn [res_of_opt fst snd]; (split; [reflexivity|exact H2]).
  - cbn [fst snd]. split; [|exact HR]. rewrite (contains_refines c S k HR Hok). reflexivity. Qed.

Lemma run_refines fuel ops : 1 <= fuel -> forall c S, R c S -> ops_ok S ops = true ->
  run fuel c ops = spec_run S ops.
Proof. intros Hf. induction ops as [|o r IH]; intros c S HR Hok; cbn [Ctx.run Ctx.spec_run]; [reflexivity|].
  cbn [Ctx.ops_ok] in Hok. apply andb_prop in Hok as [Ho Hr].
  destruct (step_refines c S fuel o HR Hf Ho) as [H1 H2].
  destruct (step fuel c o) as [x c']; destruct (spec_step S o) as [y S']; cbn [fst snd] in *.
  subst y. f_equal. apply IH; assumption. Qed.

Theorem refines fuel ops : 1 <= fuel -> ops_ok [] ops = true -> run fuel [] ops = spec_run [] ops.
Proof. intros Hf Hok. exact (run_refines fuel ops Hf [] [] R_nil Hok). Qed.

(* ---------- consequences ---------- *)
Lemma spec_run_app S a b : spec_run S (a ++ b) = spec_run S a ++ spec_run (spec_final S a) b.
Proof. revert S. induction a as [|o r IH]; intros S; cbn [app Ctx.spec_run Ctx.spec_final]; [reflexivity|].
  destruct (spec_step S o) as [x S']; cbn [snd]. rewrite IH. reflexivity. Qed.

Lemma spec_final_app S a b : spec_final S (a ++ b) = spec_final (spec_final S a) b.
Proof. revert S. induction a as [|o r IH]; intros S; cbn [app Ctx.spec_final]; [reflexivity|apply IH]. Qed.

Lemma ops_ok_app S a b : ops_ok S (a ++ b) = ops_ok S a && ops_ok (spec_final S a) b.
Proof. revert S. induction a as [|o r IH]; intros S; cbn [app Ctx.ops_ok Ctx.spec_final]; [reflexivity|].
  rewrite IH, andb_assoc. reflexivity. Qed.

Lemma spec_run_length S ops : length (spec_run S ops) = length ops.
Proof. revert S. induction ops as [|o r IH]; intros S; cbn [Ctx.spec_run]; [reflexivity|].
  destruct (spec_step S o) as [x S']. cbn [length]. rewrite IH. reflexivity. Qed.

Lemma lookup_keeps S l : is_lookup key val l = true -> snd (spec_step S l) = S /\ op_ok S l = true.
Proof. destruct l; cbn; intros H; try discriminate; split; reflexivity. Qed.

(* write-once: what is stored stays stored, with its value *)
Lemma write_once ops : forall S k v, ops_ok S ops = true -> find S k = Some v ->
  find (spec_final S ops) k = Some v.
Proof. induction ops as [|o r IH]; intros S k v Hok HS; cbn [Ctx.spec_final]; [exact HS|].
  cbn [Ctx.ops_ok] in Hok. apply andb_prop in Hok as [Ho Hr]. apply IH; [exact Hr|].
  destruct o as [k' v'|k'|k' d|k']; cbn [Ctx.spec_step snd]; try exact HS.
  rewrite find_set. destruct (key_eqb k k') eqn:E; [|exact HS].
  cbn [Ctx.op_ok] in Ho. unfold Ctx.contains in Ho.
  rewrite <- (find_compat S k k' E), HS in Ho. discriminate. Qed.

Theorem keyerror fuel ops k d : 1 <= fuel -> ops_ok [] ops = true ->
  spec_lookup (spec_final [] ops) k = None ->
  run fuel [] (ops ++ [OItem k; OGet k d; OIn k]) = spec_run [] ops ++ [OKeyError; OVal d; OBool false].
Proof. intros Hf Hok Hn.
  assert (Hc : contains (spec_final [] ops) k = false).
  { unfold Ctx.contains. unfold Ctx.spec_lookup in Hn.
    destruct (find (spec_final [] ops) k); [discriminate|reflexivity]. }
  rewrite refines; [|exact Hf|].
  - rewrite spec_run_app. f_equal. cbn [Ctx.spec_run Ctx.spec_step]. rewrite Hn, Hc. reflexivity.
  - rewrite ops_ok_app, Hok. cbn [Ctx.ops_ok Ctx.op_ok Ctx.spec_step snd andb]. rewrite Hn, Hc. reflexivity. Qed.

Theorem stored_found fuel ops1 k v ops2 d : 1 <= fuel ->
  ops_ok [] (ops1 ++ OSet k v :: ops2) = true ->
  run fuel [] ((ops1 ++ OSet k v :: ops2) ++ [OItem k; OGet k d; OIn k])
  = spec_run [] (ops1 ++ OSet k v :: ops2) ++ [OVal v; OVal v; OBool true].
Proof. intros Hf Hok.
  assert (HS : find (spec_final [] (ops1 ++ OSet k v :: ops2)) k = Some v).
  { pose proof Hok as Hok'. rewrite ops_ok_app in Hok'. apply andb_prop in Hok' as [_ H2].
    assert (E : spec_final [] (ops1 ++ OSet k v :: ops2)
                = spec_final (set (spec_final [] ops1) k v) ops2).
    { rewrite spec_final_app. reflexivity. }
    rewrite E. cbn [Ctx.ops_ok] in H2. apply andb_prop in H2 as [_ H3].
    cbn [Ctx.spec_step snd] in H3. apply write_once; [exact H3|apply find_set_same]. }
  assert (HL : spec_lookup (spec_final [] (ops1 ++ OSet k v :: ops2)) k = Some v).
  { unfold Ctx.spec_lookup. rewrite HS. reflexivity. }
  assert (HC : contains (spec_final [] (ops1 ++ OSet k v :: ops2)) k = true).
  { unfold Ctx.contains. rewrite HS. reflexivity. }
  rewrite refines; [|exact Hf|].
  - rewrite spec_run_app. f_equal. cbn [Ctx.spec_run Ctx.spec_step]. rewrite HL, HC. reflexivity.
  - rewrite ops_ok_app, Hok. cbn [Ctx.ops_ok Ctx.op_ok Ctx.spec_step snd andb]. rewrite HC. reflexivity. Qed.

(* inserting a lookup anywhere in a history changes no other output *)
Theorem lookup_pure fuel ops1 l ops2 : 1 <= fuel -> is_lookup key val l = true ->
  ops_ok [] (ops1 ++ ops2) = true ->
  exists x, run fuel [] (ops1 ++ l :: ops2)
            = firstn (length ops1) (run fuel [] (ops1 ++ ops2)) ++ x ::
              skipn (length ops1) (run fuel [] (ops1 ++ ops2)).
Proof. intros Hf Hl Hok. destruct (lookup_keeps (spec_final [] ops1) l Hl) as [Hs Ho].
  exists (fst (spec_step (spec_final [] ops1) l)).
  rewrite (refines fuel (ops1 ++ ops2) Hf Hok).
  rewrite refines; [|exact Hf|].
  - rewrite !spec_run_app. cbn [Ctx.spec_run].
    destruct (spec_step (spec_final [] ops1) l) as [x S'] eqn:E. cbn [snd fst] in *. subst S'.
    rewrite <- (spec_run_length [] ops1) at 1 2.
    rewrite firstn_app, Nat.sub_diag, firstn_all, firstn_O, app_nil_r.
    rewrite skipn_app, Nat.sub_diag, skipn_all, skipn_O. reflexivity.
  - rewrite ops_ok_app in *. apply andb_prop in Hok as [H1 H2]. rewrite H1. cbn [Ctx.ops_ok andb].
    rewrite Ho, Hs. exact H2. Qed.

(* ---------- the order-free reading: "under a forward reference naming it" ---------- *)
Lemma find_some_in S a v : find S a = Some v -> exists k', In (k', v) S /\ key_eqb a k' = true.
Proof. induction S as [|[k' v'] r IH]; cbn [Ctx.find]; intros H; [discriminate|].
  destruct (key_eqb a k') eqn:E.
  - injection H as <-. exists k'. split; [left; reflexivity|exact E].
  - destruct (IH H) as (k2 & Hin & He). exists k2. split; [right; exact Hin|exact He]. Qed.

Lemma first_named_some S k : is_some (first_named S k) = named_stored S k.
Proof. unfold Ctx.named_stored. induction S as [|[r v] rest IH]; cbn [Ctx.first_named existsb fst]; [reflexivity|].
  destruct (is_ref r && names r k); [reflexivity|exact IH]. Qed.

(* For a key whose canonical reference names it (fref_names: true of every named type, decided on
   the live tables), a lookup finds something exactly when the key is stored under itself, or -- not
   being a reference -- under its unwrapped form or under ANY stored forward reference naming it. *)
Theorem found_iff S k : is_ref k = false -> fref_names key fref names k ->
  is_some (spec_lookup S k) = is_some (find S k) || is_some (find S (unwrap k)) || named_stored S k.
Proof. intros Er Hn. unfold Ctx.spec_lookup. rewrite Er.
  destruct (find S k) as [v|]; cbn [orelse is_some orb]; [reflexivity|].
  destruct (find S (unwrap k)) as [v|]; cbn [orelse is_some orb]; [reflexivity|].
  destruct (find S (fref k)) as [v|] eqn:Ef; cbn [orelse is_some]; [|apply first_named_some].
  symmetry. unfold Ctx.named_stored. apply existsb_exists.
  destruct (find_some_in S (fref k) v Ef) as (k' & Hin & He). exists (k', v). split; [exact Hin|]. cbn [fst].
  rewrite <- (kl_ref_compat _ _ _ _ _ _ KL (fref k) k' He), (kl_fref_ref _ _ _ _ _ _ KL k Er).
  rewrite <- (kl_names_compat _ _ _ _ _ _ KL (fref k) k' k He). exact Hn. Qed.

(* which naming reference: the canonical one if stored, else the first inserted *)
Theorem which_ref S k : is_ref k = false -> find S k = None -> find S (unwrap k) = None ->
  spec_lookup S k = orelse (find S (fref k)) (first_named S k).
Proof. intros Er H1 H2. unfold Ctx.spec_lookup. rewrite Er, H1, H2. reflexivity. Qed.

(* insertion order decides: with two naming references r1 r2 (neither the canonical one) stored in
   this order and nothing else that a lookup of k could find, the lookup shows r1's value *)
Theorem first_stored_wins fuel k r1 r2 v1 v2 : 1 <= fuel ->
  is_ref k = false -> is_ref r1 = true -> is_ref r2 = true -> names r1 k = true ->
  key_eqb r2 r1 = false -> key_eqb k r1 = false -> key_eqb k r2 = false ->
  key_eqb (unwrap k) r1 = false -> key_eqb (unwrap k) r2 = false ->
  key_eqb (fref k) r1 = false -> key_eqb (fref k) r2 = false ->
  run fuel [] [OSet r1 v1; OSet r2 v2; OItem k] = [OUnit; OUnit; OVal v1].
Proof. intros Hf Ek E1 E2 Hn E21 Ek1 Ek2 Eu1 Eu2 Ef1 Ef2.
  rewrite refines; [|exact Hf|].
  - cbn [Ctx.spec_run Ctx.spec_step Ctx.set]. rewrite E21. unfold Ctx.spec_lookup.
    cbn [Ctx.find Ctx.first_named]. rewrite Ek, Ek1, Ek2, Eu1, Eu2, Ef1, Ef2, E1, Hn. reflexivity.
  - cbn [Ctx.ops_ok Ctx.op_ok Ctx.spec_step snd Ctx.set]. unfold Ctx.contains. cbn [Ctx.find].
    rewrite E21. reflexivity. Qed.

End CtxProofs.

(* ---------- the table-driven family satisfies the laws when the check says so ---------- *)
Lemma tabs_ok_sound (T : tabs) : tabs_ok T = true ->
  key_laws nat Nat.eqb (tab_isref T) (tab_unwrap T) (tab_fref T) (tab_names T).
Proof. intros H. unfold tabs_ok in H. rewrite forallb_forall in H.
  assert (HA : forall a, tab_isref T a = false ->
     Nat.eqb (tab_unwrap T (tab_unwrap T a)) (tab_unwrap T a) = true /\ tab_isref T (tab_fref T a) = true).
  { intros a Ha. assert (Hlt : a < length (t_isref T)).
    { destruct (Nat.lt_ge_cases a (length (t_isref T))) as [L|G]; [exact L|].
      unfold tab_isref in Ha. rewrite (nth_overflow _ _ G) in Ha. discriminate. }
    specialize (H a). rewrite in_seq in H. specialize (H (conj (Nat.le_0_l a) Hlt)).
    rewrite Ha in H. cbn [orb] in H. apply andb_prop in H. exact H. }
  constructor.
  - intros a. apply Nat.eqb_refl.
  - intros a b E. apply Nat.eqb_eq in E. subst b. apply Nat.eqb_refl.
  - intros a b c E1 E2. apply Nat.eqb_eq in E1, E2. subst. apply Nat.eqb_refl.
  - intros a b E. apply Nat.eqb_eq in E. subst b. reflexivity.
  - intros a b E. apply Nat.eqb_eq in E. subst b. apply Nat.eqb_refl.
  - intros a Ha. exact (proj1 (HA a Ha)).
  - intros a Ha. exact (proj2 (HA a Ha)).
  - intros a b k E. apply Nat.eqb_eq in E. subst b. reflexivity. Qed.

(* a catalogued wrapper finds the value stored under its class in a FRESH context
   (nothing looked up, hence nothing memoised, before) *)
Lemma reach_found (T : tabs) (cat : list (nat * nat)) :
  tabs_ok T = true -> tabs_reach T cat = true ->
  forall k b v fuel, In (k, b) cat -> 1 <= fuel ->
    t_run T fuel [OSet b v; OItem k] = [OUnit; OVal v].
Proof. intros Hok Hr k b v fuel Hin Hf. unfold t_run.
  rewrite (refines nat nat Nat.eqb _ _ _ _ (tabs_ok_sound T Hok) fuel _ Hf); [|reflexivity].
  unfold tabs_reach in Hr. rewrite forallb_forall in Hr. specialize (Hr (k, b) Hin).
  cbn [fst snd] in Hr. apply andb_prop in Hr as [H1 H2]. apply Nat.eqb_eq in H2.
  apply negb_true_iff in H1.
  cbn [Ctx.spec_run Ctx.spec_step Ctx.set]. unfold Ctx.spec_lookup. cbn [Ctx.find].
  rewrite H1, H2, Nat.eqb_refl. destruct (Nat.eqb k b); reflexivity. Qed.

(* a catalogued foreign reference (written in a module that merely imports the name) finds its type:
   the value stored under it alone, in a fresh context, is what a lookup of the type shows *)
Lemma foreign_found (T : tabs) (cat : list (nat * nat)) :
  tabs_ok T = true -> tabs_foreign T cat = true ->
  forall r k v fuel, In (r, k) cat -> 1 <= fuel ->
    t_run T fuel [OSet r v; OItem k] = [OUnit; OVal v].
Proof. intros Hok Hr r k v fuel Hin Hf. unfold t_run.
  rewrite (refines nat nat Nat.eqb _ _ _ _ (tabs_ok_sound T Hok) fuel _ Hf); [|reflexivity].
  unfold tabs_foreign in Hr. rewrite forallb_forall in Hr. specialize (Hr (r, k) Hin).
  cbn [fst snd] in Hr. apply andb_prop in Hr as [Hr H5]. apply andb_prop in Hr as [Hr H4].
  apply andb_prop in Hr as [Hr H3]. apply andb_prop in Hr as [H1 H2].
  apply negb_true_iff in H2, H3, H4.
  assert (Ekr : Nat.eqb k r = false).
  { destruct (Nat.eqb k r) eqn:E; [|reflexivity]. apply Nat.eqb_eq in E. subst k. congruence. }
  rewrite Nat.eqb_sym in H3, H4.
  cbn [Ctx.spec_run Ctx.spec_step Ctx.set]. unfold Ctx.spec_lookup. cbn [Ctx.find Ctx.first_named].
  rewrite Ekr, H2, H4, H3, H1, H5. reflexivity. Qed.
