(* Proof scripts for the dispatch bridge (Model/Dispatch.v).  Table-independent: everything is stated for ANY
   inspection tables and ANY two handler tables satisfying computable conditions (atoms_ok, all_reps_ok,
   wrap_tables_ok) that vm_compute decides for the reflected ones (dyn/Dispatch/Dispatch.v). *)
From Coq Require Import List NArith ZArith String Ascii Bool Lia PeanoNat.
Import ListNotations.
Require Import TL.Model.Inspect TL.Model.InspectSpec TL.Model.Dispatch TL.Proofs.InspectLemmas.
Require TL.Model.Core TL.Model.Build.
Require Import TL.Model.DispatchEq.
Local Open Scope string_scope.

(* ------------------------------------------------------------------ A. strings, atoms, canonical arguments *)
Lemma has_char_app : forall c a b, has_char c (a +++ b) = has_char c a || has_char c b.
Proof. intros c a b. induction a as [|x a IH]; cbn; [reflexivity|]. rewrite IH, orb_assoc. reflexivity. Qed.

Lemma atom_neq : forall t x, is_atom x = true -> is_atom t = false -> ity_eqb t x = false.
Proof.
  intros t x Hx Ht. destruct x; cbn in Hx; try discriminate Hx; destruct t; cbn in Ht; try discriminate Ht; reflexivity.
Qed.

Lemma mem_atoms_false : forall l t, forallb is_atom l = true -> is_atom t = false -> mem_ity t l = false.
Proof.
  induction l as [|x r IH]; intros t Hl Ht; [reflexivity|].
  cbn in Hl. apply andb_prop in Hl. destruct Hl as [Hx Hr].
  unfold mem_ity in *. cbn. rewrite (atom_neq t x Hx Ht). cbn. apply IH; assumption.
Qed.

Lemma assoc_atoms_none : forall m t, forallb (fun kv => is_atom (fst kv)) m = true -> is_atom t = false ->
  assoc_ity t m = None.
Proof.
  induction m as [|[k v] r IH]; intros t Hm Ht; [reflexivity|].
  cbn in Hm. apply andb_prop in Hm. destruct Hm as [Hk Hr].
  cbn. rewrite (atom_neq t k Hk Ht). apply IH; assumption.
Qed.

Lemma canon_args_norm : forall l, map normalize_typevar (canon_args l) = canon_args l.
Proof.
  intro l. unfold canon_args. destruct (map normalize_typevar l) as [|x r]; [reflexivity|].
  destruct (last_is_ellipsis (x :: r)); reflexivity.
Qed.

Lemma canon_args_cases : forall l, In (canon_args l) arg_reps.
Proof.
  intro l. unfold canon_args, arg_reps. destruct (map normalize_typevar l) as [|x r]; [left; reflexivity|].
  destruct (last_is_ellipsis (x :: r)); [right; left; reflexivity | right; right; left; reflexivity].
Qed.

Lemma tuple_fixed_canon : forall l, tuple_fixed l = tuple_fixed (canon_args l).
Proof.
  intro l. unfold tuple_fixed, canon_args. destruct l as [|a r]; [reflexivity|].
  cbn [map]. destruct (last_is_ellipsis (normalize_typevar a :: map normalize_typevar r)) eqn:He; reflexivity.
Qed.

Section L.
Variable T : tables.

(* isfixedtupletype looks at the parameters only through "none" and "the last one is the Ellipsis" *)
Definition fixed_core (a : list ity) (has_dunder : bool) (og : option ity) : bool :=
  let is_empty := match a with [] => true | _ => false end in
  if (is_empty && negb has_dunder) || (negb is_empty && last_is_ellipsis a) then false
  else match og with Some o => safe_issubclass T o [c_tuple] | None => false end.

Lemma fixed_core_canon : forall l hd og,
  fixed_core (map normalize_typevar l) hd og = fixed_core (canon_args l) hd og.
Proof.
  intros l hd og. unfold fixed_core, canon_args.
  destruct (map normalize_typevar l) as [|x r]; [reflexivity|].
  destruct (last_is_ellipsis (x :: r)) eqn:He; cbn; reflexivity.
Qed.

Lemma show_bracket_classsub : forall c l, has_char "["%char (show T (IClassSub c l)) = true.
Proof. intros. unfold show. cbn [repr]. rewrite !has_char_app. cbn. rewrite !orb_true_r. reflexivity. Qed.
Lemma show_bracket_usersub : forall c l, has_char "["%char (show T (IUserSub c l)) = true.
Proof. intros. unfold show. cbn [repr]. rewrite !has_char_app. cbn. rewrite !orb_true_r. reflexivity. Qed.
Lemma show_bracket_typingsub : forall a l, has_char "["%char (show T (ITypingSub a l)) = true.
Proof. intros. unfold show. cbn [repr]. rewrite !has_char_app. cbn. rewrite !orb_true_r. reflexivity. Qed.

Lemma issub_true : forall t, has_char "["%char (show T t) = true -> issubscriptedgeneric T t = true.
Proof.
  intros t H. unfold issubscriptedgeneric. cbv zeta. rewrite H, andb_true_r.
  apply orb_true_iff. right. unfold isgeneric. cbv zeta. rewrite H. rewrite !orb_true_r. reflexivity.
Qed.

(* unwrap() returns an annotation that is neither qualified nor a NewType / alias *)
Lemma unwrap_fuel_head : forall n u, should_unwrap T u = false -> is_wrapper u = false ->
  unwrap_fuel T (S n) u = Ok u.
Proof.
  intros n u Hs Hw. cbn [unwrap_fuel]. rewrite Hs. destruct u; cbn in Hw; try discriminate Hw; reflexivity.
Qed.
Lemma dispatch_head : forall hs fb u, should_unwrap T u = false -> is_wrapper u = false ->
  dispatch T hs fb u = first_match T hs fb u.
Proof. intros hs fb u Hs Hw. unfold dispatch, unwrap. rewrite (unwrap_fuel_head 199 u Hs Hw). reflexivity. Qed.

(* ------------------------------------------------------------------ B. the answer on t is the answer on canon t *)
Hypothesis Hat : atoms_ok T = true.

Lemma unres_atoms : forallb is_atom (t_unresolvable T) = true.
Proof. unfold atoms_ok in Hat. apply andb_prop in Hat. tauto. Qed.
Lemma gmap_atoms : forallb (fun kv => is_atom (fst kv)) (t_generic_map T) = true.
Proof. unfold atoms_ok in Hat. apply andb_prop in Hat. tauto. Qed.

Lemma canon_sound_classsub : forall p c l, vocab (IClassSub c l) p = true ->
  run_pred T p (IClassSub c l) = run_pred T p (IClassSub c (canon_args l)).
Proof.
  intros p c l Hv. cbn [vocab] in Hv.
  destruct p; try discriminate Hv; try reflexivity;
    unfold run_pred; cbn [origin_family_bases origin_family_tp raw_family_bases].
  - change (isfixedtupletype T (IClassSub c l)) with (fixed_core (map normalize_typevar l) true (Some (IClass c))).
    change (isfixedtupletype T (IClassSub c (canon_args l)))
      with (fixed_core (map normalize_typevar (canon_args l)) true (Some (IClass c))).
    rewrite canon_args_norm, fixed_core_canon. reflexivity.
  - rewrite !issub_true by apply show_bracket_classsub. reflexivity.
  - unfold isunresolvable. cbn [get_origin].
    rewrite !(mem_atoms_false _ (IClassSub c _) unres_atoms) by reflexivity. reflexivity.
Qed.

Lemma canon_sound_usersub : forall p c l, vocab (IUserSub c l) p = true ->
  run_pred T p (IUserSub c l) = run_pred T p (IUserSub c (canon_args l)).
Proof.
  intros p c l Hv. cbn [vocab] in Hv.
  destruct p; try discriminate Hv; try reflexivity;
    unfold run_pred; cbn [origin_family_bases origin_family_tp raw_family_bases].
  - change (isfixedtupletype T (IUserSub c l)) with (fixed_core (map normalize_typevar l) true (Some (IClass c))).
    change (isfixedtupletype T (IUserSub c (canon_args l)))
      with (fixed_core (map normalize_typevar (canon_args l)) true (Some (IClass c))).
    rewrite canon_args_norm, fixed_core_canon. reflexivity.
  - rewrite !issub_true by apply show_bracket_usersub. reflexivity.
  - unfold isunresolvable. cbn [get_origin].
    rewrite !(mem_atoms_false _ (IUserSub c _) unres_atoms) by reflexivity. reflexivity.
Qed.

Lemma canon_sound_typingsub : forall p a l, vocab (ITypingSub a l) p = true ->
  run_pred T p (ITypingSub a l) = run_pred T p (ITypingSub a (canon_args l)).
Proof.
  intros p a l Hv. cbn [vocab] in Hv.
  destruct p; try discriminate Hv; try reflexivity;
    unfold run_pred; cbn [origin_family_bases origin_family_tp raw_family_bases].
  - change (isfixedtupletype T (ITypingSub a l))
      with (fixed_core (map normalize_typevar l) true (Some (IClass (ta_origin T a)))).
    change (isfixedtupletype T (ITypingSub a (canon_args l)))
      with (fixed_core (map normalize_typevar (canon_args l)) true (Some (IClass (ta_origin T a)))).
    rewrite canon_args_norm, fixed_core_canon. reflexivity.
  - rewrite !issub_true by apply show_bracket_typingsub. reflexivity.
  - unfold isunresolvable. cbn [get_origin].
    rewrite !(mem_atoms_false _ (ITypingSub a _) unres_atoms) by reflexivity. reflexivity.
Qed.

Lemma canon_sound_union : forall p sp l, vocab (IUnion sp l) p = true ->
  run_pred T p (IUnion sp l) = run_pred T p (IUnion sp []).
Proof.
  intros p sp l Hv. cbn [vocab] in Hv.
  destruct sp; destruct p; try discriminate Hv; try reflexivity;
    unfold run_pred; cbn [origin_family_bases origin_family_tp raw_family_bases];
    unfold isunresolvable; cbn [get_origin];
    rewrite !(mem_atoms_false _ (IUnion _ _) unres_atoms) by reflexivity; reflexivity.
Qed.

Lemma canon_sound_literal : forall p vs, vocab (ILiteral vs) p = true ->
  run_pred T p (ILiteral vs) = run_pred T p (ILiteral []).
Proof.
  intros p vs Hv. cbn [vocab] in Hv.
  destruct p; try discriminate Hv; try reflexivity;
    unfold run_pred; cbn [origin_family_bases origin_family_tp raw_family_bases].
  unfold isunresolvable. cbn [get_origin].
  rewrite !(mem_atoms_false _ (ILiteral _) unres_atoms) by reflexivity. reflexivity.
Qed.

(* origin() leaves a forward reference alone *)
Lemma origin_fref : forall s m, origin T (IForwardRef s m) = IForwardRef s m.
Proof.
  intros s m. unfold origin. cbv zeta. cbn [resolve_supertype isclassvartype resolve_wrappers get_origin].
  unfold isbuiltintype. cbn [resolve_supertype in_builtin type_in type_of orb].
  unfold check_generics. rewrite (assoc_atoms_none _ (IForwardRef s m) gmap_atoms) by reflexivity.
  reflexivity.
Qed.

Lemma canon_sound_fref : forall p s m, vocab (IForwardRef s m) p = true ->
  run_pred T p (IForwardRef s m) = run_pred T p (IForwardRef "" None).
Proof.
  intros p s m Hv. cbn [vocab] in Hv.
  destruct p; try discriminate Hv; try reflexivity;
    unfold run_pred; cbn [origin_family_bases origin_family_tp raw_family_bases].
  unfold isfinal. rewrite !origin_fref. reflexivity.
Qed.

Lemma canon_sound_callable : forall p b ps r, vocab (ICallable b ps r) p = true ->
  run_pred T p (ICallable b ps r) = run_pred T p (ICallable b None INone).
Proof.
  intros p b ps r Hv. cbn [vocab] in Hv.
  destruct p; try discriminate Hv; try reflexivity;
    unfold run_pred; cbn [origin_family_bases origin_family_tp raw_family_bases].
  unfold isunresolvable. cbn [get_origin].
  rewrite !(mem_atoms_false _ (ICallable b _ _) unres_atoms) by reflexivity. reflexivity.
Qed.

Theorem canon_sound : forall p t, vocab t p = true -> run_pred T p t = run_pred T p (canon t).
Proof.
  intros p t Hv. destruct t; cbn [canon]; try reflexivity.
  - apply canon_sound_typingsub; assumption.
  - apply canon_sound_classsub; assumption.
  - apply canon_sound_usersub; assumption.
  - apply canon_sound_union with (l := args); assumption.
  - apply canon_sound_literal with (vs := vs); assumption.
  - apply canon_sound_fref with (s := arg) (m := module); assumption.
  - apply canon_sound_callable with (ps := ps) (r := t); assumption.
Qed.

Lemma vocab_canon : forall t, vocab (canon t) = vocab t.
Proof. destruct t; reflexivity. Qed.

(* ------------------------------------------------------------------ C. the guarded match is the match *)
Lemma eval_hpred_inv : forall v u u',
  (forall p, v p = true -> run_pred T p u = run_pred T p u') ->
  forall h, hpred_in v h = true -> eval_hpred T h u = eval_hpred T h u'.
Proof.
  intros v u u' Hinv. induction h as [n|p IHp q IHq]; cbn [hpred_in eval_hpred]; intro Hin.
  - destruct (pred_of_name n) as [pr|]; [|discriminate]. rewrite (Hinv pr Hin). reflexivity.
  - apply andb_prop in Hin. destruct Hin as [Hp Hq]. rewrite (IHp Hp), (IHq Hq). reflexivity.
Qed.

Lemma gmatch_sound : forall v u u',
  (forall p, v p = true -> run_pred T p u = run_pred T p u') ->
  forall hs fb r, gmatch T v hs fb u' = DOk r -> first_match T hs fb u = DOk r.
Proof.
  intros v u u' Hinv. induction hs as [|[h c] rest IH]; intros fb r Hg; cbn [gmatch first_match] in *; [exact Hg|].
  destruct (hpred_in v h) eqn:Hin; [|discriminate].
  rewrite (eval_hpred_inv v u u' Hinv h Hin).
  destruct (eval_hpred T h u') as [[|]|e|n]; try discriminate; [exact Hg | apply IH; exact Hg].
Qed.

Theorem first_match_canon : forall hs fb u r,
  gmatch T (vocab u) hs fb (canon u) = DOk r -> first_match T hs fb u = DOk r.
Proof.
  intros hs fb u r H. apply (gmatch_sound (vocab u) u (canon u)); [|exact H].
  intros p Hp. apply canon_sound. exact Hp.
Qed.
End L.

Lemma member_plain : forall t x, In x (params (peel t)) -> is_ellipsis x = false -> is_typevar x = false ->
  member x t.
Proof.
  intros t x Hin He Htv. replace x with (normalize_typevar x) at 1; [constructor; assumption|].
  destruct x; try reflexivity; discriminate Htv.
Qed.

(* ------------------------------------------------------------------ E. unwrap() on well-wrapped annotations *)
Section W.
Variable T : tables.
Hypothesis Hat : atoms_ok T = true.
Hypothesis Hwt : wrap_tables_ok T = true.

(* NewTypes / aliases stripped, a string alias kept *)
Fixpoint core (t : ity) : ity := match t with INewType _ s | IAlias _ s => core s | _ => t end.

Lemma isclassvar_newtype : forall nm s, isclassvartype (INewType nm s) = isclassvartype s.
Proof. reflexivity. Qed.

Lemma origin_alias : forall nm v, isclassvartype v = false -> origin T (IAlias nm v) = origin T v.
Proof.
  intros nm v Hc. unfold origin. cbv zeta.
  cbn [resolve_supertype]. change (isclassvartype (IAlias nm v)) with false. cbv iota.
  unfold isclassvartype in Hc. 
  assert (H2 : isclassvartype (resolve_supertype v) = false).
  { unfold isclassvartype. rewrite resolve_idem. exact Hc. }
  rewrite H2. cbn [resolve_wrappers]. rewrite resolve_wrappers_resolve. reflexivity.
Qed.

Lemma plain_core : forall t, plain t = true -> isclassvartype (core t) = false ->
  isclassvartype t = false /\ origin T t = origin T (core t).
Proof.
  induction t; intros Hp Hc; cbn [core] in *; try (split; [exact Hc | reflexivity]); cbn [plain] in Hp.
  - destruct (IHt Hp Hc) as [H1 H2]. split; [rewrite isclassvar_newtype; exact H1|].
    rewrite origin_newtype. exact H2.
  - destruct (IHt Hp Hc) as [H1 H2]. split; [reflexivity|]. rewrite (origin_alias nm t H1). exact H2.
Qed.

Lemma origin_aliasstr : forall nm s, origin T (IAliasStr nm s) = IValue (LStr s).
Proof.
  intros nm s. unfold origin. cbv zeta. cbn [resolve_supertype isclassvartype resolve_wrappers get_origin].
  unfold check_generics. rewrite (assoc_atoms_none _ (IValue (LStr s)) (gmap_atoms T Hat)) by reflexivity.
  destruct (isbuiltintype T (IValue (LStr s))); reflexivity.
Qed.

Lemma isfinal_final : forall s, isfinal T (IFinal s) = true.
Proof. intro s. unfold isfinal. change (origin T (IFinal s)) with (origin T (IFinal INone)). exact Hwt. Qed.

Lemma should_unwrap_final : forall s, should_unwrap T (IFinal s) = true.
Proof. intro s. unfold should_unwrap. rewrite isfinal_final. rewrite orb_true_r. reflexivity. Qed.
Lemma should_unwrap_classvar : forall s, should_unwrap T (IClassVar s) = true.
Proof. reflexivity. Qed.

(* a plain chain over a head that is not a qualifier is not unwrapped as a qualifier *)
Lemma should_unwrap_plain : forall t, plain t = true ->
  isclassvartype (core t) = false -> isfinal T (core t) = false -> should_unwrap T t = false.
Proof.
  intros t Hp Hc Hf. destruct (plain_core t Hp Hc) as [H1 H2].
  unfold should_unwrap. rewrite H1. unfold isfinal in *. rewrite H2, Hf. apply andb_false_r.
Qed.

Lemma core_peel : forall t, plain t = true ->
  (exists nm s, core t = IAliasStr nm s /\ peel t = IForwardRef (fref_name user_module s) (Some user_module)) \/ core t = peel t.
Proof.
  induction t; intro Hp; cbn [core peel plain] in *; try (right; reflexivity); try discriminate Hp.
  - apply IHt; exact Hp.
  - apply IHt; exact Hp.
  - left. exists nm, ref. split; reflexivity.
Qed.

Lemma plain_wrap_ok : forall t, plain t = true -> wrap_ok t = true.
Proof. destruct t; cbn; intro H; try reflexivity; try exact H; discriminate. Qed.

(* unwrap() peels a well-wrapped annotation whose head is not itself qualified *)
Theorem unwrap_peel : forall t n,
  wrap_ok t = true -> wdepth t <= n ->
  isclassvartype (peel t) = false -> isfinal T (peel t) = false -> is_wrapper (peel t) = false ->
  unwrap_fuel T n t = Ok (peel t).
Proof.
  induction t; intros n Hw Hd Hc Hf Hnw;
    try (destruct n as [|k]; [cbn in Hd; lia|]; cbn [peel] in *;
         apply unwrap_fuel_head; [unfold should_unwrap; rewrite Hc, Hf; apply andb_false_r | exact Hnw]).
  - (* IFinal *) destruct n as [|k]; [cbn in Hd; lia|]. cbn [wdepth] in Hd. cbn [wrap_ok peel] in *.
    cbn [unwrap_fuel]. rewrite should_unwrap_final. cbn [resolve_wrappers dunder_args].
    apply IHt; try assumption. lia.
  - (* IClassVar *) destruct n as [|k]; [cbn in Hd; lia|]. cbn [wdepth] in Hd. cbn [wrap_ok peel] in *.
    cbn [unwrap_fuel]. rewrite should_unwrap_classvar. cbn [resolve_wrappers dunder_args].
    apply IHt; try assumption. lia.
  - (* INewType *) destruct n as [|k]; [cbn in Hd; lia|]. cbn [wdepth] in Hd. cbn [wrap_ok] in Hw.
    assert (Hsu : should_unwrap T (INewType nm t) = false).
    { destruct (core_peel _ Hw) as [[a [s [Hco Hpe]]]|Hco].
      - apply should_unwrap_plain; [exact Hw | rewrite Hco; reflexivity|].
        rewrite Hco. unfold isfinal. rewrite origin_aliasstr. reflexivity.
      - apply should_unwrap_plain; [exact Hw | rewrite Hco; exact Hc | rewrite Hco; exact Hf]. }
    cbn [unwrap_fuel]. rewrite Hsu. cbn [peel plain] in *.
    apply IHt; try assumption; [apply plain_wrap_ok; exact Hw | lia].
  - (* IAlias *) destruct n as [|k]; [cbn in Hd; lia|]. cbn [wdepth] in Hd. cbn [wrap_ok] in Hw.
    assert (Hsu : should_unwrap T (IAlias nm t) = false).
    { destruct (core_peel _ Hw) as [[a [s [Hco Hpe]]]|Hco].
      - apply should_unwrap_plain; [exact Hw | rewrite Hco; reflexivity|].
        rewrite Hco. unfold isfinal. rewrite origin_aliasstr. reflexivity.
      - apply should_unwrap_plain; [exact Hw | rewrite Hco; exact Hc | rewrite Hco; exact Hf]. }
    cbn [unwrap_fuel]. rewrite Hsu. cbn [peel plain] in *.
    apply IHt; try assumption; [apply plain_wrap_ok; exact Hw | lia].
  - (* IAliasStr *) destruct n as [|k]; [cbn in Hd; lia|].
    assert (Hsu : should_unwrap T (IAliasStr nm ref) = false).
    { unfold should_unwrap. unfold isfinal. rewrite origin_aliasstr. reflexivity. }
    cbn [unwrap_fuel]. rewrite Hsu. reflexivity.
Qed.
End W.

(* Build.construct builds a routine of the constructor its (unwrapped) annotation has *)
Lemma construct_head : forall E dir cx u r,
  Build.construct E dir cx u = Core.Ok r -> ty_bhead E u = Some (routine_bhead r).
Proof.
  intros E dir cx u r H. destruct u; cbn [Build.construct ty_bhead] in *;
    try (inversion H; subst; reflexivity); try discriminate H.
  - destruct (Build.getitem E cx (Build.evaluate u)); cbn in H; try discriminate H. inversion H; reflexivity.
  - destruct (Build.getitem E cx (Build.evaluate u1)); cbn in H; try discriminate H.
    destruct (Build.getitem E cx (Build.evaluate u2)); cbn in H; try discriminate H. inversion H; reflexivity.
  - destruct (Core.mapM _ ts); cbn in H; try discriminate H. inversion H; reflexivity.
  - destruct (Core.mapM _ _); cbn in H; try discriminate H. inversion H; reflexivity.
  - destruct (E n) as [[cd|]|]; try discriminate H. inversion H; reflexivity.
Qed.

(* ------------------------------------------------------------------ D. from the finite check to every annotation *)
Section M.
Variable D : dtables.
Let T := d_tbl D.
Hypothesis Hat : atoms_ok T = true.
Hypothesis Hreps : all_reps_ok D = true.

Lemma supported_canon : forall u, supported_head D (canon u) = supported_head D u.
Proof. destruct u; reflexivity. Qed.

Lemma kind_canon : forall u, kind_of T (canon u) = kind_of T u.
Proof.
  destruct u; try reflexivity; cbn [canon kind_of]; unfold sub_kind; rewrite <- tuple_fixed_canon; reflexivity.
Qed.

Lemma in_flat_map_intro : forall (A B : Type) (f : A -> list B) l x y, In x l -> In y (f x) -> In y (flat_map f l).
Proof. intros. apply in_flat_map. exists x. split; assumption. Qed.

Lemma cls_guard_in : forall c, cls_guard D c = true -> exists i, In (c, i) (t_cls T).
Proof.
  intros c H. unfold cls_guard in H. cbv zeta in H.
  repeat (apply andb_prop in H; destruct H as [H ?]).
  unfold cinfo in H. fold T in H. destruct (assocN c (t_cls T)) as [i|] eqn:Ha; [|discriminate].
  exists i. apply assocN_in. exact Ha.
Qed.

Lemma alias_known_in : forall a, alias_known D a = true -> exists v, In (a, v) (t_talias T).
Proof.
  intros a H. unfold alias_known in H. fold T in H.
  destruct (assocN a (t_talias T)) as [v|] eqn:Ha; [|discriminate]. exists v. apply assocN_in. exact Ha.
Qed.

Lemma canon_in_reps : forall u, supported_head D u = true -> In (canon u) (reps T).
Proof.
  intros u Hs. unfold reps.
  destruct u; cbn [supported_head] in Hs; try discriminate Hs; cbn [canon].
  - (* IClass *) destruct (cls_guard_in c Hs) as [i Hi].
    apply in_or_app. right. apply in_or_app. left.
    apply (in_flat_map_intro _ _ _ _ (c, i)); [exact Hi|]. left. reflexivity.
  - (* INone *) apply in_or_app. left. cbn. tauto.
  - (* ITyping *) apply andb_prop in Hs. destruct Hs as [Ha _]. destruct (alias_known_in a Ha) as [v Hv].
    apply in_or_app. right. apply in_or_app. right.
    apply (in_flat_map_intro _ _ _ _ (a, v)); [exact Hv|]. left. reflexivity.
  - (* ITypingSub *) apply andb_prop in Hs. destruct Hs as [Ha _]. destruct (alias_known_in a Ha) as [v Hv].
    apply in_or_app. right. apply in_or_app. right.
    apply (in_flat_map_intro _ _ _ _ (a, v)); [exact Hv|]. right. cbn [fst].
    apply in_map. apply canon_args_cases.
  - (* IClassSub *) destruct (cls_guard_in c Hs) as [i Hi].
    apply in_or_app. right. apply in_or_app. left.
    apply (in_flat_map_intro _ _ _ _ (c, i)); [exact Hi|]. right. cbn [fst].
    apply (in_flat_map_intro _ _ _ _ (canon_args args)); [apply canon_args_cases|]. left. reflexivity.
  - (* IUserSub *) destruct (cls_guard_in c Hs) as [i Hi].
    apply in_or_app. right. apply in_or_app. left.
    apply (in_flat_map_intro _ _ _ _ (c, i)); [exact Hi|]. right. cbn [fst].
    apply (in_flat_map_intro _ _ _ _ (canon_args args)); [apply canon_args_cases|]. right. left. reflexivity.
  - (* IUnion *) apply in_or_app. left. destruct sp; cbn; tauto.
  - (* ILiteral *) apply in_or_app. left. cbn. tauto.
  - (* IForwardRef *) apply in_or_app. left. cbn. tauto.
  - (* ICallable *) apply in_or_app. left. destruct typing_spelling; cbn; tauto.
Qed.

Lemma impl_res_ok : forall m r s, dres_eqb (impl_res m r) s = true -> exists c, r = DOk c /\ impl_class m c = s.
Proof.
  intros m r s H. destruct r as [c|e|n]; cbn in H; try discriminate.
  exists c. split; [reflexivity|]. apply String.eqb_eq. exact H.
Qed.

Lemma rep_facts : forall u, supported_head D u = true ->
  exists k, kind_of T (canon u) = Some k
    /\ dres_eqb (gm_u D (canon u)) (expected_u k) = true /\ dres_eqb (gm_m D (canon u)) (expected_m k) = true
    /\ isfinal T (canon u) = false /\ isclassvartype (canon u) = false.
Proof.
  intros u Hs. pose proof (canon_in_reps u Hs) as Hin.
  unfold all_reps_ok in Hreps. rewrite forallb_forall in Hreps. specialize (Hreps _ Hin).
  unfold rep_ok in Hreps. rewrite supported_canon, Hs in Hreps. cbn [implb] in Hreps. fold T in Hreps.
  apply andb_prop in Hreps. destruct Hreps as [Hr Hcv]. apply andb_prop in Hr. destruct Hr as [Hk Hf].
  destruct (kind_of T (canon u)) as [k|]; [|discriminate].
  apply andb_prop in Hk. destruct Hk as [Hu Hm].
  exists k. repeat split; try assumption; apply negb_true_iff; assumption.
Qed.

(* THE HEAD THEOREM: for every supported unwrapped annotation, whatever its parameters, the first match of each
   table builds the routine class the head kind stands for *)
Theorem heads_first_match : forall u, supported_head D u = true ->
  exists k, kind_of T u = Some k /\ first_u D u = DOk (expected_u k) /\ first_m D u = DOk (expected_m k).
Proof.
  intros u Hs. destruct (rep_facts u Hs) as [k [Hk [Hu [Hm _]]]].
  exists k. rewrite <- kind_canon. split; [exact Hk|].
  unfold gm_u, gm_m in *. rewrite vocab_canon in Hu, Hm. fold T in Hu, Hm.
  destruct (impl_res_ok _ _ _ Hu) as [cu [Hgu Hiu]]. destruct (impl_res_ok _ _ _ Hm) as [cm [Hgm Him]].
  unfold first_u, first_m. fold T.
  rewrite (first_match_canon T Hat _ _ _ _ Hgu), (first_match_canon T Hat _ _ _ _ Hgm).
  cbn [impl_res]. rewrite Hiu, Him. split; reflexivity.
Qed.

(* a supported head is no wrapper: unwrap() returns it *)
Lemma head_not_qualified : forall u, supported_head D u = true -> isfinal T u = false /\ isclassvartype u = false.
Proof.
  intros u Hs. destruct (rep_facts u Hs) as [k [_ [_ [_ [Hf Hc]]]]].
  pose proof (canon_sound T Hat P_isfinal u) as E1. pose proof (canon_sound T Hat P_isclassvartype u) as E2.
  assert (V1 : vocab u P_isfinal = true) by (destruct u; reflexivity).
  assert (V2 : vocab u P_isclassvartype = true) by (destruct u; reflexivity).
  specialize (E1 V1). specialize (E2 V2). unfold run_pred in E1, E2.
  cbn [origin_family_bases origin_family_tp raw_family_bases] in E1, E2.
  inversion E1 as [E1']. inversion E2 as [E2']. rewrite E1', E2'. split; assumption.
Qed.

Lemma should_unwrap_head : forall u, supported_head D u = true -> should_unwrap T u = false.
Proof.
  intros u Hs. destruct (head_not_qualified u Hs) as [Hf Hc]. unfold should_unwrap. rewrite Hf, Hc.
  apply andb_false_r.
Qed.

Lemma unwrap_head : forall n u, supported_head D u = true -> unwrap_fuel T (S n) u = Ok u.
Proof.
  intros n u Hs. cbn [unwrap_fuel]. rewrite (should_unwrap_head u Hs).
  destruct u; cbn [supported_head] in Hs; try discriminate Hs; reflexivity.
Qed.

Theorem heads_dispatch : forall u, supported_head D u = true ->
  exists k, kind_of T u = Some k /\ disp_u D u = DOk (expected_u k) /\ disp_m D u = DOk (expected_m k).
Proof.
  intros u Hs. destruct (heads_first_match u Hs) as [k [Hk [Hu Hm]]]. exists k. split; [exact Hk|].
  unfold disp_u, disp_m, dispatch, unwrap. fold T. rewrite (unwrap_head 199 u Hs). split; assumption.
Qed.

(* the two classes chosen are the two halves of one pair *)
Theorem heads_pairs : forall u cu cm, supported_head D u = true ->
  disp_u D u = DOk cu -> disp_m D u = DOk cm -> rcls_pairs cu cm.
Proof.
  intros u cu cm Hs Hu Hm. destruct (heads_dispatch u Hs) as [k [_ [Hu' Hm']]].
  rewrite Hu' in Hu. rewrite Hm' in Hm. inversion Hu. inversion Hm. exists k. split; reflexivity.
Qed.
(* ---- wrapped annotations: qualifiers, NewTypes, aliases (any nesting within the shape wrap_ok, any depth the
   unwrap model has fuel for) around a supported head *)
Hypothesis Hwt : wrap_tables_ok T = true.

Lemma supported_head_not_wrapper : forall u, supported_head D u = true -> is_wrapper u = false.
Proof. destruct u; cbn; intro H; try reflexivity; discriminate. Qed.

Lemma unwrap_supported : forall t, wrap_ok t = true -> wdepth t <= 200 -> supported_head D (peel t) = true ->
  unwrap T t = Ok (peel t).
Proof.
  intros t Hw Hd Hs. destruct (head_not_qualified _ Hs) as [Hf Hc].
  apply (unwrap_peel T Hat Hwt); try assumption. apply supported_head_not_wrapper. exact Hs.
Qed.

Theorem wrapped_dispatch : forall t, wrap_ok t = true -> wdepth t <= 200 -> supported_head D (peel t) = true ->
  exists k, kind_of T (peel t) = Some k /\ disp_u D t = DOk (expected_u k) /\ disp_m D t = DOk (expected_m k).
Proof.
  intros t Hw Hd Hs. destruct (heads_first_match _ Hs) as [k [Hk [Hu Hm]]]. exists k. split; [exact Hk|].
  unfold disp_u, disp_m, dispatch. fold T. rewrite (unwrap_supported t Hw Hd Hs). split; assumption.
Qed.

(* ---- whole annotations: every sub-annotation at any depth *)
Lemma supported_norm : forall x, supported D x = true ->
  supported D (normalize_typevar x) = true /\ is_typevar (normalize_typevar x) = false.
Proof.
  intros x H. destruct x; try (split; [exact H | reflexivity]).
  destruct bound as [b|]; cbn [normalize_typevar].
  - cbn [supported] in H. apply andb_prop in H. destruct H as [H1 H2]. apply negb_true_iff in H1. split; assumption.
  - destruct constraints as [|c0 cs]; [split; [exact H | reflexivity]|]. split; [|reflexivity].
    cbn [supported] in H. cbn [supported supported_head]. exact H.
Qed.

Lemma supported_peel : forall t, supported D t = true -> is_typevar t = false ->
  wrap_ok t = true /\ wdepth t <= 200 /\ supported_head D (peel t) = true
  /\ supported D (peel t) = true /\ is_typevar (peel t) = false.
Proof.
  assert (Hwrap : forall t s, peel t = peel s -> wrap_ok t = true -> wdepth t <= 200 ->
            supported_head D (peel t) = true -> supported D s = true ->
            (supported D s = true -> is_typevar s = false ->
               supported D (peel s) = true /\ is_typevar (peel s) = false) ->
            is_typevar (peel s) = false -> 
            wrap_ok t = true /\ wdepth t <= 200 /\ supported_head D (peel t) = true
            /\ supported D (peel t) = true /\ is_typevar (peel t) = false).
  { intros t s Hp Hw Hd Hs Hss IH Htv. split; [exact Hw|]. split; [exact Hd|]. split; [exact Hs|].
    rewrite Hp. split; [|exact Htv].
    destruct (is_typevar s) eqn:Es.
    - destruct s; cbn in Es, Htv; discriminate.
    - apply IH; [exact Hss | reflexivity]. }
  induction t; intros H Htv;
    try (cbn [peel wrap_ok wdepth]; repeat split; try reflexivity; try lia; try exact H;
         cbn [supported] in H; try exact H; apply andb_prop in H; tauto).
  - (* IFinal *) cbn [supported] in H.
    apply andb_prop in H. destruct H as [H Hsup]. apply andb_prop in H. destruct H as [H Hhead].
    apply andb_prop in H. destruct H as [Hwo Hdep]. apply Nat.leb_le in Hdep.
    assert (Htp : is_typevar (peel t) = false).
    { cbn [peel] in Hhead. destruct (peel t); try reflexivity. discriminate Hhead. }
    apply (Hwrap (IFinal t) t); try assumption; try reflexivity.
    intros A B. destruct (IHt A B) as [_ [_ [_ [C E]]]]. split; assumption.
  - (* IClassVar *) cbn [supported] in H.
    apply andb_prop in H. destruct H as [H Hsup]. apply andb_prop in H. destruct H as [H Hhead].
    apply andb_prop in H. destruct H as [Hwo Hdep]. apply Nat.leb_le in Hdep.
    assert (Htp : is_typevar (peel t) = false).
    { cbn [peel] in Hhead. destruct (peel t); try reflexivity. discriminate Hhead. }
    apply (Hwrap (IClassVar t) t); try assumption; try reflexivity.
    intros A B. destruct (IHt A B) as [_ [_ [_ [C E]]]]. split; assumption.
  - (* INewType *) cbn [supported] in H.
    apply andb_prop in H. destruct H as [H Hsup]. apply andb_prop in H. destruct H as [H Hhead].
    apply andb_prop in H. destruct H as [Hwo Hdep]. apply Nat.leb_le in Hdep.
    assert (Htp : is_typevar (peel t) = false).
    { cbn [peel] in Hhead. destruct (peel t); try reflexivity. discriminate Hhead. }
    apply (Hwrap (INewType nm t) t); try assumption; try reflexivity.
    intros A B. destruct (IHt A B) as [_ [_ [_ [C E]]]]. split; assumption.
  - (* IAlias *) cbn [supported] in H.
    apply andb_prop in H. destruct H as [H Hsup]. apply andb_prop in H. destruct H as [H Hhead].
    apply andb_prop in H. destruct H as [Hwo Hdep]. apply Nat.leb_le in Hdep.
    assert (Htp : is_typevar (peel t) = false).
    { cbn [peel] in Hhead. destruct (peel t); try reflexivity. discriminate Hhead. }
    apply (Hwrap (IAlias nm t) t); try assumption; try reflexivity.
    intros A B. destruct (IHt A B) as [_ [_ [_ [C E]]]]. split; assumption.
  - (* ITypeVar *) discriminate Htv.
Qed.

Lemma supported_params : forall u x, supported D u = true -> is_wrapper u = false -> In x (params u) ->
  is_ellipsis x = false -> supported D x = true.
Proof.
  intros u x H Hnw Hin He.
  destruct u; cbn [params] in Hin; try destruct Hin; cbn [supported] in H;
    apply andb_prop in H; destruct H as [_ H]; rewrite forallb_forall in H;
    specialize (H _ Hin); rewrite He in H; exact H.
Qed.

Lemma member_supported : forall s t, supported D t = true -> is_typevar t = false -> member s t ->
  supported D s = true /\ is_typevar s = false.
Proof.
  intros s t H Htv Hm. destruct Hm as [t x Hin He].
  destruct (supported_peel t H Htv) as [_ [_ [Hh [Hp _]]]].
  apply supported_norm. apply (supported_params (peel t) x Hp); try assumption.
  apply supported_head_not_wrapper. exact Hh.
Qed.

Lemma occurs_supported : forall s t, occurs s t -> supported D t = true -> is_typevar t = false ->
  supported D s = true /\ is_typevar s = false.
Proof.
  intros s t Ho. induction Ho as [t|s m t Hm Ho IH]; intros H Htv; [split; assumption|].
  destruct (member_supported m t H Htv Hm) as [A B]. apply IH; assumption.
Qed.

(* EVERYWHERE: in a supported annotation every sub-annotation, at any depth (parameters of parameters, members of
   unions, through NewTypes / aliases / qualifiers, type variables normalised), is dispatched to the routine class
   of its own head kind, on both sides *)
Theorem everywhere_dispatch : forall t s, supported D t = true -> is_typevar t = false -> occurs s t ->
  exists k, kind_of T (peel s) = Some k /\ disp_u D s = DOk (expected_u k) /\ disp_m D s = DOk (expected_m k).
Proof.
  intros t s H Htv Ho. destruct (occurs_supported s t Ho H Htv) as [Hs Hts].
  destruct (supported_peel s Hs Hts) as [Hw [Hd [Hh _]]]. apply wrapped_dispatch; assumption.
Qed.

(* ---- the mechanism model's constructor cases and the code's dispatch (two descriptions of one annotation) *)
Lemma bhead_eqb_eq : forall a b, bhead_eqb a b = true -> a = b.
Proof. destruct a; destruct b; cbn; intro H; try reflexivity; discriminate. Qed.

(* If the Core description tau and the syntactic description t of one annotation agree on the head (heads_agree = 0:
   decided on every run for generated annotations), then whatever routine Build.construct builds for tau is of the
   constructor that stands for the routine class the code's dispatch chooses for t, on both sides. *)
Theorem construct_matches_dispatch : forall E t tau dir cx r,
  heads_agree D E t tau = 0 ->
  Build.construct E dir cx (Build.unwrap E tau) = Core.Ok r ->
  exists k, kind_of T (peel t) = Some k /\ routine_bhead r = build_head k
    /\ disp_u D t = DOk (expected_u k) /\ disp_m D t = DOk (expected_m k).
Proof.
  intros E t tau dir cx r Ha Hc. unfold heads_agree in Ha. fold T in Ha.
  destruct (supported D t && negb (is_typevar t)) eqn:Hs; cbn [negb] in Ha; [|discriminate].
  apply andb_prop in Hs. destruct Hs as [Hs Htv]. apply negb_true_iff in Htv.
  destruct (kind_of T (peel t)) as [k|] eqn:Hk; [|discriminate].
  destruct (ty_bhead E (Build.unwrap E tau)) as [h|] eqn:Hh; [|discriminate].
  destruct (bhead_eqb (build_head k) h) eqn:Hb; [|discriminate]. apply bhead_eqb_eq in Hb.
  rewrite (construct_head _ _ _ _ _ Hc) in Hh. inversion Hh as [Hh'].
  destruct (everywhere_dispatch t t Hs Htv (occurs_here t)) as [k' [Hk' [Hu Hm]]].
  rewrite Hk in Hk'. inversion Hk'; subst k'.
  exists k. split; [reflexivity|]. split; [congruence|]. split; assumption.
Qed.
End M.
