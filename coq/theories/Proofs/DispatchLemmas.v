(* Proof scripts for the dispatch bridge (Model/Dispatch.v).  Table-independent: everything is stated for ANY
   inspection tables and ANY two handler tables satisfying computable conditions (atoms_ok, all_reps_ok,
   wrap_tables_ok) that vm_compute decides for the reflected ones (dyn/Dispatch/Dispatch.v). *)
From Coq Require Import List NArith ZArith String Ascii Bool Lia.
Import ListNotations.
Require Import TL.Model.Inspect TL.Model.InspectSpec TL.Model.Dispatch TL.Proofs.InspectLemmas.
Local Open Scope string_scope.

(* ------------------------------------------------------------------ A. strings, atoms, canonical arguments *)
Lemma has_char_app : forall c a b, has_char c (a +++ b) = has_char c a || has_char c b.
Proof. intros c a b. induction a as [|x a IH]; cbn; [reflexivity|]. rewrite IH, orb_assoc. reflexivity. Qed.

Lemma atom_neq : forall t x, is_atom x = true -> is_atom t = false -> ity_eqb t x = false.
Proof.
  intros t x Hx Ht. destruct x; cbn in Hx; try discriminate Hx; destruct t; cbn in Ht; try discriminate Ht; reflexivity.
Qed.

Lemma mem_atoms_false : forall l t, forallb is_atom l = true -> is_atom t = false -> mem_ity t l = false.
Proof.
  induction l as [|x r IH]; intros t Hl Ht; [reflexivity|].
  cbn in Hl. apply andb_prop in Hl. destruct Hl as [Hx Hr].
  unfold mem_ity in *. cbn. rewrite (atom_neq t x Hx Ht). cbn. apply IH; assumption.
Qed.

Lemma assoc_atoms_none : forall m t, forallb (fun kv => is_atom (fst kv)) m = true -> is_atom t = false ->
  assoc_ity t m = None.
Proof.
  induction m as [|[k v] r IH]; intros t Hm Ht; [reflexivity|].
  cbn in Hm. apply andb_prop in Hm. destruct Hm as [Hk Hr].
  cbn. rewrite (atom_neq t k Hk Ht). apply IH; assumption.
Qed.

Lemma canon_args_norm : forall l, map normalize_typevar (canon_args l) = canon_args l.
Proof.
  intro l. unfold canon_args. destruct (map normalize_typevar l) as [|x r]; [reflexivity|].
  destruct (last_is_ellipsis (x :: r)); reflexivity.
Qed.

Lemma canon_args_cases : forall l, In (canon_args l) arg_reps.
Proof.
  intro l. unfold canon_args, arg_reps. destruct (map normalize_typevar l) as [|x r]; [left; reflexivity|].
  destruct (last_is_ellipsis (x :: r)); [right; left; reflexivity | right; right; left; reflexivity].
Qed.

Lemma tuple_fixed_canon : forall l, tuple_fixed l = tuple_fixed (canon_args l).
Proof.
  intro l. unfold tuple_fixed, canon_args. destruct l as [|a r]; [reflexivity|].
  cbn [map]. destruct (last_is_ellipsis (normalize_typevar a :: map normalize_typevar r)) eqn:He; reflexivity.
Qed.

Section L.
Variable T : tables.

(* isfixedtupletype looks at the parameters only through "none" and "the last one is the Ellipsis" *)
Definition fixed_core (a : list ity) (has_dunder : bool) (og : option ity) : bool :=
  let is_empty := match a with [] => true | _ => false end in
  if (is_empty && negb has_dunder) || (negb is_empty && last_is_ellipsis a) then false
  else match og with Some o => safe_issubclass T o [c_tuple] | None => false end.

Lemma fixed_core_canon : forall l hd og,
  fixed_core (map normalize_typevar l) hd og = fixed_core (canon_args l) hd og.
Proof.
  intros l hd og. unfold fixed_core, canon_args.
  destruct (map normalize_typevar l) as [|x r]; [reflexivity|].
  destruct (last_is_ellipsis (x :: r)) eqn:He; cbn; reflexivity.
Qed.

Lemma show_bracket_classsub : forall c l, has_char "["%char (show T (IClassSub c l)) = true.
Proof. intros. unfold show. cbn [repr]. rewrite !has_char_app. cbn. rewrite !orb_true_r. reflexivity. Qed.
Lemma show_bracket_usersub : forall c l, has_char "["%char (show T (IUserSub c l)) = true.
Proof. intros. unfold show. cbn [repr]. rewrite !has_char_app. cbn. rewrite !orb_true_r. reflexivity. Qed.
Lemma show_bracket_typingsub : forall a l, has_char "["%char (show T (ITypingSub a l)) = true.
Proof. intros. unfold show. cbn [repr]. rewrite !has_char_app. cbn. rewrite !orb_true_r. reflexivity. Qed.

Lemma issub_true : forall t, has_char "["%char (show T t) = true -> issubscriptedgeneric T t = true.
Proof.
  intros t H. unfold issubscriptedgeneric. cbv zeta. rewrite H, andb_true_r.
  apply orb_true_iff. right. unfold isgeneric. cbv zeta. rewrite H. rewrite !orb_true_r. reflexivity.
Qed.

(* ------------------------------------------------------------------ B. the answer on t is the answer on canon t *)
Hypothesis Hat : atoms_ok T = true.

Lemma unres_atoms : forallb is_atom (t_unresolvable T) = true.
Proof. unfold atoms_ok in Hat. apply andb_prop in Hat. tauto. Qed.
Lemma gmap_atoms : forallb (fun kv => is_atom (fst kv)) (t_generic_map T) = true.
Proof. unfold atoms_ok in Hat. apply andb_prop in Hat. tauto. Qed.

Lemma canon_sound_classsub : forall p c l, vocab (IClassSub c l) p = true ->
  run_pred T p (IClassSub c l) = run_pred T p (IClassSub c (canon_args l)).
Proof.
  intros p c l Hv. cbn [vocab] in Hv.
  destruct p; try discriminate Hv; try reflexivity;
    unfold run_pred; cbn [origin_family_bases origin_family_tp raw_family_bases].
  - change (isfixedtupletype T (IClassSub c l)) with (fixed_core (map normalize_typevar l) true (Some (IClass c))).
    change (isfixedtupletype T (IClassSub c (canon_args l)))
      with (fixed_core (map normalize_typevar (canon_args l)) true (Some (IClass c))).
    rewrite canon_args_norm, fixed_core_canon. reflexivity.
  - rewrite !issub_true by apply show_bracket_classsub. reflexivity.
  - unfold isunresolvable. cbn [get_origin].
    rewrite !(mem_atoms_false _ (IClassSub c _) unres_atoms) by reflexivity. reflexivity.
Qed.

Lemma canon_sound_usersub : forall p c l, vocab (IUserSub c l) p = true ->
  run_pred T p (IUserSub c l) = run_pred T p (IUserSub c (canon_args l)).
Proof.
  intros p c l Hv. cbn [vocab] in Hv.
  destruct p; try discriminate Hv; try reflexivity;
    unfold run_pred; cbn [origin_family_bases origin_family_tp raw_family_bases].
  - change (isfixedtupletype T (IUserSub c l)) with (fixed_core (map normalize_typevar l) true (Some (IClass c))).
    change (isfixedtupletype T (IUserSub c (canon_args l)))
      with (fixed_core (map normalize_typevar (canon_args l)) true (Some (IClass c))).
    rewrite canon_args_norm, fixed_core_canon. reflexivity.
  - rewrite !issub_true by apply show_bracket_usersub. reflexivity.
  - unfold isunresolvable. cbn [get_origin].
    rewrite !(mem_atoms_false _ (IUserSub c _) unres_atoms) by reflexivity. reflexivity.
Qed.

Lemma canon_sound_typingsub : forall p a l, vocab (ITypingSub a l) p = true ->
  run_pred T p (ITypingSub a l) = run_pred T p (ITypingSub a (canon_args l)).
Proof.
  intros p a l Hv. cbn [vocab] in Hv.
  destruct p; try discriminate Hv; try reflexivity;
    unfold run_pred; cbn [origin_family_bases origin_family_tp raw_family_bases].
  - change (isfixedtupletype T (ITypingSub a l))
      with (fixed_core (map normalize_typevar l) true (Some (IClass (ta_origin T a)))).
    change (isfixedtupletype T (ITypingSub a (canon_args l)))
      with (fixed_core (map normalize_typevar (canon_args l)) true (Some (IClass (ta_origin T a)))).
    rewrite canon_args_norm, fixed_core_canon. reflexivity.
  - rewrite !issub_true by apply show_bracket_typingsub. reflexivity.
  - unfold isunresolvable. cbn [get_origin].
    rewrite !(mem_atoms_false _ (ITypingSub a _) unres_atoms) by reflexivity. reflexivity.
Qed.

Lemma canon_sound_union : forall p sp l, vocab (IUnion sp l) p = true ->
  run_pred T p (IUnion sp l) = run_pred T p (IUnion sp []).
Proof.
  intros p sp l Hv. cbn [vocab] in Hv.
  destruct sp; destruct p; try discriminate Hv; try reflexivity;
    unfold run_pred; cbn [origin_family_bases origin_family_tp raw_family_bases];
    unfold isunresolvable; cbn [get_origin];
    rewrite !(mem_atoms_false _ (IUnion _ _) unres_atoms) by reflexivity; reflexivity.
Qed.

Lemma canon_sound_literal : forall p vs, vocab (ILiteral vs) p = true ->
  run_pred T p (ILiteral vs) = run_pred T p (ILiteral []).
Proof.
  intros p vs Hv. cbn [vocab] in Hv.
  destruct p; try discriminate Hv; try reflexivity;
    unfold run_pred; cbn [origin_family_bases origin_family_tp raw_family_bases].
  unfold isunresolvable. cbn [get_origin].
  rewrite !(mem_atoms_false _ (ILiteral _) unres_atoms) by reflexivity. reflexivity.
Qed.

(* origin() leaves a forward reference alone *)
Lemma origin_fref : forall s m, origin T (IForwardRef s m) = IForwardRef s m.
Proof.
  intros s m. unfold origin. cbv zeta. cbn [resolve_supertype isclassvartype resolve_wrappers get_origin].
  unfold isbuiltintype. cbn [resolve_supertype in_builtin type_in type_of orb].
  unfold check_generics. rewrite (assoc_atoms_none _ (IForwardRef s m) gmap_atoms) by reflexivity.
  reflexivity.
Qed.

Lemma canon_sound_fref : forall p s m, vocab (IForwardRef s m) p = true ->
  run_pred T p (IForwardRef s m) = run_pred T p (IForwardRef "" None).
Proof.
  intros p s m Hv. cbn [vocab] in Hv.
  destruct p; try discriminate Hv; try reflexivity;
    unfold run_pred; cbn [origin_family_bases origin_family_tp raw_family_bases].
  unfold isfinal. rewrite !origin_fref. reflexivity.
Qed.

Lemma canon_sound_callable : forall p b ps r, vocab (ICallable b ps r) p = true ->
  run_pred T p (ICallable b ps r) = run_pred T p (ICallable b None INone).
Proof.
  intros p b ps r Hv. cbn [vocab] in Hv.
  destruct p; try discriminate Hv; try reflexivity;
    unfold run_pred; cbn [origin_family_bases origin_family_tp raw_family_bases].
  unfold isunresolvable. cbn [get_origin].
  rewrite !(mem_atoms_false _ (ICallable b _ _) unres_atoms) by reflexivity. reflexivity.
Qed.

Theorem canon_sound : forall p t, vocab t p = true -> run_pred T p t = run_pred T p (canon t).
Proof.
  intros p t Hv. destruct t; cbn [canon]; try reflexivity.
  - apply canon_sound_typingsub; assumption.
  - apply canon_sound_classsub; assumption.
  - apply canon_sound_usersub; assumption.
  - apply canon_sound_union with (l := args); assumption.
  - apply canon_sound_literal with (vs := vs); assumption.
  - apply canon_sound_fref with (s := arg) (m := module); assumption.
  - apply canon_sound_callable with (ps := ps) (r := t); assumption.
Qed.

Lemma vocab_canon : forall t, vocab (canon t) = vocab t.
Proof. destruct t; reflexivity. Qed.

(* ------------------------------------------------------------------ C. the guarded match is the match *)
Lemma eval_hpred_inv : forall v u u',
  (forall p, v p = true -> run_pred T p u = run_pred T p u') ->
  forall h, hpred_in v h = true -> eval_hpred T h u = eval_hpred T h u'.
Proof.
  intros v u u' Hinv. induction h as [n|p IHp q IHq]; cbn [hpred_in eval_hpred]; intro Hin.
  - destruct (pred_of_name n) as [pr|]; [|discriminate]. rewrite (Hinv pr Hin). reflexivity.
  - apply andb_prop in Hin. destruct Hin as [Hp Hq]. rewrite (IHp Hp), (IHq Hq). reflexivity.
Qed.

Lemma gmatch_sound : forall v u u',
  (forall p, v p = true -> run_pred T p u = run_pred T p u') ->
  forall hs fb r, gmatch T v hs fb u' = DOk r -> first_match T hs fb u = DOk r.
Proof.
  intros v u u' Hinv. induction hs as [|[h c] rest IH]; intros fb r Hg; cbn [gmatch first_match] in *; [exact Hg|].
  destruct (hpred_in v h) eqn:Hin; [|discriminate].
  rewrite (eval_hpred_inv v u u' Hinv h Hin).
  destruct (eval_hpred T h u') as [[|]|e|n]; try discriminate; [exact Hg | apply IH; exact Hg].
Qed.

Theorem first_match_canon : forall hs fb u r,
  gmatch T (vocab u) hs fb (canon u) = DOk r -> first_match T hs fb u = DOk r.
Proof.
  intros hs fb u r H. apply (gmatch_sound (vocab u) u (canon u)); [|exact H].
  intros p Hp. apply canon_sound. exact Hp.
Qed.
End L.

(* ------------------------------------------------------------------ D. from the finite check to every annotation *)
Section M.
Variable D : dtables.
Let T := d_tbl D.
Hypothesis Hat : atoms_ok T = true.
Hypothesis Hreps : all_reps_ok D = true.

Lemma supported_canon : forall u, supported_head D (canon u) = supported_head D u.
Proof. destruct u; reflexivity. Qed.

Lemma kind_canon : forall u, kind_of T (canon u) = kind_of T u.
Proof.
  destruct u; try reflexivity; cbn [canon kind_of]; unfold sub_kind; rewrite <- tuple_fixed_canon; reflexivity.
Qed.

Lemma in_flat_map_intro : forall (A B : Type) (f : A -> list B) l x y, In x l -> In y (f x) -> In y (flat_map f l).
Proof. intros. apply in_flat_map. exists x. split; assumption. Qed.

Lemma cls_guard_in : forall c, cls_guard D c = true -> exists i, In (c, i) (t_cls T).
Proof.
  intros c H. unfold cls_guard in H. cbv zeta in H.
  repeat (apply andb_prop in H; destruct H as [H ?]).
  unfold cinfo in H. fold T in H. destruct (assocN c (t_cls T)) as [i|] eqn:Ha; [|discriminate].
  exists i. apply assocN_in. exact Ha.
Qed.

Lemma alias_known_in : forall a, alias_known D a = true -> exists v, In (a, v) (t_talias T).
Proof.
  intros a H. unfold alias_known in H. fold T in H.
  destruct (assocN a (t_talias T)) as [v|] eqn:Ha; [|discriminate]. exists v. apply assocN_in. exact Ha.
Qed.

Lemma canon_in_reps : forall u, supported_head D u = true -> In (canon u) (reps T).
Proof.
  intros u Hs. unfold reps.
  destruct u; cbn [supported_head] in Hs; try discriminate Hs; cbn [canon].
  - (* IClass *) destruct (cls_guard_in c Hs) as [i Hi].
    apply in_or_app. right. apply in_or_app. left.
    apply (in_flat_map_intro _ _ _ _ (c, i)); [exact Hi|]. left. reflexivity.
  - (* INone *) apply in_or_app. left. cbn. tauto.
  - (* ITyping *) apply andb_prop in Hs. destruct Hs as [Ha _]. destruct (alias_known_in a Ha) as [v Hv].
    apply in_or_app. right. apply in_or_app. right.
    apply (in_flat_map_intro _ _ _ _ (a, v)); [exact Hv|]. left. reflexivity.
  - (* ITypingSub *) apply andb_prop in Hs. destruct Hs as [Ha _]. destruct (alias_known_in a Ha) as [v Hv].
    apply in_or_app. right. apply in_or_app. right.
    apply (in_flat_map_intro _ _ _ _ (a, v)); [exact Hv|]. right. cbn [fst].
    apply in_map. apply canon_args_cases.
  - (* IClassSub *) destruct (cls_guard_in c Hs) as [i Hi].
    apply in_or_app. right. apply in_or_app. left.
    apply (in_flat_map_intro _ _ _ _ (c, i)); [exact Hi|]. right. cbn [fst].
    apply (in_flat_map_intro _ _ _ _ (canon_args args)); [apply canon_args_cases|]. left. reflexivity.
  - (* IUserSub *) destruct (cls_guard_in c Hs) as [i Hi].
    apply in_or_app. right. apply in_or_app. left.
    apply (in_flat_map_intro _ _ _ _ (c, i)); [exact Hi|]. right. cbn [fst].
    apply (in_flat_map_intro _ _ _ _ (canon_args args)); [apply canon_args_cases|]. right. left. reflexivity.
  - (* IUnion *) apply in_or_app. left. destruct sp; cbn; tauto.
  - (* ILiteral *) apply in_or_app. left. cbn. tauto.
  - (* IForwardRef *) apply in_or_app. left. cbn. tauto.
  - (* ICallable *) apply in_or_app. left. destruct typing_spelling; cbn; tauto.
Qed.

Lemma impl_res_ok : forall m r s, dres_eqb (impl_res m r) s = true -> exists c, r = DOk c /\ impl_class m c = s.
Proof.
  intros m r s H. destruct r as [c|e|n]; cbn in H; try discriminate.
  exists c. split; [reflexivity|]. apply String.eqb_eq. exact H.
Qed.

Lemma rep_facts : forall u, supported_head D u = true ->
  exists k, kind_of T (canon u) = Some k
    /\ dres_eqb (gm_u D (canon u)) (expected_u k) = true /\ dres_eqb (gm_m D (canon u)) (expected_m k) = true
    /\ isfinal T (canon u) = false /\ isclassvartype (canon u) = false.
Proof.
  intros u Hs. pose proof (canon_in_reps u Hs) as Hin.
  unfold all_reps_ok in Hreps. rewrite forallb_forall in Hreps. specialize (Hreps _ Hin).
  unfold rep_ok in Hreps. rewrite supported_canon, Hs in Hreps. cbn [implb] in Hreps. fold T in Hreps.
  apply andb_prop in Hreps. destruct Hreps as [Hr Hcv]. apply andb_prop in Hr. destruct Hr as [Hk Hf].
  destruct (kind_of T (canon u)) as [k|]; [|discriminate].
  apply andb_prop in Hk. destruct Hk as [Hu Hm].
  exists k. repeat split; try assumption; apply negb_true_iff; assumption.
Qed.

(* THE HEAD THEOREM: for every supported unwrapped annotation, whatever its parameters, the first match of each
   table builds the routine class the head kind stands for *)
Theorem heads_first_match : forall u, supported_head D u = true ->
  exists k, kind_of T u = Some k /\ first_u D u = DOk (expected_u k) /\ first_m D u = DOk (expected_m k).
Proof.
  intros u Hs. destruct (rep_facts u Hs) as [k [Hk [Hu [Hm _]]]].
  exists k. rewrite <- kind_canon. split; [exact Hk|].
  unfold gm_u, gm_m in *. rewrite vocab_canon in Hu, Hm. fold T in Hu, Hm.
  destruct (impl_res_ok _ _ _ Hu) as [cu [Hgu Hiu]]. destruct (impl_res_ok _ _ _ Hm) as [cm [Hgm Him]].
  unfold first_u, first_m. fold T.
  rewrite (first_match_canon T Hat _ _ _ _ Hgu), (first_match_canon T Hat _ _ _ _ Hgm).
  cbn [impl_res]. rewrite Hiu, Him. split; reflexivity.
Qed.

(* a supported head is no wrapper: unwrap() returns it *)
Lemma head_not_qualified : forall u, supported_head D u = true -> isfinal T u = false /\ isclassvartype u = false.
Proof.
  intros u Hs. destruct (rep_facts u Hs) as [k [_ [_ [_ [Hf Hc]]]]].
  pose proof (canon_sound T Hat P_isfinal u) as E1. pose proof (canon_sound T Hat P_isclassvartype u) as E2.
  assert (V1 : vocab u P_isfinal = true) by (destruct u; reflexivity).
  assert (V2 : vocab u P_isclassvartype = true) by (destruct u; reflexivity).
  specialize (E1 V1). specialize (E2 V2). unfold run_pred in E1, E2.
  cbn [origin_family_bases origin_family_tp raw_family_bases] in E1, E2.
  inversion E1 as [E1']. inversion E2 as [E2']. rewrite E1', E2'. split; assumption.
Qed.

Lemma should_unwrap_head : forall u, supported_head D u = true -> should_unwrap T u = false.
Proof.
  intros u Hs. destruct (head_not_qualified u Hs) as [Hf Hc]. unfold should_unwrap. rewrite Hf, Hc.
  apply andb_false_r.
Qed.

Lemma unwrap_head : forall n u, supported_head D u = true -> unwrap_fuel T (S n) u = Ok u.
Proof.
  intros n u Hs. cbn [unwrap_fuel]. rewrite (should_unwrap_head u Hs).
  destruct u; cbn [supported_head] in Hs; try discriminate Hs; reflexivity.
Qed.

Theorem heads_dispatch : forall u, supported_head D u = true ->
  exists k, kind_of T u = Some k /\ disp_u D u = DOk (expected_u k) /\ disp_m D u = DOk (expected_m k).
Proof.
  intros u Hs. destruct (heads_first_match u Hs) as [k [Hk [Hu Hm]]]. exists k. split; [exact Hk|].
  unfold disp_u, disp_m, dispatch, unwrap. fold T. rewrite (unwrap_head 199 u Hs). split; assumption.
Qed.

(* the two classes chosen are the two halves of one pair *)
Theorem heads_pairs : forall u cu cm, supported_head D u = true ->
  disp_u D u = DOk cu -> disp_m D u = DOk cm -> rcls_pairs cu cm.
Proof.
  intros u cu cm Hs Hu Hm. destruct (heads_dispatch u Hs) as [k [_ [Hu' Hm']]].
  rewrite Hu' in Hu. rewrite Hm' in Hm. inversion Hu. inversion Hm. exists k. split; reflexivity.
Qed.
End M.
