(* Proof scripts for property C18 (model: Model/Iter.v). *)
From Coq Require Import List ZArith NArith String Ascii Bool Lia PeanoNat.
Import ListNotations.
Require Import TL.Model.Iter.

Definition tup' (kv : val * val) : val := tup (fst kv) (snd kv).

(* ---------------------------------------------------------------------------------- *)
(* peeking                                                                            *)
(* ---------------------------------------------------------------------------------- *)
Lemma hd_is_pair : forall l, is_pair_elem (hd empty_tuple l) = first_is_pair l.
Proof. intros [|e r]; reflexivity. Qed.

Lemma peek_default_new : forall l,
  exists p', pk_peek_default empty_tuple (pk_new l) = (hd empty_tuple l, p') /\
             pk_drain p' = (l, List.length l).
Proof.
  intros [|v r].
  - exists (pk_new []). split; reflexivity.
  - exists {| pk_cache := [v]; pk_rest := r; pk_drawn := 1 |}. split; reflexivity.
Qed.

Lemma peek_new_cons : forall v r,
  exists p', pk_peek (pk_new (v :: r)) = Ok (v, p') /\ pk_drain p' = (v :: r, S (List.length r)).
Proof.
  intros v r. exists {| pk_cache := [v]; pk_rest := r; pk_drawn := 1 |}. split; reflexivity.
Qed.

(* ---------------------------------------------------------------------------------- *)
(* strategy choice                                                                    *)
(* ---------------------------------------------------------------------------------- *)
Lemma get_enum : forall c cl,
  isiterabletype cl = true -> ismappingtype cl = false -> isnamedtuple cl = false ->
  get_items_iter c cl = Ok SEnumerate.
Proof.
  intros c cl Hi Hm Hn. destruct cl; cbn in *; try discriminate; reflexivity.
Qed.

(* the strategy is a function of the class alone: the per-class cache cannot be observed *)
Lemma strategy_per_class : forall c x y, class_of x = class_of y ->
  get_items_iter c (class_of x) = get_items_iter c (class_of y).
Proof. intros c x y H. rewrite H. reflexivity. Qed.

(* ---------------------------------------------------------------------------------- *)
(* the two iterable paths                                                             *)
(* ---------------------------------------------------------------------------------- *)
Definition iterable_result (x : val) : list val :=
  if first_is_pair (elems x) then elems x else map tup' (enumerate (elems x)).

Lemma items_seq_path : forall c x,
  isiterabletype (class_of x) = true -> ismappingtype (class_of x) = false ->
  isnamedtuple (class_of x) = false -> issequencetype (class_of x) = true ->
  iteritems c x = (Ok (iterable_result x), advance x (List.length (elems x))).
Proof.
  intros c x Hi Hm Hn Hs. unfold iteritems, is_iterable_of_pairs, iterable_result.
  rewrite Hi, Hm, Hn, Hs, andb_false_r. cbn [negb orb].
  rewrite hd_is_pair. destruct (first_is_pair (elems x)) eqn:Hp.
  - reflexivity.
  - rewrite (get_enum c _ Hi Hm Hn). reflexivity.
Qed.

Lemma items_peek_path : forall x,
  isiterabletype (class_of x) = true -> ismappingtype (class_of x) = false ->
  isnamedtuple (class_of x) = false -> issequencetype (class_of x) = false ->
  iteritems repaired x = (Ok (iterable_result x), advance x (List.length (elems x))).
Proof.
  intros x Hi Hm Hn Hs. unfold iteritems, is_iterable_of_pairs, iterable_result.
  rewrite Hi, Hm, Hn, Hs. cbn [negb orb andb fix_namedtuple fix_peek_default repaired].
  destruct (peek_default_new (elems x)) as [p' [Hpk Hdr]]. rewrite Hpk.
  rewrite hd_is_pair. destruct (first_is_pair (elems x)) eqn:Hp.
  - cbn [iter_it]. rewrite Hdr. reflexivity.
  - rewrite (get_enum repaired _ Hi Hm Hn). cbn [apply_strategy iter_it]. rewrite Hdr. reflexivity.
Qed.

(* the pinned tree agrees on the peek path as long as there is a first element *)
Lemma items_peek_path_pinned_nonempty : forall x v r,
  isiterabletype (class_of x) = true -> ismappingtype (class_of x) = false ->
  isnamedtuple (class_of x) = false -> issequencetype (class_of x) = false ->
  elems x = v :: r ->
  iteritems pinned x = (Ok (iterable_result x), advance x (List.length (elems x))).
Proof.
  intros x v r Hi Hm Hn Hs He. unfold iteritems, is_iterable_of_pairs, iterable_result.
  rewrite Hi, Hm, Hs. cbn [negb orb andb fix_namedtuple fix_peek_default pinned].
  rewrite He. destruct (peek_new_cons v r) as [p' [Hpk Hdr]]. rewrite Hpk.
  cbn [first_is_pair]. destruct (is_pair_elem v) eqn:Hp.
  - cbn [iter_it]. rewrite Hdr. reflexivity.
  - rewrite (get_enum pinned _ Hi Hm Hn). cbn [apply_strategy iter_it]. rewrite Hdr. reflexivity.
Qed.

Lemma values_iterable : forall c x,
  isiterabletype (class_of x) = true -> ismappingtype (class_of x) = false ->
  isnamedtuple (class_of x) = false ->
  itervalues c x = (Ok (map snd (enumerate (elems x))), advance x (List.length (elems x))).
Proof.
  intros c x Hi Hm Hn. unfold itervalues. rewrite (get_enum c _ Hi Hm Hn). reflexivity.
Qed.

Lemma snd_enum_from : forall l i, map snd (enum_from i l) = l.
Proof. induction l as [|v r IH]; intros i; cbn [enum_from map snd]; [reflexivity | rewrite IH; reflexivity]. Qed.

Lemma snd_enumerate : forall l, map snd (enumerate l) = l.
Proof. intros l. apply snd_enum_from. Qed.

(* ---------------------------------------------------------------------------------- *)
(* structured instances                                                               *)
(* ---------------------------------------------------------------------------------- *)
Lemma fields_items_ok : forall x names,
  forallb (has_attr x) names = true ->
  fields_items x names =
  Ok (flat_map (fun a => match attr x a with Some v => [(VStr a, v)] | None => [] end) names).
Proof.
  intros x names. induction names as [|a r IH]; intros H.
  - reflexivity.
  - cbn [forallb] in H. apply andb_prop in H. destruct H as [Ha Hr].
    cbn [fields_items flat_map]. unfold has_attr in Ha.
    destruct (attr x a) as [v|] eqn:Hat; [|discriminate].
    rewrite (IH Hr). reflexivity.
Qed.

Lemma is_nil_true : forall A (l : list A), is_nil l = true -> l = [].
Proof. intros A [|a l] H; [reflexivity | discriminate]. Qed.

(* the pairs the repaired field iterator produces for a well-formed instance *)
Lemma obj_strategy_ok : forall d sv dict ca,
  wf_obj (VObj d sv dict ca) = true ->
  apply_strategy repaired (make_fields_iterator repaired d) (ItVal (VObj d sv dict ca))
  = (Ok (spec_obj_pairs (VObj d sv dict ca)), 0).
Proof.
  intros d sv dict ca Hwf. set (x := VObj d sv dict ca) in *.
  unfold wf_obj in Hwf. cbn [x] in Hwf. fold x in Hwf.
  apply andb_prop in Hwf. destruct Hwf as [Hdict Hwf].
  unfold make_fields_iterator, hints_of, spec_obj_pairs. cbn [fix_no_sig_hints fix_vars_nodict repaired x andb]. fold x.
  destruct (c_flavour d) eqn:Hfl.
  - (* dataclass *)
    apply andb_prop in Hwf. destruct Hwf as [Hwf Hemp]. apply andb_prop in Hwf. destruct Hwf as [Hdc Hattr].
    rewrite Hdc. destruct (public (c_dc_fields d)) as [|a r] eqn:Hpub.
    + cbn [is_nil negb orb] in Hemp. apply andb_prop in Hemp. destruct Hemp as [Hs Hv].
      apply is_nil_true in Hs. apply is_nil_true in Hv.
      destruct (c_slots d) as [sl|] eqn:Hsl.
      * rewrite Hs. cbn [flat_map]. destruct dict as [dd|]; cbn [apply_strategy x dict_items] in *;
          [rewrite Hv; reflexivity | try discriminate Hdict; reflexivity].
      * cbn [flat_map]. destruct dict as [dd|]; cbn [apply_strategy x dict_items] in *;
          [rewrite Hv; reflexivity | try discriminate Hdict; reflexivity].
    + cbn [apply_strategy]. rewrite (fields_items_ok x (a :: r) Hattr). reflexivity.
  - (* annotated *)
    apply andb_prop in Hwf. destruct Hwf as [Hwf Hemp]. apply andb_prop in Hwf. destruct Hwf as [Hdc Hattr].
    apply negb_true_iff in Hdc. rewrite Hdc. destruct (public (c_hints d)) as [|a r] eqn:Hpub.
    + cbn [is_nil negb orb] in Hemp. apply andb_prop in Hemp. destruct Hemp as [Hs Hv].
      apply is_nil_true in Hs. apply is_nil_true in Hv.
      destruct (c_slots d) as [sl|] eqn:Hsl.
      * rewrite Hs. cbn [flat_map]. destruct dict as [dd|]; cbn [apply_strategy x dict_items] in *;
          [rewrite Hv; reflexivity | try discriminate Hdict; reflexivity].
      * cbn [flat_map]. destruct dict as [dd|]; cbn [apply_strategy x dict_items] in *;
          [rewrite Hv; reflexivity | try discriminate Hdict; reflexivity].
    + cbn [apply_strategy]. rewrite (fields_items_ok x (a :: r) Hattr). reflexivity.
  - (* slots only *)
    apply andb_prop in Hwf. destruct Hwf as [Hwf Hemp]. apply andb_prop in Hwf. destruct Hwf as [Hwf Hattr].
    apply andb_prop in Hwf. destruct Hwf as [Hwf Hsome]. apply andb_prop in Hwf. destruct Hwf as [Hdc Hh].
    apply negb_true_iff in Hdc. rewrite Hdc. apply is_nil_true in Hh. rewrite Hh.
    destruct (c_slots d) as [sl|] eqn:Hsl; [|discriminate].
    destruct (public sl) as [|a r] eqn:Hpub.
    + cbn [is_nil negb orb] in Hemp. apply is_nil_true in Hemp.
      cbn [flat_map]. destruct dict as [dd|]; cbn [apply_strategy x dict_items] in *;
        [rewrite Hemp; reflexivity | reflexivity].
    + cbn [apply_strategy]. rewrite (fields_items_ok x (a :: r) Hattr). reflexivity.
  - (* vars only *)
    apply andb_prop in Hwf. destruct Hwf as [Hwf Hs]. apply andb_prop in Hwf. destruct Hwf as [Hdc Hh].
    apply negb_true_iff in Hdc. rewrite Hdc. apply is_nil_true in Hh. rewrite Hh.
    apply is_nil_true in Hs.
    destruct (c_slots d) as [sl|] eqn:Hsl.
    + rewrite Hs. destruct dict as [dd|]; reflexivity.
    + destruct dict as [dd|]; [reflexivity | discriminate Hdict].
Qed.

(* ---------------------------------------------------------------------------------- *)
(* the property                                                                       *)
(* ---------------------------------------------------------------------------------- *)
Lemma advance_iter : forall k n l, Nat.leb n (List.length l) = true ->
  advance (VIter k n l) (List.length (elems (VIter k n l))) = VIter k (List.length l) l.
Proof.
  intros k n l H. apply Nat.leb_le in H. cbn [advance elems]. rewrite skipn_length.
  f_equal. lia.
Qed.

Lemma items_ok : forall x, guard x = true ->
  iteritems repaired x = (Ok (spec_items x), spec_after x).
Proof.
  intros x G. destruct x as [| z | s | b | k l | k l | f l | d sv dict ca | k n l].
  - discriminate.
  - discriminate.
  - rewrite (items_seq_path repaired (VStr s)) by reflexivity. reflexivity.
  - rewrite (items_seq_path repaired (VBytes b)) by reflexivity. reflexivity.
  - destruct (seq_kind k) eqn:Hk.
    + rewrite (items_seq_path repaired (VColl k l)) by (try reflexivity; exact Hk). reflexivity.
    + rewrite (items_peek_path (VColl k l)) by (try reflexivity; exact Hk). reflexivity.
  - reflexivity.
  - reflexivity.
  - unfold iteritems. cbn [is_iterable_of_pairs class_of isiterabletype negb orb get_items_iter
                           ismappingtype isnamedtuple].
    cbn [guard] in G. rewrite (obj_strategy_ok d sv dict ca G). reflexivity.
  - rewrite (items_peek_path (VIter k n l)) by reflexivity.
    cbn [guard] in G. rewrite (advance_iter k n l G). reflexivity.
Qed.

Lemma values_ok : forall x, guard x = true ->
  itervalues repaired x = (Ok (spec_values x), spec_after x).
Proof.
  intros x G. destruct x as [| z | s | b | k l | k l | f l | d sv dict ca | k n l].
  - discriminate.
  - discriminate.
  - rewrite (values_iterable repaired (VStr s)) by reflexivity. reflexivity.
  - rewrite (values_iterable repaired (VBytes b)) by reflexivity. reflexivity.
  - rewrite (values_iterable repaired (VColl k l)) by reflexivity. reflexivity.
  - reflexivity.
  - reflexivity.
  - unfold itervalues. cbn [class_of get_items_iter ismappingtype isnamedtuple isiterabletype].
    cbn [guard] in G. rewrite (obj_strategy_ok d sv dict ca G). reflexivity.
  - rewrite (values_iterable repaired (VIter k n l)) by reflexivity.
    cbn [guard] in G. rewrite (advance_iter k n l G). reflexivity.
Qed.

(* every element of a fresh one-shot iterator exactly once, in order; nothing is left *)
Lemma once : forall k l,
  exists out,
    iteritems repaired (VIter k 0 l) = (Ok out, VIter k (List.length l) l) /\
    (out = l \/ out = map tup' (enumerate l)) /\
    (l = [] -> out = []) /\
    itervalues repaired (VIter k 0 l) = (Ok l, VIter k (List.length l) l).
Proof.
  intros k l. exists (spec_items (VIter k 0 l)). split; [|split; [|split]].
  - exact (items_ok (VIter k 0 l) eq_refl).
  - unfold spec_items. cbn [elems skipn spec_pairs]. destruct (first_is_pair l); [left | right]; reflexivity.
  - intros ->. reflexivity.
  - rewrite (values_ok (VIter k 0 l) eq_refl). unfold spec_values. cbn [spec_pairs elems skipn spec_after].
    rewrite snd_enumerate. reflexivity.
Qed.

(* the first element is among the yielded ones (the peeked head is re-yielded) *)
Lemma once_head : forall k v r out,
  iteritems repaired (VIter k 0 (v :: r)) = (Ok out, VIter k (S (List.length r)) (v :: r)) ->
  hd VNone out = v \/ hd VNone out = tup (VInt 0) v.
Proof.
  intros k v r out H. rewrite (items_ok (VIter k 0 (v :: r)) eq_refl) in H.
  injection H as H. subst out. unfold spec_items. cbn [elems skipn first_is_pair].
  destruct (is_pair_elem v); [left | right]; reflexivity.
Qed.

(* x is not modified: in either variant, whatever the outcome *)
Lemma advance_other : forall x n, is_oneshot x = false -> advance x n = x.
Proof. intros x n H. destruct x; try reflexivity. discriminate. Qed.

Lemma nondestructive_items : forall c x, is_oneshot x = false -> snd (iteritems c x) = x.
Proof.
  intros c x H. unfold iteritems.
  destruct (is_iterable_of_pairs c x) as [[[|] it] | e |]; try reflexivity.
  - destruct (iter_it it) as [l d]. cbn [snd]. apply advance_other. exact H.
  - destruct (get_items_iter c (class_of x)) as [s | e |]; try reflexivity.
    destruct (apply_strategy c s it) as [r d]. cbn [snd]. apply advance_other. exact H.
Qed.

Lemma nondestructive_values : forall c x, is_oneshot x = false -> snd (itervalues c x) = x.
Proof.
  intros c x H. unfold itervalues.
  destruct (get_items_iter c (class_of x)) as [s | e |]; try reflexivity.
  destruct (apply_strategy c s (ItVal x)) as [r d]. cbn [snd]. apply advance_other. exact H.
Qed.
