(* C13: already-valid values pass through unm unchanged; unm is idempotent on union-free / Optional-only
   annotations.  Proof scripts over Model/Core.v and Model/CoreValid.v. *)
From Coq Require Import List Arith Bool PeanoNat Lia.
Import ListNotations.
Require Import TL.Model.Core TL.Model.CoreValid.

(* ------------------------------------------------------------------ induction on values *)
Section PvInd.
Variable P : pv -> Prop.
Hypothesis HA : forall a, P (PAtom a).
Hypothesis HK : forall f, P (PKey f).
Hypothesis HS : forall k l, Forall P l -> P (PSeq k l).
Hypothesis HD : forall k l, Forall (fun kv => P (fst kv) /\ P (snd kv)) l -> P (PDict k l).
Hypothesis HO : forall c l, Forall (fun fv => P (snd fv)) l -> P (PObj c l).
Hypothesis HN : forall c l, Forall P l -> P (PNamed c l).
Fixpoint pv_ind' (v : pv) : P v :=
  match v with
  | PAtom a => HA a
  | PKey f => HK f
  | PSeq k l =>
      HS k l ((fix go (l : list pv) : Forall P l :=
                 match l with [] => Forall_nil _ | x :: r => Forall_cons _ (pv_ind' x) (go r) end) l)
  | PDict k l =>
      HD k l ((fix go (l : list (pv * pv)) : Forall (fun kv => P (fst kv) /\ P (snd kv)) l :=
                 match l with
                 | [] => Forall_nil _
                 | kv :: r => Forall_cons _ (conj (pv_ind' (fst kv)) (pv_ind' (snd kv))) (go r)
                 end) l)
  | PObj c l =>
      HO c l ((fix go (l : list (nat * pv)) : Forall (fun fv => P (snd fv)) l :=
                 match l with [] => Forall_nil _ | fv :: r => Forall_cons _ (pv_ind' (snd fv)) (go r) end) l)
  | PNamed c l =>
      HN c l ((fix go (l : list pv) : Forall P l :=
                 match l with [] => Forall_nil _ | x :: r => Forall_cons _ (pv_ind' x) (go r) end) l)
  end.
End PvInd.

Lemma seqkind_eqb_eq : forall a b, seqkind_eqb a b = true -> a = b.
Proof. destruct a, b; cbn; intros H; try reflexivity; discriminate. Qed.
Lemma dictkind_eqb_eq : forall a b, dictkind_eqb a b = true -> a = b.
Proof. destruct a, b; cbn; intros H; try reflexivity; discriminate. Qed.

Lemma pv_eqb_eq : forall a b, pv_eqb a b = true -> a = b.
Proof.
  induction a as [x|x|k l IH|k l IH|c l IH|c l IH] using pv_ind'; intros b H; destruct b; cbn in H; try discriminate.
  - apply Nat.eqb_eq in H. now subst.
  - apply Nat.eqb_eq in H. now subst.
  - apply andb_true_iff in H as [Hk Hl]. apply seqkind_eqb_eq in Hk. subst. f_equal.
    revert l0 Hl. induction IH as [|x r Hx _ IHr]; intros [|y t] Hl; try discriminate; [reflexivity|].
    apply andb_true_iff in Hl as [H1 H2]. f_equal; [now apply Hx | now apply IHr].
  - apply andb_true_iff in H as [Hk Hl]. apply dictkind_eqb_eq in Hk. subst. f_equal.
    revert l0 Hl. induction IH as [|[x1 x2] r [Hx1 Hx2] _ IHr]; intros [|[y1 y2] t] Hl; try discriminate; [reflexivity|].
    apply andb_true_iff in Hl as [H1 H3]. apply andb_true_iff in H1 as [H1 H2]. cbn in Hx1, Hx2.
    f_equal; [f_equal; [now apply Hx1 | now apply Hx2] | now apply IHr].
  - apply andb_true_iff in H as [Hk Hl]. apply Nat.eqb_eq in Hk. subst. f_equal.
    revert l0 Hl. induction IH as [|[f x] r Hx _ IHr]; intros [|[g y] t] Hl; try discriminate; [reflexivity|].
    apply andb_true_iff in Hl as [H1 H3]. apply andb_true_iff in H1 as [H1 H2]. cbn in Hx.
    apply Nat.eqb_eq in H1. subst. f_equal; [f_equal; now apply Hx | now apply IHr].
  - apply andb_true_iff in H as [Hk Hl]. apply Nat.eqb_eq in Hk. subst. f_equal.
    revert l0 Hl. induction IH as [|x r Hx _ IHr]; intros [|y t] Hl; try discriminate; [reflexivity|].
    apply andb_true_iff in Hl as [H1 H2]. f_equal; [now apply Hx | now apply IHr].
Qed.

Lemma seqkind_eqb_refl : forall a, seqkind_eqb a a = true. Proof. destruct a; reflexivity. Qed.
Lemma dictkind_eqb_refl : forall a, dictkind_eqb a a = true. Proof. destruct a; reflexivity. Qed.

Lemma pv_eqb_refl : forall a, pv_eqb a a = true.
Proof.
  induction a as [x|x|k l IH|k l IH|c l IH|c l IH] using pv_ind'; cbn.
  - apply Nat.eqb_refl.
  - apply Nat.eqb_refl.
  - rewrite seqkind_eqb_refl. cbn. induction IH as [|x r Hx _ IHr]; [reflexivity|]. now rewrite Hx, IHr.
  - rewrite dictkind_eqb_refl. cbn. induction IH as [|[x1 x2] r [Hx1 Hx2] _ IHr]; [reflexivity|].
    cbn in Hx1, Hx2. now rewrite Hx1, Hx2, IHr.
  - rewrite Nat.eqb_refl. cbn. induction IH as [|[f x] r Hx _ IHr]; [reflexivity|].
    cbn in Hx. now rewrite Nat.eqb_refl, Hx, IHr.
  - rewrite Nat.eqb_refl. cbn. induction IH as [|x r Hx _ IHr]; [reflexivity|]. now rewrite Hx, IHr.
Qed.

(* ------------------------------------------------------------------ generic list facts *)
Lemma bind_ok : forall {A B} (r : res A) (f : A -> res B) b, bind r f = Ok b -> exists a, r = Ok a /\ f a = Ok b.
Proof. intros A B [a|e| |] f b H; cbn in H; try discriminate. now exists a. Qed.

Lemma mapM_id : forall {A} (g : A -> res A) l, Forall (fun x => g x = Ok x) l -> mapM g l = Ok l.
Proof. intros A g l H. induction H as [|x r Hx _ IH]; cbn; [reflexivity|]. now rewrite Hx, IH. Qed.

Lemma mapM_ok : forall {A B} (g : A -> res B) l rs, mapM g l = Ok rs -> Forall2 (fun x r => g x = Ok r) l rs.
Proof.
  intros A B g l. induction l as [|x r IH]; cbn; intros rs H.
  - inversion H. constructor.
  - apply bind_ok in H as [y [Hy H]]. apply bind_ok in H as [t [Ht H]]. inversion H. subst.
    constructor; [assumption | now apply IH].
Qed.

Lemma forallb_impl : forall {A} (f g : A -> bool) l,
  (forall x, In x l -> f x = true -> g x = true) -> forallb f l = true -> forallb g l = true.
Proof.
  intros A f g l H Hf. rewrite forallb_forall in *. intros x Hx. apply H; [assumption | now apply Hf].
Qed.

Lemma all2_impl : forall {A B} e e' (f g : A -> B -> bool) ts l,
  (e' = true -> e = true) ->
  (forall t x, In t ts -> In x l -> f t x = true -> g t x = true) -> all2 e f ts l = true -> all2 e' g ts l = true.
Proof.
  intros A B e e' f g ts. induction ts as [|t ts IH]; intros [|x l] He H Ha; cbn in *; try discriminate; try reflexivity.
  - destruct e'; [|reflexivity]. rewrite He in Ha by reflexivity. assumption.
  - apply andb_true_iff in Ha as [H1 H2]. rewrite (H t x) by auto. cbn. apply IH; auto.
Qed.

Lemma all2_Forall2 : forall {A B} (f : A -> B -> bool) ts l,
  all2 true f ts l = true -> Forall2 (fun t x => f t x = true) ts l.
Proof.
  intros A B f ts. induction ts as [|t ts IH]; intros [|x l] H; cbn in H; try discriminate; constructor.
  - now apply andb_true_iff in H as [H1 _].
  - apply IH. now apply andb_true_iff in H as [_ H2].
Qed.

Lemma Forall2_all2 : forall {A B} e (f : A -> B -> bool) ts l,
  Forall2 (fun t x => f t x = true) ts l -> all2 e f ts l = true.
Proof. intros A B e f ts l H. induction H as [|t x ts l Hx _ IH]; cbn; [reflexivity|]. now rewrite Hx, IH. Qed.

Lemma td_ok_impl : forall (f g : nat -> pv -> bool) kvs seen,
  (forall k x, f k x = true -> g k x = true) -> td_ok f kvs seen = true -> td_ok g kvs seen = true.
Proof.
  intros f g kvs. induction kvs as [|[k x] r IH]; intros seen H Ht; cbn in *; [reflexivity|].
  destruct k; try discriminate.
  apply andb_true_iff in Ht as [H1 H3]. apply andb_true_iff in H1 as [H1 H2].
  rewrite H1, (H _ _ H2). cbn. now apply IH.
Qed.

Lemma existsb_impl : forall {A} (f g : A -> bool) l,
  (forall x, f x = true -> g x = true) -> existsb f l = true -> existsb g l = true.
Proof.
  intros A f g l H He. apply existsb_exists in He as [x [Hx Hf]]. apply existsb_exists. exists x. auto.
Qed.
