(* C13: already-valid values pass through unm unchanged; unm is idempotent on union-free / Optional-only
   annotations.  Proof scripts over Model/Core.v and Model/CoreValid.v. *)
From Coq Require Import List Arith Bool PeanoNat Lia.
Import ListNotations.
Require Import TL.Model.Core TL.Model.CoreValid.
Require TL.Proofs.CoreHash.

(* ------------------------------------------------------------------ induction on values *)
Section PvInd.
Variable P : pv -> Prop.
Hypothesis HA : forall a, P (PAtom a).
Hypothesis HK : forall f, P (PKey f).
Hypothesis HS : forall k l, Forall P l -> P (PSeq k l).
Hypothesis HD : forall k l, Forall (fun kv => P (fst kv) /\ P (snd kv)) l -> P (PDict k l).
Hypothesis HO : forall c l, Forall (fun fv => P (snd fv)) l -> P (PObj c l).
Hypothesis HN : forall c l, Forall P l -> P (PNamed c l).
Fixpoint pv_ind' (v : pv) : P v :=
  match v with
  | PAtom a => HA a
  | PKey f => HK f
  | PSeq k l =>
      HS k l ((fix go (l : list pv) : Forall P l :=
                 match l with [] => Forall_nil _ | x :: r => Forall_cons _ (pv_ind' x) (go r) end) l)
  | PDict k l =>
      HD k l ((fix go (l : list (pv * pv)) : Forall (fun kv => P (fst kv) /\ P (snd kv)) l :=
                 match l with
                 | [] => Forall_nil _
                 | kv :: r => Forall_cons _ (conj (pv_ind' (fst kv)) (pv_ind' (snd kv))) (go r)
                 end) l)
  | PObj c l =>
      HO c l ((fix go (l : list (nat * pv)) : Forall (fun fv => P (snd fv)) l :=
                 match l with [] => Forall_nil _ | fv :: r => Forall_cons _ (pv_ind' (snd fv)) (go r) end) l)
  | PNamed c l =>
      HN c l ((fix go (l : list pv) : Forall P l :=
                 match l with [] => Forall_nil _ | x :: r => Forall_cons _ (pv_ind' x) (go r) end) l)
  end.
End PvInd.

Lemma seqkind_eqb_eq : forall a b, seqkind_eqb a b = true -> a = b.
Proof. destruct a, b; cbn; intros H; try reflexivity; discriminate. Qed.
Lemma dictkind_eqb_eq : forall a b, dictkind_eqb a b = true -> a = b.
Proof. destruct a, b; cbn; intros H; try reflexivity; discriminate. Qed.

Lemma pv_eqb_eq : forall a b, pv_eqb a b = true -> a = b.
Proof.
  induction a as [x|x|k l IH|k l IH|c l IH|c l IH] using pv_ind'; intros b H; destruct b; cbn in H; try discriminate.
  - apply Nat.eqb_eq in H. now subst.
  - apply Nat.eqb_eq in H. now subst.
  - apply andb_true_iff in H as [Hk Hl]. apply seqkind_eqb_eq in Hk. subst. f_equal.
    revert l0 Hl. induction IH as [|x r Hx _ IHr]; intros [|y t] Hl; try discriminate; [reflexivity|].
    apply andb_true_iff in Hl as [H1 H2]. f_equal; [now apply Hx | now apply IHr].
  - apply andb_true_iff in H as [Hk Hl]. apply dictkind_eqb_eq in Hk. subst. f_equal.
    revert l0 Hl. induction IH as [|[x1 x2] r [Hx1 Hx2] _ IHr]; intros [|[y1 y2] t] Hl; try discriminate; [reflexivity|].
    apply andb_true_iff in Hl as [H1 H3]. apply andb_true_iff in H1 as [H1 H2]. cbn in Hx1, Hx2.
    f_equal; [f_equal; [now apply Hx1 | now apply Hx2] | now apply IHr].
  - apply andb_true_iff in H as [Hk Hl]. apply Nat.eqb_eq in Hk. subst. f_equal.
    revert l0 Hl. induction IH as [|[f x] r Hx _ IHr]; intros [|[g y] t] Hl; try discriminate; [reflexivity|].
    apply andb_true_iff in Hl as [H1 H3]. apply andb_true_iff in H1 as [H1 H2]. cbn in Hx.
    apply Nat.eqb_eq in H1. subst. f_equal; [f_equal; now apply Hx | now apply IHr].
  - apply andb_true_iff in H as [Hk Hl]. apply Nat.eqb_eq in Hk. subst. f_equal.
    revert l0 Hl. induction IH as [|x r Hx _ IHr]; intros [|y t] Hl; try discriminate; [reflexivity|].
    apply andb_true_iff in Hl as [H1 H2]. f_equal; [now apply Hx | now apply IHr].
Qed.

Lemma seqkind_eqb_refl : forall a, seqkind_eqb a a = true. Proof. destruct a; reflexivity. Qed.
Lemma dictkind_eqb_refl : forall a, dictkind_eqb a a = true. Proof. destruct a; reflexivity. Qed.

Lemma pv_eqb_refl : forall a, pv_eqb a a = true.
Proof.
  induction a as [x|x|k l IH|k l IH|c l IH|c l IH] using pv_ind'; cbn.
  - apply Nat.eqb_refl.
  - apply Nat.eqb_refl.
  - rewrite seqkind_eqb_refl. cbn. induction IH as [|x r Hx _ IHr]; [reflexivity|]. now rewrite Hx, IHr.
  - rewrite dictkind_eqb_refl. cbn. induction IH as [|[x1 x2] r [Hx1 Hx2] _ IHr]; [reflexivity|].
    cbn in Hx1, Hx2. now rewrite Hx1, Hx2, IHr.
  - rewrite Nat.eqb_refl. cbn. induction IH as [|[f x] r Hx _ IHr]; [reflexivity|].
    cbn in Hx. now rewrite Nat.eqb_refl, Hx, IHr.
  - rewrite Nat.eqb_refl. cbn. induction IH as [|x r Hx _ IHr]; [reflexivity|]. now rewrite Hx, IHr.
Qed.

(* ------------------------------------------------------------------ generic list facts *)
Lemma bind_ok : forall {A B} (r : res A) (f : A -> res B) b, bind r f = Ok b -> exists a, r = Ok a /\ f a = Ok b.
Proof. intros A B [a|e| |] f b H; cbn in H; try discriminate. now exists a. Qed.

Lemma mapM_id : forall {A} (g : A -> res A) l, Forall (fun x => g x = Ok x) l -> mapM g l = Ok l.
Proof. intros A g l H. induction H as [|x r Hx _ IH]; cbn; [reflexivity|]. now rewrite Hx, IH. Qed.

Lemma mapM_ok : forall {A B} (g : A -> res B) l rs, mapM g l = Ok rs -> Forall2 (fun x r => g x = Ok r) l rs.
Proof.
  intros A B g l. induction l as [|x r IH]; cbn; intros rs H.
  - inversion H. constructor.
  - apply bind_ok in H as [y [Hy H]]. apply bind_ok in H as [t [Ht H]]. inversion H. subst.
    constructor; [assumption | now apply IH].
Qed.

Lemma forallb_impl : forall {A} (f g : A -> bool) l,
  (forall x, In x l -> f x = true -> g x = true) -> forallb f l = true -> forallb g l = true.
Proof.
  intros A f g l H Hf. rewrite forallb_forall in *. intros x Hx. apply H; [assumption | now apply Hf].
Qed.

Lemma all2_impl : forall {A B} e e' (f g : A -> B -> bool) ts l,
  (e' = true -> e = true) ->
  (forall t x, In t ts -> In x l -> f t x = true -> g t x = true) -> all2 e f ts l = true -> all2 e' g ts l = true.
Proof.
  intros A B e e' f g ts. induction ts as [|t ts IH]; intros [|x l] He H Ha; cbn in *; try discriminate; try reflexivity.
  - destruct e'; [|reflexivity]. rewrite He in Ha by reflexivity. assumption.
  - apply andb_true_iff in Ha as [H1 H2]. rewrite (H t x) by auto. cbn. apply IH; auto.
Qed.

Lemma all2_true_length : forall {A B} (f : A -> B -> bool) ts l, all2 true f ts l = true -> length l = length ts.
Proof.
  intros A B f ts. induction ts as [|t ts IH]; intros [|x l] H; cbn in H; try discriminate; [reflexivity|].
  apply andb_true_iff in H as [_ H]. cbn. f_equal. now apply IH.
Qed.

Lemma all2_Forall2 : forall {A B} (f : A -> B -> bool) ts l,
  all2 true f ts l = true -> Forall2 (fun t x => f t x = true) ts l.
Proof.
  intros A B f ts. induction ts as [|t ts IH]; intros [|x l] H; cbn in H; try discriminate; constructor.
  - now apply andb_true_iff in H as [H1 _].
  - apply IH. now apply andb_true_iff in H as [_ H2].
Qed.

Lemma Forall2_all2 : forall {A B} e (f : A -> B -> bool) ts l,
  Forall2 (fun t x => f t x = true) ts l -> all2 e f ts l = true.
Proof. intros A B e f ts l H. induction H as [|t x ts l Hx _ IH]; cbn; [reflexivity|]. now rewrite Hx, IH. Qed.

Lemma td_ok_impl : forall (f g : nat -> pv -> bool) kvs seen,
  (forall k x, f k x = true -> g k x = true) -> td_ok f kvs seen = true -> td_ok g kvs seen = true.
Proof.
  intros f g kvs. induction kvs as [|[k x] r IH]; intros seen H Ht; cbn in *; [reflexivity|].
  destruct k; try discriminate.
  apply andb_true_iff in Ht as [H1 H3]. apply andb_true_iff in H1 as [H1 H2].
  rewrite H1, (H _ _ H2). cbn. now apply IH.
Qed.

Lemma existsb_impl : forall {A} (f g : A -> bool) l,
  (forall x, f x = true -> g x = true) -> existsb f l = true -> existsb g l = true.
Proof.
  intros A f g l H He. apply existsb_exists in He as [x [Hx Hf]]. apply existsb_exists. exists x. auto.
Qed.

Lemma existsb_map_fst : forall {A B} (f : A -> bool) (l : list (A * B)),
  existsb (fun kv => f (fst kv)) l = existsb f (map fst l).
Proof. intros A B f l. induction l as [|x r IH]; cbn; [reflexivity|]. now rewrite IH. Qed.

(* merging "for all sufficiently large fuel" over a list *)
Lemma ex_merge : forall {A} (P : nat -> A -> Prop) l,
  (forall x, In x l -> exists m, forall f, m <= f -> P f x) ->
  exists m, forall f, m <= f -> forall x, In x l -> P f x.
Proof.
  intros A P l. induction l as [|x r IH]; intros H.
  - exists 0. intros f _ x [].
  - destruct (H x (or_introl eq_refl)) as [m1 H1].
    destruct IH as [m2 H2]; [intros y Hy; apply H; now right|].
    exists (Nat.max m1 m2). intros f Hf y [Hy|Hy]; [subst; apply H1; lia | apply H2; [lia | assumption]].
Qed.

(* ================================================================== the semantics, unfolded *)
Section Sem.
Variable rt : runtime.
Variable E : env.

Definition pk (fv : nat * pv) : pv * pv := (PKey (fst fv), snd fv).

Definition cls_step (u : ty -> pv -> res pv) (cd : classdef) (acc : res (list (nat * pv))) (kv : pv * pv)
  : res (list (nat * pv)) :=
  bind acc (fun kw =>
    match fst kv with
    | PKey f => match field_ty cd f with
                | Some ft => bind (u ft (snd kv)) (fun v' => Ok (kw_set f v' kw))
                | None => Ok kw end
    | k => if unhashable rt k then Raise EType else Ok kw
    end).

Definition map_step (u : ty -> pv -> res pv) (kt vt : ty) (kv : pv * pv) : res (pv * pv) :=
  bind (u kt (fst kv)) (fun k' => bind (u vt (snd kv)) (fun v' => Ok (k', v'))).

Definition unm_cls (u : ty -> pv -> res pv) (c : nat) (x : pv) : res pv :=
  match E c with
  | None => Raise EOther
  | Some (NType t') => u t' x
  | Some (NClass cd) =>
      bind (load rt x) (fun d => bind (iteritems rt E d) (fun kvs =>
      bind (fold_left (cls_step u cd) kvs (Ok [])) (fun kw => construct_class c cd kw)))
  end.

Lemma unm_leaf f s x : unm rt E (S f) (TLeaf s) x = leaf_u rt s x. Proof. reflexivity. Qed.
Lemma unm_refleaf f s x : unm rt E (S f) (TRefLeaf s) x = leaf_u rt s x. Proof. reflexivity. Qed.
Lemma unm_none f x : unm rt E (S f) TNone x = none_u rt x. Proof. reflexivity. Qed.
Lemma unm_seq f k a x : unm rt E (S f) (TSeq k a) x =
  bind (load rt x) (fun d => bind (itervalues rt d) (fun vs =>
  bind (mapM (elem_conv rt k (unm rt E f a)) vs) (fun rs => construct_seq rt k rs))).
Proof. reflexivity. Qed.
Lemma unm_map f k kt vt x : unm rt E (S f) (TMap k kt vt) x =
  bind (load rt x) (fun d => bind (iteritems rt E d) (fun kvs =>
  bind (mapM (hashing rt fst (map_step (unm rt E f) kt vt)) kvs) (fun rs => construct_map rt k rs))).
Proof. reflexivity. Qed.
Lemma unm_tuple f ts x : unm rt E (S f) (TTuple ts) x =
  bind (load rt x) (fun d => bind (itervalues rt d) (fun vs =>
  if Nat.ltb (length vs) (length ts) then Raise EValue else
  bind (mapM (fun tv => unm rt E f (fst tv) (snd tv)) (zip_trunc ts vs)) (fun rs => Ok (PSeq KTuple rs)))).
Proof. reflexivity. Qed.
Lemma unm_union f ts x : unm rt E (S f) (TUnion ts) x = first_ok rt (map (unm rt E f) (union_stack_u ts)) x.
Proof. reflexivity. Qed.
Lemma unm_name f c x : unm rt E (S f) (TName c) x = unm_cls (unm rt E f) c x. Proof. reflexivity. Qed.
Lemma unm_ref f c x : unm rt E (S f) (TRef c) x = unm_cls (unm rt E f) c x. Proof. reflexivity. Qed.
Lemma unm_aliasstr f i c x : unm rt E (S f) (TAliasStr i c) x = unm_cls (unm rt E f) c x. Proof. reflexivity. Qed.
Lemma unm_newtype f i t x : unm rt E (S f) (TNewType i t) x = unm rt E f t x. Proof. reflexivity. Qed.
Lemma unm_alias f i t x : unm rt E (S f) (TAlias i t) x = unm rt E f t x. Proof. reflexivity. Qed.
Lemma unm_final f t x : unm rt E (S f) (TFinal t) x = unm rt E f t x. Proof. reflexivity. Qed.
Lemma unm_classvar f t x : unm rt E (S f) (TClassVar t) x = unm rt E f t x. Proof. reflexivity. Qed.
Lemma unm_refto f t x : unm rt E (S f) (TRefTo t) x = unm rt E f t x. Proof. reflexivity. Qed.

(* ------------------------------------------------------------------ constructors on already-built values *)
Lemma mem_pv_app : forall x a b, mem_pv rt x (a ++ b) = mem_pv rt x a || mem_pv rt x b.
Proof. intros x a b. induction a as [|y r IH]; cbn; [reflexivity|]. now rewrite IH, orb_assoc. Qed.

Lemma fresh_dedupe : forall l seen, fresh_from rt l seen = true -> dedupe rt l seen = l.
Proof.
  induction l as [|x r IH]; cbn; intros seen H; [reflexivity|].
  apply andb_true_iff in H as [H1 H2]. apply negb_true_iff in H1. rewrite H1. f_equal. now apply IH.
Qed.

Lemma construct_seq_id : forall k l, set_ok rt k l = true -> construct_seq rt k l = Ok (PSeq k l).
Proof.
  intros k l H. destruct k; cbn in *; try reflexivity;
    apply andb_true_iff in H as [H1 H2]; unfold hashable_all in H1; apply negb_true_iff in H1;
    rewrite H1; now rewrite fresh_dedupe.
Qed.

Lemma dict_set_fresh : forall k v d, mem_pv rt k (map fst d) = false -> dict_set rt k v d = d ++ [(k, v)].
Proof.
  intros k v d. induction d as [|[k' v'] r IH]; cbn; intros H; [reflexivity|].
  apply orb_false_iff in H as [H1 H2]. rewrite H1. f_equal. now apply IH.
Qed.

Lemma dict_fold_fresh : forall l acc seen,
  (forall x, mem_pv rt x seen = false -> mem_pv rt x (map fst acc) = false) ->
  fresh_from rt (map fst l) seen = true ->
  fold_left (fun d kv => dict_set rt (fst kv) (snd kv) d) l acc = acc ++ l.
Proof.
  induction l as [|[k v] r IH]; intros acc seen Hs Hf; cbn in *; [now rewrite app_nil_r|].
  apply andb_true_iff in Hf as [H1 H2]. apply negb_true_iff in H1.
  rewrite dict_set_fresh by auto. rewrite (IH _ (k :: seen)); [now rewrite <- app_assoc | | assumption].
  intros x Hx. cbn in Hx. apply orb_false_iff in Hx as [Hx1 Hx2].
  rewrite map_app, mem_pv_app. cbn. rewrite Hx1, (Hs _ Hx2). reflexivity.
Qed.

Lemma construct_map_id : forall k l, keys_ok rt (map fst l) = true -> construct_map rt k l = Ok (PDict k l).
Proof.
  intros k l H. unfold keys_ok, hashable_all in H. apply andb_true_iff in H as [H1 H2].
  apply negb_true_iff in H1. unfold construct_map. rewrite existsb_map_fst, H1.
  unfold dict_of. rewrite (dict_fold_fresh l [] []); [reflexivity | auto | assumption].
Qed.

Lemma zip_in : forall {A B} e (f : A -> B -> bool) ts l tv,
  all2 e f ts l = true -> In tv (zip_trunc ts l) -> f (fst tv) (snd tv) = true /\ In (fst tv) ts /\ In (snd tv) l.
Proof.
  intros A B e f ts. induction ts as [|t ts IH]; intros [|x l] tv Ha Hin; cbn in *; try contradiction.
  apply andb_true_iff in Ha as [H1 H2]. destruct Hin as [Hin|Hin].
  - subst. cbn. auto.
  - destruct (IH _ _ H2 Hin) as [Ha [Hb Hc]]. auto.
Qed.

Lemma tuple_pass : forall e (chk : ty -> pv -> bool) (u : ty -> pv -> res pv) ts l,
  all2 e chk ts l = true ->
  (forall tv, In tv (zip_trunc ts l) -> u (fst tv) (snd tv) = Ok (snd tv)) ->
  mapM (fun tv => u (fst tv) (snd tv)) (zip_trunc ts l) = Ok l.
Proof.
  intros e chk u ts. induction ts as [|t ts IH]; intros [|x l] Ha H; cbn in *; try discriminate; try reflexivity.
  apply andb_true_iff in Ha as [H1 H2]. pose proof (H (t, x) (or_introl eq_refl)) as Hx. cbn in Hx.
  rewrite Hx. cbn. rewrite IH; [reflexivity | assumption | intros tv Hin; apply H; now right].
Qed.

(* ---- classes ---- *)
Lemma kw_set_fresh : forall f v kw, ~ In f (map fst kw) -> kw_set f v kw = kw ++ [(f, v)].
Proof.
  intros f v kw. induction kw as [|[g w] r IH]; cbn; intros H; [reflexivity|].
  destruct (Nat.eqb f g) eqn:Hfg; [apply Nat.eqb_eq in Hfg; subst; exfalso; apply H; now left|].
  f_equal. apply IH. intros Hin. apply H. now right.
Qed.

Lemma fold_pass : forall (u : ty -> pv -> res pv) cd fs kw0,
  NoDup (map fst fs) -> (forall g, In g (map fst fs) -> ~ In g (map fst kw0)) ->
  (forall gv, In gv fs -> exists ft, field_ty cd (fst gv) = Some ft /\ u ft (snd gv) = Ok (snd gv)) ->
  fold_left (cls_step u cd) (map pk fs) (Ok kw0) = Ok (kw0 ++ fs).
Proof.
  intros u cd fs. induction fs as [|[g x] r IH]; intros kw0 Hnd Hdis Hel; cbn [map fold_left].
  - now rewrite app_nil_r.
  - destruct (Hel (g, x) (or_introl eq_refl)) as [ft [Hft Hu]]. cbn in Hft, Hu.
    unfold cls_step at 2. cbn [bind pk fst snd]. rewrite Hft, Hu. cbn [bind].
    rewrite kw_set_fresh by (apply Hdis; now left).
    inversion Hnd as [|? ? Hnot Hnd']. subst.
    rewrite IH; [now rewrite <- app_assoc | assumption | | intros gv Hin; apply Hel; now right].
    intros h Hh Hin. rewrite map_app in Hin. apply in_app_or in Hin as [Hin|Hin].
    + apply (Hdis h); [now right | assumption].
    + cbn in Hin. destruct Hin as [Hin|[]]. subst. contradiction.
Qed.

Lemma kw_lookup_nodup : forall fs g v, NoDup (map fst fs) -> In (g, v) fs -> kw_lookup g fs = Some v.
Proof.
  induction fs as [|[h w] r IH]; intros g v Hnd Hin; [contradiction|].
  cbn. inversion Hnd as [|? ? Hnot Hnd']. subst. destruct Hin as [Hin|Hin].
  - inversion Hin. subst. now rewrite Nat.eqb_refl.
  - destruct (Nat.eqb g h) eqn:Hgh.
    + apply Nat.eqb_eq in Hgh. subst. exfalso. apply Hnot. change h with (fst (h, v)). now apply in_map.
    + now apply IH.
Qed.

Lemma fill_self_gen : forall fields fs kw,
  map fst fs = map fname fields -> (forall g v, In (g, v) fs -> kw_lookup g kw = Some v) ->
  fill_fields fields kw = Ok fs.
Proof.
  induction fields as [|fd fields IH]; intros [|[g v] fs] kw Hm Hl; cbn in Hm; try discriminate; [reflexivity|].
  inversion Hm as [[Hg Hm']]. cbn. rewrite <- Hg, (Hl g v) by now left.
  rewrite (IH fs kw); [reflexivity | assumption | intros h w Hin; apply Hl; now right].
Qed.

Lemma fill_self : forall fields fs, NoDup (map fst fs) -> map fst fs = map fname fields -> fill_fields fields fs = Ok fs.
Proof. intros fields fs Hnd Hm. apply fill_self_gen; [assumption|]. intros g v. now apply kw_lookup_nodup. Qed.

Lemma field_ty_nodup : forall cd fd, NoDup (map fname (cfields cd)) -> In fd (cfields cd) ->
  field_ty cd (fname fd) = Some (fty fd).
Proof.
  intros cd fd. unfold field_ty. generalize (cfields cd) as l.
  induction l as [|fd' l IH]; intros Hnd Hin; [contradiction|]. cbn.
  inversion Hnd as [|? ? Hnot Hnd']. subst. destruct Hin as [Hin|Hin].
  - subst. now rewrite Nat.eqb_refl.
  - destruct (Nat.eqb (fname fd') (fname fd)) eqn:Hq.
    + apply Nat.eqb_eq in Hq. exfalso. apply Hnot. rewrite Hq. now apply in_map.
    + now apply IH.
Qed.

Lemma field_ty_in : forall cd g ft, field_ty cd g = Some ft -> exists fd, In fd (cfields cd) /\ ft = fty fd.
Proof.
  intros cd g ft. unfold field_ty. destruct (find _ _) as [fd|] eqn:Hf; [|discriminate].
  intros H. inversion H. apply find_some in Hf as [Hin _]. now exists fd.
Qed.

Lemma Forall2_in_r : forall {A B} (R : A -> B -> Prop) l l' y,
  Forall2 R l l' -> In y l' -> exists x, In x l /\ R x y.
Proof.
  intros A B R l l' y H. induction H as [|a b l l' Hab _ IH]; intros Hin; [contradiction|].
  destruct Hin as [Hin|Hin]; [subst; exists a; split; [now left | assumption]|].
  destruct (IH Hin) as [x [Hx HR]]. exists x. split; [now right | assumption].
Qed.

Lemma Forall2_imp : forall {A B} (R Q : A -> B -> Prop) l l',
  (forall a b, R a b -> Q a b) -> Forall2 R l l' -> Forall2 Q l l'.
Proof. intros A B R Q l l' H HF. induction HF; constructor; auto. Qed.

Lemma Forall2_map_fst : forall (fields : list field) (fs : list (nat * pv)) (Q : field -> nat * pv -> Prop),
  Forall2 (fun fd gv => fname fd = fst gv /\ Q fd gv) fields fs -> map fst fs = map fname fields.
Proof. intros fields fs Q H. induction H as [|fd gv l l' [Hn _] _ IH]; cbn; [reflexivity|]. now rewrite Hn, IH. Qed.

Lemma Forall2_combine : forall (R : field -> pv -> Prop) fields l,
  Forall2 R fields l ->
  Forall2 (fun fd gv => fname fd = fst gv /\ R fd (snd gv)) fields (combine (map fname fields) l)
  /\ map snd (combine (map fname fields) l) = l.
Proof.
  intros R fields l H. induction H as [|fd x fields l Hx _ [IH1 IH2]]; cbn; [split; [constructor | reflexivity]|].
  split; [constructor; [cbn; auto | assumption] | now rewrite IH2].
Qed.

Lemma combine_pk : forall names l, combine (map PKey names) l = map pk (combine names l).
Proof. induction names as [|a r IH]; intros [|x l]; cbn; try reflexivity. now rewrite IH. Qed.

Lemma has_key_pk : forall f fs, has_key f (map pk fs) = has_kw f fs.
Proof.
  intros f fs. unfold has_kw, has_key. induction fs as [|[g v] r IH]; cbn; [reflexivity|].
  destruct (Nat.eqb f g); [reflexivity | exact IH].
Qed.

Lemma forallb_ext : forall {A} (f g : A -> bool) l, (forall x, g x = f x) -> forallb f l = forallb g l.
Proof. intros A f g l H. induction l as [|x r IH]; cbn; [reflexivity|]. now rewrite H, IH. Qed.

Lemma iteritems_obj : forall c fs, iteritems rt E (PObj c fs) = Ok (map pk fs). Proof. reflexivity. Qed.

Lemma td_shape : forall chk kvs seen, td_ok chk kvs seen = true ->
  exists fs, kvs = map pk fs /\ NoDup (map fst fs) /\ (forall g, In g (map fst fs) -> ~ In g seen)
             /\ (forall gv, In gv fs -> chk (fst gv) (snd gv) = true).
Proof.
  intros chk kvs. induction kvs as [|[k x] r IH]; intros seen H; cbn in H.
  - exists []. repeat split; [constructor | intros g [] | intros gv []].
  - destruct k; try discriminate.
    apply andb_true_iff in H as [H1 H3]. apply andb_true_iff in H1 as [H1 H2]. apply negb_true_iff in H1.
    destruct (IH _ H3) as [fs [Hk [Hnd [Hdis Hchk]]]]. exists ((f, x) :: fs). subst r. repeat split.
    + cbn. constructor; [|assumption]. intros Hin. apply (Hdis f Hin). now left.
    + intros g [Hg|Hg] Hs.
      * cbn in Hg. subst g. assert (existsb (Nat.eqb f) seen = true) as Hx
          by (apply existsb_exists; exists f; split; [assumption | apply Nat.eqb_refl]). congruence.
      * apply (Hdis g Hg). now right.
    + intros gv [Hgv|Hgv]; [subst; assumption | now apply Hchk].
Qed.

Definition Passes (t : ty) (v : pv) : Prop := exists m, forall f, m <= f -> unm rt E f t v = Ok v.

Lemma passes_lift : forall t t' v, (forall f x, unm rt E (S f) t x = unm rt E f t' x) -> Passes t' v -> Passes t v.
Proof. intros t t' v H [m Hm]. exists (S m). intros [|f] Hf; [lia|]. rewrite H. apply Hm. lia. Qed.

Lemma passes_and : forall t1 v1 t2 v2, Passes t1 v1 -> Passes t2 v2 ->
  exists m, forall f, m <= f -> unm rt E f t1 v1 = Ok v1 /\ unm rt E f t2 v2 = Ok v2.
Proof.
  intros t1 v1 t2 v2 [m1 H1] [m2 H2]. exists (Nat.max m1 m2). intros f Hf. split; [apply H1 | apply H2]; lia.
Qed.

Lemma is_none_ty_eq : forall t, is_none_ty t = true -> t = TNone.
Proof. destruct t; cbn; intros H; try discriminate. reflexivity. Qed.

Lemma optional_pair_spec : forall ts a, optional_pair ts = Some a ->
  union_stack_u ts = [TNone; a] /\ In a ts /\
  (forall P : ty -> bool, existsb P ts = true -> P a = true \/ P TNone = true).
Proof.
  intros ts a. destruct ts as [|x [|y [|z r]]]; cbn [optional_pair]; try discriminate.
  destruct (is_none_ty y) eqn:Hy.
  - intros H. inversion H. subst a. apply is_none_ty_eq in Hy. subst y. repeat split.
    + unfold union_stack_u, isoptional. cbn [existsb is_none_ty]. rewrite orb_true_r.
      unfold none_first. cbn [filter is_none_ty negb].
      destruct (is_none_ty x) eqn:Hx; cbn; [apply is_none_ty_eq in Hx; now subst | reflexivity].
    + now left.
    + intros P HP. cbn in HP. rewrite orb_false_r in HP. now apply orb_true_iff in HP.
  - destruct (is_none_ty x) eqn:Hx; [|discriminate]. intros H. inversion H. subst a.
    apply is_none_ty_eq in Hx. subst x. repeat split.
    + unfold union_stack_u, isoptional. cbn [existsb is_none_ty orb].
      unfold none_first. cbn [filter is_none_ty negb]. now rewrite Hy.
    + right. now left.
    + intros P HP. cbn in HP. rewrite orb_false_r in HP. apply orb_true_iff in HP. tauto.
Qed.

(* ================================================================== pass-through *)
Section Pass.
Variable lv : nat -> pv -> bool.
Hypothesis LAWS : PassLaws rt lv.
Hypothesis WF : wf_env E.
Notation vg := (vgen lv rt E).
Notation oo := (optional_only E).

Section Step.
Variable n : nat.
Hypothesis IH : forall T v, oo n T = true -> vg n T v = true -> Passes T v.

Lemma cls_core : forall c cd fs, E c = Some (NClass cd) ->
  forallb (fun fd => oo n (fty fd)) (cfields cd) = true ->
  Forall2 (fun fd gv => fname fd = fst gv /\ vg n (fty fd) (snd gv) = true) (cfields cd) fs ->
  exists m, forall f, m <= f ->
    fold_left (cls_step (unm rt E f) cd) (map pk fs) (Ok []) = Ok fs /\ fill_fields (cfields cd) fs = Ok fs.
Proof.
  intros c cd fs HE Ho HF.
  pose proof (WF c cd HE) as Hnd.
  pose proof (Forall2_map_fst _ _ _ HF) as Hmap.
  assert (NoDup (map fst fs)) as Hnd' by now rewrite Hmap.
  destruct (ex_merge (fun f gv => exists ft, field_ty cd (fst gv) = Some ft /\ unm rt E f ft (snd gv) = Ok (snd gv)) fs)
    as [m Hm].
  { intros gv Hin. destruct (Forall2_in_r _ _ _ _ HF Hin) as [fd [Hfd [Hn Hv]]].
    rewrite forallb_forall in Ho. destruct (IH _ _ (Ho fd Hfd) Hv) as [m Hm].
    exists m. intros f Hf. exists (fty fd). split; [rewrite <- Hn; now apply field_ty_nodup | now apply Hm]. }
  exists m. intros f Hf. split; [|now apply fill_self].
  rewrite (fold_pass _ cd fs []); [reflexivity | assumption | intros g _ [] | intros gv Hin; now apply Hm].
Qed.

Lemma pass_cls : forall c v,
  match E c with None => true | Some (NType t') => oo n t'
  | Some (NClass cd) => forallb (fun fd => oo n (fty fd)) (cfields cd) end = true ->
  match E c with
  | None => false
  | Some (NType t') => vg n t' v
  | Some (NClass cd) =>
      match cflavour cd, v with
      | FTypedDict, PDict KDict kvs =>
          td_ok (fun f x => match field_ty cd f with Some ft => vg n ft x | None => false end) kvs []
          && req_ok cd kvs
      | FNamedTuple, PNamed c' l => Nat.eqb c c' && all2 true (fun fd x => vg n (fty fd) x) (cfields cd) l
      | FDataclass, PObj c' fs | FPlain, PObj c' fs =>
          Nat.eqb c c' &&
          all2 true (fun fd gv => Nat.eqb (fname fd) (fst gv) && vg n (fty fd) (snd gv)) (cfields cd) fs
      | _, _ => false
      end
  end = true ->
  exists m, forall f, m <= f -> unm_cls (unm rt E f) c v = Ok v.
Proof.
  intros c v Ho Hv. unfold unm_cls. destruct (E c) as [[cd|t']|] eqn:HE; [| |discriminate].
  2:{ destruct (IH _ _ Ho Hv) as [m Hm]. exists m. exact Hm. }
  assert (forall c' fs, Nat.eqb c c' &&
            all2 true (fun fd gv => Nat.eqb (fname fd) (fst gv) && vg n (fty fd) (snd gv)) (cfields cd) fs = true ->
            (cflavour cd = FDataclass \/ cflavour cd = FPlain) ->
            exists m, forall f, m <= f ->
              bind (load rt (PObj c' fs)) (fun d => bind (iteritems rt E d) (fun kvs =>
              bind (fold_left (cls_step (unm rt E f) cd) kvs (Ok [])) (fun kw => construct_class c cd kw)))
              = Ok (PObj c' fs)) as Hobj.
  { intros c' fs H Hfl. apply andb_true_iff in H as [Hc Ha]. apply Nat.eqb_eq in Hc. subst c'.
    apply all2_Forall2 in Ha.
    assert (Forall2 (fun fd gv => fname fd = fst gv /\ vg n (fty fd) (snd gv) = true) (cfields cd) fs) as HF.
    { eapply Forall2_imp; [|exact Ha]. intros fd gv H. apply andb_true_iff in H as [H1 H2].
      apply Nat.eqb_eq in H1. auto. }
    destruct (cls_core c cd fs HE Ho HF) as [m Hm]. exists m. intros f Hf. destruct (Hm f Hf) as [H1 H2].
    cbn [load is_scalar bind]. rewrite iteritems_obj. cbn [bind]. rewrite H1. cbn [bind].
    unfold construct_class. destruct Hfl as [Hfl|Hfl]; rewrite Hfl, H2; reflexivity. }
  destruct (cflavour cd) eqn:Hfl; destruct v as [| |k l|k l|c' fs|c' l]; try discriminate.
  - (* dataclass *) apply Hobj; auto.
  - (* named tuple *)
    apply andb_true_iff in Hv as [Hc Ha]. apply Nat.eqb_eq in Hc. subst c'.
    apply all2_Forall2 in Ha. destruct (Forall2_combine _ _ _ Ha) as [HF Hsnd].
    destruct (cls_core c cd _ HE Ho HF) as [m Hm]. exists m. intros f Hf. destruct (Hm f Hf) as [H1 H2].
    cbn [load is_scalar bind iteritems]. unfold named_fields. rewrite HE, combine_pk. cbn [bind].
    rewrite H1. cbn [bind]. unfold construct_class. rewrite Hfl, H2. cbn [bind]. now rewrite Hsnd.
  - (* TypedDict *)
    destruct k; [|discriminate]. apply andb_true_iff in Hv as [Hv Hreq].
    destruct (td_shape _ _ _ Hv) as [fs [Hk [Hnd [_ Hchk]]]]. subst l.
    destruct (ex_merge (fun f gv => exists ft, field_ty cd (fst gv) = Some ft /\ unm rt E f ft (snd gv) = Ok (snd gv)) fs)
      as [m Hm].
    { intros gv Hin. pose proof (Hchk gv Hin) as Hc. cbn beta in Hc.
      destruct (field_ty cd (fst gv)) as [ft|] eqn:Hft; [|discriminate].
      destruct (field_ty_in _ _ _ Hft) as [fd [Hfd Heq]]. subst ft.
      rewrite forallb_forall in Ho. destruct (IH _ _ (Ho fd Hfd) Hc) as [m Hm].
      exists m. intros f Hf. exists (fty fd). split; [reflexivity | now apply Hm]. }
    exists m. intros f Hf. cbn [load is_scalar bind iteritems].
    rewrite (fold_pass _ cd fs []); [| assumption | intros g _ [] | intros gv Hin; now apply Hm].
    cbn [bind app]. unfold construct_class. rewrite Hfl.
    unfold req_ok in Hreq. erewrite forallb_ext in Hreq; [rewrite Hreq; reflexivity|].
    intros fd. cbn beta. now rewrite has_key_pk.
  - (* plain class *) apply Hobj; auto.
Qed.
End Step.

Lemma pass_stable : forall n T v, oo n T = true -> vg n T v = true -> Passes T v.
Proof.
  induction n as [|n IH]; intros T v Ho Hv; [discriminate|].
  destruct T; cbn [vgen] in Hv; cbn [optional_only] in Ho.
  - (* TLeaf *) exists 1. intros [|f] Hf; [lia|]. rewrite unm_leaf. now apply (lv_pass _ _ LAWS).
  - (* TNone *) apply pv_eqb_eq in Hv. subst. exists 1. intros [|f] Hf; [lia|]. rewrite unm_none.
    apply (none_pass _ (pl_none _ _ LAWS)).
  - (* TSeq *)
    destruct v as [| |k' l| | |]; try discriminate.
    apply andb_true_iff in Hv as [Hv Hset]. apply andb_true_iff in Hv as [Hk Hl].
    apply seqkind_eqb_eq in Hk. subst k'.
    destruct (ex_merge (fun f x => unm rt E f T x = Ok x) l) as [m Hm].
    { intros x Hx. rewrite forallb_forall in Hl. apply (IH T x Ho (Hl x Hx)). }
    exists (S m). intros [|f] Hf; [lia|]. rewrite unm_seq. cbn [load is_scalar bind itervalues].
    apply (proj2 (TL.Proofs.CoreHash.seq_step_ok_iff _ _ _ _ _)). rewrite mapM_id; [cbn [bind]; now apply construct_seq_id|].
    apply Forall_forall. intros x Hx. apply Hm; [lia | assumption].
  - (* TMap *)
    destruct v as [| | |k' kvs| |]; try discriminate.
    apply andb_true_iff in Hv as [Hv Hkeys]. apply andb_true_iff in Hv as [Hk Hl].
    apply dictkind_eqb_eq in Hk. subst k'. apply andb_true_iff in Ho as [Ho1 Ho2].
    destruct (ex_merge (fun f kv => unm rt E f T1 (fst kv) = Ok (fst kv) /\ unm rt E f T2 (snd kv) = Ok (snd kv)) kvs)
      as [m Hm].
    { intros kv Hx. rewrite forallb_forall in Hl. pose proof (Hl kv Hx) as H.
      apply andb_true_iff in H as [H1 H2]. apply passes_and; now apply IH. }
    exists (S m). intros [|f] Hf; [lia|]. rewrite unm_map. cbn [load is_scalar bind iteritems].
    apply (proj2 (TL.Proofs.CoreHash.map_step_ok_iff _ _ _ _ _)). rewrite mapM_id; [cbn [bind]; now apply construct_map_id|].
    apply Forall_forall. intros [a b] Hx. destruct (Hm f ltac:(lia) _ Hx) as [H1 H2]. cbn in H1, H2.
    unfold map_step. cbn [fst snd]. now rewrite H1, H2.
  - (* TTuple *)
    destruct v as [| |k' l| | |]; try discriminate. destruct k'; try discriminate.
    destruct (ex_merge (fun f tv => unm rt E f (fst tv) (snd tv) = Ok (snd tv)) (zip_trunc ts l)) as [m Hm].
    { intros tv Hin. destruct (zip_in _ _ _ _ _ Hv Hin) as [H1 [H2 _]].
      rewrite forallb_forall in Ho. now apply IH; [apply Ho|]. }
    exists (S m). intros [|f] Hf; [lia|]. rewrite unm_tuple. cbn [load is_scalar bind itervalues].
    rewrite (all2_true_length _ _ _ Hv), Nat.ltb_irrefl.
    rewrite (tuple_pass _ _ _ _ _ Hv); [reflexivity|]. intros tv Hin. apply Hm; [lia | assumption].
  - (* TUnion *)
    destruct (optional_pair ts) as [a|] eqn:Hop; [|discriminate].
    destruct (optional_pair_spec _ _ Hop) as [Hstack [_ Hex]].
    destruct (pv_eqb v (none rt)) eqn:Hnone.
    + apply pv_eqb_eq in Hnone. subst v. exists 2. intros [|[|f]] Hf; try lia.
      rewrite unm_union, Hstack. cbn [map first_ok]. rewrite unm_none.
      now rewrite (none_pass _ (pl_none _ _ LAWS)).
    + assert (vg n a v = true) as Ha.
      { destruct (Hex _ Hv) as [H|H]; [assumption|]. destruct n; cbn in H; congruence. }
      destruct (IH _ _ Ho Ha) as [m Hm].
      destruct (none_rejects _ (pl_none _ _ LAWS) v Hnone) as [e [He Hs]].
      exists (S (S m)). intros [|[|f]] Hf; try lia.
      rewrite unm_union, Hstack. cbn [map first_ok]. rewrite unm_none, He, Hs.
      rewrite Hm by lia. reflexivity.
  - (* TName *)
    destruct (pass_cls n IH n0 v Ho Hv) as [m Hm]. exists (S m). intros [|f] Hf; [lia|].
    rewrite unm_name. apply Hm. lia.
  - (* TRef *)
    destruct (pass_cls n IH n0 v Ho Hv) as [m Hm]. exists (S m). intros [|f] Hf; [lia|].
    rewrite unm_ref. apply Hm. lia.
  - (* TRefLeaf *) exists 1. intros [|f] Hf; [lia|]. rewrite unm_refleaf. now apply (lv_pass _ _ LAWS).
  - (* TRefTo *) apply (passes_lift _ T); [intros; apply unm_refto | now apply IH].
  - (* TNewType *) apply (passes_lift _ T); [intros; apply unm_newtype | now apply IH].
  - (* TAlias *) apply (passes_lift _ T); [intros; apply unm_alias | now apply IH].
  - (* TAliasStr *)
    destruct (pass_cls n IH n0 v Ho Hv) as [m Hm]. exists (S m). intros [|f] Hf; [lia|].
    rewrite unm_aliasstr. apply Hm. lia.
  - (* TFinal *) apply (passes_lift _ T); [intros; apply unm_final | now apply IH].
  - (* TClassVar *) apply (passes_lift _ T); [intros; apply unm_classvar | now apply IH].
Qed.
End Pass.

(* ================================================================== monotonicity of vgen *)
Definition vbody (lv : nat -> pv -> bool) (rec : ty -> pv -> bool) (t : ty) (v : pv) : bool :=
  match t with
  | TLeaf s | TRefLeaf s => lv s v
  | TNone => pv_eqb v (none rt)
  | TSeq k a =>
      match v with
      | PSeq k' l => seqkind_eqb k k' && forallb (rec a) l && set_ok rt k l
      | _ => false
      end
  | TMap k kt vt =>
      match v with
      | PDict k' kvs =>
          dictkind_eqb k k' && forallb (fun kv => rec kt (fst kv) && rec vt (snd kv)) kvs
          && keys_ok rt (map fst kvs)
      | _ => false
      end
  | TTuple ts =>
      match v with
      | PSeq KTuple l => all2 true rec ts l
      | _ => false
      end
  | TUnion ts => existsb (fun t' => rec t' v) ts
  | TName c | TRef c | TAliasStr _ c =>
      match E c with
      | None => false
      | Some (NType t') => rec t' v
      | Some (NClass cd) =>
          match cflavour cd, v with
          | FTypedDict, PDict KDict kvs =>
              td_ok (fun f x => match field_ty cd f with Some ft => rec ft x | None => false end) kvs []
              && req_ok cd kvs
          | FNamedTuple, PNamed c' l =>
              Nat.eqb c c' && all2 true (fun fd x => rec (fty fd) x) (cfields cd) l
          | FDataclass, PObj c' fs | FPlain, PObj c' fs =>
              Nat.eqb c c' &&
              all2 true (fun fd gv => Nat.eqb (fname fd) (fst gv) && rec (fty fd) (snd gv)) (cfields cd) fs
          | _, _ => false
          end
      end
  | TNewType _ t' | TAlias _ t' | TFinal t' | TClassVar t' | TRefTo t' => rec t' v
  end.

Lemma vgen_S_eq : forall lv n t v, vgen lv rt E (S n) t v = vbody lv (vgen lv rt E n) t v.
Proof. reflexivity. Qed.

Lemma vbody_mono : forall lv (r1 r2 : ty -> pv -> bool) t v,
  (forall t v, r1 t v = true -> r2 t v = true) ->
  vbody lv r1 t v = true -> vbody lv r2 t v = true.
Proof.
  intros lv r1 r2 t v Hr H.
  assert (forall c, match E c with
      | None => false
      | Some (NType t') => r1 t' v
      | Some (NClass cd) =>
          match cflavour cd, v with
          | FTypedDict, PDict KDict kvs =>
              td_ok (fun f x => match field_ty cd f with Some ft => r1 ft x | None => false end) kvs []
              && req_ok cd kvs
          | FNamedTuple, PNamed c' l =>
              Nat.eqb c c' && all2 true (fun fd x => r1 (fty fd) x) (cfields cd) l
          | FDataclass, PObj c' fs | FPlain, PObj c' fs =>
              Nat.eqb c c' &&
              all2 true (fun fd gv => Nat.eqb (fname fd) (fst gv) && r1 (fty fd) (snd gv)) (cfields cd) fs
          | _, _ => false
          end
      end = true ->
      match E c with
      | None => false
      | Some (NType t') => r2 t' v
      | Some (NClass cd) =>
          match cflavour cd, v with
          | FTypedDict, PDict KDict kvs =>
              td_ok (fun f x => match field_ty cd f with Some ft => r2 ft x | None => false end) kvs []
              && req_ok cd kvs
          | FNamedTuple, PNamed c' l =>
              Nat.eqb c c' && all2 true (fun fd x => r2 (fty fd) x) (cfields cd) l
          | FDataclass, PObj c' fs | FPlain, PObj c' fs =>
              Nat.eqb c c' &&
              all2 true (fun fd gv => Nat.eqb (fname fd) (fst gv) && r2 (fty fd) (snd gv)) (cfields cd) fs
          | _, _ => false
          end
      end = true) as Hcls.
  { intros c Hc. destruct (E c) as [[cd|t']|]; [| now apply Hr | discriminate].
    assert (forall c' fs, Nat.eqb c c' &&
        all2 true (fun fd gv => Nat.eqb (fname fd) (fst gv) && r1 (fty fd) (snd gv)) (cfields cd) fs = true ->
        Nat.eqb c c' &&
        all2 true (fun fd gv => Nat.eqb (fname fd) (fst gv) && r2 (fty fd) (snd gv)) (cfields cd) fs = true) as Hobj.
    { intros c' fs Ho. apply andb_true_iff in Ho as [H1 H2]. rewrite H1. cbn.
      eapply all2_impl; [auto | | exact H2]. intros fd gv _ _ Hx. apply andb_true_iff in Hx as [Hx1 Hx2].
      now rewrite Hx1, (Hr _ _ Hx2). }
    destruct (cflavour cd); destruct v as [| |k l|k l|c' fs|c' l]; try discriminate.
    - now apply Hobj.
    - apply andb_true_iff in Hc as [H1 H2]. rewrite H1. cbn.
      eapply all2_impl; [auto | | exact H2]. intros fd x _ _ Hx. now apply Hr.
    - destruct k; [|discriminate]. apply andb_true_iff in Hc as [Hc Hq]. rewrite Hq, andb_true_r.
      eapply td_ok_impl; [|exact Hc]. intros g x Hx. cbn beta in *.
      destruct (field_ty cd g); [now apply Hr | discriminate].
    - now apply Hobj. }
  destruct t; cbn [vbody] in *; try assumption; try (now apply Hr); try (now apply Hcls).
  - destruct v as [| |k' l| | |]; try discriminate.
    apply andb_true_iff in H as [H Hset]. apply andb_true_iff in H as [Hk Hl].
    rewrite Hk, Hset, (forallb_impl _ (r2 t) _ (fun x _ => Hr t x) Hl). reflexivity.
  - destruct v as [| | |k' kvs| |]; try discriminate.
    apply andb_true_iff in H as [H Hkeys]. apply andb_true_iff in H as [Hk Hl].
    rewrite Hk, Hkeys. cbn. rewrite andb_true_r. eapply forallb_impl; [|exact Hl].
    intros kv _ Hx. cbn beta in *. apply andb_true_iff in Hx as [Hx1 Hx2]. now rewrite (Hr _ _ Hx1), (Hr _ _ Hx2).
  - destruct v as [| |k' l| | |]; try discriminate. destruct k'; try discriminate.
    eapply all2_impl; [auto | | exact H]. intros; now apply Hr.
  - eapply existsb_impl; [|exact H]. intros t' Hx. now apply Hr.
Qed.

Lemma vgen_S : forall lv n t v, vgen lv rt E n t v = true -> vgen lv rt E (S n) t v = true.
Proof.
  intros lv. induction n as [|n IH]; intros t v H; [discriminate|].
  rewrite vgen_S_eq in H. rewrite vgen_S_eq. eapply vbody_mono; [exact IH | exact H].
Qed.

Lemma vgen_le : forall lv n m t v, n <= m -> vgen lv rt E n t v = true -> vgen lv rt E m t v = true.
Proof. intros lv n m t v Hle H. induction Hle; [assumption | now apply vgen_S]. Qed.

(* ================================================================== results of unm are stable *)
Lemma Forall2_merge : forall {A B} (P : nat -> A -> B -> Prop) l l',
  (forall k a b, P k a b -> P (S k) a b) ->
  Forall2 (fun a b => exists k, P k a b) l l' -> exists k, Forall2 (P k) l l'.
Proof.
  intros A B P l l' Hmono H.
  assert (forall k k' a b, k <= k' -> P k a b -> P k' a b) as Hle
    by (intros k k' a b Hk Hp; induction Hk; auto).
  induction H as [|a b l l' [k1 Hab] _ [k2 IH]]; [exists 0; constructor|].
  exists (Nat.max k1 k2). constructor; [apply (Hle k1); [lia | assumption]|].
  eapply Forall2_imp; [|exact IH]. intros a' b' Hp. apply (Hle k2); [lia | assumption].
Qed.

Lemma Forall2_in_imp : forall {A B} (R Q : A -> B -> Prop) l l',
  Forall2 R l l' -> (forall a b, In a l -> In b l' -> R a b -> Q a b) -> Forall2 Q l l'.
Proof.
  intros A B R Q l l' H. induction H as [|a b l l' Hab _ IH]; intros HQ; constructor.
  - apply HQ; [now left | now left | assumption].
  - apply IH. intros a' b' Ha Hb. apply HQ; now right.
Qed.

Lemma Forall2_in_l : forall {A B} (R : A -> B -> Prop) l l' y,
  Forall2 R l l' -> In y l' -> exists x, In x l /\ R x y.
Proof. intros. eapply Forall2_in_r; eauto. Qed.

Lemma dedupe_incl : forall l seen x, In x (dedupe rt l seen) -> In x l.
Proof.
  induction l as [|y r IH]; cbn; intros seen x H; [contradiction|].
  destruct (mem_pv rt y seen); [right; now apply (IH seen) | destruct H as [H|H]; [now left | right; now apply (IH _ _ H)]].
Qed.

Lemma dedupe_fresh : forall l seen, fresh_from rt (dedupe rt l seen) seen = true.
Proof.
  induction l as [|y r IH]; cbn; intros seen; [reflexivity|].
  destruct (mem_pv rt y seen) eqn:Hm; [apply IH|]. cbn. rewrite Hm. cbn. apply IH.
Qed.

Lemma existsb_false_incl : forall {A} (f : A -> bool) l l',
  (forall x, In x l' -> In x l) -> existsb f l = false -> existsb f l' = false.
Proof.
  intros A f l l' Hi H. destruct (existsb f l') eqn:He; [|reflexivity].
  apply existsb_exists in He as [x [Hx Hf]]. assert (existsb f l = true) as Ht
    by (apply existsb_exists; exists x; auto). congruence.
Qed.

Lemma dict_set_in : forall k v d kv, In kv (dict_set rt k v d) ->
  In (fst kv) (k :: map fst d) /\ In (snd kv) (v :: map snd d).
Proof.
  intros k v d. induction d as [|[k' v'] r IH]; cbn; intros kv H.
  - destruct H as [H|[]]. subst. cbn. auto.
  - destruct (pv_pyeq rt k k').
    + destruct H as [H|H]; [subst; cbn; auto|]. split; right; right; [now apply (in_map fst) | now apply (in_map snd)].
    + destruct H as [H|H]; [subst; cbn; auto|]. destruct (IH _ H) as [[H1|H1] [H2|H2]]; cbn; auto.
Qed.

Lemma dict_fold_in : forall l acc kv,
  In kv (fold_left (fun d kv => dict_set rt (fst kv) (snd kv) d) l acc) ->
  In (fst kv) (map fst l ++ map fst acc) /\ In (snd kv) (map snd l ++ map snd acc).
Proof.
  induction l as [|[k v] r IH]; cbn [fold_left map app]; intros acc kv H.
  - split; [now apply (in_map fst) | now apply (in_map snd)].
  - destruct (IH _ _ H) as [H1 H2]. cbn [fst snd] in *. split.
    + apply in_app_or in H1 as [H1|H1]; [right; apply in_or_app; now left|].
      apply in_map_iff in H1 as [kv' [He Hin]]. destruct (dict_set_in _ _ _ _ Hin) as [[Hk|Hk] _].
      * left. congruence.
      * right. apply in_or_app. right. congruence.
    + apply in_app_or in H2 as [H2|H2]; [right; apply in_or_app; now left|].
      apply in_map_iff in H2 as [kv' [He Hin]]. destruct (dict_set_in _ _ _ _ Hin) as [_ [Hk|Hk]].
      * left. congruence.
      * right. apply in_or_app. right. congruence.
Qed.

Lemma dict_set_keeps_fresh : forall k v d seen,
  fresh_from rt (map fst d) seen = true -> mem_pv rt k seen = false ->
  fresh_from rt (map fst (dict_set rt k v d)) seen = true.
Proof.
  intros k v d. induction d as [|[k' v'] r IH]; cbn; intros seen Hf Hk.
  - now rewrite Hk.
  - apply andb_true_iff in Hf as [H1 H2]. destruct (pv_pyeq rt k k') eqn:Hq; cbn.
    + now rewrite H1, H2.
    + rewrite H1. cbn. apply IH; [assumption|]. cbn. now rewrite Hq, Hk.
Qed.

Lemma dict_fold_fresh_res : forall l acc,
  fresh_from rt (map fst acc) [] = true ->
  fresh_from rt (map fst (fold_left (fun d kv => dict_set rt (fst kv) (snd kv) d) l acc)) [] = true.
Proof.
  induction l as [|[k v] r IH]; cbn [fold_left]; intros acc H; [assumption|].
  apply IH. now apply dict_set_keeps_fresh.
Qed.

Lemma zip_all2 : forall (q : ty -> pv -> bool) ts vs rs, length ts <= length vs ->
  Forall2 (fun (tv : ty * pv) r => q (fst tv) r = true) (zip_trunc ts vs) rs -> all2 true q ts rs = true.
Proof.
  intros q ts. induction ts as [|t ts IH]; intros vs rs Hlen H; cbn in H.
  - inversion H. reflexivity.
  - destruct vs as [|x vs]; [cbn in Hlen; lia|]. inversion H; subst; cbn.
    cbn in *. match goal with Hq : q t _ = true |- _ => rewrite Hq end. cbn. eapply IH; [|eassumption]. lia.
Qed.

Lemma kw_set_in : forall f v kw gv, In gv (kw_set f v kw) -> gv = (f, v) \/ (In gv kw).
Proof.
  intros f v kw. induction kw as [|[g w] r IH]; cbn; intros gv H.
  - destruct H as [H|[]]. now left.
  - destruct (Nat.eqb f g) eqn:Hq.
    + apply Nat.eqb_eq in Hq. subst g. destruct H as [H|H]; [left; now symmetry | right; now right].
    + destruct H as [H|H]; [right; now left|]. destruct (IH _ H) as [H'|H']; [now left | right; now right].
Qed.

Lemma kw_set_nodup : forall f v kw, NoDup (map fst kw) -> NoDup (map fst (kw_set f v kw)).
Proof.
  intros f v kw. induction kw as [|[g w] r IH]; cbn; intros H.
  - constructor; [intros [] | constructor].
  - inversion H as [|? ? Hnot Hnd]. subst. destruct (Nat.eqb f g) eqn:Hq; cbn.
    + now constructor.
    + constructor; [|now apply IH]. intros Hin. apply in_map_iff in Hin as [gv [Hg Hin]].
      destruct (kw_set_in _ _ _ _ Hin) as [He|Hr].
      * subst gv. cbn in Hg. subst. now rewrite Nat.eqb_refl in Hq.
      * apply Hnot. rewrite <- Hg. now apply in_map.
Qed.

Definition KwInv (u : ty -> pv -> res pv) (cd : classdef) (kw : list (nat * pv)) : Prop :=
  NoDup (map fst kw) /\
  forall gv, In gv kw -> exists ft x', field_ty cd (fst gv) = Some ft /\ u ft x' = Ok (snd gv).

Lemma fold_inv : forall u cd kvs acc kw, fold_left (cls_step u cd) kvs acc = Ok kw ->
  exists kw0, acc = Ok kw0 /\ (KwInv u cd kw0 -> KwInv u cd kw).
Proof.
  intros u cd kvs. induction kvs as [|kv r IH]; cbn [fold_left]; intros acc kw H.
  - exists kw. auto.
  - destruct (IH _ _ H) as [kw1 [H1 Hinv]]. unfold cls_step in H1. apply bind_ok in H1 as [kw0 [Hacc Hb]].
    exists kw0. split; [assumption|]. intros I0. apply Hinv.
    destruct (fst kv) as [a|f|k l|k l|c l|c l] eqn:Hk;
      try (destruct (unhashable rt _); [discriminate | inversion Hb; now subst]).
    destruct (field_ty cd f) as [ft|] eqn:Hft; [|inversion Hb; now subst].
    apply bind_ok in Hb as [v' [Hu Hb]]. inversion Hb. subst kw1. destruct I0 as [Hnd Hel].
    split; [now apply kw_set_nodup|]. intros gv Hin. destruct (kw_set_in _ _ _ _ Hin) as [He|Hr].
    + subst gv. exists ft, (snd kv). auto.
    + now apply Hel.
Qed.

Lemma kw_lookup_in : forall kw g v, kw_lookup g kw = Some v -> In (g, v) kw.
Proof.
  induction kw as [|[h w] r IH]; cbn; intros g v H; [discriminate|].
  destruct (Nat.eqb g h) eqn:Hq; [apply Nat.eqb_eq in Hq; inversion H; subst; now left | right; now apply IH].
Qed.

Lemma fill_spec : forall fields kw l, fill_fields fields kw = Ok l ->
  Forall2 (fun fd gv => fst gv = fname fd /\ (In (fname fd, snd gv) kw \/ fdefault fd = Some (snd gv))) fields l.
Proof.
  induction fields as [|fd fields IH]; cbn; intros kw l H.
  - inversion H. constructor.
  - destruct (kw_lookup (fname fd) kw) as [v|] eqn:Hl.
    + apply bind_ok in H as [t [Ht H]]. inversion H. subst. constructor; [|now apply IH].
      cbn. split; [reflexivity | left; now apply kw_lookup_in].
    + destruct (fdefault fd) as [v|] eqn:Hd; [|discriminate].
      apply bind_ok in H as [t [Ht H]]. inversion H. subst. constructor; [|now apply IH]. cbn. auto.
Qed.

Lemma td_ok_of : forall chk kw seen, NoDup (map fst kw) -> (forall g, In g (map fst kw) -> ~ In g seen) ->
  (forall gv, In gv kw -> chk (fst gv) (snd gv) = true) -> td_ok chk (map pk kw) seen = true.
Proof.
  intros chk kw. induction kw as [|[g x] r IH]; intros seen Hnd Hdis Hchk; cbn; [reflexivity|].
  inversion Hnd as [|? ? Hnot Hnd']. subst.
  assert (existsb (Nat.eqb g) seen = false) as Hs.
  { destruct (existsb (Nat.eqb g) seen) eqn:He; [|reflexivity]. apply existsb_exists in He as [h [Hh Hq]].
    apply Nat.eqb_eq in Hq. subst h. exfalso. apply (Hdis g); [now left | assumption]. }
  rewrite Hs. cbn. pose proof (Hchk (g, x) (or_introl eq_refl)) as Hgx. cbn in Hgx. rewrite Hgx. cbn. apply IH; [assumption | | intros gv Hin; apply Hchk; now right].
  intros h Hh [He|Hin]; [subst; contradiction | apply (Hdis h); [now right | assumption]].
Qed.

Lemma Forall2_map_r : forall {A B C} (R : A -> C -> Prop) (g : B -> C) l l',
  Forall2 (fun a b => R a (g b)) l l' -> Forall2 R l (map g l').
Proof. intros A B C R g l l' H. induction H; cbn; constructor; auto. Qed.

Lemma optional_pair_none : forall ts a, optional_pair ts = Some a -> In TNone ts.
Proof.
  intros ts a. destruct ts as [|x [|y [|z r]]]; cbn [optional_pair]; try discriminate.
  destruct (is_none_ty y) eqn:Hy; [apply is_none_ty_eq in Hy; subst; intros _; right; now left|].
  destruct (is_none_ty x) eqn:Hx; [|discriminate]. apply is_none_ty_eq in Hx. subst. intros _. now left.
Qed.

Section Idem.
Hypothesis LAWS : IdemLaws rt.
Hypothesis WF : wf_env E.
Hypothesis DC : DefaultsConform rt E.
Notation sg := (vgen (fixlv rt) rt E).
Notation oo := (optional_only E).

Definition Stab (t : ty) (y : pv) : Prop := exists k, sg k t y = true.

Lemma none_res : forall x y, none_u rt x = Ok y -> y = none rt.
Proof.
  intros x y H. destruct (pv_eqb x (none rt)) eqn:Hx.
  - apply pv_eqb_eq in Hx. subst x. rewrite (none_pass _ (il_none _ LAWS)) in H. now inversion H.
  - destruct (none_rejects _ (il_none _ LAWS) x Hx) as [e [He _]]. congruence.
Qed.

Lemma stab_lift : forall t t' y, (forall k v, sg (S k) t v = sg k t' v) -> Stab t' y -> Stab t y.
Proof. intros t t' y H [k Hk]. exists (S k). now rewrite H. Qed.

Section StepI.
Variable n : nat.
Hypothesis IH : forall T x y, oo n T = true -> unm rt E n T x = Ok y -> Stab T y.

Lemma res_cls : forall c x y,
  match E c with None => true | Some (NType t') => oo n t'
  | Some (NClass cd) => forallb (fun fd => oo n (fty fd)) (cfields cd) end = true ->
  unm_cls (unm rt E n) c x = Ok y ->
  exists k, vbody (fixlv rt) (sg k) (TName c) y = true.
Proof.
  intros c x y Ho H. unfold unm_cls in H. cbn [vbody]. destruct (E c) as [[cd|t']|] eqn:HE; [| |discriminate].
  2:{ exact (IH _ _ _ Ho H). }
  apply bind_ok in H as [d [_ H]]. apply bind_ok in H as [kvs [_ H]]. apply bind_ok in H as [kw [Hfold Hc]].
  destruct (fold_inv _ _ _ _ _ Hfold) as [kw0 [Hk0 Hinv]]. inversion Hk0. subst kw0.
  destruct Hinv as [Hnd Hel]; [split; [constructor | intros gv []]|].
  pose proof (WF c cd HE) as Hnames.
  assert (forall gv, In gv kw -> exists ft, field_ty cd (fst gv) = Some ft /\ Stab ft (snd gv)) as Hst.
  { intros gv Hin. destruct (Hel gv Hin) as [ft [x' [Hft Hu]]]. exists ft. split; [assumption|].
    destruct (field_ty_in _ _ _ Hft) as [fd [Hfd Heq]]. subst ft. rewrite forallb_forall in Ho.
    exact (IH _ _ _ (Ho fd Hfd) Hu). }
  assert (forall l, fill_fields (cfields cd) kw = Ok l ->
            exists k, Forall2 (fun fd gv => fst gv = fname fd /\ sg k (fty fd) (snd gv) = true) (cfields cd) l) as Hfill.
  { intros l Hl. apply fill_spec in Hl.
    apply (Forall2_merge (fun k fd gv => fst gv = fname fd /\ sg k (fty fd) (snd gv) = true)).
    - intros k fd gv [H1 H2]. split; [assumption | now apply vgen_S].
    - eapply Forall2_in_imp; [exact Hl|]. intros fd gv Hfd _ [H1 H2].
      destruct H2 as [Hin|Hdef].
      + destruct (Hst _ Hin) as [ft [Hft [k Hk]]]. cbn in Hft, Hk.
        rewrite (field_ty_nodup cd fd Hnames Hfd) in Hft. inversion Hft. subst ft. exists k. auto.
      + destruct (DC c cd fd _ HE Hfd Hdef) as [k Hk]. exists k. auto. }
  assert (forall l k, Forall2 (fun fd gv => fst gv = fname fd /\ sg k (fty fd) (snd gv) = true) (cfields cd) l ->
            Nat.eqb c c && all2 true (fun fd gv => Nat.eqb (fname fd) (fst gv) && sg k (fty fd) (snd gv)) (cfields cd) l = true)
    as Hobj.
  { intros l k HF. rewrite Nat.eqb_refl. cbn. apply Forall2_all2. eapply Forall2_imp; [|exact HF].
    intros fd gv [H1 H2]. cbn beta. rewrite H1, Nat.eqb_refl, H2. reflexivity. }
  unfold construct_class in Hc. destruct (cflavour cd) eqn:Hfl.
  - apply bind_ok in Hc as [l [Hl Hc]]. inversion Hc. subst y. destruct (Hfill l Hl) as [k Hk]. exists k. now apply Hobj.
  - apply bind_ok in Hc as [l [Hl Hc]]. inversion Hc. subst y. destruct (Hfill l Hl) as [k Hk]. exists k.
    rewrite Nat.eqb_refl. cbn. apply Forall2_all2. apply Forall2_map_r. eapply Forall2_imp; [|exact Hk].
    intros fd gv [_ H2]. exact H2.
  - destruct (forallb _ (cfields cd)) eqn:Hreq in Hc; [|discriminate]. injection Hc as Hy. subst y.
    destruct (ex_merge (fun k gv => match field_ty cd (fst gv) with Some ft => sg k ft (snd gv) | None => false end = true) kw)
      as [k Hk].
    { intros gv Hin. destruct (Hst gv Hin) as [ft [Hft [k Hk]]]. exists k. intros f Hf. rewrite Hft.
      now apply (vgen_le _ k). }
    exists k. change (map (fun fv : nat * pv => (PKey (fst fv), snd fv)) kw) with (map pk kw).
    apply andb_true_iff. split.
    + apply td_ok_of; [assumption | intros g _ [] |]. intros gv Hin. now apply (Hk k).
    + unfold req_ok. erewrite forallb_ext; [exact Hreq|]. intros fd. cbn beta. now rewrite has_key_pk.
  - apply bind_ok in Hc as [l [Hl Hc]]. inversion Hc. subst y. destruct (Hfill l Hl) as [k Hk]. exists k. now apply Hobj.
Qed.
End StepI.

Lemma results_stable : forall n T x y, oo n T = true -> unm rt E n T x = Ok y -> Stab T y.
Proof.
  induction n as [|n IH]; intros T x y Ho H; [discriminate|].
  destruct T; cbn [optional_only] in Ho.
  - (* TLeaf *) rewrite unm_leaf in H. exists 1. cbn. unfold fixlv.
    rewrite (leaf_idem _ LAWS _ _ _ H). apply pv_eqb_refl.
  - (* TNone *) rewrite unm_none in H. apply none_res in H. subst. exists 1. cbn. apply pv_eqb_refl.
  - (* TSeq *)
    rewrite unm_seq in H. apply bind_ok in H as [d [_ H]]. apply bind_ok in H as [vs [_ H]].
    apply (proj1 (TL.Proofs.CoreHash.seq_step_ok_iff _ _ _ _ _)) in H.
    apply bind_ok in H as [rs [Hm Hc]]. apply mapM_ok in Hm.
    destruct (ex_merge (fun k r => sg k T r = true) rs) as [m Hmm].
    { intros r Hr. destruct (Forall2_in_l _ _ _ _ Hm Hr) as [x' [_ Hu]]. destruct (IH _ _ _ Ho Hu) as [k0 Hk0].
      exists k0. intros f Hf. now apply (vgen_le _ k0). }
    exists (S m). cbn [vgen]. unfold construct_seq in Hc.
    destruct k; try (inversion Hc; subst y; cbn [seqkind_eqb set_ok andb]; rewrite andb_true_r;
                     apply forallb_forall; intros r Hr; now apply (Hmm m));
      (destruct (existsb (unhashable rt) rs) eqn:Hh; [discriminate|]; inversion Hc; subst y;
       cbn [seqkind_eqb set_ok andb]; apply andb_true_iff; split;
       [apply forallb_forall; intros r Hr; apply (Hmm m); [lia | now apply dedupe_incl in Hr]
       |unfold hashable_all; rewrite (existsb_false_incl _ rs _ (dedupe_incl rs []) Hh); cbn; apply dedupe_fresh]).
  - (* TMap *)
    rewrite unm_map in H. apply andb_true_iff in Ho as [Ho1 Ho2].
    apply bind_ok in H as [d [_ H]]. apply bind_ok in H as [kvs [_ H]].
    apply (proj1 (TL.Proofs.CoreHash.map_step_ok_iff _ _ _ _ _)) in H.
    apply bind_ok in H as [rs [Hm Hc]]. apply mapM_ok in Hm.
    destruct (ex_merge (fun k r => sg k T1 (fst r) = true /\ sg k T2 (snd r) = true) rs) as [m Hmm].
    { intros r Hr. destruct (Forall2_in_l _ _ _ _ Hm Hr) as [kv [_ Hu]]. unfold map_step in Hu.
      apply bind_ok in Hu as [k' [Hu1 Hu]]. apply bind_ok in Hu as [v' [Hu2 Hu]]. inversion Hu. subst r.
      destruct (IH _ _ _ Ho1 Hu1) as [k1 Hk1]. destruct (IH _ _ _ Ho2 Hu2) as [k2 Hk2].
      exists (Nat.max k1 k2). intros f Hf. cbn [fst snd].
      split; [apply (vgen_le _ k1) | apply (vgen_le _ k2)]; try assumption; lia. }
    unfold construct_map in Hc. destruct (existsb (fun kv => unhashable rt (fst kv)) rs) eqn:Hh; [discriminate|].
    inversion Hc. subst y. rewrite existsb_map_fst in Hh.
    assert (forall kv, In kv (dict_of rt rs) -> In (fst kv) (map fst rs) /\ In (snd kv) (map snd rs)) as Hin.
    { intros kv Hkv. unfold dict_of in Hkv. apply dict_fold_in in Hkv. cbn in Hkv. now rewrite !app_nil_r in Hkv. }
    exists (S m). cbn [vgen]. rewrite dictkind_eqb_refl. cbn [andb]. apply andb_true_iff. split.
    + apply forallb_forall. intros kv Hkv. destruct (Hin kv Hkv) as [H1 H2].
      apply in_map_iff in H1 as [r1 [He1 Hr1]]. apply in_map_iff in H2 as [r2 [He2 Hr2]].
      destruct (Hmm m (le_n m) r1 Hr1) as [Ha _]. destruct (Hmm m (le_n m) r2 Hr2) as [_ Hb].
      rewrite <- He1, <- He2. now rewrite Ha, Hb.
    + unfold keys_ok, hashable_all. apply andb_true_iff. split.
      * rewrite (existsb_false_incl _ (map fst rs) _ ); [reflexivity | | assumption].
        intros k' Hk'. apply in_map_iff in Hk' as [kv [He Hkv]]. subst k'. now apply Hin.
      * unfold dict_of. now apply dict_fold_fresh_res.
  - (* TTuple *)
    rewrite unm_tuple in H. apply bind_ok in H as [d [_ H]]. apply bind_ok in H as [vs [_ H]].
    destruct (Nat.ltb (length vs) (length ts)) eqn:Hlt; [discriminate|]. apply Nat.ltb_ge in Hlt.
    apply bind_ok in H as [rs [Hm Hc]]. inversion Hc. subst y. apply mapM_ok in Hm.
    destruct (Forall2_merge (fun k (tv : ty * pv) r => sg k (fst tv) r = true) (zip_trunc ts vs) rs) as [k Hk].
    { intros k tv r. apply vgen_S. }
    { eapply Forall2_in_imp; [exact Hm|]. intros tv r Htv _ Hu. rewrite forallb_forall in Ho.
      assert (In (fst tv) ts) as Hin.
      { clear - Htv. revert vs Htv. induction ts as [|t ts' IHt]; intros [|v vs] Hi; cbn in Hi; try contradiction.
        destruct Hi as [Hi|Hi]; [subst; now left | right; now apply (IHt vs)]. }
      exact (IH _ _ _ (Ho _ Hin) Hu). }
    exists (S k). cbn [vgen]. now apply (zip_all2 _ _ vs).
  - (* TUnion *)
    destruct (optional_pair ts) as [a|] eqn:Hop; [|discriminate].
    destruct (optional_pair_spec _ _ Hop) as [Hstack [Hina _]]. pose proof (optional_pair_none _ _ Hop) as Hinn.
    rewrite unm_union, Hstack in H. cbn [map first_ok] in H.
    destruct (unm rt E n TNone x) as [y'|e| |] eqn:H1; try discriminate.
    + inversion H. subst y'. destruct n; [discriminate|]. rewrite unm_none in H1. apply none_res in H1. subst y.
      exists 2. cbn [vgen]. apply existsb_exists. exists TNone. split; [assumption|]. cbn. apply pv_eqb_refl.
    + destruct (suppressed rt e); [|discriminate].
      destruct (unm rt E n a x) as [y'|e'| |] eqn:H2; try discriminate.
      * inversion H. subst y'. destruct (IH _ _ _ Ho H2) as [k Hk]. exists (S k). cbn [vgen].
        apply existsb_exists. exists a. auto.
      * destruct (suppressed rt e'); discriminate.
  - (* TName *) rewrite unm_name in H. destruct (res_cls n IH _ _ _ Ho H) as [k Hk]. exists (S k). now rewrite vgen_S_eq.
  - (* TRef *) rewrite unm_ref in H. destruct (res_cls n IH _ _ _ Ho H) as [k Hk]. exists (S k). now rewrite vgen_S_eq.
  - (* TRefLeaf *) rewrite unm_refleaf in H. exists 1. cbn. unfold fixlv.
    rewrite (leaf_idem _ LAWS _ _ _ H). apply pv_eqb_refl.
  - (* TRefTo *) rewrite unm_refto in H. apply (stab_lift _ T); [reflexivity | now apply (IH _ x)].
  - (* TNewType *) rewrite unm_newtype in H. apply (stab_lift _ T); [reflexivity | now apply (IH _ x)].
  - (* TAlias *) rewrite unm_alias in H. apply (stab_lift _ T); [reflexivity | now apply (IH _ x)].
  - (* TAliasStr *) rewrite unm_aliasstr in H. destruct (res_cls n IH _ _ _ Ho H) as [k Hk]. exists (S k). now rewrite vgen_S_eq.
  - (* TFinal *) rewrite unm_final in H. apply (stab_lift _ T); [reflexivity | now apply (IH _ x)].
  - (* TClassVar *) rewrite unm_classvar in H. apply (stab_lift _ T); [reflexivity | now apply (IH _ x)].
Qed.
End Idem.
End Sem.

(* ================================================================== the statements used by Props/C13.v *)
Theorem passthrough : forall rt E lv, PassLaws rt lv -> wf_env E ->
  forall n T v, optional_only E n T = true -> valid lv rt E n T v = true ->
  exists m, forall fuel, m <= fuel -> unm rt E fuel T v = Ok v.
Proof. intros rt E lv L W n T v Ho Hv. exact (pass_stable rt E lv L W n T v Ho Hv). Qed.

Theorem valid_fuel_mono : forall rt E lv n m T v, n <= m -> valid lv rt E n T v = true -> valid lv rt E m T v = true.
Proof. intros rt E lv n m T v. apply vgen_le. Qed.

Lemma fixlv_laws : forall rt, IdemLaws rt -> PassLaws rt (fixlv rt).
Proof.
  intros rt L. split; [exact (il_none _ L)|]. intros s v H. unfold fixlv in H.
  destruct (leaf_u rt s v) as [y| | |] eqn:Hu; try discriminate. apply pv_eqb_eq in H. now subst.
Qed.

Theorem unm_results_stable : forall rt E, IdemLaws rt -> wf_env E -> DefaultsConform rt E ->
  forall n T x y, optional_only E n T = true -> unm rt E n T x = Ok y ->
  exists k, valid (fixlv rt) rt E k T y = true.
Proof. intros rt E L W D n T x y Ho H. exact (results_stable rt E L W D n T x y Ho H). Qed.

Theorem idempotent : forall rt E, IdemLaws rt -> wf_env E -> DefaultsConform rt E ->
  forall T, (forall k, optional_only E k T = true) ->
  forall n x y, unm rt E n T x = Ok y ->
  exists m, forall fuel, m <= fuel -> unm rt E fuel T y = Ok y.
Proof.
  intros rt E L W D T Ho n x y H.
  destruct (unm_results_stable rt E L W D n T x y (Ho n) H) as [k Hk].
  exact (passthrough rt E (fixlv rt) (fixlv_laws rt L) W k T y (Ho k) Hk).
Qed.

(* the computable guards are sound *)
Lemma defaults_okb_sound : forall rt E k cs, env_dom E cs -> defaults_okb rt E k cs = true -> DefaultsConform rt E.
Proof.
  intros rt E k cs Hd Hb c cd fd d HE Hfd Hdef. unfold defaults_okb in Hb. rewrite forallb_forall in Hb.
  assert (In c cs) as Hc by (apply Hd; congruence). specialize (Hb c Hc). rewrite HE in Hb.
  rewrite forallb_forall in Hb. specialize (Hb fd Hfd). rewrite Hdef in Hb. now exists k.
Qed.

Lemma nodup_namesb_sound : forall E cs, env_dom E cs -> nodup_namesb E cs = true -> wf_env E.
Proof.
  intros E cs Hd Hb c cd HE. unfold nodup_namesb in Hb. rewrite forallb_forall in Hb.
  assert (In c cs) as Hc by (apply Hd; congruence). specialize (Hb c Hc). rewrite HE in Hb.
  revert Hb. generalize (map fname (cfields cd)) as l. induction l as [|x r IH]; intros H; [constructor|].
  apply andb_true_iff in H as [H1 H2]. apply negb_true_iff in H1. constructor; [|now apply IH].
  intros Hin. assert (existsb (Nat.eqb x) r = true) as Ht
    by (apply existsb_exists; exists x; split; [assumption | apply Nat.eqb_refl]). congruence.
Qed.
