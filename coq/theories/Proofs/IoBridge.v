(* Proofs of the bridge Core (load / itervalues / iteritems) <-> Iter.v (C18) and Serdes.v (C14). *)
From Coq Require Import List ZArith NArith String Ascii Bool Arith Lia.
Import ListNotations.
Require TL.Model.Core TL.Model.Iter TL.Model.Serdes TL.Proofs.IterLemmas TL.Proofs.SerdesLemmas TL.Proofs.CoreC13.
Require Import TL.Model.IoBridge.

Module IL := TL.Proofs.IterLemmas.
Module SL := TL.Proofs.SerdesLemmas.

(* ------------------------------------------------------------------ results *)
Lemma exn_dn_inj a b : exn_dn a = exn_dn b -> a = b.
Proof. destruct a, b; cbn; intros H; try reflexivity; discriminate. Qed.

Lemma down_inj {A} (r1 r2 : I.res A) : down r1 = down r2 -> r1 = r2.
Proof.
  destruct r1 as [a|e|], r2 as [b|f|]; cbn; intros H; try discriminate; try reflexivity.
  - now inversion H.
  - inversion H as [H1]. now rewrite (exn_dn_inj _ _ H1).
Qed.

Lemma rmap_ok {A B} (f : A -> B) r b : rmap f r = C.Ok b -> exists a, r = C.Ok a /\ f a = b.
Proof. destruct r as [a|e| |]; cbn; intros H; try discriminate. inversion H. now exists a. Qed.
Lemma rmap_raise {A B} (f : A -> B) r e : rmap f r = C.Raise e -> r = C.Raise e.
Proof. destruct r as [a|e'| |]; cbn; intros H; try discriminate. now inversion H. Qed.
Lemma rmap_unmodelled {A B} (f : A -> B) r : rmap f r = C.Unmodelled -> r = C.Unmodelled.
Proof. destruct r as [a|e'| |]; cbn; intros H; try discriminate. reflexivity. Qed.

(* ------------------------------------------------------------------ lists *)
Lemma map_snd_combine {A B} (a : list A) (b : list B) :
  List.length a = List.length b -> map snd (combine a b) = b.
Proof.
  revert b. induction a as [|x a IH]; intros [|y b] H; cbn in *; try discriminate; try reflexivity.
  f_equal. apply IH. now inversion H.
Qed.

Lemma map_combine {A B A' B'} (f : A -> A') (g : B -> B') a b :
  map (fun kv => (f (fst kv), g (snd kv))) (combine a b) = combine (map f a) (map g b).
Proof.
  revert b. induction a as [|x a IH]; intros [|y b]; cbn; try reflexivity. now rewrite IH.
Qed.

Lemma strs_eqb_eq a b : strs_eqb a b = true -> a = b.
Proof.
  revert b. induction a as [|x a IH]; intros [|y b] H; cbn in H; try discriminate; try reflexivity.
  apply andb_prop in H. destruct H as [H1 H2]. apply String.eqb_eq in H1. subst. f_equal. now apply IH.
Qed.

Lemma existsb_eqb_false a l : existsb (String.eqb a) l = false -> ~ In a l.
Proof.
  induction l as [|b l IH]; cbn; intros H; [tauto|].
  apply orb_false_iff in H. destruct H as [H1 H2]. intros [Hb|Hin].
  - subst. now rewrite String.eqb_refl in H1.
  - now apply IH.
Qed.

Lemma nodup_str_NoDup l : nodup_str l = true -> NoDup l.
Proof.
  induction l as [|a l IH]; cbn; intros H; [constructor|].
  apply andb_prop in H. destruct H as [H1 H2]. apply negb_true_iff in H1.
  constructor; [now apply existsb_eqb_false | now apply IH].
Qed.

(* ------------------------------------------------------------------ the iteration model *)
Lemma xvalues_iterable x :
  I.isiterabletype (I.class_of x) = true -> I.ismappingtype (I.class_of x) = false ->
  I.isnamedtuple (I.class_of x) = false -> xvalues x = I.Ok (I.elems x).
Proof.
  intros Hi Hm Hn. unfold xvalues.
  rewrite (IL.values_iterable I.repaired x Hi Hm Hn). cbn [fst]. rewrite IL.snd_enumerate.
  destruct x; try reflexivity; discriminate.
Qed.

(* None and int behave like every instance without __dict__ of a class that declares nothing *)
Lemma scalar_shape_raises d :
  I.c_dataclass d = false -> I.public (I.c_hints d) = [] -> I.c_slots d = None ->
  fst (I.iteritems I.repaired (I.VObj d [] None [])) = I.Raise I.EType /\
  fst (I.itervalues I.repaired (I.VObj d [] None [])) = I.Raise I.EType.
Proof.
  intros Hd Hh Hs. unfold I.iteritems, I.itervalues, I.is_iterable_of_pairs.
  cbn [I.class_of I.isiterabletype I.ismappingtype I.isnamedtuple negb orb I.get_items_iter].
  unfold I.make_fields_iterator, I.hints_of. cbn [I.fix_no_sig_hints I.repaired I.fix_vars_nodict].
  rewrite Hd, Hh, Hs. cbn. split; reflexivity.
Qed.

Lemma unpack_tup k v : unpackI (I.tup k v) = I.Ok (k, v).
Proof. reflexivity. Qed.

Lemma imapM_unpack_tup l : imapM unpackI (map IL.tup' l) = I.Ok l.
Proof.
  induction l as [|[k v] l IH]; [reflexivity|].
  cbn [map imapM]. unfold IL.tup' at 1. cbn [fst snd]. rewrite unpack_tup. cbn [ibind]. rewrite IH. reflexivity.
Qed.

(* ------------------------------------------------------------------ mapM on both sides *)
Lemma mapM_commute {A A' B B'} (f : A -> C.res B) (f' : A' -> I.res B') (h : A -> A') (g : B -> B') l :
  (forall x, In x l -> rmap g (f x) = down (f' (h x))) ->
  rmap (map g) (C.mapM f l) = down (imapM f' (map h l)).
Proof.
  induction l as [|x l IH]; intros H; [reflexivity|].
  cbn [C.mapM map imapM].
  assert (Hx := H x (or_introl eq_refl)).
  assert (Hl := IH (fun y Hy => H y (or_intror Hy))). clear IH H.
  destruct (f x) as [b|e| |]; destruct (f' (h x)) as [b'|e'|]; cbn in Hx; try discriminate;
    cbn [C.bind ibind rmap down]; try (rewrite <- Hx; reflexivity); try reflexivity.
  - inversion Hx as [Hb]. clear Hx.
    destruct (C.mapM f l) as [t|e| |]; destruct (imapM f' (map h l)) as [t'|e'|]; cbn in Hl; try discriminate;
      cbn [C.bind ibind rmap down map]; try (rewrite <- Hl; reflexivity); try reflexivity.
    inversion Hl. reflexivity.
  - inversion Hx. reflexivity.
Qed.

Section Emb.
Variable P : shape.
Variable E : C.env.
Notation emb := (emb P E).
Notation emb2 := (emb2 P E).

(* ------------------------------------------------------------------ the embedding, one level *)
Lemma emb_obj_cases c l :
  let attrs := map (fun fv : nat * C.pv => match fv with (f, x) => (k_name P f, emb x) end) l in
  emb (C.PObj c l) = I.VObj (cls_of P c) attrs None [] \/ emb (C.PObj c l) = I.VObj (cls_of P c) [] (Some attrs) [].
Proof. cbn [IoBridge.emb]. destruct (in_slots P c); [left | right]; reflexivity. Qed.

Lemma class_obj c l : I.class_of (emb (C.PObj c l)) = I.CObj (cls_of P c).
Proof. cbn [IoBridge.emb]. destruct (in_slots P c); reflexivity. Qed.

Lemma emb_not_oneshot v : C.is_scalar v = false -> I.is_oneshot (emb v) = false.
Proof.
  destruct v; cbn [C.is_scalar]; intros H; try discriminate; try reflexivity.
  cbn [IoBridge.emb]. destruct (in_slots P c); reflexivity.
Qed.

Lemma sized_seqk k : I.sized_kind (seqk k) = true.
Proof. destruct k; reflexivity. Qed.

Lemma map_emb_pairs (l : list (C.pv * C.pv)) :
  map (fun kv : C.pv * C.pv => match kv with (a, b) => (emb a, emb b) end) l = map emb2 l.
Proof. apply map_ext. intros [a b]. reflexivity. Qed.

(* "a collection of length 2" means the same on both sides *)
Lemma pairlike_emb rt : IterLaws P E rt -> forall x, C.pairlike rt x = I.is_pair_elem (emb x).
Proof.
  intros L x. destruct x as [a|f|k l|k l|c l|c l].
  - exact (il_pairlike P E rt L (C.PAtom a) eq_refl).
  - exact (il_pairlike P E rt L (C.PKey f) eq_refl).
  - unfold I.is_pair_elem. cbn [IoBridge.emb I.class_of I.iscollectiontype I.py_len]. rewrite sized_seqk, map_length.
    destruct l as [|x1 [|x2 [|x3 l]]]; reflexivity.
  - unfold I.is_pair_elem. cbn [IoBridge.emb I.class_of I.iscollectiontype I.py_len]. rewrite map_length.
    destruct l as [|x1 [|x2 [|x3 l]]]; reflexivity.
  - unfold I.is_pair_elem. rewrite class_obj. reflexivity.
  - unfold I.is_pair_elem. cbn [IoBridge.emb I.class_of I.iscollectiontype I.py_len]. rewrite map_length.
    destruct l as [|x1 [|x2 [|x3 l]]]; reflexivity.
Qed.

(* unpacking one element: containers *)
Lemma unpack2_emb rt x : C.is_scalar x = false -> rmap emb2 (C.unpack2 rt x) = down (unpackI (emb x)).
Proof.
  destruct x as [a|f|k l|k l|c l|c l]; cbn [C.is_scalar]; intros H; try discriminate.
  - unfold unpackI. cbn [IoBridge.emb I.class_of I.isiterabletype I.elems].
    destruct l as [|x1 [|x2 [|x3 l]]]; reflexivity.
  - unfold unpackI. cbn [IoBridge.emb I.class_of I.isiterabletype I.elems].
    destruct l as [|[x1 y1] [|[x2 y2] [|[x3 y3] l]]]; reflexivity.
  - unfold unpackI. rewrite class_obj. reflexivity.
  - unfold unpackI. cbn [IoBridge.emb I.class_of I.isiterabletype I.elems].
    destruct l as [|x1 [|x2 [|x3 l]]]; reflexivity.
Qed.

(* unpacking one element: scalars, by the runtime's unpack_scalar *)
Lemma unpack2_scalar rt x : IterLaws P E rt -> C.is_scalar x = true ->
  rmap emb2 (C.unpack2 rt x) = down (unpackI (emb x)).
Proof.
  intros L Hs. destruct x; try discriminate; exact (il_unpack P E rt L _ Hs).
Qed.

Lemma unpack2_all rt x : IterLaws P E rt -> rmap emb2 (C.unpack2 rt x) = down (unpackI (emb x)).
Proof.
  intros L. destruct (C.is_scalar x) eqn:Hs; [exact (unpack2_scalar rt x L Hs) | exact (unpack2_emb rt x Hs)].
Qed.

(* the previous definition (scalars through itervalues), where it was right *)
Lemma unpack2_pinned_scalar rt x : IterLaws P E rt -> C.is_scalar x = true -> scalar_unpack_ok (emb x) = true ->
  rmap emb2 (unpack2_pinned rt x) = down (unpackI (emb x)).
Proof.
  intros L Hs Hok.
  assert (Hu : unpack2_pinned rt x =
               C.bind (C.values_scalar rt x) (fun l => match l with [a; b] => C.Ok (a, b) | _ => C.Raise C.EValue end))
    by (destruct x; try discriminate; reflexivity).
  rewrite Hu. clear Hu.
  assert (Hv := il_values P E rt L x Hs). unfold scalar_unpack_ok in Hok.
  destruct (xvalues (emb x)) as [l'|e|] eqn:Hx; [| |discriminate].
  - apply andb_prop in Hok. destruct Hok as [Hok Hn]. apply andb_prop in Hok. destruct Hok as [Hi Hm].
    apply negb_true_iff in Hn. apply negb_true_iff in Hm.
    rewrite (xvalues_iterable _ Hi Hm Hn) in Hx. inversion Hx as [Hl]. clear Hx.
    cbn [down] in Hv. apply rmap_ok in Hv. destruct Hv as [l [Hr Hmap]]. rewrite Hr. cbn [C.bind].
    unfold unpackI. rewrite Hi, Hl, <- Hmap.
    destruct l as [|x1 [|x2 [|x3 l]]]; reflexivity.
  - apply andb_prop in Hok. destruct Hok as [Hi He]. apply negb_true_iff in Hi.
    destruct e; try discriminate. cbn [down exn_dn] in Hv. apply rmap_raise in Hv. rewrite Hv. cbn [C.bind rmap].
    unfold unpackI. rewrite Hi. reflexivity.
Qed.

Lemma enumerate_emb rt : IterLaws P E rt -> forall l i,
  map emb2 (C.enumerate_from rt i l) = I.enum_from (Z.of_nat i) (map emb l).
Proof.
  intros L. induction l as [|v l IH]; intros i; [reflexivity|].
  cbn [C.enumerate_from map I.enum_from]. unfold IoBridge.emb2 at 1. cbn [fst snd].
  rewrite (il_index P E rt L i). f_equal. rewrite IH. f_equal. lia.
Qed.


(* ------------------------------------------------------------------ structured instances *)
Lemma lookup_nodup (attrs : list (string * I.val)) a v :
  NoDup (map fst attrs) -> In (a, v) attrs -> I.lookup a attrs = Some v.
Proof.
  induction attrs as [|[k w] r IH]; intros Hnd Hin; [contradiction|].
  cbn [map fst] in Hnd. inversion Hnd as [|? ? Hk Hr]. subst. cbn [I.lookup].
  destruct Hin as [Heq|Hin].
  - inversion Heq. subst. rewrite String.eqb_refl. reflexivity.
  - destruct (String.eqb k a) eqn:Hka.
    + apply String.eqb_eq in Hka. subst. exfalso. apply Hk. apply (in_map fst) in Hin. exact Hin.
    + now apply IH.
Qed.

Lemma flat_map_attrs (attrs : list (string * I.val)) :
  NoDup (map fst attrs) ->
  flat_map (fun a => match I.lookup a attrs with Some v => [(I.VStr a, v)] | None => [] end) (map fst attrs)
  = I.str_items attrs.
Proof.
  intros Hnd.
  assert (G : forall sub, incl sub attrs ->
            flat_map (fun a => match I.lookup a attrs with Some v => [(I.VStr a, v)] | None => [] end) (map fst sub)
            = I.str_items sub).
  { induction sub as [|[a v] sub IH]; intros Hin; [reflexivity|].
    cbn [map fst flat_map]. rewrite (lookup_nodup attrs a v Hnd (Hin _ (or_introl eq_refl))).
    rewrite IH by (intros y Hy; apply Hin; now right). reflexivity. }
  apply G. apply incl_refl.
Qed.

Lemma public_items_all (attrs : list (string * I.val)) :
  forallb (fun s => negb (I.is_private s)) (map fst attrs) = true -> I.public_items attrs = attrs.
Proof.
  induction attrs as [|[k w] r IH]; cbn [map fst forallb]; intros H; [reflexivity|].
  apply andb_prop in H. destruct H as [H1 H2]. unfold I.public_items. cbn [filter fst]. rewrite H1.
  f_equal. now apply IH.
Qed.

Definition attrs_of (fs : list (nat * C.pv)) : list (string * I.val) :=
  map (fun fv : nat * C.pv => match fv with (f, x) => (k_name P f, emb x) end) fs.

Lemma attrs_names fs : map fst (attrs_of fs) = names_of P fs.
Proof. unfold attrs_of, names_of. rewrite map_map. apply map_ext. intros [f x]. reflexivity. Qed.

Lemma attrs_values fs : map snd (I.str_items (attrs_of fs)) = map emb (map snd fs).
Proof.
  unfold attrs_of, I.str_items. rewrite !map_map. apply map_ext. intros [f x]. reflexivity.
Qed.

Lemma attrs_items fs : I.str_items (attrs_of fs) = map emb2 (map (fun fv : nat * C.pv => (C.PKey (fst fv), snd fv)) fs).
Proof.
  unfold attrs_of, I.str_items. rewrite !map_map. apply map_ext. intros [f x]. reflexivity.
Qed.

(* a guarded PObj is, through the embedding, an object whose specified pairs are exactly its listed fields *)
Lemma obj_spec_pairs c fs : obj_names_ok P c fs = true ->
  I.spec_obj_pairs (emb (C.PObj c fs)) = I.str_items (attrs_of fs).
Proof.
  intros H. unfold obj_names_ok in H. apply andb_prop in H. destruct H as [Hnd Hd].
  apply nodup_str_NoDup in Hnd. rewrite <- attrs_names in Hnd.
  cbn [IoBridge.emb]. fold (attrs_of fs). unfold declared in Hd.
  destruct (in_slots P c) eqn:Hsl.
  - unfold I.spec_obj_pairs.
    destruct (I.c_flavour (cls_of P c)) eqn:Hfl;
      try (apply strs_eqb_eq in Hd; rewrite Hd, <- attrs_names;
           unfold I.attr; cbn [I.dict_items app]; rewrite app_nil_r; apply flat_map_attrs; exact Hnd).
    apply andb_prop in Hd. destruct Hd as [_ Hd]. discriminate.
  - unfold I.spec_obj_pairs.
    destruct (I.c_flavour (cls_of P c)) eqn:Hfl;
      try (apply strs_eqb_eq in Hd; rewrite Hd, <- attrs_names;
           unfold I.attr; cbn [I.dict_items app]; rewrite app_nil_r; apply flat_map_attrs; exact Hnd).
    apply andb_prop in Hd. destruct Hd as [Hd _]. rewrite <- attrs_names in Hd.
    cbn [I.dict_items]. rewrite (public_items_all _ Hd). reflexivity.
Qed.

Lemma guard_emb v : io_guard P E v = true -> C.is_scalar v = false -> I.guard (emb v) = true.
Proof.
  destruct v as [a|f|k l|k l|c l|c l]; cbn [C.is_scalar]; intros G H; try discriminate; try reflexivity.
  - unfold io_guard in G. apply andb_prop in G. destruct G as [G _].
    cbn [IoBridge.emb] in *. destruct (in_slots P c); exact G.
  - cbn [io_guard] in G. cbn [IoBridge.emb I.guard]. rewrite !map_length. exact G.
Qed.

Lemma xvalues_guarded x : I.guard x = true -> xvalues x = I.Ok (I.spec_values x).
Proof.
  intros G. unfold xvalues. rewrite (IL.values_ok x G). destruct x; try discriminate; reflexivity.
Qed.
Lemma xitems_raw_guarded x : I.guard x = true -> xitems_raw x = I.Ok (I.spec_items x).
Proof.
  intros G. unfold xitems_raw. rewrite (IL.items_ok x G). destruct x; try discriminate; reflexivity.
Qed.

(* ------------------------------------------------------------------ itervalues commutes *)
Lemma values_commute rt v : IterLaws P E rt -> io_guard P E v = true ->
  rmap (map emb) (C.itervalues rt v) = down (xvalues (emb v)).
Proof.
  intros L G. destruct v as [a|f|k l|k l|c l|c l].
  - exact (il_values P E rt L (C.PAtom a) eq_refl).
  - exact (il_values P E rt L (C.PKey f) eq_refl).
  - rewrite (xvalues_guarded _ (guard_emb _ G eq_refl)). cbn [IoBridge.emb C.itervalues rmap down].
    unfold I.spec_values. cbn [I.spec_pairs I.elems]. rewrite IL.snd_enumerate. reflexivity.
  - rewrite (xvalues_guarded _ (guard_emb _ G eq_refl)). cbn [IoBridge.emb C.itervalues rmap down].
    unfold I.spec_values. cbn [I.spec_pairs]. rewrite !map_map. f_equal. apply map_ext. intros [x y]. reflexivity.
  - rewrite (xvalues_guarded _ (guard_emb _ G eq_refl)). unfold I.spec_values.
    assert (Hp : I.spec_pairs (emb (C.PObj c l)) = I.spec_obj_pairs (emb (C.PObj c l)))
      by (cbn [IoBridge.emb]; destruct (in_slots P c); reflexivity).
    rewrite Hp. unfold io_guard in G. apply andb_prop in G. destruct G as [_ G].
    rewrite (obj_spec_pairs c l G), attrs_values. reflexivity.
  - rewrite (xvalues_guarded _ (guard_emb _ G eq_refl)). cbn [IoBridge.emb C.itervalues rmap down].
    unfold I.spec_values. cbn [I.spec_pairs]. cbn [io_guard] in G. apply Nat.eqb_eq in G.
    rewrite map_snd_combine by (rewrite !map_length; exact G). reflexivity.
Qed.

(* ------------------------------------------------------------------ iteritems commutes *)
(* the sequence branch, for any way U of unpacking elements that is right on the elements present *)
Lemma seq_items_commute rt (U : C.pv -> C.res (C.pv * C.pv)) k x r : IterLaws P E rt ->
  (C.pairlike rt x = true -> forall y, In y (x :: r) -> rmap emb2 (U y) = down (unpackI (emb y))) ->
  rmap (map emb2) (if C.pairlike rt x then C.mapM U (x :: r) else C.Ok (C.enumerate_from rt 0 (x :: r)))
  = down (xitems (emb (C.PSeq k (x :: r)))).
Proof.
  intros L HU. unfold xitems. rewrite (xitems_raw_guarded (emb (C.PSeq k (x :: r))) eq_refl). cbn [ibind].
  unfold I.spec_items. cbn [IoBridge.emb I.elems map I.first_is_pair].
  rewrite <- (pairlike_emb rt L x). destruct (C.pairlike rt x) eqn:Hp.
  - exact (mapM_commute U unpackI emb emb2 (x :: r) (HU eq_refl)).
  - change (map (fun kv => I.tup (fst kv) (snd kv))) with (map IL.tup').
    rewrite imapM_unpack_tup. cbn [rmap down I.spec_pairs I.elems]. f_equal.
    rewrite (enumerate_emb rt L (x :: r) 0). reflexivity.
Qed.

Lemma nonseq_items_commute rt v : IterLaws P E rt -> io_guard P E v = true ->
  match v with C.PSeq _ (_ :: _) => False | _ => True end ->
  rmap (map emb2) (C.iteritems rt E v) = down (xitems (emb v)).
Proof.
  intros L G Hns. destruct v as [a|f|k l|k l|c l|c l].
  - exact (il_items P E rt L (C.PAtom a) eq_refl).
  - exact (il_items P E rt L (C.PKey f) eq_refl).
  - destruct l; [|contradiction]. unfold xitems. rewrite (xitems_raw_guarded (emb (C.PSeq k [])) eq_refl). reflexivity.
  - unfold xitems. rewrite (xitems_raw_guarded _ (guard_emb _ G eq_refl)). cbn [ibind IoBridge.emb I.spec_items].
    change (map (fun kv => I.tup (fst kv) (snd kv))) with (map IL.tup').
    rewrite imapM_unpack_tup. cbn [I.spec_pairs C.iteritems rmap down]. rewrite map_emb_pairs. reflexivity.
  - unfold xitems. rewrite (xitems_raw_guarded _ (guard_emb _ G eq_refl)). cbn [ibind].
    assert (Hp : I.spec_items (emb (C.PObj c l)) = map IL.tup' (I.spec_obj_pairs (emb (C.PObj c l))))
      by (cbn [IoBridge.emb]; destruct (in_slots P c); reflexivity).
    rewrite Hp, imapM_unpack_tup. unfold io_guard in G. apply andb_prop in G. destruct G as [_ G].
    rewrite (obj_spec_pairs c l G), attrs_items. reflexivity.
  - unfold xitems. rewrite (xitems_raw_guarded _ (guard_emb _ G eq_refl)). cbn [ibind IoBridge.emb I.spec_items].
    change (map (fun kv => I.tup (fst kv) (snd kv))) with (map IL.tup').
    rewrite imapM_unpack_tup. cbn [I.spec_pairs C.iteritems rmap down]. f_equal.
    rewrite (map_combine emb emb). rewrite !map_map. reflexivity.
Qed.

(* Core.iteritems: every value, no condition on the elements *)
Lemma items_commute rt v : IterLaws P E rt -> io_guard P E v = true ->
  rmap (map emb2) (C.iteritems rt E v) = down (xitems (emb v)).
Proof.
  intros L G.
  destruct v as [a|f|k [|x r]|k l|c l|c l]; try (apply (nonseq_items_commute rt _ L G); exact I).
  cbn [C.iteritems]. apply (seq_items_commute rt (C.unpack2 rt) k x r L).
  intros _ y _. exact (unpack2_all rt y L).
Qed.

(* the previous definition is Core's wherever its reading of scalar unpacking was right *)
Lemma items_pinned_agrees rt v : IterLaws P E rt -> unpack_guard P E v = true ->
  rmap (map emb2) (iteritems_pinned E rt v) = rmap (map emb2) (C.iteritems rt E v).
Proof.
  intros L HG.
  destruct v as [a|f|k [|x r]|k l|c l|c l]; try reflexivity.
  cbn [iteritems_pinned C.iteritems]. destruct (C.pairlike rt x) eqn:Hp; [|reflexivity].
  cbn [unpack_guard] in HG. rewrite <- (pairlike_emb rt L x), Hp in HG. cbn [negb orb] in HG.
  rewrite forallb_forall in HG.
  rewrite (mapM_commute (unpack2_pinned rt) unpackI emb emb2 (x :: r)).
  - symmetry. apply (mapM_commute (C.unpack2 rt) unpackI emb emb2 (x :: r)).
    intros y _. exact (unpack2_all rt y L).
  - intros y Hy. specialize (HG y Hy). destruct (C.is_scalar y) eqn:Hs.
    + cbn [negb orb] in HG. exact (unpack2_pinned_scalar rt y L Hs HG).
    + destruct y; try discriminate; exact (unpack2_emb rt _ Hs).
Qed.

(* ------------------------------------------------------------------ C18 carried over *)
Lemma values_spec rt v : IterLaws P E rt -> io_guard P E v = true -> C.is_scalar v = false ->
  rmap (map emb) (C.itervalues rt v) = C.Ok (I.spec_values (emb v)).
Proof.
  intros L G Hs. rewrite (values_commute rt v L G), (xvalues_guarded _ (guard_emb v G Hs)). reflexivity.
Qed.

Lemma items_spec rt v : IterLaws P E rt -> io_guard P E v = true -> C.is_scalar v = false ->
  rmap (map emb2) (C.iteritems rt E v) = down (imapM unpackI (I.spec_items (emb v))).
Proof.
  intros L G Hs. rewrite (items_commute rt v L G). unfold xitems.
  rewrite (xitems_raw_guarded _ (guard_emb v G Hs)). reflexivity.
Qed.

(* (key, value) / (field, value) / (index, element), each exactly once and in order, whenever the first
   element is not itself a pair *)
Lemma items_spec_pairs rt v : IterLaws P E rt -> io_guard P E v = true -> C.is_scalar v = false ->
  I.first_is_pair (I.elems (emb v)) = false \/ (match v with C.PSeq _ _ => False | _ => True end) ->
  rmap (map emb2) (C.iteritems rt E v) = C.Ok (I.spec_pairs (emb v)).
Proof.
  intros L G Hs Hnp.
  rewrite (items_spec rt v L G Hs).
  assert (Hsp : I.spec_items (emb v) = map IL.tup' (I.spec_pairs (emb v))).
  { destruct v as [a|f|k l|k l|c l|c l]; try discriminate; try reflexivity.
    - destruct Hnp as [Hnp|[]]. unfold I.spec_items. cbn [IoBridge.emb] in *. rewrite Hnp. reflexivity.
    - cbn [IoBridge.emb]. destruct (in_slots P c); reflexivity. }
  rewrite Hsp, imapM_unpack_tup. reflexivity.
Qed.

(* iterating never changes the value: a core value is not a one-shot iterator *)
Lemma nondestructive v : C.is_scalar v = false ->
  xafter_items (emb v) = emb v /\ xafter_values (emb v) = emb v.
Proof.
  intros Hs. split.
  - apply IL.nondestructive_items. now apply emb_not_oneshot.
  - apply IL.nondestructive_values. now apply emb_not_oneshot.
Qed.
Lemma nondestructive_scalar v : I.is_oneshot (emb v) = false ->
  xafter_items (emb v) = emb v /\ xafter_values (emb v) = emb v.
Proof.
  intros H. split; [now apply IL.nondestructive_items | now apply IL.nondestructive_values].
Qed.

End Emb.

(* ------------------------------------------------------------------ the induced runtime satisfies the laws *)
Section Induced.
Variable P : shape.
Variable E : C.env.
Variable i_back : I.val -> option C.pv.
Hypothesis BL : BackLaws P E i_back.
Notation emb := (IoBridge.emb P E).
Notation emb2 := (IoBridge.emb2 P E).

Lemma back1_defined l : Forall (defined i_back) l ->
  exists l0, C.mapM (back1 i_back) l = C.Ok l0 /\ map emb l0 = l.
Proof.
  induction 1 as [|x l [v Hv] Hl [l0 [H0 Hm]]]; [exists []; split; reflexivity|].
  exists (v :: l0). split.
  - cbn [C.mapM]. unfold back1 at 1. rewrite Hv. cbn [C.bind]. rewrite H0. reflexivity.
  - cbn [map]. rewrite Hm, (bl_sound P E i_back BL x v Hv). reflexivity.
Qed.

Lemma back2_defined_one a b : defined i_back a -> defined i_back b ->
  exists kv, back2 i_back (a, b) = C.Ok kv /\ emb2 kv = (a, b).
Proof.
  intros [k Hk] [v Hv]. exists (k, v). split.
  - unfold back2, back1. cbn [fst snd]. rewrite Hk, Hv. reflexivity.
  - unfold IoBridge.emb2. cbn [fst snd].
    rewrite (bl_sound P E i_back BL a k Hk), (bl_sound P E i_back BL b v Hv). reflexivity.
Qed.

Lemma back2_defined l : Forall (fun kv => defined i_back (fst kv) /\ defined i_back (snd kv)) l ->
  exists l0, C.mapM (back2 i_back) l = C.Ok l0 /\ map emb2 l0 = l.
Proof.
  induction 1 as [|[a b] l [Ha Hb] Hl [l0 [H0 Hm]]]; [exists []; split; reflexivity|].
  destruct (back2_defined_one a b Ha Hb) as [kv [Hkv Hemb]].
  exists (kv :: l0). split.
  - cbn [C.mapM]. rewrite Hkv. cbn [C.bind]. rewrite H0. reflexivity.
  - cbn [map]. rewrite Hm, Hemb. reflexivity.
Qed.

Lemma induced_unpack v : C.is_scalar v = true ->
  rmap emb2 (ind_unpack P E i_back v) = down (unpackI (emb v)).
Proof.
  intros Hs. unfold ind_unpack. destruct (unpackI (emb v)) as [[a b]|e|] eqn:Hx; try reflexivity.
  destruct (bl_unpack P E i_back BL v a b Hs Hx) as [Ha Hb].
  destruct (back2_defined_one a b Ha Hb) as [kv [Hkv Hemb]].
  cbn [down C.bind]. rewrite Hkv. cbn [rmap]. rewrite Hemb. reflexivity.
Qed.

Lemma induced_iter_laws T srt base : IterLaws P E (io_runtime P E i_back T srt base).
Proof.
  constructor; cbn [io_runtime C.values_scalar C.items_scalar C.pairlike_scalar C.unpack_scalar C.index].
  - intros v Hs. unfold ind_values. destruct (xvalues (emb v)) as [l|e|] eqn:Hx; try reflexivity.
    destruct (back1_defined l (bl_values P E i_back BL v l Hs Hx)) as [l0 [H0 Hm]].
    cbn [down C.bind]. rewrite H0. cbn [rmap]. rewrite Hm. reflexivity.
  - intros v Hs. unfold ind_items. destruct (xitems (emb v)) as [l|e|] eqn:Hx; try reflexivity.
    destruct (back2_defined l (bl_items P E i_back BL v l Hs Hx)) as [l0 [H0 Hm]].
    cbn [down C.bind]. rewrite H0. cbn [rmap]. rewrite Hm. reflexivity.
  - reflexivity.
  - exact induced_unpack.
  - intros i. unfold ind_index. destruct (bl_index P E i_back BL i) as [v Hv]. rewrite Hv.
    exact (bl_sound P E i_back BL _ v Hv).
Qed.

End Induced.

(* ------------------------------------------------------------------ load *)
Lemma s_load_nontext srt x : S.is_text x = false -> S.load srt x = S.Ok x.
Proof. intros H. exact (SL.load_nontext srt true x H). Qed.
Lemma s_load_carrier srt : S.RuntimeLaws srt -> forall k s, S.encodable s = true ->
  S.load srt (S.carrier srt k s) = S.load srt (S.PText S.CStr s).
Proof. intros RL k s He. exact (SL.load_carrier srt RL k s He). Qed.
Lemma s_load_plain srt : S.RuntimeLaws srt -> forall k s e1 e2, S.encodable s = true ->
  S.json_loads_str srt s = S.Raise e1 -> S.literal_eval srt s = S.Raise e2 ->
  S.load srt (S.carrier srt k s) = S.Ok (S.PText S.CStr s).
Proof. intros RL k s e1 e2 He H1 H2. exact (SL.load_plain_text srt RL k s e1 e2 He H1 H2). Qed.

Section Ser.
Variable T : tshape.
Variable srt : S.Runtime.

Lemma load_commute rt v : LoadLaw T srt rt ->
  C.load rt v = if C.is_scalar v then ind_load T srt v else C.Ok v.
Proof. intros L. unfold C.load. destruct (C.is_scalar v) eqn:Hs; [exact (L v Hs) | reflexivity]. Qed.

Lemma induced_load_law P E i_back base : LoadLaw T srt (io_runtime P E i_back T srt base).
Proof. intros v Hs. reflexivity. Qed.

(* ---- reading back what was embedded ---- *)
Lemma omap_forall {A B} (f : A -> option B) (g : B -> option A) l l' :
  Forall (fun x => forall y, f x = Some y -> g y = Some x) l -> omap f l = Some l' -> omap g l' = Some l.
Proof.
  revert l'. induction l as [|x l IH]; intros l' HF H; cbn [omap] in H.
  - inversion H. reflexivity.
  - inversion HF as [|? ? Hx Hl]. subst.
    destruct (f x) as [y|] eqn:Hy; [|discriminate].
    fold (omap f l) in H. destruct (omap f l) as [t|] eqn:Ht; [|discriminate]. inversion H. subst.
    cbn [omap]. rewrite (Hx y eq_refl). fold (omap g t). rewrite (IH t Hl eq_refl). reflexivity.
Qed.

Hypothesis SB : SBackLaws T.
Hypothesis RETR : forall u, C.is_scalar u = true -> s_back T (sc T u) = Some u.

Lemma unS_scalar x : s_scalar x = true -> unS T x = s_back T x.
Proof. destruct x; cbn; intros H; try discriminate; reflexivity. Qed.

Lemma unS_embS : forall v x, embS T v = Some x -> unS T x = Some v.
Proof.
  induction v as [a|f|k l IH|k l IH|c l IH|c l IH] using TL.Proofs.CoreC13.pv_ind'; intros x H.
  - assert (Hx : x = sc T (C.PAtom a)) by (cbn [embS] in H; now inversion H). subst x.
    rewrite unS_scalar by (apply (sb_text T SB (C.PAtom a)); reflexivity). apply RETR. reflexivity.
  - assert (Hx : x = sc T (C.PKey f)) by (cbn [embS] in H; now inversion H). subst x.
    rewrite unS_scalar by (apply (sb_text T SB (C.PKey f)); reflexivity). apply RETR. reflexivity.
  - cbn [embS] in H.
    destruct k; try discriminate;
      (destruct (omap (embS T) l) as [t|] eqn:Ht; [|discriminate]; inversion H; subst; cbn [unS];
       rewrite (omap_forall (embS T) (unS T) l t IH Ht); reflexivity).
  - cbn [embS] in H. destruct k; try discriminate.
    destruct (omap (fun ab : C.pv * C.pv => match ab with (a, b) => opair (embS T a) (embS T b) end) l) as [t|] eqn:Ht;
      [|discriminate].
    inversion H. subst. cbn [unS].
    rewrite (omap_forall (fun ab : C.pv * C.pv => match ab with (a, b) => opair (embS T a) (embS T b) end)
                         (fun ab : S.pv * S.pv => match ab with (a, b) => opair (unS T a) (unS T b) end) l t); [reflexivity| |exact Ht].
    clear Ht H. induction IH as [|[a b] l [Ha Hb] Hl IHl]; constructor; [|exact IHl].
    intros [a' b'] Hab. cbn [fst snd] in Ha, Hb. unfold opair in Hab.
    destruct (embS T a) as [a2|] eqn:Ea; [|discriminate]. destruct (embS T b) as [b2|] eqn:Eb; [|discriminate].
    inversion Hab. subst. rewrite (Ha _ eq_refl), (Hb _ eq_refl). reflexivity.
  - discriminate.
  - discriminate.
Qed.

Lemma embS_nonscalar_nontext v x : C.is_scalar v = false -> embS T v = Some x -> S.is_text x = false.
Proof.
  destruct v as [a|f|k l|k l|c l|c l]; cbn [C.is_scalar]; intros Hs H; try discriminate.
  - cbn [embS] in H. destruct k; try discriminate;
      (destruct (omap (embS T) l); [|discriminate]; inversion H; reflexivity).
  - cbn [embS] in H. destruct k; try discriminate.
    match type of H with option_map _ ?o = _ => destruct o end; [|discriminate]. inversion H. reflexivity.
Qed.

(* load commutes on every value the text model can speak about *)
Lemma load_embS rt v x : LoadLaw T srt rt -> embS T v = Some x -> C.load rt v = undown T (S.load srt x).
Proof.
  intros L H. rewrite (load_commute rt v L). destruct (C.is_scalar v) eqn:Hs.
  - destruct v; try discriminate; cbn [embS] in H; inversion H; reflexivity.
  - rewrite (s_load_nontext srt x (embS_nonscalar_nontext v x Hs H)). cbn [undown].
    rewrite (unS_embS v x H). reflexivity.
Qed.
End Ser.

(* ---- induction on the values of the text model ---- *)
Section SPvInd.
Variable Q : S.pv -> Prop.
Hypothesis HNone : Q S.PNone.
Hypothesis HBool : forall b, Q (S.PBool b).
Hypothesis HInt : forall z, Q (S.PInt z).
Hypothesis HFloat : forall m e, Q (S.PFloat m e).
Hypothesis HFloatS : forall n, Q (S.PFloatS n).
Hypothesis HText : forall k p, Q (S.PText k p).
Hypothesis HList : forall l, Forall Q l -> Q (S.PList l).
Hypothesis HTuple : forall l, Forall Q l -> Q (S.PTuple l).
Hypothesis HSet : forall l, Forall Q l -> Q (S.PSet l).
Hypothesis HDict : forall l, Forall (fun kv => Q (fst kv) /\ Q (snd kv)) l -> Q (S.PDict l).
Hypothesis HOther : forall i, Q (S.POther i).
Fixpoint spv_ind' (x : S.pv) : Q x :=
  let go := fix go (l : list S.pv) : Forall Q l :=
              match l with [] => Forall_nil _ | y :: r => Forall_cons _ (spv_ind' y) (go r) end in
  match x with
  | S.PNone => HNone | S.PBool b => HBool b | S.PInt z => HInt z | S.PFloat m e => HFloat m e
  | S.PFloatS n => HFloatS n | S.PText k p => HText k p
  | S.PList l => HList l (go l) | S.PTuple l => HTuple l (go l) | S.PSet l => HSet l (go l)
  | S.PDict l =>
      HDict l ((fix god (l : list (S.pv * S.pv)) : Forall (fun kv => Q (fst kv) /\ Q (snd kv)) l :=
                  match l with
                  | [] => Forall_nil _
                  | kv :: r => Forall_cons _ (conj (spv_ind' (fst kv)) (spv_ind' (snd kv))) (god r)
                  end) l)
  | S.POther i => HOther i
  end.
End SPvInd.

(* reading a decoded value as a core value loses nothing: the core value embeds back to the decoded one *)
Section UnSSound.
Variable T : tshape.
Hypothesis SB : SBackLaws T.

Lemma unS_scalar_sound x v : s_scalar x = true -> s_back T x = Some v -> embS T v = Some x.
Proof.
  intros Hx Hb. destruct (sb_scalar T SB x v Hx Hb) as [Hs Hsc].
  destruct v; try discriminate; cbn [embS]; rewrite Hsc; reflexivity.
Qed.

Lemma unS_sound : forall x v, unS T x = Some v -> embS T v = Some x.
Proof.
  induction x as [|b|z|m e|n|k p|l IH|l IH|l IH|l IH|i] using spv_ind'; intros v H;
    try (apply unS_scalar_sound; [reflexivity | exact H]).
  - cbn [unS] in H. destruct (omap (unS T) l) as [t|] eqn:Ht; [|discriminate]. inversion H. subst. cbn [embS].
    rewrite (omap_forall (unS T) (embS T) l t IH Ht). reflexivity.
  - cbn [unS] in H. destruct (omap (unS T) l) as [t|] eqn:Ht; [|discriminate]. inversion H. subst. cbn [embS].
    rewrite (omap_forall (unS T) (embS T) l t IH Ht). reflexivity.
  - cbn [unS] in H. destruct (omap (unS T) l) as [t|] eqn:Ht; [|discriminate]. inversion H. subst. cbn [embS].
    rewrite (omap_forall (unS T) (embS T) l t IH Ht). reflexivity.
  - cbn [unS] in H.
    destruct (omap (fun ab : S.pv * S.pv => match ab with (a, b) => opair (unS T a) (unS T b) end) l) as [t|] eqn:Ht;
      [|discriminate].
    inversion H. subst. cbn [embS].
    rewrite (omap_forall (fun ab : S.pv * S.pv => match ab with (a, b) => opair (unS T a) (unS T b) end)
                         (fun ab : C.pv * C.pv => match ab with (a, b) => opair (embS T a) (embS T b) end) l t);
      [reflexivity| |exact Ht].
    clear Ht H. induction IH as [|[a b] l [Ha Hb] Hl IHl]; constructor; [|exact IHl].
    intros [a' b'] Hab. cbn [fst snd] in Ha, Hb. unfold opair in Hab.
    destruct (unS T a) as [a2|] eqn:Ea; [|discriminate]. destruct (unS T b) as [b2|] eqn:Eb; [|discriminate].
    inversion Hab. subst. rewrite (Ha _ eq_refl), (Hb _ eq_refl). reflexivity.
Qed.
End UnSSound.

(* ------------------------------------------------------------------ C14 carried over to Core.load *)
Section LoadFacts.
Variable T : tshape.
Variable srt : S.Runtime.
Variable rt : C.runtime.
Hypothesis L : LoadLaw T srt rt.

Lemma load_atom a : C.load rt (C.PAtom a) = undown T (S.load srt (a_ser T a)).
Proof. exact (L (C.PAtom a) eq_refl). Qed.

Lemma io_load_carriers a1 a2 k s : S.RuntimeLaws srt -> S.encodable s = true ->
  a_ser T a1 = S.carrier srt k s -> a_ser T a2 = S.PText S.CStr s ->
  C.load rt (C.PAtom a1) = C.load rt (C.PAtom a2).
Proof.
  intros RL He H1 H2. rewrite !load_atom, H1, H2, (s_load_carrier srt RL k s He). reflexivity.
Qed.

Lemma io_load_json a k s r : S.RuntimeLaws srt -> S.encodable s = true -> S.json_loads_str srt s = S.Ok r ->
  a_ser T a = S.carrier srt k s -> C.load rt (C.PAtom a) = undown T (S.Ok r).
Proof.
  intros RL He Hj Ha. rewrite load_atom, Ha. destruct (SL.load_json srt RL k s r He Hj) as [H _]. rewrite H. reflexivity.
Qed.

Lemma io_load_plain a k s e1 e2 : S.RuntimeLaws srt -> S.encodable s = true ->
  S.json_loads_str srt s = S.Raise e1 -> S.literal_eval srt s = S.Raise e2 ->
  a_ser T a = S.carrier srt k s -> C.load rt (C.PAtom a) = undown T (S.Ok (S.PText S.CStr s)).
Proof.
  intros RL He H1 H2 Ha. rewrite load_atom, Ha, (s_load_plain srt RL k s e1 e2 He H1 H2). reflexivity.
Qed.

Lemma io_load_nontext v : C.is_scalar v = true -> S.is_text (sc T v) = false ->
  C.load rt v = undown T (S.Ok (sc T v)).
Proof.
  intros Hs Ht. unfold C.load. rewrite Hs, (L v Hs). unfold ind_load.
  rewrite (s_load_nontext srt _ Ht). reflexivity.
Qed.
End LoadFacts.

(* ------------------------------------------------------------------ the composite routines see only load x *)
Lemma unm_load_eq rt E n t x y : load_first_ty E t = true -> C.load rt x = C.load rt y ->
  C.unm rt E n t x = C.unm rt E n t y.
Proof.
  intros Ht Hl. destruct n as [|n]; [reflexivity|].
  destruct t; cbn [load_first_ty] in Ht; try discriminate; cbn [C.unm]; try (rewrite Hl; reflexivity);
    (destruct (E n0) as [[cd|t']|]; try discriminate; rewrite Hl; reflexivity).
Qed.

(* text (or any input) is equivalent to the value serdes.load reads it as, provided load leaves that
   value alone (every non-scalar; a scalar that is not text) *)
Lemma unm_loaded rt E n t x d : load_first_ty E t = true -> C.load rt x = C.Ok d -> C.load rt d = C.Ok d ->
  C.unm rt E n t x = C.unm rt E n t d.
Proof. intros Ht H1 H2. apply unm_load_eq; [exact Ht | now rewrite H1, H2]. Qed.

Lemma load_nonscalar rt d : C.is_scalar d = false -> C.load rt d = C.Ok d.
Proof. intros H. unfold C.load. rewrite H. reflexivity. Qed.

(* ------------------------------------------------------------------ the toy instance satisfies every law *)
Require Import TL.Model.IoBridgeEq.

Lemma toy_a_iter_int n : toy_a_iter (261 + n) = I.VInt (Z.of_nat n).
Proof.
  unfold toy_a_iter. destruct (261 + n) as [|[|[|[|[|m]]]]] eqn:H; try lia. rewrite <- H.
  assert (Hl : Nat.ltb (261 + n) 261 = false) by (apply Nat.ltb_ge; lia). rewrite Hl.
  do 2 f_equal. lia.
Qed.
Lemma toy_a_iter_chr k : k < 256 -> toy_a_iter (5 + k) = I.VStr (one_char (ascii_of_nat k)).
Proof.
  intros Hk. unfold toy_a_iter. destruct (5 + k) as [|[|[|[|[|m]]]]] eqn:H; try lia. rewrite <- H.
  assert (Hl : Nat.ltb (5 + k) 261 = true) by (apply Nat.ltb_lt; lia). rewrite Hl.
  do 3 f_equal. lia.
Qed.

Lemma toy_back_chr c : exists v, toy_back (I.VStr (one_char c)) = Some v.
Proof. unfold one_char. cbn [toy_back]. destruct (Ascii.eqb c "x"%char); eexists; reflexivity. Qed.
Lemma toy_back_int i : exists v, toy_back (I.VInt (Z.of_nat i)) = Some v.
Proof.
  cbn [toy_back]. assert (H : (Z.of_nat i <? 0)%Z = false) by (apply Z.ltb_ge; lia). rewrite H. eexists; reflexivity.
Qed.

Ltac toy_defined :=
  repeat match goal with
         | |- Forall _ [] => constructor
         | |- Forall _ (_ :: _) => constructor
         | |- _ /\ _ => split
         | |- defined _ _ => first [apply toy_back_chr | apply (toy_back_int 0) | eexists; reflexivity]
         end.

Lemma toy_emb_atom_cases a :
  a < 5 \/ (exists c, emb toy_shape toy_env (C.PAtom a) = I.VStr (one_char c)) \/
  (exists n, emb toy_shape toy_env (C.PAtom a) = I.VInt (Z.of_nat n)).
Proof.
  destruct (Nat.lt_ge_cases a 5) as [H|H]; [now left|right].
  destruct (Nat.lt_ge_cases a 261) as [H2|H2].
  - left. exists (ascii_of_nat (a - 5)). cbn [emb a_iter toy_shape].
    replace a with (5 + (a - 5)) at 1 by lia. apply toy_a_iter_chr. lia.
  - right. exists (a - 261). cbn [emb a_iter toy_shape].
    replace a with (261 + (a - 261)) at 1 by lia. apply toy_a_iter_int.
Qed.

Lemma toy_back_laws : BackLaws toy_shape toy_env toy_back.
Proof.
  constructor.
  - (* sound *)
    intros x v H. destruct x as [| z | s | | | | | |]; try discriminate.
    + inversion H. reflexivity.
    + cbn [toy_back] in H. destruct (z <? 0)%Z eqn:Hz; [discriminate|].
      assert (Hv : v = C.PAtom (261 + Z.to_nat z)) by congruence. subst v.
      cbn [emb a_iter toy_shape]. rewrite toy_a_iter_int. f_equal. apply Z.ltb_ge in Hz. lia.
    + destruct s as [|c [|c2 s']].
      * vm_compute in H. inversion H. reflexivity.
      * cbn [toy_back] in H. destruct (Ascii.eqb c "x"%char) eqn:Hc.
        -- apply Ascii.eqb_eq in Hc. subst c. inversion H. reflexivity.
        -- assert (Hv : v = C.PAtom (5 + nat_of_ascii c)) by congruence. subst v.
           cbn [emb a_iter toy_shape]. rewrite toy_a_iter_chr by apply nat_ascii_bounded.
           rewrite ascii_nat_embedding. reflexivity.
      * cbn [toy_back] in H. set (s := String c (String c2 s')) in *.
        destruct (String.eqb s "ab") eqn:H1; [apply String.eqb_eq in H1; rewrite H1; inversion H; reflexivity|].
        destruct (String.eqb s "int") eqn:H2; [apply String.eqb_eq in H2; rewrite H2; inversion H; reflexivity|].
        destruct (String.eqb s "is_safe") eqn:H3; [apply String.eqb_eq in H3; rewrite H3; inversion H; reflexivity|].
        destruct (String.eqb s "") eqn:H4; [apply String.eqb_eq in H4; rewrite H4; inversion H; reflexivity|].
        destruct (String.eqb s "[1,2]") eqn:H5; [apply String.eqb_eq in H5; rewrite H5; inversion H; reflexivity|].
        discriminate.
  - (* values *)
    intros v l Hs H. destruct v as [a|f| | | |]; try discriminate.
    + destruct (toy_emb_atom_cases a) as [Ha|[[c Hc]|[n Hn]]].
      * destruct a as [|[|[|[|[|a]]]]]; try lia; vm_compute in H; try discriminate; inversion H; toy_defined.
      * rewrite Hc in H. vm_compute in H. inversion H. toy_defined.
      * rewrite Hn in H. discriminate.
    + destruct f as [|[|[|[|f]]]]; vm_compute in H; inversion H; toy_defined.
  - (* items *)
    intros v l Hs H. destruct v as [a|f| | | |]; try discriminate.
    + destruct (toy_emb_atom_cases a) as [Ha|[[c Hc]|[n Hn]]].
      * destruct a as [|[|[|[|[|a]]]]]; try lia; vm_compute in H; try discriminate; inversion H; toy_defined.
      * rewrite Hc in H. vm_compute in H. inversion H. toy_defined.
      * rewrite Hn in H. discriminate.
    + destruct f as [|[|[|[|f]]]]; vm_compute in H; inversion H; toy_defined.
  - (* unpack *)
    intros v a b Hs H. destruct v as [x|f| | | |]; try discriminate.
    + destruct (toy_emb_atom_cases x) as [Ha|[[c Hc]|[n Hn]]].
      * destruct x as [|[|[|[|[|x]]]]]; try lia; vm_compute in H; try discriminate; inversion H; toy_defined.
      * rewrite Hc in H. vm_compute in H. discriminate.
      * rewrite Hn in H. discriminate.
    + destruct f as [|[|[|[|f]]]]; vm_compute in H; try discriminate; inversion H; toy_defined.
  - exact toy_back_int.
Qed.

(* ------------------------------------------------------------------ C14 at the composite routines *)
Lemma unm_carriers T srt rt E n t a1 a2 k s : LoadLaw T srt rt -> S.RuntimeLaws srt -> S.encodable s = true ->
  a_ser T a1 = S.carrier srt k s -> a_ser T a2 = S.PText S.CStr s -> load_first_ty E t = true ->
  C.unm rt E n t (C.PAtom a1) = C.unm rt E n t (C.PAtom a2).
Proof.
  intros L RL He H1 H2 Ht. apply unm_load_eq; [exact Ht|]. exact (io_load_carriers T srt rt L a1 a2 k s RL He H1 H2).
Qed.

Lemma unm_json_text T srt rt E n t a k s r d : LoadLaw T srt rt -> S.RuntimeLaws srt -> S.encodable s = true ->
  S.json_loads_str srt s = S.Ok r -> unS T r = Some d -> C.is_scalar d = false ->
  a_ser T a = S.carrier srt k s -> load_first_ty E t = true ->
  C.unm rt E n t (C.PAtom a) = C.unm rt E n t d.
Proof.
  intros L RL He Hj Hu Hd Ha Ht. apply unm_loaded; [exact Ht| |exact (load_nonscalar rt d Hd)].
  rewrite (io_load_json T srt rt L a k s r RL He Hj Ha). cbn [undown]. rewrite Hu. reflexivity.
Qed.

(* the toy instance: laws hold, so the commutation theorems apply to toy_io_rt *)
Lemma toy_iter_laws : IterLaws toy_shape toy_env toy_io_rt.
Proof. exact (induced_iter_laws toy_shape toy_env toy_back toy_back_laws toy_tshape TL.Model.SerdesToy.toy_rt null_rt). Qed.

Lemma toy_a_ser_int n : a_ser toy_tshape (261 + n) = S.PInt (Z.of_nat n).
Proof.
  cbn [a_ser toy_tshape]. destruct (261 + n) as [|[|[|[|[|m]]]]] eqn:H; try lia. rewrite <- H.
  assert (Hl : Nat.ltb (261 + n) 261 = false) by (apply Nat.ltb_ge; lia). rewrite Hl.
  do 2 f_equal. lia.
Qed.

Lemma toy_sback_laws : SBackLaws toy_tshape.
Proof.
  constructor.
  - intros x v Hx H. destruct x; try discriminate.
    + inversion H. split; reflexivity.
    + cbn [s_back toy_tshape] in H. destruct (z <? 0)%Z eqn:Hz; [discriminate|].
      assert (Hv : v = C.PAtom (261 + Z.to_nat z)) by congruence. subst v. split; [reflexivity|].
      cbn [sc]. rewrite toy_a_ser_int. f_equal. apply Z.ltb_ge in Hz. lia.
  - intros v Hs. destruct v as [a|f| | | |]; try discriminate; [|reflexivity].
    cbn [sc a_ser toy_tshape]. destruct a as [|[|[|[|[|m]]]]]; try reflexivity.
    destruct (Nat.ltb (S (S (S (S (S m))))) 261); reflexivity.
Qed.
