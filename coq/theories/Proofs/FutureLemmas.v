(* Proofs about Model/Future.v.  Everything is proved for an arbitrary generics table g and union name u;
   the table-dependent side conditions (table_wf) are discharged by computation in coq/dyn/C20/C20.v. *)
From Coq Require Import List String Ascii Bool.
Import ListNotations.
Require Import TL.Model.Future.
Local Open Scope list_scope.

(* ---------------------------------------------------------------------------------- *)
(* strings                                                                              *)
(* ---------------------------------------------------------------------------------- *)

Lemma split_dot_nonempty s : split_dot s <> [].
Proof. destruct s as [|c r]; cbn [split_dot]; [discriminate|].
  destruct (Ascii.eqb c dot); [discriminate|]. destruct (split_dot r); discriminate. Qed.

Lemma split_no_dot s : no_dot s = true -> split_dot s = [s].
Proof. induction s as [|c r IH]; cbn [no_dot split_dot]; intros H; [reflexivity|].
  apply andb_true_iff in H. destruct H as [Hc Hr].
  destruct (Ascii.eqb c dot); [discriminate Hc|]. rewrite (IH Hr). reflexivity. Qed.

Lemma idchar_not_dot c : is_alpha_ c || is_digit c = true -> Ascii.eqb c dot = false.
Proof. intros H. destruct (Ascii.eqb c dot) eqn:E; [|reflexivity].
  apply Ascii.eqb_eq in E. subst c. discriminate H. Qed.

Lemma all_idchars_no_dot s : all_chars (fun x => is_alpha_ x || is_digit x) s = true -> no_dot s = true.
Proof. induction s as [|c r IH]; cbn [all_chars no_dot]; intros H; [reflexivity|].
  apply andb_true_iff in H. destruct H as [Hc Hr].
  rewrite (idchar_not_dot c Hc), (IH Hr). reflexivity. Qed.

Lemma ident_ok_no_dot s : ident_ok s = true -> no_dot s = true.
Proof. destruct s as [|c r]; cbn [ident_ok]; intros H; [discriminate H|].
  apply andb_true_iff in H. destruct H as [H _]. apply andb_true_iff in H. destruct H as [Hc Hr].
  cbn [no_dot]. rewrite (all_idchars_no_dot r Hr).
  assert (Hc' : is_alpha_ c || is_digit c = true) by (rewrite Hc; reflexivity).
  rewrite (idchar_not_dot c Hc'). reflexivity. Qed.

Lemma ident_ok_dotted s : ident_ok s = true -> dotted_ok s = true.
Proof. intros H. unfold dotted_ok. rewrite (split_no_dot s (ident_ok_no_dot s H)).
  cbn [forallb]. rewrite H. reflexivity. Qed.

Lemma head_of_no_dot s : no_dot s = true -> head_of s = s.
Proof. intros H. unfold head_of. rewrite (split_no_dot s H). reflexivity. Qed.

Lemma dotted_head_ident s : dotted_ok s = true -> ident_ok (head_of s) = true.
Proof. unfold dotted_ok, head_of. destruct (split_dot s) as [|h t] eqn:E.
  - destruct (split_dot_nonempty s E).
  - cbn [forallb]. intros H. apply andb_true_iff in H. exact (proj1 H). Qed.

Lemma path_eqb_refl p : path_eqb p p = true.
Proof. induction p as [|x r IH]; cbn [path_eqb]; [reflexivity|]. rewrite String.eqb_refl, IH. reflexivity. Qed.

(* ---------------------------------------------------------------------------------- *)
(* generic facts about names_all                                                        *)
(* ---------------------------------------------------------------------------------- *)

Lemma forallb_impl {A} (f h : A -> bool) l :
  Forall (fun x => f x = true -> h x = true) l -> forallb f l = true -> forallb h l = true.
Proof. induction 1 as [|x r Hx _ IH]; cbn [forallb]; intros H; [reflexivity|].
  apply andb_true_iff in H. destruct H as [H1 H2]. rewrite (Hx H1), (IH H2). reflexivity. Qed.

Lemma names_all_impl (f h : string -> bool) : (forall s, f s = true -> h s = true) ->
  forall e, names_all f e = true -> names_all h e = true.
Proof. intros Hfh. induction e as [id|v a IHv|c|v s IHv IHs|l IHl|l IHl|op l r IHl IHr|t l IHl] using expr_ind';
  cbn [names_all]; intros H.
  - exact (Hfh id H).
  - exact (IHv H).
  - reflexivity.
  - apply andb_true_iff in H. destruct H as [H1 H2]. rewrite (IHv H1), (IHs H2). reflexivity.
  - exact (forallb_impl _ _ l IHl H).
  - exact (forallb_impl _ _ l IHl H).
  - apply andb_true_iff in H. destruct H as [H1 H2]. rewrite (IHl H1), (IHr H2). reflexivity.
  - exact (forallb_impl _ _ l IHl H). Qed.

Lemma parsed_printable e : parsed e = true -> printable e = true.
Proof. exact (names_all_impl ident_ok dotted_ok ident_ok_dotted e). Qed.

Lemma lookup_In k v (l : list (string * string)) : lookup k l = Some v -> In (k, v) l.
Proof. induction l as [|[a b] r IH]; cbn [lookup]; intros H; [discriminate H|].
  destruct (String.eqb k a) eqn:E.
  - apply String.eqb_eq in E. subst a. injection H as H. subst b. left. reflexivity.
  - right. exact (IH H). Qed.

Lemma In_lookup_some k v (l : list (string * string)) : In (k, v) l -> exists w, lookup k l = Some w.
Proof. induction l as [|[a b] r IH]; cbn [lookup In]; intros H; [destruct H|].
  destruct (String.eqb k a) eqn:E; [exists b; reflexivity|].
  destruct H as [H|H]; [|exact (IH H)].
  injection H as H1 H2. subst a. rewrite String.eqb_refl in E. discriminate E. Qed.

(* ---------------------------------------------------------------------------------- *)
(* the transformer                                                                      *)
(* ---------------------------------------------------------------------------------- *)

Section Lemmas.
Variable g : list (string * string).
Variable u : string.

Notation transform := (transform g u).
Notation tspine := (tspine g u).
Notation rename := (rename g).
Notation nf := (nf g u).
Notation has_constructs := (has_constructs g).
Notation is_key := (is_key g).

(* defining equations *)
Lemma transform_Name id : transform (Name id) = Name (rename id).
Proof. reflexivity. Qed.
Lemma transform_Attribute v a : transform (Attribute v a) = Attribute (transform v) a.
Proof. reflexivity. Qed.
Lemma transform_Constant c : transform (Constant c) = Constant c.
Proof. reflexivity. Qed.
Lemma transform_Subscript v s : transform (Subscript v s) = Subscript (transform v) (transform s).
Proof. reflexivity. Qed.
Lemma transform_Tuple l : transform (Tuple l) = Tuple (map transform l).
Proof. reflexivity. Qed.
Lemma transform_List l : transform (List_ l) = List_ (map transform l).
Proof. reflexivity. Qed.
Lemma transform_Other t l : transform (Other t l) = Other t (map transform l).
Proof. reflexivity. Qed.
Lemma transform_BinOp op l r : transform (BinOp op l r) =
  if is_bitor op then Subscript (Name u) (Tuple (tspine l ++ [transform r])) else BinOp op l r.
Proof. reflexivity. Qed.
Lemma tspine_BinOp op l r : tspine (BinOp op l r) = tspine l ++ [transform r].
Proof. reflexivity. Qed.

Definition is_binop (e : expr) : bool := match e with BinOp _ _ _ => true | _ => false end.
Lemma tspine_leaf e : is_binop e = false -> tspine e = [transform e].
Proof. destruct e; cbn [is_binop]; intros H; try reflexivity. discriminate H. Qed.

(* the operand stack is the visited list of the while loop's stack *)
Lemma tspine_spec e : tspine e = map transform (spine e).
Proof. induction e as [id|v a _|c|v s _ _|l _|l _|op l r IHl _|t l _] using expr_ind'; try reflexivity.
  rewrite tspine_BinOp. cbn [spine]. rewrite map_app, IHl. reflexivity. Qed.

Lemma transform_BinOp_spec op l r : transform (BinOp op l r) =
  if is_bitor op then Subscript (Name u) (Tuple (map transform (spine l ++ [r]))) else BinOp op l r.
Proof. rewrite transform_BinOp, map_app, tspine_spec. reflexivity. Qed.

Lemma transform_chain t x : transform (fold_left Attribute t x) = fold_left Attribute t (transform x).
Proof. revert x. induction t as [|a t IH]; intros x; cbn [fold_left]; [reflexivity|].
  rewrite IH, transform_Attribute. reflexivity. Qed.

Lemma rename_not_key s : is_key s = false -> rename s = s.
Proof. unfold Future.is_key, Future.rename. destruct (lookup s g); [discriminate|reflexivity]. Qed.

(* ---------------- identity: nothing to rewrite, nothing changes (every expression) ---------------- *)

Lemma map_id_when {A} (f : A -> A) (p : A -> bool) l :
  Forall (fun x => p x = false -> f x = x) l -> existsb p l = false -> map f l = l.
Proof. induction 1 as [|x r Hx _ IH]; cbn [existsb map]; intros H; [reflexivity|].
  apply orb_false_iff in H. destruct H as [H1 H2]. rewrite (Hx H1), (IH H2). reflexivity. Qed.

Theorem identity e : has_constructs e = false -> transform e = e.
Proof. induction e as [id|v a IHv|c|v s IHv IHs|l IHl|l IHl|op l r _ _|t l IHl] using expr_ind';
  cbn [Future.has_constructs]; intros H.
  - rewrite transform_Name. unfold Future.rename. destruct (lookup id g); [discriminate H|reflexivity].
  - rewrite transform_Attribute, (IHv H). reflexivity.
  - reflexivity.
  - apply orb_false_iff in H. destruct H as [H1 H2].
    rewrite transform_Subscript, (IHv H1), (IHs H2). reflexivity.
  - rewrite transform_Tuple, (map_id_when _ _ l IHl H). reflexivity.
  - rewrite transform_List, (map_id_when _ _ l IHl H). reflexivity.
  - apply orb_false_iff in H. destruct H as [H _]. apply orb_false_iff in H. destruct H as [H _].
    rewrite transform_BinOp, H. reflexivity.
  - rewrite transform_Other, (map_id_when _ _ l IHl H). reflexivity. Qed.

(* ---------------- no PEP 604 union is left ---------------- *)

Lemma forallb_map_when {A B} (f : A -> B) (p : A -> bool) (q : B -> bool) l :
  Forall (fun x => p x = true -> q (f x) = true) l -> forallb p l = true -> forallb q (map f l) = true.
Proof. induction 1 as [|x r Hx _ IH]; cbn [forallb map]; intros H; [reflexivity|].
  apply andb_true_iff in H. destruct H as [H1 H2]. rewrite (Hx H1), (IH H2). reflexivity. Qed.

Lemma Forall_fst {A} (P Q : A -> Prop) l : Forall (fun x => P x /\ Q x) l -> Forall P l.
Proof. induction 1 as [|x r [Hx _] _ IH]; constructor; assumption. Qed.

Lemma Forall_imp_fst {A} (C P Q : A -> Prop) l : Forall (fun x => C x -> P x /\ Q x) l -> Forall (fun x => C x -> P x) l.
Proof. induction 1 as [|x r Hx _ IH]; constructor; [intros Hc; exact (proj1 (Hx Hc))|assumption]. Qed.

Theorem no_pep604_strong e : arith_free e = true ->
  bitor_free_outside_consts (transform e) = true /\ forallb bitor_free_outside_consts (tspine e) = true.
Proof. induction e as [id|v a IHv|c|v s IHv IHs|l IHl|l IHl|op l r IHl IHr|t l IHl] using expr_ind';
  cbn [arith_free]; intros H.
  - split; reflexivity.
  - destruct (IHv H) as [A _]. rewrite tspine_leaf by reflexivity. rewrite transform_Attribute.
    cbn [forallb bitor_free_outside_consts]. rewrite A. split; reflexivity.
  - split; reflexivity.
  - apply andb_true_iff in H. destruct H as [H1 H2]. destruct (IHv H1) as [A1 _]. destruct (IHs H2) as [A2 _].
    rewrite tspine_leaf by reflexivity. rewrite transform_Subscript.
    cbn [forallb bitor_free_outside_consts]. rewrite A1, A2. split; reflexivity.
  - rewrite tspine_leaf by reflexivity. rewrite transform_Tuple. cbn [forallb bitor_free_outside_consts].
    rewrite (forallb_map_when transform arith_free bitor_free_outside_consts l (Forall_imp_fst _ _ _ l IHl) H).
    split; reflexivity.
  - rewrite tspine_leaf by reflexivity. rewrite transform_List. cbn [forallb bitor_free_outside_consts].
    rewrite (forallb_map_when transform arith_free bitor_free_outside_consts l (Forall_imp_fst _ _ _ l IHl) H).
    split; reflexivity.
  - apply andb_true_iff in H. destruct H as [H H3]. apply andb_true_iff in H. destruct H as [H1 H2].
    destruct (IHl H2) as [_ B1]. destruct (IHr H3) as [A2 _].
    assert (S : forallb bitor_free_outside_consts (tspine l ++ [transform r]) = true).
    { rewrite forallb_app, B1. cbn [forallb]. rewrite A2. reflexivity. }
    rewrite tspine_BinOp, transform_BinOp, H1. cbn [bitor_free_outside_consts]. rewrite S. split; reflexivity.
  - rewrite tspine_leaf by reflexivity. rewrite transform_Other. cbn [forallb bitor_free_outside_consts].
    rewrite (forallb_map_when transform arith_free bitor_free_outside_consts l (Forall_imp_fst _ _ _ l IHl) H).
    split; reflexivity. Qed.

Theorem no_pep604 e : arith_free e = true -> bitor_free_outside_consts (transform e) = true.
Proof. intros H. exact (proj1 (no_pep604_strong e H)). Qed.

(* ---------------------------------------------------------------------------------- *)
(* facts that need a usable table                                                       *)
(* ---------------------------------------------------------------------------------- *)

Hypothesis wf : table_wf g u = true.

Lemma wf_entry k v : In (k, v) g ->
  dotted_ok v = true /\ is_key v = false /\ is_key (head_of v) = false.
Proof. intros HIn. unfold table_wf in wf.
  apply andb_true_iff in wf. destruct wf as [W _]. apply andb_true_iff in W. destruct W as [W _].
  apply andb_true_iff in W. destruct W as [W _].
  rewrite forallb_forall in W. specialize (W (k, v) HIn). cbn [snd] in W.
  apply andb_true_iff in W. destruct W as [W W3]. apply andb_true_iff in W. destruct W as [W1 W2].
  apply negb_true_iff in W2. apply negb_true_iff in W3. repeat split; assumption. Qed.

Lemma wf_union : dotted_ok u = true /\ is_key u = false /\ is_key (head_of u) = false.
Proof. unfold table_wf in wf.
  apply andb_true_iff in wf. destruct wf as [W W3]. apply andb_true_iff in W. destruct W as [W W2].
  apply andb_true_iff in W. destruct W as [_ W1].
  apply negb_true_iff in W2. apply negb_true_iff in W3. repeat split; assumption. Qed.

Lemma rename_idem id : rename (rename id) = rename id.
Proof. destruct (lookup id g) as [v|] eqn:E.
  - assert (R : rename id = v) by (unfold Future.rename; rewrite E; reflexivity). rewrite R.
    apply lookup_In in E. destruct (wf_entry id v E) as [_ [K _]]. exact (rename_not_key v K).
  - assert (R : rename id = id) by (unfold Future.rename; rewrite E; reflexivity). rewrite R. exact R. Qed.

Lemma rename_dotted id : ident_ok id = true -> dotted_ok (rename id) = true.
Proof. intros H. unfold Future.rename. destruct (lookup id g) as [v|] eqn:E.
  - apply lookup_In in E. exact (proj1 (wf_entry id v E)).
  - exact (ident_ok_dotted id H). Qed.

Lemma rename_head_not_key id : ident_ok id = true -> is_key (head_of (rename id)) = false.
Proof. intros H. unfold Future.rename. destruct (lookup id g) as [v|] eqn:E.
  - apply lookup_In in E. exact (proj2 (proj2 (wf_entry id v E))).
  - rewrite (head_of_no_dot id (ident_ok_no_dot id H)). unfold Future.is_key. rewrite E. reflexivity. Qed.

(* ---------------- meaning ---------------- *)

Definition members (s : expr) : list texpr := match s with Tuple l => map nf l | _ => [nf s] end.

Lemma nf_Subscript v s : nf (Subscript v s) =
  if is_union_path u (nf v) then TUnion (flat_map splice (members s)) else TSub (nf v) (nf s).
Proof. reflexivity. Qed.

Definition is_tuple (e : expr) : bool := match e with Tuple _ => true | _ => false end.
Lemma members_nontuple x : is_tuple x = false -> members x = [nf x].
Proof. destruct x; cbn [is_tuple]; intros H; try reflexivity. discriminate H. Qed.
Lemma is_tuple_transform x : is_tuple (transform x) = is_tuple x.
Proof. destruct x as [id|v a|c|v s'|l|l|op l r|t l]; try reflexivity.
  rewrite transform_BinOp. destruct (is_bitor op); reflexivity. Qed.

Lemma members_transform s : nf (transform s) = nf s -> members (transform s) = members s.
Proof. intros H. destruct (is_tuple s) eqn:T.
  - destruct s as [id|v a|c|v s'|l|l|op l r|t l]; try discriminate T.
    rewrite transform_Tuple in *. cbn [members Future.nf] in *. injection H as H. exact H.
  - rewrite (members_nontuple s T). rewrite members_nontuple by (rewrite is_tuple_transform; exact T).
    rewrite H. reflexivity. Qed.

Lemma map_nf_transform (C : expr -> bool) l :
  Forall (fun x => C x = true -> nf (transform x) = nf x) l -> forallb C l = true ->
  map nf (map transform l) = map nf l.
Proof. induction 1 as [|x r Hx _ IH]; cbn [forallb map]; intros H; [reflexivity|].
  apply andb_true_iff in H. destruct H as [H1 H2]. rewrite (Hx H1), (IH H2). reflexivity. Qed.

Lemma nf_union_name : is_union_path u (nf (Name u)) = true.
Proof. cbn [Future.nf is_union_path]. rewrite (rename_not_key u (proj1 (proj2 wf_union))). apply path_eqb_refl. Qed.

Theorem meaning_strong e : arith_free e = true ->
  nf (transform e) = nf e /\ flat_map splice (map nf (tspine e)) = splice (nf e).
Proof.
  assert (leaf : forall x, is_binop x = false -> nf (transform x) = nf x ->
           nf (transform x) = nf x /\ flat_map splice (map nf (tspine x)) = splice (nf x)).
  { intros x Hx A. split; [exact A|]. rewrite (tspine_leaf x Hx). cbn [map flat_map].
    rewrite app_nil_r, A. reflexivity. }
  induction e as [id|v a IHv|c|v s IHv IHs|l IHl|l IHl|op l r IHl IHr|t l IHl] using expr_ind';
  cbn [arith_free]; intros H.
  - apply leaf; [reflexivity|]. rewrite transform_Name. cbn [Future.nf]. rewrite rename_idem. reflexivity.
  - apply leaf; [reflexivity|]. rewrite transform_Attribute. cbn [Future.nf].
    rewrite (proj1 (IHv H)). reflexivity.
  - apply leaf; reflexivity.
  - apply andb_true_iff in H. destruct H as [H1 H2]. destruct (IHv H1) as [A1 _]. destruct (IHs H2) as [A2 _].
    apply leaf; [reflexivity|]. rewrite transform_Subscript, !nf_Subscript.
    rewrite A1, A2, (members_transform s A2). reflexivity.
  - apply leaf; [reflexivity|]. rewrite transform_Tuple. cbn [Future.nf].
    rewrite (map_nf_transform arith_free l (Forall_imp_fst _ _ _ l IHl) H). reflexivity.
  - apply leaf; [reflexivity|]. rewrite transform_List. cbn [Future.nf].
    rewrite (map_nf_transform arith_free l (Forall_imp_fst _ _ _ l IHl) H). reflexivity.
  - apply andb_true_iff in H. destruct H as [H H3]. apply andb_true_iff in H. destruct H as [H1 H2].
    destruct (IHl H2) as [_ B1]. destruct (IHr H3) as [A2 _].
    assert (S : flat_map splice (map nf (tspine l ++ [transform r])) = splice (nf l) ++ splice (nf r)).
    { rewrite map_app, flat_map_app, B1. cbn [map flat_map]. rewrite app_nil_r, A2. reflexivity. }
    rewrite tspine_BinOp, transform_BinOp, H1. rewrite nf_Subscript, nf_union_name.
    cbn [members]. rewrite S. cbn [Future.nf]. rewrite H1. cbn [splice]. split; reflexivity.
  - apply leaf; [reflexivity|]. rewrite transform_Other. cbn [Future.nf].
    rewrite (map_nf_transform arith_free l (Forall_imp_fst _ _ _ l IHl) H). reflexivity. Qed.

Theorem meaning e : arith_free e = true -> nf (transform e) = nf e.
Proof. intros H. exact (proj1 (meaning_strong e H)). Qed.

(* ---------------- fixpoint ---------------- *)

Definition stable (t : expr) : Prop := transform (reparse t) = reparse t.

Lemma stable_name v : is_key (head_of v) = false -> stable (Name v).
Proof. unfold stable, head_of. cbn [reparse]. intros H.
  destruct (split_dot v) as [|h t] eqn:E; [destruct (split_dot_nonempty v E)|].
  cbn [chain]. rewrite transform_chain, transform_Name, (rename_not_key h H). reflexivity. Qed.

Lemma stable_map l : Forall stable l -> map transform (map reparse l) = map reparse l.
Proof. induction 1 as [|x r Hx _ IH]; cbn [map]; [reflexivity|]. rewrite Hx, IH. reflexivity. Qed.

Lemma Forall_map_when (C : expr -> bool) (P : expr -> Prop) l :
  Forall (fun x => C x = true -> P (transform x)) l -> forallb C l = true -> Forall P (map transform l).
Proof. induction 1 as [|x r Hx _ IH]; cbn [forallb map]; intros H; [constructor|].
  apply andb_true_iff in H. destruct H as [H1 H2]. constructor; [exact (Hx H1)|exact (IH H2)]. Qed.

Theorem fixpoint_strong e : parsed e = true -> stable (transform e) /\ Forall stable (tspine e).
Proof.
  assert (leaf : forall x, is_binop x = false -> stable (transform x) ->
           stable (transform x) /\ Forall stable (tspine x)).
  { intros x Hx A. split; [exact A|]. rewrite (tspine_leaf x Hx). constructor; [exact A|constructor]. }
  unfold parsed.
  induction e as [id|v a IHv|c|v s IHv IHs|l IHl|l IHl|op l r IHl IHr|t l IHl] using expr_ind';
  cbn [names_all]; intros Hp.
  - apply leaf; [reflexivity|]. rewrite transform_Name. exact (stable_name _ (rename_head_not_key id Hp)).
  - apply leaf; [reflexivity|]. rewrite transform_Attribute. unfold stable. cbn [reparse].
    rewrite transform_Attribute. destruct (IHv Hp) as [A _]. unfold stable in A. rewrite A. reflexivity.
  - apply leaf; reflexivity.
  - apply andb_true_iff in Hp. destruct Hp as [Hp1 Hp2].
    destruct (IHv Hp1) as [A1 _]. destruct (IHs Hp2) as [A2 _].
    apply leaf; [reflexivity|]. rewrite transform_Subscript. unfold stable in *. cbn [reparse].
    rewrite transform_Subscript, A1, A2. reflexivity.
  - apply leaf; [reflexivity|]. rewrite transform_Tuple. unfold stable. cbn [reparse]. rewrite transform_Tuple.
    rewrite (stable_map _ (Forall_map_when (names_all ident_ok) stable l (Forall_imp_fst _ _ _ l IHl) Hp)).
    reflexivity.
  - apply leaf; [reflexivity|]. rewrite transform_List. unfold stable. cbn [reparse]. rewrite transform_List.
    rewrite (stable_map _ (Forall_map_when (names_all ident_ok) stable l (Forall_imp_fst _ _ _ l IHl) Hp)).
    reflexivity.
  - apply andb_true_iff in Hp. destruct Hp as [Hp1 Hp2].
    destruct (IHl Hp1) as [_ B1]. destruct (IHr Hp2) as [A2 _].
    assert (S : Forall stable (tspine l ++ [transform r])).
    { apply Forall_app. split; [exact B1|constructor; [exact A2|constructor]]. }
    rewrite tspine_BinOp, transform_BinOp. split; [|exact S].
    destruct (is_bitor op) eqn:Hop.
    + unfold stable. cbn [reparse]. rewrite transform_Subscript, transform_Tuple, (stable_map _ S).
      pose proof (stable_name u (proj2 (proj2 wf_union))) as Hu. unfold stable in Hu. cbn [reparse] in Hu.
      rewrite Hu. reflexivity.
    + unfold stable. cbn [reparse]. rewrite transform_BinOp, Hop. reflexivity.
  - apply leaf; [reflexivity|]. rewrite transform_Other. unfold stable. cbn [reparse]. rewrite transform_Other.
    rewrite (stable_map _ (Forall_map_when (names_all ident_ok) stable l (Forall_imp_fst _ _ _ l IHl) Hp)).
    reflexivity. Qed.

Theorem fixpoint e : parsed e = true -> transform (reparse (transform e)) = reparse (transform e).
Proof. intros H. exact (proj1 (fixpoint_strong e H)). Qed.

(* ---------------- totality: the output can be printed and read back (every expression) ---------------- *)

Theorem total_strong e : parsed e = true ->
  printable (transform e) = true /\ forallb printable (tspine e) = true.
Proof.
  unfold parsed, printable.
  assert (leaf : forall x, is_binop x = false -> names_all dotted_ok (transform x) = true ->
           names_all dotted_ok (transform x) = true /\ forallb (fun e : expr => names_all dotted_ok e) (tspine x) = true).
  { intros x Hx A. split; [exact A|]. rewrite (tspine_leaf x Hx). cbn [forallb]. rewrite A. reflexivity. }
  induction e as [id|v a IHv|c|v s IHv IHs|l IHl|l IHl|op l r IHl IHr|t l IHl] using expr_ind';
  cbn [names_all]; intros H.
  - apply leaf; [reflexivity|]. rewrite transform_Name. cbn [names_all]. exact (rename_dotted id H).
  - apply leaf; [reflexivity|]. rewrite transform_Attribute. cbn [names_all]. exact (proj1 (IHv H)).
  - apply leaf; reflexivity.
  - apply andb_true_iff in H. destruct H as [H1 H2]. apply leaf; [reflexivity|].
    rewrite transform_Subscript. cbn [names_all]. rewrite (proj1 (IHv H1)), (proj1 (IHs H2)). reflexivity.
  - apply leaf; [reflexivity|]. rewrite transform_Tuple. cbn [names_all].
    exact (forallb_map_when transform _ _ l (Forall_imp_fst _ _ _ l IHl) H).
  - apply leaf; [reflexivity|]. rewrite transform_List. cbn [names_all].
    exact (forallb_map_when transform _ _ l (Forall_imp_fst _ _ _ l IHl) H).
  - pose proof H as H0. apply andb_true_iff in H. destruct H as [H1 H2].
    destruct (IHl H1) as [_ B1]. destruct (IHr H2) as [A2 _].
    assert (S : forallb (fun e : expr => names_all dotted_ok e) (tspine l ++ [transform r]) = true).
    { rewrite forallb_app, B1. cbn [forallb]. rewrite A2. reflexivity. }
    rewrite tspine_BinOp, transform_BinOp. split; [|exact S].
    destruct (is_bitor op).
    + cbn [names_all]. apply andb_true_iff. split; [exact (proj1 wf_union)|exact S].
    + exact (parsed_printable (BinOp op l r) H0).
  - apply leaf; [reflexivity|]. rewrite transform_Other. cbn [names_all].
    exact (forallb_map_when transform _ _ l (Forall_imp_fst _ _ _ l IHl) H). Qed.

(* a printable tree is read back as a tree of the parser's image *)
Lemma fold_attr_names (f : string -> bool) t x : names_all f (fold_left Attribute t x) = names_all f x.
Proof. revert x. induction t as [|a t IH]; intros x; cbn [fold_left]; [reflexivity|]. rewrite IH. reflexivity. Qed.

Lemma reparse_parsed t : printable t = true -> parsed (reparse t) = true.
Proof. unfold printable, parsed.
  induction t as [id|v a IHv|c|v s IHv IHs|l IHl|l IHl|op l r IHl IHr|tg l IHl] using expr_ind';
  cbn [names_all reparse]; intros H.
  - unfold dotted_ok in H. destruct (split_dot id) as [|h t] eqn:E; [destruct (split_dot_nonempty id E)|].
    cbn [chain forallb] in *. apply andb_true_iff in H. rewrite fold_attr_names. exact (proj1 H).
  - exact (IHv H).
  - reflexivity.
  - apply andb_true_iff in H. destruct H as [H1 H2]. rewrite (IHv H1), (IHs H2). reflexivity.
  - exact (forallb_map_when reparse _ _ l IHl H).
  - exact (forallb_map_when reparse _ _ l IHl H).
  - apply andb_true_iff in H. destruct H as [H1 H2]. rewrite (IHl H1), (IHr H2). reflexivity.
  - exact (forallb_map_when reparse _ _ l IHl H). Qed.

Theorem total e : parsed e = true ->
  printable (transform e) = true /\ parsed (reparse (transform e)) = true.
Proof. intros H. pose proof (proj1 (total_strong e H)) as P. split; [exact P|exact (reparse_parsed _ P)]. Qed.

End Lemmas.
