(* Proof scripts for property C17 (model: Model/Inspect.v, oracle and guards: Model/InspectSpec.v,
   memoisation: Model/InspectCache.v). *)
From Coq Require Import List NArith ZArith String Bool Lia.
Import ListNotations.
Require Import TL.Model.Inspect TL.Model.InspectSpec TL.Model.InspectCache.

Section L.
Variable T : tables.

(* ------------------------------------------------------------------ wrapper chains *)
Lemma strip_no_wrapper : forall v, no_wrapper v = true -> strip v = v.
Proof. destruct v; cbn; intro H; try reflexivity; discriminate. Qed.

Lemma resolve_no_wrapper : forall v, no_wrapper v = true -> resolve_supertype v = v.
Proof. destruct v; cbn; intro H; try reflexivity; discriminate. Qed.

(* a chain accepted by the guard is NewType* followed by at most one alias *)
Lemma chain_cases : forall t, chain_ok t = true ->
  no_wrapper (strip t) = true /\
  ((exists nm, resolve_supertype t = IAlias nm (strip t)) \/ resolve_supertype t = strip t).
Proof.
  induction t; intro H;
    try (unfold chain_ok in H; cbn in H; cbn; split; [exact H || reflexivity | right; reflexivity]).
  - (* INewType *) unfold chain_ok in *. cbn in *. apply IHt. exact H.
  - (* IAlias *) unfold chain_ok in H. cbn in H. cbn [strip resolve_supertype].
    rewrite (strip_no_wrapper _ H). split; [exact H | left; exists nm; reflexivity].
Qed.

(* ------------------------------------------------------------------ origin() on class-like annotations *)
Lemma origin_newtype : forall nm s, origin T (INewType nm s) = origin T s.
Proof. reflexivity. Qed.

Lemma origin_head : forall u c, head_class T u = Some c -> origin T u = finish T (IClass c).
Proof.
  intros u c H. destruct u; cbn in H; try discriminate; inversion H; subst; clear H;
    unfold origin, finish; cbn [resolve_supertype isclassvartype get_origin]; try reflexivity.
  destruct (N.eqb c c_Generic); reflexivity.
Qed.

Lemma origin_alias_head : forall nm v c, head_class T v = Some c ->
  origin T (IAlias nm v) = finish T (IClass c).
Proof.
  intros nm v c H. destruct v; cbn in H; try discriminate; inversion H; subst; clear H;
    unfold origin, finish; cbn [resolve_supertype isclassvartype get_origin]; try reflexivity.
  destruct (N.eqb c c_Generic); reflexivity.
Qed.

(* induction over the wrapper chain *)
Lemma origin_chain : forall t c, chain_ok t = true -> head_class T (strip t) = Some c ->
  origin T t = finish T (IClass c).
Proof.
  induction t; intros c0 Hc Hh;
    try (cbn [strip] in Hh; apply origin_head; exact Hh).
  - rewrite origin_newtype. apply IHt; [exact Hc | exact Hh].
  - unfold chain_ok in Hc. cbn in Hc. cbn [strip] in Hh. rewrite (strip_no_wrapper _ Hc) in Hh.
    apply origin_alias_head. exact Hh.
Qed.

Lemma assoc_ity_in : forall k l v, assoc_ity k l = Some v -> exists k', In (k', v) l.
Proof.
  induction l as [|[k' v'] r IH]; cbn; intros v H; [discriminate|].
  destruct (ity_eqb k k').
  - inversion H; subst. exists k'. left; reflexivity.
  - destruct (IH v H) as [k'' Hin]. exists k''. right; exact Hin.
Qed.

Lemma tables_ok_parts : tables_ok T = true ->
  forallb (fun kv => is_class (snd kv)) (t_generic_map T) = true
  /\ subclass T c_tuple c_tuple = true
  /\ forallb (fun a => negb (N.eqb (snd (snd a)) c_NoneType)) (t_talias T) = true
  /\ name T (finish T (IClass c_UnionType)) = "UnionType"%string
  /\ name T (finish T (ISpecial SUnion)) = "Union"%string.
Proof.
  unfold tables_ok. intro H.
  repeat (apply andb_prop in H; destruct H as [H ?]).
  repeat split; try assumption; apply String.eqb_eq; assumption.
Qed.

Lemma finish_class : forall c, tables_ok T = true -> finish T (IClass c) = IClass (doc_map T c).
Proof.
  intros c Hok. destruct (tables_ok_parts Hok) as [Hmap _].
  unfold finish, isbuiltintype, doc_map in *. cbn [resolve_supertype in_builtin type_in type_of].
  rewrite orb_false_r.
  destruct (memN c (t_builtin T)) eqn:Hb.
  - cbn [is_class negb]. rewrite andb_false_r. reflexivity.
  - unfold check_generics. destruct (assoc_ity (IClass c) (t_generic_map T)) as [v|] eqn:Ha.
    + destruct (assoc_ity_in _ _ _ Ha) as [k' Hin].
      rewrite forallb_forall in Hmap. specialize (Hmap _ Hin). cbn in Hmap.
      destruct v; cbn in Hmap; try discriminate.
      cbn [is_class negb]. rewrite andb_false_r. reflexivity.
    + cbn [is_class negb]. rewrite andb_false_r. reflexivity.
Qed.

Lemma origin_resolved : forall t c, tables_ok T = true -> chain_ok t = true ->
  head_class T (strip t) = Some c -> origin T t = IClass (doc_map T c).
Proof.
  intros t c Hok Hc Hh. rewrite (origin_chain t c Hc Hh). apply finish_class; assumption.
Qed.

(* ------------------------------------------------------------------ the raw family (after the repair) *)
Lemma resolve_wrappers_strip : forall t c, chain_ok t = true -> strip t = IClass c ->
  resolve_wrappers t = IClass c.
Proof.
  intros t c Hc Hs. destruct (chain_cases t Hc) as [_ [[nm Hr] | Hr]]; unfold resolve_wrappers; rewrite Hr.
  - exact Hs.
  - rewrite Hs. reflexivity.
Qed.

(* ------------------------------------------------------------------ agreement with the oracle *)
Lemma subclass_any_single : forall d b, subclass_any T d [b] = subclass T d b.
Proof. intros. unfold subclass_any. cbn. apply orb_false_r. Qed.

Theorem agrees : forall p t b, tables_ok T = true ->
  runtime_says T p t = Some b -> c17_guard T p t = true -> run_pred T p t = Ok b.
Proof.
  intros p t b Hok Hsays Hg.
  unfold runtime_says in Hsays. unfold c17_guard in Hg.
  apply andb_prop in Hg. destruct Hg as [Hc Hg].
  destruct (family_of p) as [f|] eqn:Hf; [|discriminate].
  unfold resolved_class in *.
  destruct (head_class T (strip t)) as [c|] eqn:Hh; [|destruct f; discriminate].
  destruct (tables_ok_parts Hok) as [_ [Htup _]].
  assert (Ho : uses_map f = true -> origin T t = IClass (doc_map T c)).
  { intro Hu. apply origin_resolved; assumption. }
  destruct p; cbn in Hf; try discriminate; inversion Hf; subst f; clear Hf;
    cbn [uses_map] in *; inversion Hsays; subst b; clear Hsays;
    unfold run_pred; cbn [origin_family_bases origin_family_tp raw_family_bases];
    try (unfold via_origin; rewrite (Ho eq_refl); reflexivity);
    try (unfold via_origin_tp; rewrite (Ho eq_refl); reflexivity);
    try (unfold core_is_class in Hg; destruct (strip t) eqn:Hs; try discriminate;
         cbn in Hh; inversion Hh; subst;
         rewrite (resolve_wrappers_strip t _ Hc Hs); reflexivity).
  - (* istupletype *) unfold istupletype. rewrite (Ho eq_refl). cbn [ity_eqb says].
    destruct (N.eqb (doc_map T c) c_tuple) eqn:He.
    + apply N.eqb_eq in He. rewrite He. rewrite Htup. reflexivity.
    + reflexivity.
  - (* issequencetype *) unfold issequencetype. rewrite (Ho eq_refl). cbn [in_collections says].
    destruct (memN (doc_map T c) (t_collections T)); reflexivity.
  - (* iscollectiontype *) unfold iscollectiontype. rewrite (Ho eq_refl). cbn [in_collections says].
    destruct (memN (doc_map T c) (t_collections T)); reflexivity.
  - (* ismappingtype *) unfold ismappingtype. rewrite (Ho eq_refl). cbn [issubclass_raw issubclass_tp says].
    destruct (subclass_any T (doc_map T c) (t_mapping_types T)); reflexivity.
Qed.

Theorem total : forall p t, tables_ok T = true -> in_domain T p t = true -> c17_guard T p t = true ->
  exists b, run_pred T p t = Ok b.
Proof.
  intros p t Hok Hd Hg. unfold in_domain in Hd.
  destruct (runtime_says T p t) as [b|] eqn:Hs; [|discriminate].
  exists b. apply agrees; assumption.
Qed.

(* ------------------------------------------------------------------ origin of a collection annotation *)
Lemma assocN_in : forall A k (l : list (N * A)) v, assocN k l = Some v -> In (k, v) l.
Proof.
  induction l as [|[k' v'] r IH]; cbn; intros v H; [discriminate|].
  destruct (N.eqb k k') eqn:He.
  - apply N.eqb_eq in He. inversion H; subst. left; reflexivity.
  - right. apply IH. exact H.
Qed.

Theorem origin_concrete : forall t c, tables_ok T = true -> chain_ok t = true ->
  head_class T (strip t) = Some c -> subclass T c c_Collection = true ->
  ~ In c (abstract_unmapped T) ->
  origin T t = IClass (doc_map T c)
  /\ is_abstract_cls T (doc_map T c) = false /\ same_kind T (doc_map T c) c = true.
Proof.
  intros t c Hok Hc Hh Hcol Hnot. split; [apply origin_resolved; assumption|].
  assert (Hin : exists i, In (c, i) (t_cls T)).
  { unfold subclass, cinfo in Hcol. destruct (assocN c (t_cls T)) as [i|] eqn:Ha; [|discriminate].
    exists i. apply assocN_in. exact Ha. }
  destruct Hin as [i Hin].
  destruct (negb (is_abstract_cls T (doc_map T c)) && same_kind T (doc_map T c) c) eqn:Hgood.
  - apply andb_prop in Hgood. destruct Hgood as [Ha Hs]. apply negb_true_iff in Ha. split; assumption.
  - exfalso. apply Hnot. unfold abstract_unmapped.
    change c with (fst (c, i)). apply in_map. apply filter_In. split; [exact Hin|].
    cbn [fst]. rewrite Hcol, Hgood. reflexivity.
Qed.

(* ------------------------------------------------------------------ independence of spelling *)
Theorem spelling_origin : forall a b c, spell T a b -> chain_ok a = true ->
  head_class T (strip a) = Some c -> origin T a = origin T b.
Proof.
  intros a b c Hsp. revert c. induction Hsp; intros c Hc Hh.
  - reflexivity.
  - cbn [strip] in Hh. rewrite (origin_head _ _ Hh).
    symmetry. apply origin_head. cbn in *. exact Hh.
  - cbn [strip] in Hh. rewrite (origin_head _ _ Hh).
    symmetry. apply origin_head. cbn in *. exact Hh.
  - cbn in Hh. discriminate.
  - rewrite !origin_newtype. apply (IHHsp c); [exact Hc | exact Hh].
  - unfold chain_ok in Hc. cbn in Hc. cbn [strip] in Hh. rewrite (strip_no_wrapper _ Hc) in Hh.
    rewrite (origin_alias_head nm v c Hh).
    inversion Hsp; subst; cbn in Hc; try discriminate; cbn in Hh; try discriminate.
    + symmetry. apply origin_alias_head. exact Hh.
    + symmetry. apply origin_alias_head. cbn in *. exact Hh.
    + symmetry. apply origin_alias_head. cbn in *. exact Hh.
Qed.

Theorem spelling_pred : forall p f a b c, spell T a b -> chain_ok a = true ->
  head_class T (strip a) = Some c -> family_of p = Some f -> uses_map f = true ->
  run_pred T p a = run_pred T p b.
Proof.
  intros p f a b c Hsp Hc Hh Hf Hu.
  pose proof (spelling_origin a b c Hsp Hc Hh) as Ho.
  destruct p; cbn in Hf; try discriminate; inversion Hf; subst f; try discriminate;
    unfold run_pred; cbn [origin_family_bases origin_family_tp raw_family_bases];
    unfold via_origin, via_origin_tp, istupletype, issequencetype, iscollectiontype, ismappingtype;
    rewrite Ho; reflexivity.
Qed.

(* unions: typing.Union / Optional / X | Y *)
Lemma origin_union : forall s l,
  origin T (IUnion s l) = finish T (match s with UPipe => IClass c_UnionType | _ => ISpecial SUnion end).
Proof. intros s l. destruct s; reflexivity. Qed.

Lemma ta_origin_not_none : tables_ok T = true -> forall al, N.eqb (ta_origin T al) c_NoneType = false.
Proof.
  intros Hok al. destruct (tables_ok_parts Hok) as [_ [_ [Hta _]]].
  unfold ta_origin. destruct (assocN al (t_talias T)) as [[n c]|] eqn:Ha; [|reflexivity].
  apply assocN_in in Ha. rewrite forallb_forall in Hta. specialize (Hta _ Ha). cbn in Hta.
  apply negb_true_iff in Hta. exact Hta.
Qed.

Lemma spell_nullarg : tables_ok T = true -> forall x y, spell T x y -> is_nullarg x = is_nullarg y.
Proof.
  intros Hok x y H. inversion H; subst; try reflexivity.
  cbn. symmetry. apply ta_origin_not_none. exact Hok.
Qed.

Lemma exists_nullarg : tables_ok T = true -> forall l l', Forall2 (spell T) l l' ->
  existsb is_nullarg l = existsb is_nullarg l'.
Proof.
  intros Hok l l' H. induction H; [reflexivity|].
  cbn. rewrite (spell_nullarg Hok _ _ H). rewrite IHForall2. reflexivity.
Qed.

Lemma union_name : tables_ok T = true -> forall s l,
  name T (origin T (IUnion s l)) = match s with UPipe => "UnionType"%string | _ => "Union"%string end.
Proof.
  intros Hok s l. destruct (tables_ok_parts Hok) as [_ [_ [_ [H1 H2]]]].
  rewrite origin_union. destruct s; assumption.
Qed.

Theorem spelling_union : tables_ok T = true -> forall s s' l l', Forall2 (spell T) l l' ->
  isuniontype T (IUnion s l) = true /\ isuniontype T (IUnion s' l') = true
  /\ isoptionaltype T (IUnion s l) = isoptionaltype T (IUnion s' l').
Proof.
  intros Hok s s' l l' Hl.
  assert (Hu : forall sp args, isuniontype T (IUnion sp args) = true).
  { intros sp args. unfold isuniontype. rewrite (union_name Hok). destruct sp; reflexivity. }
  assert (Hopt : forall sp args, isoptionaltype T (IUnion sp args) = existsb is_nullarg args).
  { intros sp args. unfold isoptionaltype. rewrite (union_name Hok). cbn [dunder_args].
    destruct sp; cbn; destruct (existsb is_nullarg args); reflexivity. }
  repeat split; try apply Hu. rewrite !Hopt. apply exists_nullarg; assumption.
Qed.
End L.

(* ------------------------------------------------------------------ stability across calls *)
Section Memo.
Variable f : ity -> res bool.

Lemma lookup_hit : forall k c v, lookup k c = Some v -> exists k', In (k', v) c /\ key_eq k k' = true.
Proof.
  induction c as [|[k' v'] r IH]; cbn; intros v H; [discriminate|].
  destruct (key_eq k k') eqn:He.
  - inversion H; subst. exists k'. split; [left; reflexivity | exact He].
  - destruct (IH v H) as [k'' [Hin Hk]]. exists k''. split; [right; exact Hin | exact Hk].
Qed.

(* if no two different spellings of one key occur, every answer is the cold-cache answer *)
Lemma run_hist_stable : forall h c,
  (forall k v, In (k, v) c -> v = f k) ->
  (forall k v t, In (k, v) c -> In t h -> key_eq t k = true -> t = k) ->
  (forall a b, In a h -> In b h -> key_eq a b = true -> a = b) ->
  run_hist f c h = map f h.
Proof.
  induction h as [|t r IH]; intros c Hval Hkey Hone; [reflexivity|].
  cbn [run_hist map]. unfold call.
  destruct (lookup t c) as [v|] eqn:Hl.
  - destruct (lookup_hit _ _ _ Hl) as [k' [Hin Hk]].
    assert (t = k') by (apply (Hkey k' v t Hin (or_introl eq_refl) Hk)). subst k'.
    cbn [fst snd]. rewrite (Hval _ _ Hin). f_equal. apply IH.
    + exact Hval.
    + intros k v0 t0 Hi Ht He. apply (Hkey k v0 t0 Hi (or_intror Ht) He).
    + intros a b Ha Hb. apply Hone; right; assumption.
  - cbn [fst snd]. f_equal. apply IH.
    + intros k v Hi. destruct (f t) eqn:Hft; [|apply Hval; exact Hi].
      apply in_app_or in Hi. destruct Hi as [Hi|[Hi|[]]]; [apply Hval; exact Hi|].
      inversion Hi; subst. symmetry. exact Hft.
    + intros k v t0 Hi Ht He. destruct (f t) eqn:Hft.
      * apply in_app_or in Hi. destruct Hi as [Hi|[Hi|[]]].
        -- apply (Hkey k v t0 Hi (or_intror Ht) He).
        -- inversion Hi; subst. apply Hone; [right; exact Ht | left; reflexivity | exact He].
      * apply (Hkey k v t0 Hi (or_intror Ht) He).
    + intros a b Ha Hb. apply Hone; right; assumption.
Qed.

Theorem cold_history_stable : forall h,
  (forall a b, In a h -> In b h -> key_eq a b = true -> a = b) -> run_hist f [] h = map f h.
Proof.
  intros h H. apply run_hist_stable; [intros k v [] | intros k v t [] | exact H].
Qed.
End Memo.

Theorem pred_history_stable : forall T p h,
  (forall a b, In a h -> In b h -> key_eq a b = true -> a = b) ->
  pred_history T p h = map (run_pred T p) h.
Proof.
  intros T p h H. unfold pred_history. destruct (is_cached p); [|reflexivity].
  apply cold_history_stable. exact H.
Qed.
