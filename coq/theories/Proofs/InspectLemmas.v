(* Proof scripts for property C17 (model: Model/Inspect.v, oracle and guards: Model/InspectSpec.v,
   memoisation: Model/InspectCache.v). *)
From Coq Require Import List NArith ZArith String Bool Lia.
Import ListNotations.
Require Import TL.Model.Inspect TL.Model.InspectSpec TL.Model.InspectCache.

Section L.
Variable T : tables.

(* ------------------------------------------------------------------ wrapper chains (any nesting) *)
Lemma resolve_idem : forall t, resolve_supertype (resolve_supertype t) = resolve_supertype t.
Proof. induction t; cbn; auto. Qed.

Lemma resolve_wrappers_resolve : forall t, resolve_wrappers (resolve_supertype t) = resolve_wrappers t.
Proof. induction t; cbn; auto. Qed.

(* induction over the chain of NewTypes and aliases *)
Lemma resolve_wrappers_strip : forall t c, head_class T (strip t) = Some c -> resolve_wrappers t = strip t.
Proof.
  induction t; intros c0 H; cbn in *; try reflexivity; try discriminate.
  - eapply IHt; eassumption.
  - eapply IHt; eassumption.
Qed.

Lemma classvar_false : forall t c, head_class T (strip t) = Some c -> isclassvartype t = false.
Proof.
  induction t; intros c0 H; cbn in *; try reflexivity; try discriminate.
  unfold isclassvartype in *. cbn. eapply IHt; eassumption.
Qed.

(* ------------------------------------------------------------------ origin() on class-like annotations *)
Lemma origin_newtype : forall nm s, origin T (INewType nm s) = origin T s.
Proof. reflexivity. Qed.

Lemma origin_chain : forall t c, head_class T (strip t) = Some c -> origin T t = finish T (IClass c).
Proof.
  intros t c Hh. unfold origin. cbv zeta.
  assert (Hcv : isclassvartype (resolve_supertype t) = false).
  { unfold isclassvartype. rewrite resolve_idem. exact (classvar_false t c Hh). }
  rewrite Hcv. rewrite resolve_wrappers_resolve. rewrite (resolve_wrappers_strip t c Hh).
  destruct (strip t); cbn in Hh; try discriminate; inversion Hh; subst; clear Hh;
    cbn [get_origin]; try reflexivity.
  destruct (N.eqb c c_Generic); reflexivity.
Qed.

Lemma resolve_class_head : forall t c, head_class T (strip t) = Some c -> resolve_class T t = IClass c.
Proof.
  intros t c Hh. unfold resolve_class. cbv zeta. rewrite (resolve_wrappers_strip t c Hh).
  destruct (strip t); cbn in Hh; try discriminate; inversion Hh; subst; clear Hh;
    cbn [get_origin]; try reflexivity.
  destruct (N.eqb c c_Generic); reflexivity.
Qed.

Lemma assoc_ity_in : forall k l v, assoc_ity k l = Some v -> exists k', In (k', v) l.
Proof.
  induction l as [|[k' v'] r IH]; cbn; intros v H; [discriminate|].
  destruct (ity_eqb k k').
  - inversion H; subst. exists k'. left; reflexivity.
  - destruct (IH v H) as [k'' Hin]. exists k''. right; exact Hin.
Qed.

Lemma ity_eqb_class : forall x c, ity_eqb x (IClass c) = true -> x = IClass c.
Proof. destruct x; cbn; intros c0 H; try discriminate. apply N.eqb_eq in H. subst. reflexivity. Qed.
Lemma ity_eqb_sunion : forall x, ity_eqb x (ISpecial SUnion) = true -> x = ISpecial SUnion.
Proof. destruct x; cbn; intro H; try discriminate. destruct s; try discriminate. reflexivity. Qed.

Lemma tables_ok_parts : tables_ok T = true ->
  forallb (fun kv => is_class (snd kv)) (t_generic_map T) = true
  /\ subclass T c_tuple c_tuple = true
  /\ forallb (fun a => negb (N.eqb (snd (snd a)) c_NoneType)) (t_talias T) = true
  /\ finish T (IClass c_UnionType) = IClass c_UnionType
  /\ finish T (ISpecial SUnion) = ISpecial SUnion.
Proof.
  unfold tables_ok. intro H.
  repeat (apply andb_prop in H; destruct H as [H ?]).
  repeat split; try assumption; [apply ity_eqb_class | apply ity_eqb_sunion]; assumption.
Qed.

Lemma finish_class : forall c, tables_ok T = true -> finish T (IClass c) = IClass (doc_map T c).
Proof.
  intros c Hok. destruct (tables_ok_parts Hok) as [Hmap _].
  unfold finish, isbuiltintype, doc_map in *. cbn [resolve_supertype in_builtin type_in type_of].
  rewrite orb_false_r.
  destruct (memN c (t_builtin T)) eqn:Hb.
  - cbn [is_class negb]. rewrite andb_false_r. reflexivity.
  - unfold check_generics. destruct (assoc_ity (IClass c) (t_generic_map T)) as [v|] eqn:Ha.
    + destruct (assoc_ity_in _ _ _ Ha) as [k' Hin].
      rewrite forallb_forall in Hmap. specialize (Hmap _ Hin). cbn in Hmap.
      destruct v; cbn in Hmap; try discriminate.
      cbn [is_class negb]. rewrite andb_false_r. reflexivity.
    + cbn [is_class negb]. rewrite andb_false_r. reflexivity.
Qed.

Lemma origin_resolved : forall t c, tables_ok T = true ->
  head_class T (strip t) = Some c -> origin T t = IClass (doc_map T c).
Proof.
  intros t c Hok Hh. rewrite (origin_chain t c Hh). apply finish_class; assumption.
Qed.

(* ------------------------------------------------------------------ agreement with the oracle *)
Lemma subclass_any_single : forall d b, subclass_any T d [b] = subclass T d b.
Proof. intros. unfold subclass_any. cbn. apply orb_false_r. Qed.

Theorem agrees : forall p t b, tables_ok T = true ->
  runtime_says T p t = Some b -> run_pred T p t = Ok b.
Proof.
  intros p t b Hok Hsays.
  unfold runtime_says in Hsays.
  destruct (family_of p) as [f|] eqn:Hf; [|discriminate].
  unfold resolved_class in *.
  destruct (head_class T (strip t)) as [c|] eqn:Hh; [|destruct f; discriminate].
  destruct (tables_ok_parts Hok) as [_ [Htup _]].
  pose proof (origin_resolved t c Hok Hh) as Ho.
  pose proof (resolve_class_head t c Hh) as Hr.
  destruct p; cbn in Hf; try discriminate; inversion Hf; subst f; clear Hf;
    cbn [uses_map] in *; inversion Hsays; subst b; clear Hsays;
    unfold run_pred; cbn [origin_family_bases origin_family_tp raw_family_bases];
    try (unfold via_origin; rewrite Ho; reflexivity);
    try (unfold via_origin_tp; rewrite Ho; reflexivity);
    try (rewrite Hr; reflexivity).
  - (* istupletype *) unfold istupletype. rewrite Ho. cbn [ity_eqb says].
    destruct (N.eqb (doc_map T c) c_tuple) eqn:He.
    + apply N.eqb_eq in He. rewrite He. rewrite Htup. reflexivity.
    + reflexivity.
  - (* issequencetype *) unfold issequencetype. rewrite Ho. cbn [in_collections says].
    destruct (memN (doc_map T c) (t_collections T)); reflexivity.
  - (* iscollectiontype *) unfold iscollectiontype. rewrite Ho. cbn [in_collections says].
    destruct (memN (doc_map T c) (t_collections T)); reflexivity.
  - (* ismappingtype *) unfold ismappingtype. rewrite Ho. cbn [issubclass_raw issubclass_tp says].
    destruct (subclass_any T (doc_map T c) (t_mapping_types T)); reflexivity.
Qed.

Theorem total : forall p t, tables_ok T = true -> in_domain T p t = true ->
  exists b, run_pred T p t = Ok b.
Proof.
  intros p t Hok Hd. unfold in_domain in Hd.
  destruct (runtime_says T p t) as [b|] eqn:Hs; [|discriminate].
  exists b. apply agrees; assumption.
Qed.

(* ------------------------------------------------------------------ origin of a collection annotation *)
Lemma assocN_in : forall A k (l : list (N * A)) v, assocN k l = Some v -> In (k, v) l.
Proof.
  induction l as [|[k' v'] r IH]; cbn; intros v H; [discriminate|].
  destruct (N.eqb k k') eqn:He.
  - apply N.eqb_eq in He. inversion H; subst. left; reflexivity.
  - right. apply IH. exact H.
Qed.

Theorem origin_concrete : forall t c, tables_ok T = true ->
  head_class T (strip t) = Some c -> subclass T c c_Collection = true ->
  ~ In c (abstract_unmapped T) ->
  origin T t = IClass (doc_map T c)
  /\ is_abstract_cls T (doc_map T c) = false /\ same_kind T (doc_map T c) c = true.
Proof.
  intros t c Hok Hh Hcol Hnot. split; [apply origin_resolved; assumption|].
  assert (Hin : exists i, In (c, i) (t_cls T)).
  { unfold subclass, cinfo in Hcol. destruct (assocN c (t_cls T)) as [i|] eqn:Ha; [|discriminate].
    exists i. apply assocN_in. exact Ha. }
  destruct Hin as [i Hin].
  destruct (negb (is_abstract_cls T (doc_map T c)) && same_kind T (doc_map T c) c) eqn:Hgood.
  - apply andb_prop in Hgood. destruct Hgood as [Ha Hs]. apply negb_true_iff in Ha. split; assumption.
  - exfalso. apply Hnot. unfold abstract_unmapped.
    change c with (fst (c, i)). apply in_map. apply filter_In. split; [exact Hin|].
    cbn [fst]. rewrite Hcol, Hgood. reflexivity.
Qed.

(* ------------------------------------------------------------------ independence of spelling *)
Lemma spell_head : forall a b c, spell T a b -> head_class T (strip a) = Some c ->
  head_class T (strip b) = Some c.
Proof.
  intros a b c Hsp. revert c. induction Hsp; intros c Hh; cbn in *; try assumption; try discriminate.
  - apply IHHsp. exact Hh.
  - apply IHHsp. exact Hh.
Qed.

Theorem spelling_origin : forall a b c, spell T a b ->
  head_class T (strip a) = Some c -> origin T a = origin T b.
Proof.
  intros a b c Hsp Hh.
  rewrite (origin_chain a c Hh). symmetry. apply origin_chain. exact (spell_head a b c Hsp Hh).
Qed.

Theorem spelling_pred : forall p f a b c, spell T a b ->
  head_class T (strip a) = Some c -> family_of p = Some f ->
  run_pred T p a = run_pred T p b.
Proof.
  intros p f a b c Hsp Hh Hf.
  pose proof (spelling_origin a b c Hsp Hh) as Ho.
  pose proof (resolve_class_head a c Hh) as Ha.
  pose proof (resolve_class_head b c (spell_head a b c Hsp Hh)) as Hb.
  destruct p; cbn in Hf; try discriminate;
    unfold run_pred; cbn [origin_family_bases origin_family_tp raw_family_bases];
    unfold via_origin, via_origin_tp, istupletype, issequencetype, iscollectiontype, ismappingtype;
    try (rewrite Ho; reflexivity); rewrite Ha, Hb; reflexivity.
Qed.

(* unions: typing.Union / Optional / X | Y *)
Lemma origin_union : forall s l,
  origin T (IUnion s l) = finish T (match s with UPipe => IClass c_UnionType | _ => ISpecial SUnion end).
Proof. intros s l. destruct s; reflexivity. Qed.

Lemma ta_origin_not_none : tables_ok T = true -> forall al, N.eqb (ta_origin T al) c_NoneType = false.
Proof.
  intros Hok al. destruct (tables_ok_parts Hok) as [_ [_ [Hta _]]].
  unfold ta_origin. destruct (assocN al (t_talias T)) as [[n c]|] eqn:Ha; [|reflexivity].
  apply assocN_in in Ha. rewrite forallb_forall in Hta. specialize (Hta _ Ha). cbn in Hta.
  apply negb_true_iff in Hta. exact Hta.
Qed.

Lemma spell_nullarg : tables_ok T = true -> forall x y, spell T x y -> is_nullarg x = is_nullarg y.
Proof.
  intros Hok x y H. inversion H; subst; try reflexivity.
  cbn. symmetry. apply ta_origin_not_none. exact Hok.
Qed.

Lemma exists_nullarg : tables_ok T = true -> forall l l', Forall2 (spell T) l l' ->
  existsb is_nullarg l = existsb is_nullarg l'.
Proof.
  intros Hok l l' H. induction H; [reflexivity|].
  cbn. rewrite (spell_nullarg Hok _ _ H). rewrite IHForall2. reflexivity.
Qed.

Lemma union_origin : tables_ok T = true -> forall s l,
  origin T (IUnion s l) = match s with UPipe => IClass c_UnionType | _ => ISpecial SUnion end.
Proof.
  intros Hok s l. destruct (tables_ok_parts Hok) as [_ [_ [_ [H1 H2]]]].
  rewrite origin_union. destruct s; assumption.
Qed.

Theorem spelling_union : tables_ok T = true -> forall s s' l l', Forall2 (spell T) l l' ->
  isuniontype T (IUnion s l) = true /\ isuniontype T (IUnion s' l') = true
  /\ isoptionaltype T (IUnion s l) = isoptionaltype T (IUnion s' l').
Proof.
  intros Hok s s' l l' Hl.
  assert (Hu : forall sp args, isuniontype T (IUnion sp args) = true).
  { intros sp args. unfold isuniontype. rewrite (union_origin Hok). destruct sp; reflexivity. }
  assert (Hopt : forall sp args, isoptionaltype T (IUnion sp args) = existsb is_nullarg args).
  { intros sp args. unfold isoptionaltype. cbv zeta. rewrite (union_origin Hok). cbn [dunder_args].
    destruct sp; cbn; destruct (existsb is_nullarg args); reflexivity. }
  repeat split; try apply Hu. rewrite !Hopt. apply exists_nullarg; assumption.
Qed.
End L.

(* ------------------------------------------------------------------ stability across calls *)
Section Memo.
Variable f : ity -> res bool.

Lemma lookup_hit : forall k c v, lookup k c = Some v -> exists k', In (k', v) c /\ key_eq k k' = true.
Proof.
  induction c as [|[k' v'] r IH]; cbn; intros v H; [discriminate|].
  destruct (key_eq k k') eqn:He.
  - inversion H; subst. exists k'. split; [left; reflexivity | exact He].
  - destruct (IH v H) as [k'' [Hin Hk]]. exists k''. split; [right; exact Hin | exact Hk].
Qed.

(* if no two different spellings of one key occur, every answer is the cold-cache answer *)
Lemma run_hist_stable : forall h c,
  (forall k v, In (k, v) c -> v = f k) ->
  (forall k v t, In (k, v) c -> In t h -> key_eq t k = true -> t = k) ->
  (forall a b, In a h -> In b h -> key_eq a b = true -> a = b) ->
  run_hist f c h = map f h.
Proof.
  induction h as [|t r IH]; intros c Hval Hkey Hone; [reflexivity|].
  cbn [run_hist map]. unfold call.
  destruct (lookup t c) as [v|] eqn:Hl.
  - destruct (lookup_hit _ _ _ Hl) as [k' [Hin Hk]].
    assert (t = k') by (apply (Hkey k' v t Hin (or_introl eq_refl) Hk)). subst k'.
    cbn [fst snd]. rewrite (Hval _ _ Hin). f_equal. apply IH.
    + exact Hval.
    + intros k v0 t0 Hi Ht He. apply (Hkey k v0 t0 Hi (or_intror Ht) He).
    + intros a b Ha Hb. apply Hone; right; assumption.
  - cbn [fst snd]. f_equal. apply IH.
    + intros k v Hi. destruct (f t) eqn:Hft; [|apply Hval; exact Hi].
      apply in_app_or in Hi. destruct Hi as [Hi|[Hi|[]]]; [apply Hval; exact Hi|].
      inversion Hi; subst. symmetry. exact Hft.
    + intros k v t0 Hi Ht He. destruct (f t) eqn:Hft.
      * apply in_app_or in Hi. destruct Hi as [Hi|[Hi|[]]].
        -- apply (Hkey k v t0 Hi (or_intror Ht) He).
        -- inversion Hi; subst. apply Hone; [right; exact Ht | left; reflexivity | exact He].
      * apply (Hkey k v t0 Hi (or_intror Ht) He).
    + intros a b Ha Hb. apply Hone; right; assumption.
Qed.

Theorem cold_history_stable : forall h,
  (forall a b, In a h -> In b h -> key_eq a b = true -> a = b) -> run_hist f [] h = map f h.
Proof.
  intros h H. apply run_hist_stable; [intros k v [] | intros k v t [] | exact H].
Qed.
End Memo.

Theorem pred_history_stable : forall T p h,
  (forall a b, In a h -> In b h -> key_eq a b = true -> a = b) ->
  pred_history T p h = map (run_pred T p) h.
Proof.
  intros T p h H. unfold pred_history. destruct (is_cached p); [|reflexivity].
  apply cold_history_stable. exact H.
Qed.
