(* A routine that ROUTES an annotation computes the reference semantics of that annotation:
   whatever terminal result (value or exception) the built routine produces on an input is the
   result of unm / mar for all sufficiently large fuel.  With Proofs/BuildLemmas.v this gives:
   (un)marshalling through the mechanism = each member converted by its own type's rules. *)
From Coq Require Import List Arith Bool Lia PeanoNat.
Import ListNotations.
Require Import TL.Model.Core TL.Model.Build TL.Proofs.CoreMono TL.Proofs.BuildLemmas.

(* f m = r for all sufficiently large m *)
Definition ev {A} (f : nat -> res A) (r : res A) : Prop := exists m, forall m', m' >= m -> f m' = r.

Lemma ev_const {A} (r : res A) : ev (fun _ => r) r.
Proof. exists 0. reflexivity. Qed.
Lemma ev_ext {A} (f g : nat -> res A) r : (forall m, f m = g m) -> ev g r -> ev f r.
Proof. intros H [m Hm]. exists m. intros m' Hm'. rewrite H. apply Hm. exact Hm'. Qed.
Lemma ev_shift {A} (f : nat -> res A) r k : ev f r -> ev (fun m => f (k + m)) r.
Proof. intros [m Hm]. exists m. intros m' Hm'. apply Hm. lia. Qed.
Lemma ev_unshift {A} (f : nat -> res A) r k : ev (fun m => f (k + m)) r -> ev f r.
Proof. intros [m Hm]. exists (k + m). intros m' Hm'. replace m' with (k + (m' - k)) by lia. apply Hm. lia. Qed.
Lemma ev_S {A} (f : nat -> res A) r : ev (fun m => f (S m)) r -> ev f r.
Proof. apply (ev_unshift f r 1). Qed.

Lemma ev_bind {A B} (f : nat -> res A) (g : nat -> A -> res B) (r : res A) (k : A -> res B) :
  ev f r -> (forall a, r = Ok a -> ev (fun m => g m a) (k a)) -> done (bind r k) = true ->
  ev (fun m => bind (f m) (g m)) (bind r k).
Proof. intros [m1 H1] Hk Hd. destruct r as [a|e| |]; cbn [bind done] in *; try discriminate Hd.
  - destruct (Hk a eq_refl) as [m2 H2]. exists (Nat.max m1 m2). intros m' Hm'.
    rewrite H1 by lia. cbn [bind]. apply H2. lia.
  - exists m1. intros m' Hm'. rewrite H1 by lia. reflexivity. Qed.

Lemma mapM_ev {A B} (f : A -> res B) (g : nat -> A -> res B) l :
  (forall x, In x l -> done (f x) = true -> ev (fun m => g m x) (f x)) ->
  done (mapM f l) = true -> ev (fun m => mapM (g m) l) (mapM f l).
Proof. induction l as [|x r IH]; intros Hfg Hd; [exists 0; reflexivity|]. cbn [mapM] in *.
  destruct (f x) as [y|e| |] eqn:Ex; cbn [bind done] in Hd; try discriminate Hd.
  - destruct (Hfg x (or_introl eq_refl)) as [m1 H1]; [rewrite Ex; reflexivity|].
    assert (Hdr : done (mapM f r) = true) by (destruct (mapM f r); cbn [bind done] in *; try discriminate Hd; reflexivity).
    destruct (IH (fun z Hz => Hfg z (or_intror Hz)) Hdr) as [m2 H2].
    exists (Nat.max m1 m2). intros m' Hm'. rewrite H1 by lia. rewrite Ex. cbn [bind]. rewrite H2 by lia. reflexivity.
  - destruct (Hfg x (or_introl eq_refl)) as [m1 H1]; [rewrite Ex; reflexivity|].
    exists m1. intros m' Hm'. rewrite H1 by lia. rewrite Ex. reflexivity. Qed.

(* the hashing conversions (hash-as-produced) follow the conversion they wrap *)
Lemma ev_hashing (rt : runtime) {A B} (key : B -> pv) (f : A -> res B) (g : nat -> A -> res B) x :
  (done (f x) = true -> ev (fun m => g m x) (f x)) ->
  done (hashing rt key f x) = true -> ev (fun m => hashing rt key (g m) x) (hashing rt key f x).
Proof. unfold hashing. intros Hfg Hd.
  apply (ev_bind (fun m => g m x) (fun _ => hash_check rt key)); [|intros a _; apply ev_const|exact Hd].
  apply Hfg. destruct (f x); cbn [bind done] in *; try discriminate Hd; reflexivity. Qed.
Lemma ev_elem_conv (rt : runtime) k (f : pv -> res pv) (g : nat -> pv -> res pv) x :
  (done (f x) = true -> ev (fun m => g m x) (f x)) ->
  done (elem_conv rt k f x) = true -> ev (fun m => elem_conv rt k (g m) x) (elem_conv rt k f x).
Proof. unfold elem_conv. destruct (hashes k); [apply ev_hashing|intros Hfg Hd; apply Hfg; exact Hd]. Qed.

Lemma foldM_ev {A K} (s1 : A -> K -> res A) (s2 : nat -> A -> K -> res A) l : forall acc,
  (forall a k, In k l -> done (s1 a k) = true -> ev (fun m => s2 m a k) (s1 a k)) ->
  done (foldM s1 l acc) = true -> ev (fun m => foldM (s2 m) l acc) (foldM s1 l acc).
Proof. induction l as [|k r IH]; intros acc Hs Hd; [exists 0; reflexivity|]. rewrite foldM_cons in *.
  destruct acc as [a|e| |]; cbn [bind] in *.
  - destruct (s1 a k) as [a'|e| |] eqn:Es.
    + destruct (Hs a k (or_introl eq_refl)) as [m1 H1]; [rewrite Es; reflexivity|].
      destruct (IH (Ok a') (fun a0 k0 Hk0 => Hs a0 k0 (or_intror Hk0)) Hd) as [m2 H2].
      exists (Nat.max m1 m2). intros m' Hm'. rewrite foldM_cons. cbn [bind]. rewrite H1 by lia. rewrite Es.
      apply H2. lia.
    + destruct (Hs a k (or_introl eq_refl)) as [m1 H1]; [rewrite Es; reflexivity|].
      exists m1. intros m' Hm'. rewrite foldM_cons. cbn [bind]. rewrite H1 by lia. rewrite Es.
      rewrite !foldM_stuck by (intros a0 Ha0; discriminate Ha0). reflexivity.
    + rewrite foldM_stuck in Hd by (intros a0 Ha0; discriminate Ha0). discriminate Hd.
    + rewrite foldM_stuck in Hd by (intros a0 Ha0; discriminate Ha0). discriminate Hd.
  - exists 0. intros m' _. rewrite foldM_cons. cbn [bind].
    rewrite !foldM_stuck by (intros a0 Ha0; discriminate Ha0). reflexivity.
  - rewrite foldM_stuck in Hd by (intros a0 Ha0; discriminate Ha0). discriminate Hd.
  - rewrite foldM_stuck in Hd by (intros a0 Ha0; discriminate Ha0). discriminate Hd. Qed.

Section Sem.
Variable rt : runtime.
Variable E : env.
Variable noop_leaf : nat -> bool.
Variable orders : ty -> option (list node).

(* wrappers only cost fuel *)
Fixpoint wdepth (t : ty) : nat :=
  match t with
  | TFinal t' | TClassVar t' | TAlias _ t' | TNewType _ t' | TRefTo t' => S (wdepth t')
  | _ => 0
  end.

Lemma unm_norm t : forall m x, unm rt E (wdepth t + m) t x = unm rt E m (norm t) x.
Proof. induction t; intros m x; cbn [wdepth norm plus]; try reflexivity;
  try (rewrite unm_S; apply IHt).
  - (* TRef *) destruct m; [reflexivity|]. rewrite !unm_S. reflexivity.
  - (* TRefLeaf *) destruct m; [reflexivity|]. rewrite !unm_S. reflexivity.
  - (* TAliasStr *) destruct m; [reflexivity|]. rewrite !unm_S. reflexivity.
Qed.
Lemma mar_norm t : forall m x, mar rt E (wdepth t + m) t x = mar rt E m (norm t) x.
Proof. induction t; intros m x; cbn [wdepth norm plus]; try reflexivity;
  try (rewrite mar_S; apply IHt).
  - destruct m; [reflexivity|]. rewrite !mar_S. reflexivity.
  - destruct m; [reflexivity|]. rewrite !mar_S. reflexivity.
  - destruct m; [reflexivity|]. rewrite !mar_S. reflexivity.
Qed.

Lemma ev_unm_of_norm t x r : ev (fun m => unm rt E m (norm t) x) r -> ev (fun m => unm rt E m t x) r.
Proof. intros H. apply (ev_unshift _ r (wdepth t)).
  apply (ev_ext _ (fun m => unm rt E m (norm t) x)); [intros m; apply unm_norm|exact H]. Qed.
Lemma ev_mar_of_norm t x r : ev (fun m => mar rt E m (norm t) x) r -> ev (fun m => mar rt E m t x) r.
Proof. intros H. apply (ev_unshift _ r (wdepth t)).
  apply (ev_ext _ (fun m => mar rt E m (norm t) x)); [intros m; apply mar_norm|exact H]. Qed.

Lemma ev_unm_to_norm t x r : ev (fun m => unm rt E m t x) r -> ev (fun m => unm rt E m (norm t) x) r.
Proof. intros H. apply (ev_ext _ (fun m => unm rt E (wdepth t + m) t x)); [intros m; symmetry; apply unm_norm|].
  exact (ev_shift _ _ (wdepth t) H). Qed.
Lemma ev_mar_to_norm t x r : ev (fun m => mar rt E m t x) r -> ev (fun m => mar rt E m (norm t) x) r.
Proof. intros H. apply (ev_ext _ (fun m => mar rt E (wdepth t + m) t x)); [intros m; symmetry; apply mar_norm|].
  exact (ev_shift _ _ (wdepth t) H). Qed.

(* the reference semantics does not distinguish equivalent normal forms: the name of an alias object converts like
   (the normal form of) its value *)
Lemma ev_unm_aeq a b : aeq E a b -> forall x r, ev (fun m => unm rt E m a x) r <-> ev (fun m => unm rt E m b x) r.
Proof. induction 1 as [a|a b H IH|a b c H1 IH1 H2 IH2|n v En]; intros x r.
  - split; exact (fun H0 => H0).
  - destruct (IH x r) as [A B]. split; assumption.
  - destruct (IH1 x r) as [A1 B1]. destruct (IH2 x r) as [A2 B2].
    split; intros H0; [apply A2, A1|apply B1, B2]; exact H0.
  - assert (Hs : forall m, unm rt E (S m) (TName n) x = unm rt E m v x)
      by (intros m; rewrite unm_S; unfold named_body; rewrite En; reflexivity).
    split; intros H.
    + apply ev_unm_to_norm. apply (ev_ext _ (fun m => unm rt E (1 + m) (TName n) x)); [intros m; symmetry; apply Hs|].
      exact (ev_shift _ _ 1 H).
    + apply ev_S. apply (ev_ext _ (fun m => unm rt E m v x)); [exact Hs|]. apply ev_unm_of_norm. exact H. Qed.
Lemma ev_mar_aeq a b : aeq E a b -> forall x r, ev (fun m => mar rt E m a x) r <-> ev (fun m => mar rt E m b x) r.
Proof. induction 1 as [a|a b H IH|a b c H1 IH1 H2 IH2|n v En]; intros x r.
  - split; exact (fun H0 => H0).
  - destruct (IH x r) as [A B]. split; assumption.
  - destruct (IH1 x r) as [A1 B1]. destruct (IH2 x r) as [A2 B2].
    split; intros H0; [apply A2, A1|apply B1, B2]; exact H0.
  - assert (Hs : forall m, mar rt E (S m) (TName n) x = mar rt E m v x)
      by (intros m; rewrite mar_S; unfold mnamed_body; rewrite En; reflexivity).
    split; intros H.
    + apply ev_mar_to_norm. apply (ev_ext _ (fun m => mar rt E (1 + m) (TName n) x)); [intros m; symmetry; apply Hs|].
      exact (ev_shift _ _ 1 H).
    + apply ev_S. apply (ev_ext _ (fun m => mar rt E m v x)); [exact Hs|]. apply ev_mar_of_norm. exact H. Qed.

(* ------------------------------------------------------------ helper lemmas on the member slots *)
Lemma first_ok_ev (fs : list (pv -> res pv)) (gs : nat -> list (pv -> res pv)) x :
  (forall m, length (gs m) = length fs) ->
  (forall i f, nth_error fs i = Some f -> done (f x) = true ->
     ev (fun m => match nth_error (gs m) i with Some g => g x | None => Unmodelled end) (f x)) ->
  done (first_ok rt fs x) = true -> ev (fun m => first_ok rt (gs m) x) (first_ok rt fs x).
Proof. revert gs. induction fs as [|f fs IH]; intros gs Hlen Hfg Hd.
  - exists 0. intros m' _. specialize (Hlen m'). destruct (gs m'); [reflexivity|discriminate Hlen].
  - cbn [first_ok] in Hd |- *.
    destruct (f x) as [y|e| |] eqn:Ef; cbn [done] in Hd; try discriminate Hd.
    + destruct (Hfg 0 f eq_refl) as [m1 H1]; [rewrite Ef; reflexivity|].
      exists m1. intros m' Hm'. specialize (H1 m' Hm'). specialize (Hlen m').
      destruct (gs m') as [|g gr]; [discriminate Hlen|]. cbn [nth_error] in H1. cbn [first_ok]. rewrite H1, Ef. reflexivity.
    + destruct (Hfg 0 f eq_refl) as [m1 H1]; [rewrite Ef; reflexivity|].
      destruct (suppressed rt e) eqn:Es.
      * destruct (IH (fun m => tl (gs m))) as [m2 H2].
        -- intros m. specialize (Hlen m). destruct (gs m); [discriminate Hlen|]. cbn [tl length] in *. lia.
        -- intros i f' Hi Hdf. destruct (Hfg (S i) f' Hi Hdf) as [m3 H3]. exists m3. intros m' Hm'.
           specialize (H3 m' Hm'). specialize (Hlen m'). destruct (gs m'); [discriminate Hlen|]. exact H3.
        -- exact Hd.
        -- exists (Nat.max m1 m2). intros m' Hm'. specialize (H1 m' ltac:(lia)). specialize (H2 m' ltac:(lia)).
           specialize (Hlen m'). destruct (gs m') as [|g gr]; [discriminate Hlen|]. cbn [nth_error] in H1.
           cbn [first_ok tl] in *. rewrite H1, Ef, Es. exact H2.
      * exists m1. intros m' Hm'. specialize (H1 m' Hm'). specialize (Hlen m').
        destruct (gs m') as [|g gr]; [discriminate Hlen|]. cbn [nth_error] in H1. cbn [first_ok]. rewrite H1, Ef, Es. reflexivity.
Qed.

Lemma Forall2_nth {A B} (P : A -> B -> Prop) l l' i a :
  Forall2 P l l' -> nth_error l i = Some a -> exists b, nth_error l' i = Some b /\ P a b.
Proof. intros H. revert i. induction H as [|x y l l' Hxy H IH]; intros i Hi; [destruct i; discriminate Hi|].
  destruct i; cbn [nth_error] in *; [injection Hi as <-; exists y; split; [reflexivity|exact Hxy]|apply IH; exact Hi]. Qed.
Lemma Forall2_length {A B} (P : A -> B -> Prop) l l' : Forall2 P l l' -> length l = length l'.
Proof. induction 1; cbn [length]; congruence. Qed.

(* the routine's field table agrees with the class definition *)
Lemma fields_find (P : routine -> ty -> Prop) frs fds f :
  Forall2 (fun fr fd => fst fr = fname fd /\ P (snd fr) (norm (fty fd))) frs fds ->
  match find (fun fr : nat * routine => Nat.eqb (fst fr) f) frs,
        find (fun fd => Nat.eqb (fname fd) f) fds with
  | Some fr, Some fd => P (snd fr) (norm (fty fd))
  | None, None => True
  | _, _ => False
  end.
Proof. induction 1 as [|fr fd frs fds [Hn Hp] H IH]; cbn [find]; [exact I|].
  rewrite Hn. destruct (Nat.eqb (fname fd) f); [exact Hp|exact IH]. Qed.

(* ------------------------------------------------------------ unmarshal side *)
Section U.
Hypothesis orders_ok_u : forall t ns, orders t = Some ns ->
  exists pre root, ns = pre ++ [root] /\ order_ok E true noop_leaf [] ns = true /\ norm (ntype root) = norm t.
Hypothesis noop_u : forall s x, noop_leaf s = true -> leaf_u rt s x = Ok x.

Notation runu := (run rt E orders true).
Notation R := (routes' E true noop_leaf).

Theorem run_u_sound : forall n r a x,
  R r a -> done (runu n r x) = true -> ev (fun m => unm rt E m a x) (runu n r x).
Proof.
  induction n as [|n IH]; intros r a x Hr Hd; [discriminate Hd|].
  assert (IHn : forall r' a' v, R r' (norm a') -> done (runu n r' v) = true ->
                 ev (fun m => unm rt E m a' v) (runu n r' v)).
  { intros r' a' v Hr' Hdv. apply ev_unm_of_norm. apply IH; assumption. }
  revert x Hd. induction Hr as [s| |k r a Hra _|k rk rv kt vt Hrk _ Hrv _|rs ts HF|rs ts HF|c cd frs Ec HF|t a Ha|s Hs|n0 v r En Hr IHr];
    intros x Hd.
  1-9: (apply ev_S; cbn [run] in Hd |- *; (eapply ev_ext; [intros m; apply unm_S|]); cbv beta iota).
  - (* leaf *) apply ev_const.
  - (* none *) apply ev_const.
  - (* seq *) unfold seq_body.
    destruct (load rt x) as [d|e| |]; cbn [bind done] in *; try discriminate Hd; try apply ev_const.
    destruct (itervalues rt d) as [vs|e| |]; cbn [bind done] in *; try discriminate Hd; try apply ev_const.
    apply ev_bind; [|intros rs _; apply ev_const|exact Hd].
    apply (mapM_ev (elem_conv rt k (runu n r)) (fun m => elem_conv rt k (unm rt E m a)));
      [intros v _ Hv; apply ev_elem_conv; [intros Hv'; apply IHn; assumption|exact Hv]|].
    destruct (bind_done _ _ Hd) as [[rs [Hrs _]]|[e He]]; [rewrite Hrs|rewrite He]; reflexivity.
  - (* map *) unfold map_body.
    destruct (load rt x) as [d|e| |]; cbn [bind done] in *; try discriminate Hd; try apply ev_const.
    destruct (iteritems rt E d) as [kvs|e| |]; cbn [bind done] in *; try discriminate Hd; try apply ev_const.
    apply ev_bind; [|intros rs _; apply ev_const|exact Hd].
    apply mapM_ev.
    + intros kv _ Hkh.
      apply (ev_hashing rt fst _ (fun m (kv : pv * pv) => bind (unm rt E m kt (fst kv))
               (fun k' => bind (unm rt E m vt (snd kv)) (fun v' => Ok (k', v')))) kv); [|exact Hkh].
      clear Hkh. intros Hkv. apply ev_bind; [| |exact Hkv].
      * apply IHn; [assumption|]. destruct (bind_done _ _ Hkv) as [[k' [Hk _]]|[e He]]; [rewrite Hk|rewrite He]; reflexivity.
      * intros k' Hk'. rewrite Hk' in Hkv. cbn [bind] in Hkv. apply ev_bind; [|intros v' _; apply ev_const|exact Hkv].
        apply IHn; [assumption|]. destruct (bind_done _ _ Hkv) as [[v' [Hv _]]|[e He]]; [rewrite Hv|rewrite He]; reflexivity.
    + destruct (bind_done _ _ Hd) as [[rs [Hrs _]]|[e He]]; [rewrite Hrs|rewrite He]; reflexivity.
  - (* tuple *) unfold tuple_body.
    destruct (load rt x) as [d|e| |]; cbn [bind done] in *; try discriminate Hd; try apply ev_const.
    destruct (itervalues rt d) as [vs|e| |]; cbn [bind done] in *; try discriminate Hd; try apply ev_const.
    match goal with H : Forall2 _ rs ts |- _ => rewrite <- (Forall2_length _ _ _ H) end.
    destruct (Nat.ltb (length vs) (length rs)); [apply ev_const|].
    apply ev_bind; [|intros out _; apply ev_const|exact Hd].
    assert (Hdm : done (mapM (fun rv => runu n (fst rv) (snd rv)) (zip_trunc rs vs)) = true).
    { destruct (bind_done _ _ Hd) as [[o [Ho _]]|[e He]]; [rewrite Ho|rewrite He]; reflexivity. }
    clear Hd. revert vs Hdm. match goal with H : Forall2 _ rs ts |- _ => induction H as [|r0 t0 rs0 ts0 Hrt HF IHF] end;
      intros vs Hdm; [exists 0; reflexivity|].
    destruct vs as [|v vs]; [exists 0; reflexivity|]. cbn [zip_trunc mapM fst snd] in *.
    destruct (runu n r0 v) as [y|e| |] eqn:Ey; cbn [bind done] in Hdm; try discriminate Hdm.
    + destruct (IHn r0 t0 v Hrt) as [m1 H1]; [rewrite Ey; reflexivity|].
      assert (Hdr : done (mapM (fun rv => runu n (fst rv) (snd rv)) (zip_trunc rs0 vs)) = true).
      { destruct (mapM _ (zip_trunc rs0 vs)); cbn [bind done] in *; try discriminate Hdm; reflexivity. }
      destruct (IHF vs Hdr) as [m2 H2]. exists (Nat.max m1 m2). intros m' Hm'.
      rewrite H1 by lia. rewrite Ey. cbn [bind]. rewrite H2 by lia. reflexivity.
    + destruct (IHn r0 t0 v Hrt) as [m1 H1]; [rewrite Ey; reflexivity|].
      exists m1. intros m' Hm'. rewrite H1 by lia. rewrite Ey. reflexivity.
  - (* union *)
    match goal with H : Forall2 _ rs _ |- _ => rename H into HF end.
    apply (first_ok_ev (map (runu n) rs) (fun m => map (unm rt E m) (union_stack_u ts)) x).
    + intros m. rewrite !map_length. symmetry. exact (Forall2_length _ _ _ HF).
    + intros i f Hi Hdf. rewrite nth_error_map in Hi. destruct (nth_error rs i) as [ri|] eqn:Eri; [|discriminate Hi].
      injection Hi as <-. destruct (Forall2_nth _ _ _ _ _ HF Eri) as [ti [Hti Hrti]].
      eapply ev_ext; [intros m; rewrite nth_error_map, Hti; reflexivity|].
      apply IHn; assumption.
    + exact Hd.
  - (* struct *)
    match goal with H : E c = Some (NClass cd) |- _ => rename H into Ec end.
    match goal with H : Forall2 _ frs (cfields cd) |- _ => rename H into HF end.
    rewrite Ec in Hd |- *. unfold named_body. rewrite Ec.
    destruct (load rt x) as [d|e| |]; cbn [bind done] in *; try discriminate Hd; try apply ev_const.
    destruct (iteritems rt E d) as [kvs|e| |]; cbn [bind done] in *; try discriminate Hd; try apply ev_const.
    unfold struct_kw in Hd |- *.
    match type of Hd with done (bind ?F _) = true => set (FK := F) in Hd |- * end.
    assert (HdF : done FK = true).
    { destruct (bind_done _ _ Hd) as [[kw [Hk _]]|[e He]]; [rewrite Hk|rewrite He]; reflexivity. }
    apply ev_bind; [|intros kw _; apply ev_const|exact Hd].
    subst FK.
    change (fold_left _ kvs (Ok [])) with
      (foldM (fun kw (kv : pv * pv) =>
                match fst kv with
                | PKey f => match find (fun fr : nat * routine => Nat.eqb (fst fr) f) frs with
                            | Some fr => bind (runu n (snd fr) (snd kv)) (fun v' => Ok (kw_set f v' kw))
                            | None => Ok kw end
                | k => if unhashable rt k then Raise EType else Ok kw
                end) kvs (Ok [])) in HdF |- *.
    apply foldM_ev; [|exact HdF].
    intros kw kv _ Hk. unfold ustep. destruct (fst kv); try apply ev_const.
    pose proof (fields_find R frs (cfields cd) f HF) as Hff. unfold field_ty.
    destruct (find (fun fr : nat * routine => Nat.eqb (fst fr) f) frs) as [fr|];
      destruct (find (fun fd => Nat.eqb (fname fd) f) (cfields cd)) as [fd|]; try contradiction; [|apply ev_const].
    apply ev_bind; [|intros v' _; apply ev_const|exact Hk].
    apply IHn; [exact Hff|]. destruct (bind_done _ _ Hk) as [[v' [Hv _]]|[e He]]; [rewrite Hv|rewrite He]; reflexivity.
  - (* delayed *)
    unfold build_root in Hd |- *.
    destruct (orders (evaluate t)) as [ns|] eqn:Eo; [|discriminate Hd].
    destruct (orders_ok_u _ _ Eo) as [pre [root [-> [Hord Hroot]]]].
    destruct (build_routes E true noop_leaf orders t pre root Eo Hord) as [r' [Hb Hr']];
      [rewrite Hroot; apply norm_evaluate|].
    unfold build_root in Hb. rewrite Eo in Hb. rewrite Hb in Hd |- *. cbn [bind] in Hd |- *.
    assert (Hx : ev (fun m => unm rt E m a x) (runu n r' x))
      by (apply IH; [exact (proj1 (routes'_aeq E true noop_leaf _ _ Ha r') Hr')|exact Hd]).
    eapply ev_ext; [intros m; symmetry; apply (unm_S rt E m a x)|].
    exact (ev_shift _ _ 1 Hx).
  - (* noop *) rewrite noop_u by assumption. apply ev_const.
  - (* the name of an alias object: the routine routes the normal form of its value *)
    apply (proj2 (ev_unm_aeq (TName n0) (norm v) (Aq_step E n0 v En) x _)). apply IHr. exact Hd.
Qed.

Theorem api_u_sound T fuel x :
  done (api_call rt E orders true fuel T x) = true ->
  ev (fun m => unm rt E m T x) (api_call rt E orders true fuel T x).
Proof. unfold api_call. intros Hd.
  assert (Hb : exists r, build_root E orders true T = Ok r /\ routes E true noop_leaf r T).
  { unfold build_root in Hd |- *. destruct (orders (evaluate T)) as [ns|] eqn:Eo; [|discriminate Hd].
    destruct (orders_ok_u _ _ Eo) as [pre [root [-> [Hord Hroot]]]].
    destruct (build_routes E true noop_leaf orders T pre root Eo Hord) as [r [Hb Hr]];
      [rewrite Hroot; apply norm_evaluate|].
    unfold build_root in Hb. rewrite Eo in Hb. exists r. split; assumption. }
  destruct Hb as [r [Hb Hr]]. rewrite Hb in Hd |- *. cbn [bind] in Hd |- *.
  apply ev_unm_of_norm. apply run_u_sound; assumption. Qed.

End U.

(* ------------------------------------------------------------ marshal side *)
Section M.
Hypothesis orders_ok_m : forall t ns, orders t = Some ns ->
  exists pre root, ns = pre ++ [root] /\ order_ok E false noop_leaf [] ns = true /\ norm (ntype root) = norm t.
Hypothesis noop_m : forall s x, noop_leaf s = true -> leaf_m rt s x = Ok x.

Notation runm := (run rt E orders false).
Notation R := (routes' E false noop_leaf).

Theorem run_m_sound : forall n r a x,
  R r a -> done (runm n r x) = true -> ev (fun m => mar rt E m a x) (runm n r x).
Proof.
  induction n as [|n IH]; intros r a x Hr Hd; [discriminate Hd|].
  assert (IHn : forall r' a' v, R r' (norm a') -> done (runm n r' v) = true ->
                 ev (fun m => mar rt E m a' v) (runm n r' v)).
  { intros r' a' v Hr' Hdv. apply ev_mar_of_norm. apply IH; assumption. }
  revert x Hd. induction Hr as [s| |k r a Hra _|k rk rv kt vt Hrk _ Hrv _|rs ts HF|rs ts HF|c cd frs Ec HF|t a Ha|s Hs|n0 v r En Hr IHr];
    intros x Hd.
  1-9: (apply ev_S; cbn [run] in Hd |- *; (eapply ev_ext; [intros m; apply mar_S|]); cbv beta iota).
  - (* leaf *) apply ev_const.
  - (* none *) apply ev_const.
  - (* seq *) unfold mseq_body.
    destruct (itervalues rt x) as [vs|e| |]; cbn [bind done] in *; try discriminate Hd; try apply ev_const.
    apply ev_bind; [|intros rs _; apply ev_const|exact Hd].
    apply mapM_ev; [intros v _ Hv; apply IHn; assumption|].
    destruct (bind_done _ _ Hd) as [[rs [Hrs _]]|[e He]]; [rewrite Hrs|rewrite He]; reflexivity.
  - (* map *) unfold mmap_body.
    destruct (iteritems rt E x) as [kvs|e| |]; cbn [bind done] in *; try discriminate Hd; try apply ev_const.
    apply ev_bind; [|intros rs _; apply ev_const|exact Hd].
    apply mapM_ev.
    + intros kv _ Hkh.
      apply (ev_hashing rt fst _ (fun m (kv : pv * pv) => bind (mar rt E m kt (fst kv))
               (fun k' => bind (mar rt E m vt (snd kv)) (fun v' => Ok (k', v')))) kv); [|exact Hkh].
      clear Hkh. intros Hkv. apply ev_bind; [| |exact Hkv].
      * apply IHn; [assumption|]. destruct (bind_done _ _ Hkv) as [[k' [Hk _]]|[e He]]; [rewrite Hk|rewrite He]; reflexivity.
      * intros k' Hk'. rewrite Hk' in Hkv. cbn [bind] in Hkv. apply ev_bind; [|intros v' _; apply ev_const|exact Hkv].
        apply IHn; [assumption|]. destruct (bind_done _ _ Hkv) as [[v' [Hv _]]|[e He]]; [rewrite Hv|rewrite He]; reflexivity.
    + destruct (bind_done _ _ Hd) as [[rs [Hrs _]]|[e He]]; [rewrite Hrs|rewrite He]; reflexivity.
  - (* tuple *) unfold mtuple_body.
    destruct (itervalues rt x) as [vs|e| |]; cbn [bind done] in *; try discriminate Hd; try apply ev_const.
    apply ev_bind; [|intros out _; apply ev_const|exact Hd].
    assert (Hdm : done (mapM (fun rv => runm n (fst rv) (snd rv)) (zip_trunc rs vs)) = true).
    { destruct (bind_done _ _ Hd) as [[o [Ho _]]|[e He]]; [rewrite Ho|rewrite He]; reflexivity. }
    clear Hd. revert vs Hdm. match goal with H : Forall2 _ rs ts |- _ => induction H as [|r0 t0 rs0 ts0 Hrt HF IHF] end;
      intros vs Hdm; [exists 0; reflexivity|].
    destruct vs as [|v vs]; [exists 0; reflexivity|]. cbn [zip_trunc mapM fst snd] in *.
    destruct (runm n r0 v) as [y|e| |] eqn:Ey; cbn [bind done] in Hdm; try discriminate Hdm.
    + destruct (IHn r0 t0 v Hrt) as [m1 H1]; [rewrite Ey; reflexivity|].
      assert (Hdr : done (mapM (fun rv => runm n (fst rv) (snd rv)) (zip_trunc rs0 vs)) = true).
      { destruct (mapM _ (zip_trunc rs0 vs)); cbn [bind done] in *; try discriminate Hdm; reflexivity. }
      destruct (IHF vs Hdr) as [m2 H2]. exists (Nat.max m1 m2). intros m' Hm'.
      rewrite H1 by lia. rewrite Ey. cbn [bind]. rewrite H2 by lia. reflexivity.
    + destruct (IHn r0 t0 v Hrt) as [m1 H1]; [rewrite Ey; reflexivity|].
      exists m1. intros m' Hm'. rewrite H1 by lia. rewrite Ey. reflexivity.
  - (* union *)
    match goal with H : Forall2 _ rs _ |- _ => rename H into HF end.
    destruct (isoptional ts && is_none_val rt x); [apply ev_const|].
    apply (first_ok_ev (map (runm n) rs) (fun m => map (mar rt E m) ts) x).
    + intros m. rewrite !map_length. symmetry. exact (Forall2_length _ _ _ HF).
    + intros i f Hi Hdf. rewrite nth_error_map in Hi. destruct (nth_error rs i) as [ri|] eqn:Eri; [|discriminate Hi].
      injection Hi as <-. destruct (Forall2_nth _ _ _ _ _ HF Eri) as [ti [Hti Hrti]].
      eapply ev_ext; [intros m; rewrite nth_error_map, Hti; reflexivity|].
      apply IHn; assumption.
    + exact Hd.
  - (* struct *)
    match goal with H : E c = Some (NClass cd) |- _ => rename H into Ec end.
    match goal with H : Forall2 _ frs (cfields cd) |- _ => rename H into HF end.
    unfold mnamed_body. rewrite Ec.
    destruct (iteritems rt E x) as [kvs|e| |]; cbn [bind done] in *; try discriminate Hd; try apply ev_const.
    unfold struct_kw in Hd |- *.
    match type of Hd with done (bind ?F _) = true => set (FK := F) in Hd |- * end.
    assert (HdF : done FK = true).
    { destruct (bind_done _ _ Hd) as [[kw [Hk _]]|[e He]]; [rewrite Hk|rewrite He]; reflexivity. }
    apply ev_bind; [|intros kw _; apply ev_const|exact Hd].
    subst FK.
    change (fold_left _ kvs (Ok [])) with
      (foldM (fun kw (kv : pv * pv) =>
                match fst kv with
                | PKey f => match find (fun fr : nat * routine => Nat.eqb (fst fr) f) frs with
                            | Some fr => bind (runm n (snd fr) (snd kv)) (fun v' => Ok (kw_set f v' kw))
                            | None => Ok kw end
                | k => if unhashable rt k then Raise EType else Ok kw
                end) kvs (Ok [])) in HdF |- *.
    apply foldM_ev; [|exact HdF].
    intros kw kv _ Hk. unfold ustep. destruct (fst kv); try apply ev_const.
    pose proof (fields_find R frs (cfields cd) f HF) as Hff. unfold field_ty.
    destruct (find (fun fr : nat * routine => Nat.eqb (fst fr) f) frs) as [fr|];
      destruct (find (fun fd => Nat.eqb (fname fd) f) (cfields cd)) as [fd|]; try contradiction; [|apply ev_const].
    apply ev_bind; [|intros v' _; apply ev_const|exact Hk].
    apply IHn; [exact Hff|]. destruct (bind_done _ _ Hk) as [[v' [Hv _]]|[e He]]; [rewrite Hv|rewrite He]; reflexivity.
  - (* delayed *)
    unfold build_root in Hd |- *.
    destruct (orders (evaluate t)) as [ns|] eqn:Eo; [|discriminate Hd].
    destruct (orders_ok_m _ _ Eo) as [pre [root [-> [Hord Hroot]]]].
    destruct (build_routes E false noop_leaf orders t pre root Eo Hord) as [r' [Hb Hr']];
      [rewrite Hroot; apply norm_evaluate|].
    unfold build_root in Hb. rewrite Eo in Hb. rewrite Hb in Hd |- *. cbn [bind] in Hd |- *.
    assert (Hx : ev (fun m => mar rt E m a x) (runm n r' x))
      by (apply IH; [exact (proj1 (routes'_aeq E false noop_leaf _ _ Ha r') Hr')|exact Hd]).
    eapply ev_ext; [intros m; symmetry; apply (mar_S rt E m a x)|].
    exact (ev_shift _ _ 1 Hx).
  - (* noop *) rewrite noop_m by assumption. apply ev_const.
  - (* the name of an alias object: the routine routes the normal form of its value *)
    apply (proj2 (ev_mar_aeq (TName n0) (norm v) (Aq_step E n0 v En) x _)). apply IHr. exact Hd.
Qed.

Theorem api_m_sound T fuel x :
  done (api_call rt E orders false fuel T x) = true ->
  ev (fun m => mar rt E m T x) (api_call rt E orders false fuel T x).
Proof. unfold api_call. intros Hd.
  assert (Hb : exists r, build_root E orders false T = Ok r /\ routes E false noop_leaf r T).
  { unfold build_root in Hd |- *. destruct (orders (evaluate T)) as [ns|] eqn:Eo; [|discriminate Hd].
    destruct (orders_ok_m _ _ Eo) as [pre [root [-> [Hord Hroot]]]].
    destruct (build_routes E false noop_leaf orders T pre root Eo Hord) as [r [Hb Hr]];
      [rewrite Hroot; apply norm_evaluate|].
    unfold build_root in Hb. rewrite Eo in Hb. exists r. split; assumption. }
  destruct Hb as [r [Hb Hr]]. rewrite Hb in Hd |- *. cbn [bind] in Hd |- *.
  apply ev_mar_of_norm. apply run_m_sound; assumption. Qed.

End M.

End Sem.
