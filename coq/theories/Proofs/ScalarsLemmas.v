(* Proofs/ScalarsLemmas.v -- proof scripts for Model/Temporal.v and Model/Scalars.v (C04). *)
From Coq Require Import List ZArith Ascii String Bool Lia ZifyBool.
Import ListNotations.
Require Import TL.Model.Duration.
Require Import TL.Model.Temporal.
Require Import TL.Model.Scalars.
Require Import TL.Proofs.DurationLemmas.
Open Scope Z_scope.
Ltac Zify.zify_post_hook ::= Z.div_mod_to_equations.

Section Laws.
Variable rt : Runtime.
Hypothesis L : RuntimeLaws rt.

Lemma decode_text c s : decode rt (text rt c s) = Ok (VText CStr s).
Proof. destruct c; cbn [text decode]; try reflexivity; rewrite (utf8_rt rt L); reflexivity. Qed.

Lemma text_not_instance c s k : forall r, decode rt (text rt c s) = Ok r -> isinstance_num rt k r = false.
Proof. intros r. rewrite decode_text. intros H; injection H as <-. destruct k; reflexivity. Qed.

Lemma text_not_temporal c s : is_temporal (text rt c s) = false.
Proof. destruct c; reflexivity. Qed.

Lemma number_of_text k c s : unm_number rt k (text rt c s) = num_ctor rt k (VText CStr s).
Proof.
  unfold unm_number. rewrite decode_text. cbn [bind].
  replace (isinstance_num rt k (VText CStr s)) with false by (destruct k; reflexivity).
  rewrite text_not_temporal. reflexivity.
Qed.

Lemma text_int c z : unm_number rt KInt (text rt c (canon_text rt (VInt z))) = Ok (VInt z).
Proof. rewrite number_of_text. cbn [num_ctor view]. rewrite (int_text_rt rt L). reflexivity. Qed.
Lemma text_float c f : unm_number rt KFloat (text rt c (canon_text rt (VFloat f))) = Ok (VFloat f).
Proof. rewrite number_of_text. cbn [num_ctor view]. rewrite (float_text_rt rt L). reflexivity. Qed.
Lemma text_dec c d : unm_number rt KDec (text rt c (canon_text rt (VDec d))) = Ok (VDec d).
Proof. rewrite number_of_text. cbn [num_ctor view]. rewrite (dec_text_rt rt L). reflexivity. Qed.
Lemma text_frac c q : unm_number rt KFrac (text rt c (canon_text rt (VFrac q))) = Ok (VFrac q).
Proof. rewrite number_of_text. cbn [num_ctor view]. rewrite (frac_text_rt rt L). reflexivity. Qed.

(* bool(text) is "the text is not empty", in every carrier: bool('false') is True *)
Lemma text_bool c s : unm_number rt KBool (text rt c s) = Ok (VBool (negb (is_empty s))).
Proof. rewrite number_of_text. reflexivity. Qed.

Lemma text_uuid c u : hashable c = true -> unm_uuid rt (text rt c (canon_text rt (VUuid u))) = Ok (VUuid u).
Proof.
  intros Hc. unfold unm_uuid. rewrite (uuid_text_not_loadable rt L u c Hc). cbn [bind as_int as_str view].
  rewrite (uuid_text_rt rt L). reflexivity.
Qed.

Lemma text_path c p : unm_path rt (text rt c (canon_text rt (VPath p))) = Ok (VPath p).
Proof. unfold unm_path. rewrite decode_text. cbn [bind as_str view]. rewrite (path_text_rt rt L). reflexivity. Qed.

Lemma text_shape c s : exists c' b, text rt c s = VText c' b.
Proof. destruct c; cbn [text]; eauto. Qed.

Lemma text_enum c m : hashable c = true -> enum_member_ok rt m ->
  unm_enum rt (text rt c (canon_text rt (VEnum m))) = Ok (VEnum m).
Proof.
  intros Hc Hm. unfold unm_enum.
  pose proof (decode_text c (canon_text rt (VEnum m))) as Hd.
  destruct (text_shape c (canon_text rt (VEnum m))) as (c' & b & E).
  destruct Hm as [H1|[H1 H2]].
  - rewrite E in *. rewrite Hd. cbn [bind]. rewrite H1. reflexivity.
  - destruct (H2 c Hc) as (w & Hw & Hw'). rewrite E in *. rewrite Hd. cbn [bind].
    destruct H1 as [H1|H1]; rewrite H1, Hw; cbn [bind]; rewrite Hw'; reflexivity.
Qed.

(* ---- temporal text ---- *)
Lemma dateparse_plain s t p : t <> KTime -> starts_neg s = false -> pendulum_parse rt s = Ok p ->
  (forall e, nomalize_dt p t <> Raise e) -> dateparse rt s t = nomalize_dt p t.
Proof.
  intros Ht Hs Hp Hn. unfold dateparse.
  destruct t; try congruence; cbv beta zeta; rewrite Hs, Hp; cbn [bind];
    (destruct (nomalize_dt p _) eqn:E; [reflexivity|exfalso; exact (Hn e eq_refl)|reflexivity]).
Qed.

Lemma text_date c y m d : valid_date y m d = true ->
  unm_date rt (text rt c (canon_text rt (VDate y m d))) = Ok (VDate y m d).
Proof.
  intros Hv. unfold unm_date.
  assert (Hs : forall A (x y0 : A), match text rt c (canon_text rt (VDate y m d)) with VDate _ _ _ => x | _ => y0 end = y0)
    by (intros; destruct c; reflexivity).
  rewrite Hs. replace (is_number rt (text rt c (canon_text rt (VDate y m d)))) with false by (destruct c; reflexivity).
  cbn [bind]. rewrite decode_text. cbn [bind].
  rewrite (dateparse_plain _ KDate (PDT (midnight_utc y m d))); [reflexivity|discriminate| | |].
  - apply (canon_unsigned rt L (VDate y m d)). reflexivity.
  - apply (parse_date_rt rt L); assumption.
  - intros e; discriminate.
Qed.

Lemma text_datetime c d : valid_dt d = true ->
  exists d', unm_datetime rt (text rt c (canon_text rt (VDateTime d))) = Ok (VDateTime d') /\ same_dt d d' = true.
Proof.
  intros Hv. destruct (parse_dt_rt rt L d Hv) as (d' & Hp & Hsame). exists d'. split; [|exact Hsame].
  unfold unm_datetime.
  assert (Hs : forall A (x y0 : A), match text rt c (canon_text rt (VDateTime d)) with VDateTime _ => x | _ => y0 end = y0)
    by (intros; destruct c; reflexivity).
  rewrite Hs. replace (is_number rt (text rt c (canon_text rt (VDateTime d)))) with false by (destruct c; reflexivity).
  cbn [bind]. rewrite decode_text. cbn [bind].
  rewrite (dateparse_plain _ KDateTime (PDT d')); [reflexivity|discriminate| |exact Hp|].
  - apply (canon_unsigned rt L (VDateTime d)). reflexivity.
  - intros e; discriminate.
Qed.

Lemma valid_off_some o : valid_off o = true -> exists z, o = Some z.
Proof. destruct o; [eauto|discriminate]. Qed.

Lemma text_time c t : valid_tm t = true ->
  exists t', unm_time rt (text rt c (canon_text rt (VTime t))) = Ok (VTime t') /\ same_tm t t' = true.
Proof.
  intros Hv. destruct (time_iso_rt rt L t Hv) as (t' & Hp & Hsame). exists t'. split; [|exact Hsame].
  unfold unm_time.
  assert (Hs : forall A (x y0 : A), match text rt c (canon_text rt (VTime t)) with VTime _ => x | _ => y0 end = y0)
    by (intros; destruct c; reflexivity).
  rewrite Hs. rewrite decode_text. cbn [bind is_number view].
  unfold dateparse. rewrite Hp.
  assert (Hoff : is_some_off t' = true).
  { unfold valid_tm in Hv. apply andb_true_iff in Hv as [_ Hv]. destruct (valid_off_some _ Hv) as [z Hz].
    unfold same_tm in Hsame. rewrite Hz in Hsame. unfold is_some_off. destruct (toff t'); [reflexivity|].
    cbn [opt_eqb] in Hsame. rewrite andb_false_r in Hsame. discriminate. }
  rewrite Hoff. reflexivity.
Qed.

(* ---- durations ---- *)
Lemma td_total_of_total z : td_total (td_of_total z) = z.
Proof. unfold td_total, td_of_total. lia. Qed.
Lemma td_of_total_in_norm z : td_norm (td_of_total z) = true.
Proof. unfold td_norm, td_of_total. lia. Qed.

Lemma iso_duration_chars_neg td : td_norm td = true -> td_total td < 0 ->
  iso_duration_chars td = "-"%char :: iso_duration_chars (td_of_total (- td_total td)) /\
  exists r, iso_duration_chars (td_of_total (- td_total td)) = "P"%char :: r.
Proof.
  destruct td as [[d s] us]. intros Hn Hneg.
  pose proof (td_total_of_total (- td_total (d, s, us))) as Htot.
  destruct (td_of_total (- td_total (d, s, us))) as [[d' s'] us'] eqn:E.
  unfold td_total in *. unfold iso_duration_chars.
  set (total := (d * 86400 + s) * 1000000 + us) in *.
  set (total' := (d' * 86400 + s') * 1000000 + us') in *.
  replace (total <? 0) with true by lia. replace (total' <? 0) with false by lia.
  replace total' with (- total) by lia.
  set (T := - total).
  set (D := T / 1000000 / 60 / 60 / 24). set (H := T / 1000000 / 60 / 60 mod 24).
  set (M := T / 1000000 / 60 mod 60). set (S := T / 1000000 mod 60). set (U := T mod 1000000).
  assert (Hne : is_nil (piece D "D") && is_nil (piece H "H" ++ piece M "M" ++ sec_piece S U) = false).
  { rewrite !is_nil_app, !is_nil_piece, is_nil_sec. subst D H M S U T. lia. }
  rewrite Hne. cbn [List.app]. split; [reflexivity|eauto].
Qed.

Lemma iso_duration_nonneg_head td : 0 <= td_total td -> exists r, iso_duration_chars td = "P"%char :: r.
Proof.
  destruct td as [[d s] us]. unfold td_total, iso_duration_chars. intros Hnn.
  replace ((d * 86400 + s) * 1000000 + us <? 0) with false by lia.
  match goal with |- context [if ?b then _ else _] => destruct b end; cbn [List.app]; eauto.
Qed.

Lemma td_in_range_negated td : td_in_range td = true -> td_total td < 0 ->
  td_in_range (td_of_total (- td_total td)) = true.
Proof.
  destruct td as [[d s] us]. unfold td_in_range, td_norm, td_total, td_of_total. intros H Hneg. lia.
Qed.

Lemma dateparse_duration td : td_in_range td = true ->
  dateparse rt (iso_duration td) KTimeDelta = Ok (VTimeDelta (fst (fst td)) (snd (fst td)) (snd td)).
Proof.
  intros Hr. assert (Hn : td_norm td = true).
  { destruct td as [[d s] us]. unfold td_in_range in Hr.
    apply andb_true_iff in Hr as [Hr _]. apply andb_true_iff in Hr as [Hr _]. exact Hr. }
  unfold dateparse. destruct (Z_lt_le_dec (td_total td) 0) as [Hneg|Hnn].
  - destruct (iso_duration_chars_neg td Hn Hneg) as (Hc & r & Hr').
    assert (E1 : iso_duration td = String "-" (iso_duration (td_of_total (- td_total td)))).
    { unfold iso_duration. rewrite Hc. reflexivity. }
    assert (E2 : starts_neg (iso_duration td) = true).
    { rewrite E1. unfold iso_duration. rewrite Hr'. reflexivity. }
    assert (E3 : str_tail (iso_duration td) = iso_duration (td_of_total (- td_total td))).
    { rewrite E1. reflexivity. }
    rewrite E2, E3.
    rewrite (parse_dur_rt rt L _ (td_in_range_negated td Hr Hneg)) by (rewrite td_total_of_total; lia).
    cbn [bind negate].
    destruct (td_of_total (- td_total td)) as [[d' s'] us'] eqn:E. cbn [fst snd].
    replace (td_total (d', s', us')) with (- td_total td) by (rewrite <- E, td_total_of_total; reflexivity).
    rewrite Z.opp_involutive.
    destruct td as [[d s] us]. unfold td_total. rewrite (td_of_total_norm d s us Hn). reflexivity.
  - destruct (iso_duration_nonneg_head td Hnn) as (r & Hr').
    assert (Hp : starts_neg (iso_duration td) = false).
    { unfold iso_duration. rewrite Hr'. reflexivity. }
    rewrite Hp, (parse_dur_rt rt L td Hr Hnn). reflexivity.
Qed.

Lemma text_timedelta c td : td_in_range td = true ->
  unm_timedelta rt (text rt c (isoformat rt (VTimeDelta (fst (fst td)) (snd (fst td)) (snd td))))
  = Ok (VTimeDelta (fst (fst td)) (snd (fst td)) (snd td)).
Proof.
  intros Hr. unfold unm_timedelta.
  replace (is_number rt (text rt c _)) with false by (destruct c; reflexivity).
  rewrite decode_text. cbn [bind isoformat].
  destruct td as [[d s] us]. cbn [fst snd]. rewrite (dateparse_duration (d, s, us) Hr). reflexivity.
Qed.

End Laws.

(* ---- numeric readings: pure plumbing, no law needed ---- *)
Section Plumbing.
Variable rt : Runtime.

Lemma num_to_datetime x : is_number rt x = true ->
  unm_datetime rt x = fromtimestamp_utc rt x >>= fun d => Ok (VDateTime d).
Proof. intros H. unfold unm_datetime. destruct x; try discriminate H; rewrite H; cbn [bind]; destruct (fromtimestamp_utc rt _); reflexivity. Qed.
Lemma num_to_date x : is_number rt x = true ->
  unm_date rt x = fromtimestamp_utc rt x >>= fun d => Ok (VDate (dy d) (dmo d) (dd d)).
Proof. intros H. unfold unm_date. destruct x; try discriminate H; rewrite H; cbn [bind]; destruct (fromtimestamp_utc rt _); reflexivity. Qed.
Lemma num_to_time x : is_number rt x = true ->
  unm_time rt x = fromtimestamp_utc rt x >>= fun d => Ok (VTime (time_of d)).
Proof. intros H. unfold unm_time. destruct x; try discriminate H; cbn [decode bind]; rewrite H; cbn [bind]; destruct (fromtimestamp_utc rt _); reflexivity. Qed.
Lemma num_to_timedelta x : is_number rt x = true ->
  unm_timedelta rt x = td_of_seconds rt x >>= fun '(d, s, us) => Ok (VTimeDelta d s us).
Proof. intros H. unfold unm_timedelta. rewrite H. reflexivity. Qed.

Definition is_instant (v : val) : bool :=
  match v with VDate _ _ _ | VDateTime _ | VTimeDelta _ _ _ => true | _ => false end.
Lemma temporal_to_float v : is_instant v = true ->
  unm_number rt KFloat v = unixtime rt v >>= fun f => Ok (VFloat f).
Proof. destruct v; try discriminate; intros _; unfold unm_number; cbn [decode bind isinstance_num is_temporal]; destruct (unixtime rt _); reflexivity. Qed.
Lemma temporal_to_int v : is_instant v = true ->
  unm_number rt KInt v = unixtime rt v >>= fun f => int_of_float rt f >>= fun z => Ok (VInt z).
Proof. destruct v; try discriminate; intros _; unfold unm_number; cbn [decode bind isinstance_num is_temporal]; destruct (unixtime rt _); reflexivity. Qed.
Lemma date_reads_midnight_utc y m d : unixtime rt (VDate y m d) = timestamp rt (midnight_utc y m d).
Proof. reflexivity. Qed.

Lemma temporal_to_str v : is_temporal v = true -> unm_str rt v = Ok (VText CStr (isoformat rt v)).
Proof. destruct v; try discriminate; reflexivity. Qed.
Lemma temporal_to_bytes v : is_temporal v = true -> unm_bytes rt v = Ok (VText CBytes (utf8_encode rt (isoformat rt v))).
Proof. destruct v; try discriminate; reflexivity. Qed.

End Plumbing.

(* ---- subclass instances: True is an int, members of mixin enums are ints / strs ---- *)
Section Subclass.
Variable rt : Runtime.
Lemma bool_is_int b : unm_number rt KInt (VBool b) = Ok (VBool b).
Proof. reflexivity. Qed.
Lemma int_member_is_int m z : enum_base rt m = Some (VInt z) -> unm_number rt KInt (VEnum m) = Ok (VEnum m).
Proof. intros H. unfold unm_number, isinstance_num, view. cbn [decode bind]. rewrite H. reflexivity. Qed.
Lemma str_member_is_str m s : enum_base rt m = Some (VText CStr s) -> unm_str rt (VEnum m) = Ok (VEnum m).
Proof. intros H. unfold unm_str, as_str, view. cbn [decode bind]. rewrite H. reflexivity. Qed.
(* UUIDUnmarshaller: a loaded True / False is an int: UUID(int=1) / UUID(int=0) *)
Lemma uuid_of_loaded_bool v b : load rt v = Ok (VBool b) ->
  unm_uuid rt v = uuid_of_int rt (b2z b) >>= fun u => Ok (VUuid u).
Proof. intros H. unfold unm_uuid. rewrite H. reflexivity. Qed.
(* a member of another enum class is not handed back: it is looked up like any other value *)
Lemma foreign_member_looked_up m : is_member rt m = false ->
  unm_enum rt (VEnum m) =
    match enum_of_val rt (VEnum m) with
    | Ok m' => Ok (VEnum m')
    | Raise EValue | Raise EType => load rt (VEnum m) >>= enum_of_val rt >>= fun m' => Ok (VEnum m')
    | Raise e => Raise e
    | Unmodelled => Unmodelled end.
Proof. intros H. unfold unm_enum. rewrite H. reflexivity. Qed.
End Subclass.

Lemma memo_transparent memo td :
  Forall (fun e => snd e = iso_duration (fst e)) memo -> cached_iso memo td = iso_duration td.
Proof.
  intros Hm. unfold cached_iso. induction Hm as [|[k s] r Hk Hr IH]; [reflexivity|].
  cbn [memo_find]. destruct (td_eqb td k) eqn:E; [|exact IH].
  cbn [fst snd] in Hk. subst s. f_equal.
  destruct td as [[d s0] us], k as [[d' s'] us']. unfold td_eqb in E.
  assert (d = d' /\ s0 = s' /\ us = us') as (-> & -> & ->) by lia. reflexivity.
Qed.
