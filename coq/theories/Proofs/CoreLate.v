(* Hash-as-produced (Model/Core.v) against convert-then-hash (Model/CoreLate.v): equal outside `late_hash`,
   TypeError against another failure inside it, and the same `Ok` results everywhere. *)
From Coq Require Import List Arith Bool Lia PeanoNat.
Import ListNotations.
Require Import TL.Model.Core TL.Model.CoreLate TL.Proofs.CoreMono TL.Proofs.CoreHash.

Section Late.
Variable rt : runtime.
Variable E : env.

Lemma is_other_bind {X Y} (r : res X) (f : X -> res Y) : is_other r = true -> is_other (bind r f) = true.
Proof. destruct r as [a|e| |]; cbn; intros H; try discriminate H; exact H. Qed.
Lemma is_other_not_type {X} (r : res X) : is_other r = true -> r <> Raise EType.
Proof. intros H Hr. rewrite Hr in H. discriminate H. Qed.

Lemma late_seen_ok {A B} (key : B -> pv) (f : A -> res B) l :
  late_hash rt key f true l = false -> (exists rs, mapM f l = Ok rs) \/ mapM f l = Raise EType.
Proof. induction l as [|x r IH]; cbn [late_hash mapM]; [intros _; left; exists []; reflexivity|].
  destruct (f x) as [b|e| |]; cbn [bind orb]; try (intros H; discriminate H).
  - intros H. destruct (IH H) as [[rs Hr]|Hr]; rewrite Hr; cbn [bind]; [left; eexists; reflexivity|right; reflexivity].
  - destruct e; intros H; try discriminate H. right; reflexivity. Qed.

Lemma late_seen_other {A B} (key : B -> pv) (f : A -> res B) l :
  late_hash rt key f true l = true -> is_other (mapM f l) = true.
Proof. induction l as [|x r IH]; cbn [late_hash mapM]; [intros H; discriminate H|].
  destruct (f x) as [b|e| |]; cbn [bind orb]; try (intros _; reflexivity).
  - intros H. apply is_other_bind. apply IH. exact H.
  - destruct e; intros H; try discriminate H; reflexivity. Qed.

(* outside late_hash: equal, for any continuation that starts with the constructor's own hashing test *)
Lemma late_eq {A B} (key : B -> pv) (f : A -> res B) (C : list B -> res pv) l :
  late_hash rt key f false l = false ->
  bind (mapM (hashing rt key f) l) (fun rs => if existsb (fun b => unhashable rt (key b)) rs then Raise EType else C rs) =
  bind (mapM f l) (fun rs => if existsb (fun b => unhashable rt (key b)) rs then Raise EType else C rs).
Proof. revert C. induction l as [|x r IH]; intros C; cbn [late_hash mapM]; [reflexivity|]. rewrite hashing_cases.
  destruct (f x) as [b|e| |]; cbn [bind orb]; try reflexivity.
  destruct (unhashable rt (key b)) eqn:Hb; cbn [bind].
  - intros H. destruct (late_seen_ok key f r H) as [[rs Hr]|Hr]; rewrite Hr; cbn [bind existsb]; [|reflexivity].
    rewrite Hb. reflexivity.
  - intros H. specialize (IH (fun t => C (b :: t)) H).
    destruct (mapM (hashing rt key f) r) as [t|e| |]; destruct (mapM f r) as [t'|e'| |]; cbn [bind existsb] in *;
      rewrite ?Hb; cbn [orb]; try exact IH; try reflexivity;
      try (destruct (existsb (fun b0 => unhashable rt (key b0)) t); discriminate IH);
      try (destruct (existsb (fun b0 => unhashable rt (key b0)) t'); discriminate IH). Qed.

(* inside late_hash: TypeError against another failure *)
Lemma late_outside {A B} (key : B -> pv) (f : A -> res B) l :
  late_hash rt key f false l = true ->
  mapM (hashing rt key f) l = Raise EType /\ is_other (mapM f l) = true.
Proof. induction l as [|x r IH]; cbn [late_hash mapM]; [intros H; discriminate H|]. rewrite hashing_cases.
  destruct (f x) as [b|e| |]; cbn [bind orb]; try (intros H; discriminate H).
  - destruct (unhashable rt (key b)) eqn:Hb; cbn [bind]; intros H.
    + split; [reflexivity|]. apply is_other_bind. apply late_seen_other with (key := key). exact H.
    + destruct (IH H) as [H1 H2]. rewrite H1. split; [reflexivity|]. apply is_other_bind. exact H2.
  - destruct e; intros H; discriminate H. Qed.

Lemma elem_conv_id_hashing (k : seqkind) (f : pv -> res pv) :
  hashes k = true -> elem_conv rt k f = hashing rt (fun v => v) f.
Proof. apply elem_conv_hashes. Qed.

(* ---- the steps ---- *)
Lemma seq_eq_late conv k a x :
  seq_parts rt conv k a x = false -> seq_body rt conv k a x = seq_late rt conv k a x.
Proof. unfold seq_parts, seq_body, seq_late. destruct (hashes k) eqn:Hk; cbn [andb].
  - destruct (load rt x) as [d|e| |]; cbn [bind]; try reflexivity.
    destruct (itervalues rt d) as [vs|e| |]; cbn [bind]; try reflexivity. intros H.
    rewrite (elem_conv_hashes rt k _ Hk).
    destruct k; try discriminate Hk; unfold construct_seq;
      exact (late_eq (fun v => v) (conv a) (fun rs => Ok (PSeq _ (dedupe rt rs []))) vs H).
  - intros _. rewrite (elem_conv_plain rt k _ Hk). reflexivity. Qed.

Lemma seq_outside_late conv k a x :
  seq_parts rt conv k a x = true ->
  seq_body rt conv k a x = Raise EType /\ is_other (seq_late rt conv k a x) = true.
Proof. unfold seq_parts, seq_body, seq_late. destruct (hashes k) eqn:Hk; cbn [andb]; [|intros H; discriminate H].
  destruct (load rt x) as [d|e| |]; cbn [bind]; try (intros H; discriminate H).
  destruct (itervalues rt d) as [vs|e| |]; cbn [bind]; try (intros H; discriminate H). intros H.
  rewrite (elem_conv_hashes rt k _ Hk). destruct (late_outside (fun v => v) (conv a) vs H) as [H1 H2].
  rewrite H1. split; [reflexivity|]. apply is_other_bind. exact H2. Qed.

Lemma seq_ok_iff_late conv k a x y : seq_body rt conv k a x = Ok y <-> seq_late rt conv k a x = Ok y.
Proof. unfold seq_body, seq_late.
  destruct (load rt x) as [d|e| |]; cbn [bind]; try tauto.
  destruct (itervalues rt d) as [vs|e| |]; cbn [bind]; try tauto. apply seq_step_ok_iff. Qed.

Lemma map_eq_late conv k kt vt x :
  map_parts rt E conv kt vt x = false -> map_body rt E conv k kt vt x = map_late rt E conv k kt vt x.
Proof. unfold map_parts, map_body, map_late.
  destruct (load rt x) as [d|e| |]; cbn [bind]; try reflexivity.
  destruct (iteritems rt E d) as [kvs|e| |]; cbn [bind]; try reflexivity. intros H.
  exact (late_eq fst (pair_of conv kt vt) (fun rs => Ok (PDict k (dict_of rt rs))) kvs H). Qed.

Lemma map_outside_late conv k kt vt x :
  map_parts rt E conv kt vt x = true ->
  map_body rt E conv k kt vt x = Raise EType /\ is_other (map_late rt E conv k kt vt x) = true.
Proof. unfold map_parts, map_body, map_late.
  destruct (load rt x) as [d|e| |]; cbn [bind]; try (intros H; discriminate H).
  destruct (iteritems rt E d) as [kvs|e| |]; cbn [bind]; try (intros H; discriminate H). intros H.
  destruct (late_outside fst (pair_of conv kt vt) kvs H) as [H1 H2]. unfold pair_of in H1.
  rewrite H1. split; [reflexivity|]. apply is_other_bind. exact H2. Qed.

Lemma map_ok_iff_late conv k kt vt x y :
  map_body rt E conv k kt vt x = Ok y <-> map_late rt E conv k kt vt x = Ok y.
Proof. unfold map_body, map_late.
  destruct (load rt x) as [d|e| |]; cbn [bind]; try tauto.
  destruct (iteritems rt E d) as [kvs|e| |]; cbn [bind]; try tauto.
  exact (map_step_ok_iff rt k (pair_of conv kt vt) kvs y). Qed.

Lemma mmap_eq_late conv kt vt x :
  mmap_parts rt E conv kt vt x = false -> mmap_body rt E conv kt vt x = mmap_late rt E conv kt vt x.
Proof. unfold mmap_parts, mmap_body, mmap_late.
  destruct (iteritems rt E x) as [kvs|e| |]; cbn [bind]; try reflexivity. intros H.
  exact (late_eq fst (pair_of conv kt vt) (fun rs => Ok (PDict KDict (dict_of rt rs))) kvs H). Qed.

Lemma mmap_outside_late conv kt vt x :
  mmap_parts rt E conv kt vt x = true ->
  mmap_body rt E conv kt vt x = Raise EType /\ is_other (mmap_late rt E conv kt vt x) = true.
Proof. unfold mmap_parts, mmap_body, mmap_late.
  destruct (iteritems rt E x) as [kvs|e| |]; cbn [bind]; try (intros H; discriminate H). intros H.
  destruct (late_outside fst (pair_of conv kt vt) kvs H) as [H1 H2]. unfold pair_of in H1.
  rewrite H1. split; [reflexivity|]. apply is_other_bind. exact H2. Qed.

Lemma mmap_ok_iff_late conv kt vt x y :
  mmap_body rt E conv kt vt x = Ok y <-> mmap_late rt E conv kt vt x = Ok y.
Proof. unfold mmap_body, mmap_late.
  destruct (iteritems rt E x) as [kvs|e| |]; cbn [bind]; try tauto.
  exact (map_step_ok_iff rt KDict (pair_of conv kt vt) kvs y). Qed.

(* ---- about unm / mar ---- *)
Lemma unm_seq_eq_late n k a x : seq_parts rt (unm rt E n) k a x = false ->
  unm rt E (S n) (TSeq k a) x = seq_late rt (unm rt E n) k a x.
Proof. rewrite unm_S. apply seq_eq_late. Qed.
Lemma unm_seq_outside_late n k a x : seq_parts rt (unm rt E n) k a x = true ->
  unm rt E (S n) (TSeq k a) x = Raise EType /\ is_other (seq_late rt (unm rt E n) k a x) = true.
Proof. rewrite unm_S. apply seq_outside_late. Qed.
Lemma unm_seq_ok_iff_late n k a x y :
  unm rt E (S n) (TSeq k a) x = Ok y <-> seq_late rt (unm rt E n) k a x = Ok y.
Proof. rewrite unm_S. apply seq_ok_iff_late. Qed.
Lemma unm_map_eq_late n k kt vt x : map_parts rt E (unm rt E n) kt vt x = false ->
  unm rt E (S n) (TMap k kt vt) x = map_late rt E (unm rt E n) k kt vt x.
Proof. rewrite unm_S. apply map_eq_late. Qed.
Lemma unm_map_outside_late n k kt vt x : map_parts rt E (unm rt E n) kt vt x = true ->
  unm rt E (S n) (TMap k kt vt) x = Raise EType /\ is_other (map_late rt E (unm rt E n) k kt vt x) = true.
Proof. rewrite unm_S. apply map_outside_late. Qed.
Lemma unm_map_ok_iff_late n k kt vt x y :
  unm rt E (S n) (TMap k kt vt) x = Ok y <-> map_late rt E (unm rt E n) k kt vt x = Ok y.
Proof. rewrite unm_S. apply map_ok_iff_late. Qed.
Lemma mar_map_eq_late n k kt vt x : mmap_parts rt E (mar rt E n) kt vt x = false ->
  mar rt E (S n) (TMap k kt vt) x = mmap_late rt E (mar rt E n) kt vt x.
Proof. rewrite mar_S. apply mmap_eq_late. Qed.
Lemma mar_map_outside_late n k kt vt x : mmap_parts rt E (mar rt E n) kt vt x = true ->
  mar rt E (S n) (TMap k kt vt) x = Raise EType /\ is_other (mmap_late rt E (mar rt E n) kt vt x) = true.
Proof. rewrite mar_S. apply mmap_outside_late. Qed.
Lemma mar_map_ok_iff_late n k kt vt x y :
  mar rt E (S n) (TMap k kt vt) x = Ok y <-> mmap_late rt E (mar rt E n) kt vt x = Ok y.
Proof. rewrite mar_S. apply mmap_ok_iff_late. Qed.

End Late.
