(* Proofs of the bridge Core (TUnion cases of unm / mar) <-> Union.v (C08's model of the Union routines). *)
From Coq Require Import List Bool Arith Lia.
Import ListNotations.
Require TL.Model.Core TL.Model.Union TL.Model.CoreValid TL.Proofs.UnionLemmas TL.Proofs.CoreC01.
Require Import TL.Model.UnionBridge.

Module L := TL.Proofs.UnionLemmas.
Module CV := TL.Model.CoreValid.

Lemma unemb_emb e : unemb (emb e) = Some e.
Proof. destruct e; reflexivity. Qed.

Lemma sup_of_emb rt e : sup_of rt (emb e) = C.suppressed rt e.
Proof. unfold sup_of. rewrite unemb_emb. reflexivity. Qed.

Lemma sup_of_oof rt : sup_of rt oof = false.
Proof. reflexivity. Qed.
Lemma sup_of_unmodelled rt : sup_of rt unmodelled = false.
Proof. reflexivity. Qed.

Lemma emb_inj a b : emb a = emb b -> a = b.
Proof. intros H. assert (Some a = Some b) as E by (rewrite <- !unemb_emb, H; reflexivity). now inversion E. Qed.

(* the two try-loops are the same loop *)
Lemma first_ok_bridge rt (rs : list (C.pv -> C.res C.pv)) x :
  lift_res (C.first_ok rt rs x) = U.first_ok (sup_of rt) (map lift rs) x.
Proof.
  induction rs as [|r rs IH]; [reflexivity|].
  cbn [C.first_ok map U.first_ok]. unfold lift at 1.
  destruct (r x) as [y|e| |] eqn:Hr; cbn [lift_res].
  - reflexivity.
  - rewrite sup_of_emb. destruct (C.suppressed rt e); [exact IH | reflexivity].
  - reflexivity.
  - reflexivity.
Qed.

Lemma isoptional_bridge rt E n (mk : C.runtime -> C.env -> nat -> C.ty -> U.member C.pv) ts :
  (forall t, U.m_none (mk rt E n t) = C.is_none_ty t) ->
  U.isoptional (map (mk rt E n) ts) = C.isoptional ts.
Proof.
  intros Hm. unfold U.isoptional, C.isoptional. induction ts as [|t ts IH]; [reflexivity|].
  cbn [map existsb]. rewrite Hm, IH. reflexivity.
Qed.

Lemma filter_map_members (f : C.ty -> U.member C.pv) (p : U.member C.pv -> bool) (q : C.ty -> bool) ts :
  (forall t, p (f t) = q t) -> filter p (map f ts) = map f (filter q ts).
Proof.
  intros H. induction ts as [|t ts IH]; [reflexivity|]. cbn [map filter]. rewrite H.
  destruct (q t); cbn [map]; rewrite IH; reflexivity.
Qed.

Lemma stack_u_bridge rt E n ts :
  U.stack_u (map (member_u rt E n) ts) = map (member_u rt E n) (C.union_stack_u ts).
Proof.
  unfold U.stack_u, C.union_stack_u.
  rewrite (isoptional_bridge rt E n member_u ts) by reflexivity.
  destruct (C.isoptional ts); [|reflexivity].
  unfold C.none_first. rewrite map_app.
  rewrite (filter_map_members (member_u rt E n) (@U.m_none C.pv) C.is_none_ty) by reflexivity.
  rewrite (filter_map_members (member_u rt E n) (@U.not_none C.pv) (fun t => negb (C.is_none_ty t))) by reflexivity.
  reflexivity.
Qed.

(* UnionUnmarshaller as the core model runs it IS C08's unm_union over the declared members *)
Theorem unm_union_bridge rt E n ts x :
  lift_res (C.unm rt E (S n) (C.TUnion ts) x) = U.unm_union (sup_of rt) (map (member_u rt E n) ts) x.
Proof.
  cbn [C.unm]. rewrite first_ok_bridge. unfold U.unm_union. rewrite stack_u_bridge.
  rewrite !map_map. reflexivity.
Qed.

(* UnionMarshaller likewise *)
Theorem mar_union_bridge rt E n ts x :
  lift_res (C.mar rt E (S n) (C.TUnion ts) x) =
  U.mar_union (C.is_none_val rt) (sup_of rt) (map (member_m rt E n) ts) x.
Proof.
  cbn [C.mar]. unfold U.mar_union.
  rewrite (isoptional_bridge rt E n member_m ts) by reflexivity.
  destruct (C.isoptional ts && C.is_none_val rt x); [reflexivity|].
  rewrite first_ok_bridge, !map_map. reflexivity.
Qed.

(* ---- transport of C08's statements to the core semantics ---- *)

Lemma lift_res_ok {A} (r : C.res A) y : lift_res r = U.Ok y <-> r = C.Ok y.
Proof. destruct r; cbn; split; intros H; try discriminate; inversion H; reflexivity. Qed.

Lemma lift_res_raise {A} (r : C.res A) e : lift_res r = U.Raise (emb e) <-> r = C.Raise e.
Proof.
  destruct r as [a|e'| |]; cbn; split; intros H; try discriminate.
  - inversion H as [H1]. apply emb_inj in H1. now subst.
  - inversion H. reflexivity.
  - inversion H as [H1]. destruct e; discriminate H1.
  - inversion H as [H1]. destruct e; discriminate H1.
Qed.

(* "member r rejects x with a kind the loop swallows", in core terms *)
Definition c_rejects (rt : C.runtime) (r : C.pv -> C.res C.pv) (x : C.pv) : Prop :=
  exists e, r x = C.Raise e /\ C.suppressed rt e = true.

Lemma rejects_sup_bridge rt r x : U.rejects_sup (sup_of rt) (lift r) x <-> c_rejects rt r x.
Proof.
  unfold U.rejects_sup, c_rejects, lift. split.
  - intros [e [He Hs]]. destruct (r x) as [a|c| |]; cbn in He; try discriminate; inversion He; subst e.
    + exists c. split; [reflexivity | rewrite <- sup_of_emb; exact Hs].
    + discriminate Hs.
    + discriminate Hs.
  - intros [e [He Hs]]. exists (emb e). rewrite He. split; [reflexivity | rewrite sup_of_emb; exact Hs].
Qed.

Lemma pv_eqb_refl : forall v, C.pv_eqb v v = true.
Proof.
  fix IH 1. intros [a|f|k l|k l|c l|c l]; cbn [C.pv_eqb].
  - apply Nat.eqb_refl.
  - apply Nat.eqb_refl.
  - destruct k; cbn; induction l as [|x l IHl]; cbn; try reflexivity; rewrite IH; exact IHl.
  - destruct k; cbn; induction l as [|[x1 x2] l IHl]; cbn; try reflexivity; rewrite !IH; exact IHl.
  - rewrite Nat.eqb_refl. cbn. induction l as [|[f x] l IHl]; cbn; try reflexivity.
    rewrite Nat.eqb_refl, IH. exact IHl.
  - rewrite Nat.eqb_refl. cbn. induction l as [|x l IHl]; cbn; try reflexivity. rewrite IH. exact IHl.
Qed.

(* the library's NoneType routine, as a member of the core union, is a None member in C08's sense *)
Lemma none_member_bridge rt E n :
  CV.NoneLaws rt -> (forall a b, C.pv_eqb a b = true -> a = b) ->
  forall t, C.is_none_ty t = true -> U.none_member_ok (C.none rt) (sup_of rt) (member_u rt E (S n) t).
Proof.
  intros [Hpass Hrej] Heq t Ht. destruct t; try discriminate Ht. intros _. cbn [member_u U.m_run lift C.unm]. split.
  - unfold lift. rewrite Hpass. reflexivity.
  - intros x Hx. destruct (C.pv_eqb x (C.none rt)) eqn:Hxe; [apply Heq in Hxe; contradiction|].
    destruct (Hrej x Hxe) as [e [He Hs]]. exists (emb e). unfold lift. rewrite He. cbn. split; [reflexivity|].
    rewrite sup_of_emb. exact Hs.
Qed.

Lemma lift_res_inj {A} (r1 r2 : C.res A) : lift_res r1 = lift_res r2 -> r1 = r2.
Proof.
  destruct r1 as [a|e| |], r2 as [b|f| |]; cbn; intros H; try discriminate; try reflexivity.
  - inversion H. reflexivity.
  - inversion H as [H1]. apply emb_inj in H1. now subst.
  - inversion H as [H1]. destruct e; discriminate H1.
  - inversion H as [H1]. destruct e; discriminate H1.
  - inversion H as [H1]. destruct f; discriminate H1.
  - inversion H as [H1]. destruct f; discriminate H1.
Qed.

Definition pv_eqb_eq := TL.Proofs.CoreC01.pv_eqb_eq.

Lemma is_none_val_spec rt x : C.is_none_val rt x = true <-> x = C.none rt.
Proof. unfold C.is_none_val. split; [apply pv_eqb_eq | intros ->; apply pv_eqb_refl]. Qed.

Lemma nth_error_map_some {A B} (f : A -> B) l i b :
  nth_error (map f l) i = Some b <-> exists a, nth_error l i = Some a /\ f a = b.
Proof.
  rewrite nth_error_map. destruct (nth_error l i) as [a|]; cbn; split.
  - intros H. inversion H. exists a. split; reflexivity.
  - intros [a' [Ha Hf]]. inversion Ha. subst. reflexivity.
  - discriminate.
  - intros [a' [Ha _]]. discriminate.
Qed.

(* transport of "exists i m ..." over map member *)
Lemma acceptor_transport rt (mk : C.ty -> U.member C.pv) (run : C.ty -> C.pv -> C.res C.pv) ts x y :
  (forall t, U.m_run (mk t) = lift (run t)) ->
  ((exists i m, nth_error (map mk ts) i = Some m /\ U.m_run m x = U.Ok y /\
                L.earlier_members_reject C.pv (sup_of rt) (map mk ts) i x) <->
   (exists i t, nth_error ts i = Some t /\ run t x = C.Ok y /\
                forall j tj, j < i -> nth_error ts j = Some tj -> c_rejects rt (run tj) x)).
Proof.
  intros Hrun. split.
  - intros (i & m & Hn & Hr & He). apply nth_error_map_some in Hn. destruct Hn as (t & Ht & <-).
    exists i, t. split; [exact Ht|]. split.
    + rewrite Hrun in Hr. unfold lift in Hr. apply lift_res_ok in Hr. exact Hr.
    + intros j tj Hj Htj. apply rejects_sup_bridge. rewrite <- Hrun.
      apply (He j (mk tj) Hj). apply map_nth_error. exact Htj.
  - intros (i & t & Ht & Hr & He). exists i, (mk t). split; [apply map_nth_error; exact Ht|]. split.
    + rewrite Hrun. unfold lift. rewrite Hr. reflexivity.
    + intros j mj Hj Hmj. apply nth_error_map_some in Hmj. destruct Hmj as (tj & Htj & <-).
      rewrite Hrun. apply rejects_sup_bridge. exact (He j tj Hj Htj).
Qed.

Lemma members_none_ok rt E n ts :
  CV.NoneLaws rt ->
  forall m, In m (map (member_u rt E (S n)) ts) -> U.none_member_ok (C.none rt) (sup_of rt) m.
Proof.
  intros HL m Hin. apply in_map_iff in Hin. destruct Hin as (t & <- & _).
  intros Hn. exact (none_member_bridge rt E n HL pv_eqb_eq t Hn Hn).
Qed.

Theorem core_union_first_acceptor rt E n ts x y :
  CV.NoneLaws rt ->
  x <> C.none rt \/ C.isoptional ts = false ->
  (C.unm rt E (S (S n)) (C.TUnion ts) x = C.Ok y <->
   exists i t, nth_error ts i = Some t /\ C.unm rt E (S n) t x = C.Ok y /\
               forall j tj, j < i -> nth_error ts j = Some tj -> c_rejects rt (C.unm rt E (S n) tj) x).
Proof.
  intros HL Hx. rewrite <- lift_res_ok, unm_union_bridge.
  rewrite (L.unm_first_acceptor C.pv (C.none rt) (sup_of rt) (map (member_u rt E (S n)) ts) x y
             (members_none_ok rt E n ts HL)).
  - apply (acceptor_transport rt (member_u rt E (S n)) (C.unm rt E (S n))). reflexivity.
  - destruct Hx as [Hx|Hx]; [left; exact Hx | right].
    rewrite (isoptional_bridge rt E (S n) member_u ts) by reflexivity. exact Hx.
Qed.

Theorem core_union_none rt E n ts :
  CV.NoneLaws rt -> C.isoptional ts = true ->
  C.unm rt E (S (S n)) (C.TUnion ts) (C.none rt) = C.Ok (C.none rt).
Proof.
  intros HL Ho. apply lift_res_ok. rewrite unm_union_bridge.
  apply (L.unm_none C.pv (C.none rt) (sup_of rt) _ (members_none_ok rt E n ts HL)).
  rewrite (isoptional_bridge rt E (S n) member_u ts) by reflexivity. exact Ho.
Qed.

Lemma core_first_ok_all_reject rt (rs : list (C.pv -> C.res C.pv)) x :
  Forall (fun r => c_rejects rt r x) rs -> C.first_ok rt rs x = C.Raise C.EValue.
Proof.
  induction 1 as [|r rs [e [He Hs]] _ IH]; [reflexivity|]. cbn [C.first_ok]. rewrite He, Hs. exact IH.
Qed.

Theorem core_union_all_reject rt E n ts x :
  Forall (fun t => c_rejects rt (C.unm rt E n t) x) ts ->
  C.unm rt E (S n) (C.TUnion ts) x = C.Raise C.EValue.
Proof.
  intros HF. cbn [C.unm]. apply core_first_ok_all_reject. apply Forall_map.
  unfold C.union_stack_u. destruct (C.isoptional ts); [|exact HF].
  unfold C.none_first. apply Forall_app. rewrite !Forall_forall in *.
  split; intros t Ht; apply filter_In in Ht; apply HF; tauto.
Qed.

Theorem core_union_mar_none rt E n ts :
  C.isoptional ts = true -> C.mar rt E (S n) (C.TUnion ts) (C.none rt) = C.Ok (C.none rt).
Proof.
  intros Ho. cbn [C.mar]. rewrite Ho. unfold C.is_none_val. rewrite pv_eqb_refl. reflexivity.
Qed.

Theorem core_union_mar_first_acceptor rt E n ts x y :
  C.is_none_val rt x = false \/ C.isoptional ts = false ->
  (C.mar rt E (S n) (C.TUnion ts) x = C.Ok y <->
   exists i t, nth_error ts i = Some t /\ C.mar rt E n t x = C.Ok y /\
               forall j tj, j < i -> nth_error ts j = Some tj -> c_rejects rt (C.mar rt E n tj) x).
Proof.
  intros Hx. rewrite <- lift_res_ok, mar_union_bridge.
  rewrite (L.mar_first_acceptor C.pv (C.none rt) (C.is_none_val rt) (is_none_val_spec rt) (sup_of rt)
             (map (member_m rt E n) ts) x y).
  - apply (acceptor_transport rt (member_m rt E n) (C.mar rt E n)). reflexivity.
  - destruct Hx as [Hx|Hx].
    + left. intros ->. rewrite (proj2 (is_none_val_spec rt (C.none rt)) eq_refl) in Hx. discriminate.
    + right. rewrite (isoptional_bridge rt E n member_m ts) by reflexivity. exact Hx.
Qed.
