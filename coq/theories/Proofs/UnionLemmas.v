(* Proofs about Model/Union.v.  Everything is parametric in the value universe, in the member
   routines (arbitrary functions), in the length of the member list and in the suppressed set. *)
From Coq Require Import List Bool Arith Lia PeanoNat Permutation.
Import ListNotations.
Require Import TL.Model.Union.

Lemma exn_eqb_eq a b : exn_eqb a b = true <-> a = b.
Proof. destruct a, b; cbn; split; intros H; try reflexivity; discriminate. Qed.

Lemma all_exn_complete e : In e all_exn.
Proof. destruct e; cbn; tauto. Qed.

(* a property of every kind can be decided by running over the finite list *)
Lemma forall_exn (P : exn -> bool) : forallb P all_exn = true -> forall e, P e = true.
Proof. intros H e. rewrite forallb_forall in H. apply H. apply all_exn_complete. Qed.

(* "every Exception kind is swallowed", decidable on a table *)
Definition swallows_all (sup : exn -> bool) : bool :=
  forallb (fun e => implb (is_exception e) (sup e)) all_exn.
Lemma swallows_all_spec sup : swallows_all sup = true -> forall e, is_exception e = true -> sup e = true.
Proof. intros H e He. pose proof (forall_exn _ H e) as P. cbn beta in P. rewrite He in P. exact P. Qed.

Section Lemmas.
Variable V : Type.
Variable vnone : V.
Variable is_none : V -> bool.
Hypothesis is_none_spec : forall x, is_none x = true <-> x = vnone.

Notation routine := (routine V).
Notation member := (member V).

(* ------------------------------------------------------------------------------------------ *)
(* first_ok: the try-loop                                                                      *)
(* ------------------------------------------------------------------------------------------ *)

Definition earlier_reject (sup : exn -> bool) (rs : list routine) (i : nat) (x : V) : Prop :=
  forall j rj, j < i -> nth_error rs j = Some rj -> rejects_sup sup rj x.

Lemma earlier_reject_cons sup r rs i x :
  earlier_reject sup (r :: rs) (S i) x <-> rejects_sup sup r x /\ earlier_reject sup rs i x.
Proof. unfold earlier_reject. split.
  - intros H. split.
    + apply (H 0 r); [lia | reflexivity].
    + intros j rj Hj Hn. apply (H (S j) rj); [lia | exact Hn].
  - intros [H0 H] j rj Hj Hn. destruct j as [|j].
    + cbn in Hn. injection Hn as <-. exact H0.
    + cbn in Hn. apply (H j rj); [lia | exact Hn].
Qed.

(* result Ok y  <->  some member i answers y and every earlier member rejected with a swallowed kind *)
Lemma first_ok_ok_iff sup (rs : list routine) x y :
  first_ok sup rs x = Ok y <->
  exists i r, nth_error rs i = Some r /\ r x = Ok y /\ earlier_reject sup rs i x.
Proof. induction rs as [|r rest IH]; cbn [first_ok].
  - split; [discriminate|]. intros (i & r & Hn & _). destruct i; discriminate.
  - destruct (r x) as [a|e] eqn:E.
    + split.
      * intros H. exists 0, r. split; [reflexivity|]. split; [congruence|].
        intros j rj Hj. lia.
      * intros (i & r' & Hn & Hr & He). destruct i as [|i].
        -- cbn in Hn. injection Hn as <-. congruence.
        -- apply earlier_reject_cons in He. destruct He as [(e' & He' & _) _]. congruence.
    + destruct (sup e) eqn:Hsup.
      * rewrite IH. split.
        -- intros (i & r' & Hn & Hr & He). exists (S i), r'. split; [exact Hn|]. split; [exact Hr|].
           apply earlier_reject_cons. split; [exists e; split; assumption | exact He].
        -- intros (i & r' & Hn & Hr & He). destruct i as [|i].
           ++ cbn in Hn. injection Hn as <-. congruence.
           ++ apply earlier_reject_cons in He. destruct He as [_ He].
              exists i, r'. split; [exact Hn|]. split; assumption.
      * split; [discriminate|]. intros (i & r' & Hn & Hr & He). destruct i as [|i].
        -- cbn in Hn. injection Hn as <-. congruence.
        -- apply earlier_reject_cons in He. destruct He as [(e' & He' & Hsup') _].
           rewrite E in He'. injection He' as <-. congruence.
Qed.

(* result Raise e  <->  every member rejected with a swallowed kind (then e is ValueError), or some
   member raised e, e is not swallowed, and every earlier member rejected with a swallowed kind *)
Lemma first_ok_raise_iff sup (rs : list routine) x e :
  first_ok sup rs x = Raise e <->
  (e = EValue /\ Forall (fun r => rejects_sup sup r x) rs) \/
  (exists i r, nth_error rs i = Some r /\ r x = Raise e /\ sup e = false /\ earlier_reject sup rs i x).
Proof. induction rs as [|r rest IH]; cbn [first_ok].
  - split.
    + intros H. left. split; [congruence | constructor].
    + intros [[-> _] | (i & r & Hn & _)]; [reflexivity | destruct i; discriminate].
  - destruct (r x) as [a|e0] eqn:E.
    + split; [discriminate|]. intros [[_ HF] | (i & r' & Hn & Hr & Hs & He)].
      * inversion HF as [|? ? (e' & He' & _) _]. congruence.
      * destruct i as [|i].
        -- cbn in Hn. injection Hn as <-. congruence.
        -- apply earlier_reject_cons in He. destruct He as [(e' & He' & _) _]. congruence.
    + destruct (sup e0) eqn:Hsup.
      * rewrite IH. split.
        -- intros [[-> HF] | (i & r' & Hn & Hr & Hs & He)].
           ++ left. split; [reflexivity|]. constructor; [exists e0; split; assumption | exact HF].
           ++ right. exists (S i), r'. split; [exact Hn|]. split; [exact Hr|]. split; [exact Hs|].
              apply earlier_reject_cons. split; [exists e0; split; assumption | exact He].
        -- intros [[-> HF] | (i & r' & Hn & Hr & Hs & He)].
           ++ left. split; [reflexivity|]. inversion HF; assumption.
           ++ destruct i as [|i].
              ** cbn in Hn. injection Hn as <-. rewrite E in Hr. injection Hr as <-. congruence.
              ** right. apply earlier_reject_cons in He. destruct He as [_ He].
                 exists i, r'. repeat split; assumption.
      * split.
        -- intros H. injection H as <-. right. exists 0, r. split; [reflexivity|].
           split; [exact E|]. split; [exact Hsup|]. intros j rj Hj. lia.
        -- intros [[-> HF] | (i & r' & Hn & Hr & Hs & He)].
           ++ inversion HF as [|? ? (e' & He' & Hsup') _]. rewrite E in He'. injection He' as <-. congruence.
           ++ destruct i as [|i].
              ** cbn in Hn. injection Hn as <-. congruence.
              ** apply earlier_reject_cons in He. destruct He as [(e' & He' & Hsup') _].
                 rewrite E in He'. injection He' as <-. congruence.
Qed.

(* every member rejects (with whatever Exception kind), all Exception kinds are swallowed => ValueError *)
Lemma first_ok_all_reject sup (rs : list routine) x :
  (forall e, is_exception e = true -> sup e = true) ->
  Forall (fun r => rejects r x) rs -> first_ok sup rs x = Raise EValue.
Proof. intros Hs HF. apply first_ok_raise_iff. left. split; [reflexivity|].
  eapply Forall_impl; [|exact HF]. intros r (e & He & Hx). exists e. split; [exact He | apply Hs; exact Hx].
Qed.

(* ValueError comes out ONLY when every member rejected (needs: ValueError itself is swallowed, so a
   member's own ValueError cannot be what escapes) *)
Lemma first_ok_value_only_if sup (rs : list routine) x :
  sup EValue = true ->
  first_ok sup rs x = Raise EValue -> Forall (fun r => rejects_sup sup r x) rs.
Proof. intros Hv H. apply first_ok_raise_iff in H. destruct H as [[_ HF] | (i & r & _ & _ & Hs & _)];
  [exact HF | congruence]. Qed.

(* nothing but ValueError can come out if only BaseException-kinds are not swallowed and no member
   raises one of those *)
Lemma first_ok_raise_kind sup (rs : list routine) x e :
  (forall e, is_exception e = true -> sup e = true) ->
  first_ok sup rs x = Raise e -> e = EValue \/ is_exception e = false.
Proof. intros Hs H. apply first_ok_raise_iff in H. destruct H as [[-> _] | (i & r & _ & _ & Hf & _)].
  - left; reflexivity.
  - right. destruct (is_exception e) eqn:X; [|reflexivity]. rewrite (Hs e X) in Hf. discriminate.
Qed.

(* a member that rejects x with a swallowed kind can be deleted / inserted anywhere *)
Lemma first_ok_app sup (a b : list routine) x :
  Forall (fun r => rejects_sup sup r x) a -> first_ok sup (a ++ b) x = first_ok sup b x.
Proof. induction 1 as [|r a (e & He & Hsup) _ IH]; [reflexivity|].
  cbn [app first_ok]. rewrite He, Hsup. exact IH. Qed.

Lemma first_ok_insert sup (a b : list routine) r x :
  rejects_sup sup r x -> first_ok sup (a ++ r :: b) x = first_ok sup (a ++ b) x.
Proof. intros (e & He & Hsup). induction a as [|q a IH]; cbn [app first_ok].
  - rewrite He, Hsup. reflexivity.
  - destruct (q x) as [y|e']; [reflexivity|]. destruct (sup e'); [exact IH | reflexivity]. Qed.

(* deleting all members that satisfy a predicate p, when every such member rejects x *)
Lemma first_ok_filter_out sup (p : member -> bool) (ms : list member) x :
  (forall m, In m ms -> p m = true -> rejects_sup sup (m_run m) x) ->
  first_ok sup (map m_run (filter (fun m => negb (p m)) ms)) x = first_ok sup (map m_run ms) x.
Proof. induction ms as [|m ms IH]; intros H; [reflexivity|]. cbn [filter map].
  assert (IH' : first_ok sup (map m_run (filter (fun m => negb (p m)) ms)) x = first_ok sup (map m_run ms) x).
  { apply IH. intros m' Hin. apply H. right; exact Hin. }
  destruct (p m) eqn:P; cbn [negb].
  - destruct (H m (or_introl eq_refl) P) as (e & He & Hsup). cbn [first_ok]. rewrite He, Hsup. exact IH'.
  - cbn [map first_ok]. rewrite IH'. reflexivity.
Qed.

(* ------------------------------------------------------------------------------------------ *)
(* the constructor: stack_u                                                                    *)
(* ------------------------------------------------------------------------------------------ *)

Lemma isoptional_iff (ms : list member) : isoptional ms = true <-> exists m, In m ms /\ m_none m = true.
Proof. unfold isoptional. apply existsb_exists. Qed.

Lemma filter_none_nil (ms : list member) : isoptional ms = false -> filter m_none ms = [].
Proof. unfold isoptional. induction ms as [|m ms IH]; [reflexivity|]. cbn [existsb filter].
  destruct (m_none m); cbn; [discriminate | exact IH]. Qed.

Lemma filter_notnone_all (ms : list member) : isoptional ms = false -> filter not_none ms = ms.
Proof. unfold isoptional, not_none. induction ms as [|m ms IH]; [reflexivity|]. cbn [existsb filter].
  destruct (m_none m); cbn; [discriminate|]. intros H. rewrite (IH H). reflexivity. Qed.

(* whatever isoptionaltype says, the stack is: None members, then the others, each group in declared order *)
Lemma stack_u_partition (ms : list member) : stack_u ms = filter m_none ms ++ filter not_none ms.
Proof. unfold stack_u. destruct (isoptional ms) eqn:O; [reflexivity|].
  rewrite (filter_none_nil ms O), (filter_notnone_all ms O). reflexivity. Qed.

Lemma partition_perm (ms : list member) : Permutation (filter m_none ms ++ filter not_none ms) ms.
Proof. induction ms as [|m ms IH]; [constructor|]. unfold not_none in *. cbn [filter].
  destruct (m_none m); cbn [negb app].
  - constructor. exact IH.
  - eapply Permutation_trans; [apply Permutation_sym, Permutation_middle|]. constructor. exact IH.
Qed.

Lemma stack_u_perm (ms : list member) : Permutation (stack_u ms) ms.
Proof. rewrite stack_u_partition. apply partition_perm. Qed.

Lemma filter_filter_same (p : member -> bool) (l : list member) : filter p (filter p l) = filter p l.
Proof. induction l as [|m l IH]; [reflexivity|]. cbn [filter]. destruct (p m) eqn:P; [|exact IH].
  cbn [filter]. rewrite P, IH. reflexivity. Qed.

Lemma filter_filter_disj (p q : member -> bool) (l : list member) :
  (forall m, p m = true -> q m = false) -> filter q (filter p l) = [].
Proof. intros D. induction l as [|m l IH]; [reflexivity|]. cbn [filter]. destruct (p m) eqn:P; [|exact IH].
  cbn [filter]. rewrite (D m P). exact IH. Qed.

(* the members that are not None keep their declared order *)
Lemma stack_u_others_in_order (ms : list member) : filter not_none (stack_u ms) = filter not_none ms.
Proof. rewrite stack_u_partition, filter_app, filter_filter_same.
  rewrite (filter_filter_disj m_none not_none); [reflexivity|].
  intros m H. unfold not_none. rewrite H. reflexivity. Qed.

Lemma stack_u_nones_in_order (ms : list member) : filter m_none (stack_u ms) = filter m_none ms.
Proof. rewrite stack_u_partition, filter_app, filter_filter_same.
  rewrite (filter_filter_disj not_none m_none); [apply app_nil_r|].
  intros m H. unfold not_none in H. destruct (m_none m); [discriminate | reflexivity]. Qed.

(* every None member precedes every other member *)
Lemma stack_u_none_first (ms : list member) :
  exists k, Forall (fun m => m_none m = true) (firstn k (stack_u ms)) /\
            Forall (fun m => m_none m = false) (skipn k (stack_u ms)).
Proof. rewrite stack_u_partition. exists (length (filter m_none ms)).
  rewrite firstn_app, skipn_app, Nat.sub_diag, firstn_all, skipn_all. cbn [firstn skipn]. rewrite app_nil_r.
  split; apply Forall_forall; intros m Hin; apply filter_In in Hin; destruct Hin as [_ H].
  - exact H.
  - unfold not_none in H. destruct (m_none m); [discriminate | reflexivity]. Qed.

(* ------------------------------------------------------------------------------------------ *)
(* UnionUnmarshaller                                                                           *)
(* ------------------------------------------------------------------------------------------ *)

(* None member anywhere, input None => None *)
Lemma unm_none sup (ms : list member) :
  (forall m, In m ms -> none_member_ok vnone sup m) ->
  isoptional ms = true -> unm_union sup ms vnone = Ok vnone.
Proof. intros Hok O. unfold unm_union. rewrite stack_u_partition.
  apply isoptional_iff in O. destruct O as (m & Hin & Hn).
  assert (F : In m (filter m_none ms)) by (apply filter_In; split; assumption).
  destruct (filter m_none ms) as [|m0 rest] eqn:E; [destruct F|].
  assert (H0 : In m0 ms /\ m_none m0 = true).
  { apply filter_In. rewrite E. left. reflexivity. }
  destruct H0 as [Hin0 Hn0]. destruct (Hok m0 Hin0 Hn0) as [Hacc _].
  cbn [app map first_ok]. rewrite Hacc. reflexivity. Qed.

(* input other than None: the None member (which rejects it) may sit anywhere - the result is that of
   the loop over the members in declared order, with or without the None member *)
Lemma unm_other sup (ms : list member) x :
  (forall m, In m ms -> none_member_ok vnone sup m) -> x <> vnone ->
  unm_union sup ms x = first_ok sup (map m_run ms) x /\
  unm_union sup ms x = first_ok sup (map m_run (filter not_none ms)) x.
Proof. intros Hok Hx.
  assert (A : unm_union sup ms x = first_ok sup (map m_run (filter not_none ms)) x).
  { unfold unm_union. rewrite stack_u_partition, map_app. apply first_ok_app.
    apply Forall_forall. intros r Hr. apply in_map_iff in Hr. destruct Hr as (m & <- & Hm).
    apply filter_In in Hm. destruct Hm as [Hin Hn]. apply (Hok m Hin Hn). exact Hx. }
  split; [|exact A]. rewrite A. unfold not_none. apply (first_ok_filter_out sup m_none).
  intros m Hin Hn. apply (Hok m Hin Hn). exact Hx. Qed.

(* no None member: plain declared order *)
Lemma unm_not_optional sup (ms : list member) x :
  isoptional ms = false -> unm_union sup ms x = first_ok sup (map m_run ms) x.
Proof. intros O. unfold unm_union, stack_u. rewrite O. reflexivity. Qed.

(* ------------------------------------------------------------------------------------------ *)
(* UnionMarshaller                                                                             *)
(* ------------------------------------------------------------------------------------------ *)

Lemma mar_none sup (ms : list member) :
  isoptional ms = true -> mar_union is_none sup ms vnone = Ok vnone.
Proof. intros O. unfold mar_union. rewrite O. cbn [andb].
  destruct (is_none vnone) eqn:N; [reflexivity|].
  assert (is_none vnone = true) by (apply is_none_spec; reflexivity). congruence. Qed.

Lemma mar_other sup (ms : list member) x :
  x <> vnone \/ isoptional ms = false -> mar_union is_none sup ms x = first_ok sup (map m_run ms) x.
Proof. intros H. unfold mar_union. destruct (isoptional ms) eqn:O; cbn [andb]; [|reflexivity].
  destruct (is_none x) eqn:N; [|reflexivity]. apply is_none_spec in N.
  destruct H as [H|H]; [contradiction | discriminate]. Qed.

(* ------------------------------------------------------------------------------------------ *)
(* NoneTypeUnmarshaller satisfies none_member_ok                                               *)
(* ------------------------------------------------------------------------------------------ *)

(* serdes.decode: identity except on bytes-like input, which it turns into text or rejects with
   UnicodeDecodeError; in particular None stays None and nothing else becomes None *)
Definition decode_ok (sup : exn -> bool) (decode : V -> res V) : Prop :=
  decode vnone = Ok vnone /\
  forall x, x <> vnone -> (exists d, decode x = Ok d /\ d <> vnone) \/ (exists e, decode x = Raise e /\ sup e = true).

Lemma none_unm_ok sup decode :
  sup EValue = true -> decode_ok sup decode ->
  none_member_ok vnone sup {| m_none := true; m_run := none_unm vnone is_none decode |}.
Proof. intros Hv [D0 D1] _. cbn [m_run]. unfold none_unm. split.
  - rewrite D0. assert (N : is_none vnone = true) by (apply is_none_spec; reflexivity). rewrite N. reflexivity.
  - intros x Hx. unfold rejects_sup. destruct (D1 x Hx) as [(d & Hd & Hn) | (e & He & Hsup)].
    + rewrite Hd. destruct (is_none d) eqn:N; [apply is_none_spec in N; contradiction|].
      exists EValue. split; [reflexivity | exact Hv].
    + rewrite He. exists e. split; [reflexivity | exact Hsup]. Qed.

(* ------------------------------------------------------------------------------------------ *)
(* statements at the level of declared members                                                 *)
(* ------------------------------------------------------------------------------------------ *)

Definition earlier_members_reject (sup : exn -> bool) (ms : list member) (i : nat) (x : V) : Prop :=
  forall j mj, j < i -> nth_error ms j = Some mj -> rejects_sup sup (m_run mj) x.

Lemma earlier_members_iff sup (ms : list member) i x :
  earlier_reject sup (map m_run ms) i x <-> earlier_members_reject sup ms i x.
Proof. unfold earlier_reject, earlier_members_reject. split.
  - intros H j mj Hj Hn. apply (H j (m_run mj) Hj). apply map_nth_error. exact Hn.
  - intros H j rj Hj Hn. rewrite nth_error_map in Hn. destruct (nth_error ms j) as [mj|] eqn:E; [|discriminate].
    cbn in Hn. injection Hn as <-. apply (H j mj Hj E). Qed.

Lemma first_ok_members_ok_iff sup (ms : list member) x y :
  first_ok sup (map m_run ms) x = Ok y <->
  exists i m, nth_error ms i = Some m /\ m_run m x = Ok y /\ earlier_members_reject sup ms i x.
Proof. rewrite first_ok_ok_iff. split.
  - intros (i & r & Hn & Hr & He). rewrite nth_error_map in Hn.
    destruct (nth_error ms i) as [m|] eqn:E; [|discriminate]. cbn in Hn. injection Hn as <-.
    exists i, m. split; [exact E|]. split; [exact Hr|]. apply earlier_members_iff. exact He.
  - intros (i & m & Hn & Hr & He). exists i, (m_run m). split; [apply map_nth_error; exact Hn|].
    split; [exact Hr|]. apply earlier_members_iff. exact He. Qed.

Lemma Forall_members_map (P : routine -> Prop) (ms : list member) :
  Forall P (map m_run ms) <-> Forall (fun m => P (m_run m)) ms.
Proof. apply Forall_map. Qed.

(* the union answers y  <->  the first member IN DECLARED ORDER that does not reject answers y
   (for every input except None-with-a-None-member, which unm_none covers) *)
Lemma unm_first_acceptor sup (ms : list member) x y :
  (forall m, In m ms -> none_member_ok vnone sup m) ->
  x <> vnone \/ isoptional ms = false ->
  (unm_union sup ms x = Ok y <->
   exists i m, nth_error ms i = Some m /\ m_run m x = Ok y /\ earlier_members_reject sup ms i x).
Proof. intros Hok Hx. rewrite <- first_ok_members_ok_iff.
  destruct Hx as [Hx|Hx].
  - destruct (unm_other sup ms x Hok Hx) as [-> _]. reflexivity.
  - rewrite (unm_not_optional sup ms x Hx). reflexivity. Qed.

Lemma unm_all_reject sup (ms : list member) x :
  (forall e, is_exception e = true -> sup e = true) ->
  Forall (fun m => rejects (m_run m) x) ms -> unm_union sup ms x = Raise EValue.
Proof. intros Hs HF. unfold unm_union. apply first_ok_all_reject; [exact Hs|].
  apply Forall_members_map. eapply Permutation_Forall; [apply Permutation_sym, stack_u_perm | exact HF]. Qed.

Lemma unm_value_only_if sup (ms : list member) x :
  sup EValue = true -> unm_union sup ms x = Raise EValue ->
  Forall (fun m => rejects_sup sup (m_run m) x) ms.
Proof. intros Hv H. unfold unm_union in H. apply (first_ok_value_only_if sup _ x Hv) in H.
  apply Forall_members_map in H. eapply Permutation_Forall; [apply stack_u_perm | exact H]. Qed.

Lemma mar_first_acceptor sup (ms : list member) x y :
  x <> vnone \/ isoptional ms = false ->
  (mar_union is_none sup ms x = Ok y <->
   exists i m, nth_error ms i = Some m /\ m_run m x = Ok y /\ earlier_members_reject sup ms i x).
Proof. intros Hx. rewrite (mar_other sup ms x Hx). apply first_ok_members_ok_iff. Qed.

Lemma mar_all_reject sup (ms : list member) x :
  (forall e, is_exception e = true -> sup e = true) ->
  x <> vnone \/ isoptional ms = false ->
  Forall (fun m => rejects (m_run m) x) ms -> mar_union is_none sup ms x = Raise EValue.
Proof. intros Hs Hx HF. rewrite (mar_other sup ms x Hx). apply first_ok_all_reject; [exact Hs|].
  apply Forall_members_map. exact HF. Qed.

Lemma mar_value_only_if sup (ms : list member) x :
  sup EValue = true -> mar_union is_none sup ms x = Raise EValue ->
  Forall (fun m => rejects_sup sup (m_run m) x) ms.
Proof. intros Hv H. unfold mar_union in H. destruct (isoptional ms && is_none x); [discriminate|].
  apply (first_ok_value_only_if sup _ x Hv) in H. apply Forall_members_map in H. exact H. Qed.

Lemma mar_raise_kind sup (ms : list member) x e :
  (forall e, is_exception e = true -> sup e = true) ->
  mar_union is_none sup ms x = Raise e -> e = EValue \/ is_exception e = false.
Proof. intros Hs H. unfold mar_union in H. destruct (isoptional ms && is_none x); [discriminate|].
  exact (first_ok_raise_kind sup _ x e Hs H). Qed.

Lemma unm_raise_kind sup (ms : list member) x e :
  (forall e, is_exception e = true -> sup e = true) ->
  unm_union sup ms x = Raise e -> e = EValue \/ is_exception e = false.
Proof. intros Hs H. exact (first_ok_raise_kind sup _ x e Hs H). Qed.

(* C08_order in one statement *)
Lemma stack_u_order (ms : list member) :
  Permutation (stack_u ms) ms /\
  filter not_none (stack_u ms) = filter not_none ms /\
  filter m_none (stack_u ms) = filter m_none ms /\
  exists k, Forall (fun m => m_none m = true) (firstn k (stack_u ms)) /\
            Forall (fun m => m_none m = false) (skipn k (stack_u ms)).
Proof. split; [apply stack_u_perm|]. split; [apply stack_u_others_in_order|].
  split; [apply stack_u_nones_in_order | apply stack_u_none_first]. Qed.

(* ---- the same facts, from the one table condition `swallows_all sup = true` ---- *)
Lemma rejects_is_swallowed sup (r : routine) x :
  swallows_all sup = true -> rejects r x -> rejects_sup sup r x.
Proof. intros Hs (e & He & Hx). exists e. split; [exact He | exact (swallows_all_spec sup Hs e Hx)]. Qed.

Lemma unm_raise_spec sup (ms : list member) x e :
  swallows_all sup = true -> unm_union sup ms x = Raise e ->
  (e = EValue \/ is_exception e = false) /\
  (e = EValue -> Forall (fun m => rejects_sup sup (m_run m) x) ms).
Proof. intros Hs H. split.
  - exact (unm_raise_kind sup ms x e (swallows_all_spec sup Hs) H).
  - intros ->. exact (unm_value_only_if sup ms x (swallows_all_spec sup Hs EValue eq_refl) H). Qed.

Lemma mar_raise_spec sup (ms : list member) x e :
  swallows_all sup = true -> mar_union is_none sup ms x = Raise e ->
  (e = EValue \/ is_exception e = false) /\
  (e = EValue -> Forall (fun m => rejects_sup sup (m_run m) x) ms).
Proof. intros Hs H. split.
  - exact (mar_raise_kind sup ms x e (swallows_all_spec sup Hs) H).
  - intros ->. exact (mar_value_only_if sup ms x (swallows_all_spec sup Hs EValue eq_refl) H). Qed.

Lemma mar_spec sup (ms : list member) x y :
  x <> vnone \/ isoptional ms = false ->
  mar_union is_none sup ms x = first_ok sup (map m_run ms) x /\
  (mar_union is_none sup ms x = Ok y <->
   exists i m, nth_error ms i = Some m /\ m_run m x = Ok y /\ earlier_members_reject sup ms i x).
Proof. intros Hx. exact (conj (mar_other sup ms x Hx) (mar_first_acceptor sup ms x y Hx)). Qed.

End Lemmas.

(* ------------------------------------------------------------------------------------------ *)
(* The pinned tree's rotation violates the None rule (kept as a record of the repaired defect) *)
(* ------------------------------------------------------------------------------------------ *)
Definition demo_none : member nat := {| m_none := true; m_run := fun x => if Nat.eqb x 0 then Ok 0 else Raise EValue |}.
Definition demo_int : member nat := {| m_none := false; m_run := fun x => if Nat.eqb x 0 then Raise EType else Ok x |}.
Definition demo_str : member nat := {| m_none := false; m_run := fun x => Ok (x + 100) |}.

Lemma pinned_rotation_breaks_none :
  exists (sup : exn -> bool) (ms : list (member nat)),
    (forall m, In m ms -> none_member_ok 0 sup m) /\ isoptional ms = true /\
    unm_union_pinned sup ms 0 <> Ok 0 /\ unm_union sup ms 0 = Ok 0.
Proof. exists (fun _ => true), [demo_none; demo_int; demo_str]. split; [|split; [reflexivity|split]].
  - intros m [<-|[<-|[<-|[]]]]; intros Hn; try discriminate. split; [reflexivity|].
    intros x Hx. exists EValue. cbn. destruct x; [contradiction|]. split; reflexivity.
  - vm_compute. discriminate.
  - vm_compute. reflexivity. Qed.
