(* Proofs/ScalarsToyLemmas.v -- [RuntimeLaws toy_rt]: the hypotheses of the C04 theorems are satisfiable. *)
From Coq Require Import List ZArith NArith Ascii String Bool Lia ZifyBool.
Import ListNotations.
Require Import TL.Model.Duration.
Require Import TL.Model.Temporal.
Require Import TL.Model.Scalars.
Require Import TL.Model.IsoText.
Require Import TL.Model.ScalarsToy.
Require Import TL.Proofs.DurationLemmas.
Require Import TL.Proofs.ScalarsLemmas.
Require Import TL.Proofs.IsoTextLemmas.
Open Scope Z_scope.
Ltac Zify.zify_post_hook ::= Z.div_mod_to_equations.

Lemma digit_not_minus c : is_digit c = true -> Ascii.eqb c "-" = false.
Proof. intros H. destruct (Ascii.eqb c "-") eqn:E; [|reflexivity]. apply Ascii.eqb_eq in E. subst c. discriminate. Qed.

Lemma toy_int_text z : toy_int_of_str (string_of_list_ascii (show_Z z)) = Ok z.
Proof.
  unfold toy_int_of_str. rewrite list_ascii_of_string_of_list_ascii. unfold show_Z, toy_int_of_chars.
  destruct (z <? 0) eqn:E.
  - rewrite Ascii.eqb_refl, read_show_N_end. f_equal. lia.
  - pose proof (show_N_digits (Z.to_N z)) as Hd. pose proof (show_N_nonnil (Z.to_N z)) as Hn.
    pose proof (read_show_N_end (Z.to_N z)) as Hr.
    destruct (show_N (Z.to_N z)) as [|c r] eqn:Es; [contradiction|].
    inversion Hd as [|? ? Hc _]; subst. rewrite (digit_not_minus c Hc), Hr. f_equal. lia.
Qed.

Lemma toy_text c s : text toy_rt c s = VText c s.
Proof. destruct c; reflexivity. Qed.

Lemma read_date_prefix_P r : read_date_prefix ("P"%char :: r) = None.
Proof. destruct r; reflexivity. Qed.

Lemma toy_parse_date y m d : valid_date y m d = true ->
  toy_parse (iso_date (y, m, d)) = Ok (PDT (midnight_utc y m d)).
Proof.
  intros Hv. unfold toy_parse, iso_date. rewrite list_ascii_of_string_of_list_ascii. unfold toy_parse_chars.
  rewrite <- (app_nil_r (iso_date_chars y m d)), (read_date_prefix_emit y m d [] Hv). reflexivity.
Qed.

Lemma toy_parse_datetime d : valid_dt_text d = true -> toy_parse (iso_datetime d) = Ok (PDT (dt_fold0 d)).
Proof.
  unfold valid_dt_text. intros Hv. apply andb_true_iff in Hv as [Hv Ho]. apply andb_true_iff in Hv as [Hd Hc].
  unfold toy_parse, iso_datetime. rewrite list_ascii_of_string_of_list_ascii. unfold toy_parse_chars, iso_datetime_chars.
  rewrite (read_date_prefix_emit _ _ _ _ Hd), Ascii.eqb_refl, (read_clock_emit _ _ _ _ _ _ Hc Ho). reflexivity.
Qed.

Lemma toy_time_iso t : valid_tm_text t = true -> toy_time_fromiso (iso_time t) = Ok (tm_fold0 t).
Proof. intros Hv. unfold toy_time_fromiso. rewrite (time_reader t Hv). reflexivity. Qed.

Lemma starts_neg_digit z r : starts_neg (string_of_list_ascii (digitZ z :: r)) = false.
Proof. cbn [string_of_list_ascii starts_neg]. rewrite (digit_not_minus _ (is_digit_digitZ z)). reflexivity. Qed.

Lemma toy_canon_unsigned v : is_temporal v = true -> starts_neg (toy_canon v) = false.
Proof.
  destruct v; try discriminate; intros _; cbn [toy_canon].
  - unfold iso_date, iso_date_chars, pad4. cbn [List.app]. apply starts_neg_digit.
  - unfold iso_datetime, iso_datetime_chars, iso_date_chars, pad4. cbn [List.app]. apply starts_neg_digit.
  - unfold iso_time, iso_time_chars, iso_clock_chars, pad2. cbn [List.app]. apply starts_neg_digit.
  - reflexivity.
Qed.

Lemma toy_parse_duration td : td_in_range td = true -> 0 <= td_total td ->
  toy_parse (iso_duration td) = Ok (PDur (fst (fst td)) (snd (fst td)) (snd td)).
Proof.
  intros Hr Hnn.
  assert (Hn : td_norm td = true).
  { destruct td as [[d s] us]. unfold td_in_range in Hr.
    apply andb_true_iff in Hr as [Hr _]. apply andb_true_iff in Hr as [Hr _]. exact Hr. }
  destruct (td_nonzero td) eqn:Ez.
  - destruct (iso_duration_nonneg_head td Hnn) as (r & Hhead).
    unfold toy_parse, iso_duration. rewrite list_ascii_of_string_of_list_ascii. unfold toy_parse_chars.
    rewrite Hhead, read_date_prefix_P, <- Hhead, (dur_reader_chars td Hn Ez).
    destruct td as [[d s] us]. reflexivity.
  - destruct td as [[d s] us]. unfold td_nonzero in Ez. unfold td_norm in Hn.
    assert (d = 0 /\ s = 0 /\ us = 0) as (-> & -> & ->) by lia. reflexivity.
Qed.

Theorem toy_laws : RuntimeLaws toy_rt.
Proof.
  constructor.
  - reflexivity.
  - intros z. exact (toy_int_text z).
  - reflexivity.
  - reflexivity.
  - reflexivity.
  - reflexivity.
  - reflexivity.
  - intros u c Hc. rewrite toy_text. reflexivity.
  - intros y m d Hv. exact (toy_parse_date y m d Hv).
  - intros d Hv. exists (dt_fold0 d). split; [|apply same_dt_fold0].
    exact (toy_parse_datetime d (valid_dt_is_text d Hv)).
  - intros t Hv. exists (tm_fold0 t). split; [|apply same_tm_fold0].
    exact (toy_time_iso t (valid_tm_is_text t Hv)).
  - exact toy_canon_unsigned.
  - exact toy_parse_duration.
  - reflexivity.
Qed.

(* enum members of the toy are looked up by the text of their value *)
Lemma toy_enum_member_ok m : enum_member_ok toy_rt m.
Proof. left. reflexivity. Qed.
