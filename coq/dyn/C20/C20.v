(* Property C20 -- annotation rewriting for older interpreters preserves meaning.
   Compiled on every run against the table regenerated from the live module (TLRun.GenFutureGenerics:
   generics = future._GENERICS, union_name = default of transform's union= argument, origins = what the
   interpreter says the typing spellings in the table are aliases of).
   This file contains only the property theorems. *)
From Coq Require Import List String Bool.
Import ListNotations.
Require Import TL.Model.Future TL.Proofs.FutureLemmas TLRun.GenFutureGenerics.
Local Open Scope string_scope.

Notation T := (transform generics union_name).
Notation NF := (nf generics union_name).

(* ---- obligations on the reflected table ---- *)

(* values and the union name are dotted identifier paths; no value (nor its first component) is a key *)
Theorem C20_table_wf : table_wf generics union_name = true.
Proof. vm_compute. reflexivity. Qed.

(* the documented mapping is in the table: dict/list/set/tuple/Pattern go to typing.Dict/List/Set/Tuple/Pattern,
   and the union is spelled typing.Union *)
Theorem C20_table_documented :
  Forall (fun kv => T (Name (fst kv)) = Name (snd kv)) documented /\ union_name = documented_union.
Proof. vm_compute. repeat constructor. Qed.

(* every entry of the table (documented or not) maps a name to the typing alias of the class of that name *)
Theorem C20_table_sound : table_sound generics origins = true.
Proof. vm_compute. reflexivity. Qed.

(* ---- the property ---- *)

(* The full statement, for every parsed expression.  It is false of the code (see the _refuted_ theorems):
   visit_BinOp returns arithmetic nodes without visiting their operands and flattens arithmetic nodes on the
   left spine of a `|`.  Arithmetic is outside the annotation grammar of the quantifier. *)
Definition C20_full : Prop := forall e, parsed e = true ->
  NF (T e) = NF e /\ bitor_free_outside_consts (T e) = true.

(* For every expression without arithmetic operators (names, dotted names, subscripts, tuples, lists,
   constants, |-chains of any shape, and also calls, lambdas, displays ...), at any depth:
   the rewritten tree has the same structural meaning: same origins and arguments recursively, `|` and
   typing.Union[...] the same (flattened) union, table names the same as their typing spelling. *)
Theorem C20_meaning : forall e, arith_free e = true -> NF (T e) = NF e.
Proof. intros e H. exact (meaning generics union_name C20_table_wf e H). Qed.

(* ... and contains no `|` operator outside constants (strings, Literal["a|b"] are constants) *)
Theorem C20_no_pep604 : forall e, arith_free e = true -> bitor_free_outside_consts (T e) = true.
Proof. intros e H. exact (no_pep604 generics union_name e H). Qed.

(* For EVERY expression the parser can produce (arithmetic included): printing the result and transforming
   it again changes nothing. *)
Theorem C20_fixpoint : forall e, parsed e = true -> T (reparse (T e)) = reparse (T e).
Proof. intros e H. exact (fixpoint generics union_name C20_table_wf e H). Qed.

(* For EVERY expression: without a `|` and without a name of the table, the tree is returned unchanged. *)
Theorem C20_identity : forall e, has_constructs generics e = false -> T e = e.
Proof. intros e H. exact (identity generics union_name e H). Qed.

(* For EVERY expression the parser can produce: the result is a tree that unparse prints as valid source
   (every Name is a dotted identifier path) and that reads back as a tree of the parser's image. *)
Theorem C20_total : forall e, parsed e = true ->
  printable (T e) = true /\ parsed (reparse (T e)) = true.
Proof. intros e H. exact (total generics union_name C20_table_wf e H). Qed.

(* The same for any other value of the union= argument that is a dotted identifier path and not a table key
   (refs.evaluate uses the default; the argument is public). *)
Theorem C20_any_union_name : forall u, table_wf generics u = true -> forall e,
  (arith_free e = true -> nf generics u (transform generics u e) = nf generics u e /\
                          bitor_free_outside_consts (transform generics u e) = true) /\
  (parsed e = true -> transform generics u (reparse (transform generics u e)) = reparse (transform generics u e)).
Proof. intros u W e. split; [intros H; split; [exact (meaning generics u W e H)|exact (no_pep604 generics u e H)]|].
  intros H. exact (fixpoint generics u W e H). Qed.

(* ---- regions excluded by the guard: the faithful model refutes the full statement there ---- *)

(* (a | b) + c : the `|` under an arithmetic operator is not rewritten *)
Theorem C20_refuted_arith_operand : exists e, parsed e = true /\ bitor_free_outside_consts (T e) = false.
Proof. exists (BinOp Add (BinOp BitOr (Name "a") (Name "b")) (Name "c")). vm_compute. split; reflexivity. Qed.

(* a + b | c : an arithmetic node on the left spine is flattened into the union: Union[a, b, c] *)
Theorem C20_refuted_left_spine : exists e, parsed e = true /\ NF (T e) <> NF e.
Proof. exists (BinOp BitOr (BinOp Add (Name "a") (Name "b")) (Name "c")). split; [reflexivity|].
  vm_compute. discriminate. Qed.

Theorem C20_full_is_false : ~ C20_full.
Proof. intros F. destruct C20_refuted_left_spine as [e [P N]]. exact (N (proj1 (F e P))). Qed.

(* ---- non-vacuity: the hypotheses have non-trivial inhabitants, and the conclusions say something ---- *)

(* list[dict[str, int | None] | None] | (A | "B")   (right-nested chain, string reference) *)
Definition ex_ann : expr :=
  BinOp BitOr
    (Subscript (Name "list")
       (BinOp BitOr (Subscript (Name "dict") (Tuple [Name "str"; BinOp BitOr (Name "int") (Constant CNone)]))
                    (Constant CNone)))
    (BinOp BitOr (Name "A") (Constant (CStr "'B | C'"))).
Example C20_hyps_satisfiable :
  arith_free ex_ann = true /\ parsed ex_ann = true /\ has_constructs generics ex_ann = true /\
  T ex_ann <> ex_ann /\
  reparse (T ex_ann) =
    Subscript (Attribute (Name "typing") "Union")
      (Tuple [Subscript (Attribute (Name "typing") "List")
                (Subscript (Attribute (Name "typing") "Union")
                   (Tuple [Subscript (Attribute (Name "typing") "Dict")
                             (Tuple [Name "str"; Subscript (Attribute (Name "typing") "Union")
                                                   (Tuple [Name "int"; Constant CNone])]);
                           Constant CNone]));
              Subscript (Attribute (Name "typing") "Union") (Tuple [Name "A"; Constant (CStr "'B | C'")])]) /\
  NF ex_ann =
    TUnion [TSub (TPath ["typing"; "List"])
              (TUnion [TSub (TPath ["typing"; "Dict"])
                         (TTuple [TPath ["str"]; TUnion [TPath ["int"]; TConst CNone]]);
                       TConst CNone]);
            TPath ["A"]; TConst (CStr "'B | C'")].
Proof. vm_compute. repeat split; discriminate. Qed.

(* the identity clause is not vacuous either: typing.Optional[re.Pattern[str]] has no construct *)
Example C20_any_union_name_inhabited : table_wf generics "Union" = true /\ table_wf generics "t.Union" = true.
Proof. vm_compute. split; reflexivity. Qed.
Example C20_identity_nonvacuous :
  has_constructs generics
    (Subscript (Attribute (Name "typing") "Optional") (Subscript (Attribute (Name "re") "Pattern") (Name "str"))) = false.
Proof. vm_compute. reflexivity. Qed.

Print Assumptions C20_table_wf.
Print Assumptions C20_table_documented.
Print Assumptions C20_table_sound.
Print Assumptions C20_meaning.
Print Assumptions C20_no_pep604.
Print Assumptions C20_fixpoint.
Print Assumptions C20_identity.
Print Assumptions C20_total.
Print Assumptions C20_any_union_name.
Print Assumptions C20_refuted_arith_operand.
Print Assumptions C20_refuted_left_spine.
