(* Routine programs -- the per-run source tie of Core's composite MARSHAL steps.
   Compiled on every run against
     TLRun.GenRoutineProgs  (harness/routasttie.py: unmarshals/routines.py and marshals/routines.py parsed with `ast`;
                             __init__ and __call__ of the composite routine classes translated, fail closed, into
                             programs of Model/RoutineAst.v).
   RAX_mar_agree: the program translated from the source IS `RoutineAst.expected DM h` for every marshaller class (decidable
   equality, vm_compute).  RAX_mar_*_src: hence Core's `mar` step at every composite head is the interpretation of the body
   AS PARSED on this run.  This file contains only the property theorems. *)
From Coq Require Import List Arith Bool String.
Import ListNotations.
Require Import TL.Model.Core TL.Model.RoutineAst TL.Proofs.RoutineAst.
Require Import TLRun.GenRoutineProgs.

Theorem RAX_mar_agree : progs_agree_dir DM translated = true.
Proof. vm_compute. reflexivity. Qed.

Theorem RAX_mar_src : forall rt E n t x h, head_of E t = Some h ->
  run rt E (mar rt E n) t (src_prog translated DM h) x = mar rt E (S n) t x.
Proof. intros rt E. exact (mar_step_src rt E translated RAX_mar_agree). Qed.

(* class by class *)
Theorem RAX_mar_iterable_src : forall rt E n k a x,
  run rt E (mar rt E n) (TSeq k a) (src_prog translated DM HIterable) x = mar rt E (S n) (TSeq k a) x.
Proof. intros. rewrite (src_prog_expected_dir _ DM HIterable RAX_mar_agree). apply mar_iterable. Qed.
Theorem RAX_mar_mapping_src : forall rt E n k kt vt x,
  run rt E (mar rt E n) (TMap k kt vt) (src_prog translated DM HMapping) x = mar rt E (S n) (TMap k kt vt) x.
Proof. intros. rewrite (src_prog_expected_dir _ DM HMapping RAX_mar_agree). apply mar_mapping. Qed.
Theorem RAX_mar_tuple_src : forall rt E n ts x,
  run rt E (mar rt E n) (TTuple ts) (src_prog translated DM HTuple) x = mar rt E (S n) (TTuple ts) x.
Proof. intros. rewrite (src_prog_expected_dir _ DM HTuple RAX_mar_agree). apply mar_tuple. Qed.
Theorem RAX_mar_struct_src : forall rt E n c cd x, E c = Some (NClass cd) ->
  run rt E (mar rt E n) (TName c) (src_prog translated DM HStruct) x = mar rt E (S n) (TName c) x.
Proof. intros. rewrite (src_prog_expected_dir _ DM HStruct RAX_mar_agree). eapply mar_struct; eassumption. Qed.
Theorem RAX_mar_union_src : forall rt E n ts x,
  run rt E (mar rt E n) (TUnion ts) (src_prog translated DM HUnion) x = mar rt E (S n) (TUnion ts) x.
Proof. intros. rewrite (src_prog_expected_dir _ DM HUnion RAX_mar_agree). apply mar_union. Qed.

Print Assumptions RAX_mar_agree.
Print Assumptions RAX_mar_src.
Print Assumptions RAX_mar_iterable_src.
Print Assumptions RAX_mar_mapping_src.
Print Assumptions RAX_mar_tuple_src.
Print Assumptions RAX_mar_struct_src.
Print Assumptions RAX_mar_union_src.
