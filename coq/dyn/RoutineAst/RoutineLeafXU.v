(* Leaf routine programs -- the per-run source tie of the LEAF unmarshallers.
   Compiled on every run against
     TLRun.GenRoutineLeaves  (harness/routasttie.py: every non-composite routine class of unmarshals/routines.py parsed with
                              `ast`; base class, __init__ and __call__ translated, fail closed, into Model/RoutineLeafAst.v).
   RLX_unm_agree: the table translated from the source IS `expected_u` (classes, bases, __init__, __call__, aliases).
   RLX_unm_first / _entry: the first step READ OFF THE BODY AS PARSED on this run is the head of Model/Serdes.v, and
   entry_gen at every leaf head is its interpretation.  RLX_unm_steps: the per-kind descriptions.  Theorems only. *)
From Coq Require Import List Arith Bool String.
Import ListNotations.
Require Import TL.Model.Serdes TL.Model.RoutineLeafAst TL.Proofs.RoutineLeafAst.
Require Import TLRun.GenRoutineLeaves.

Theorem RLX_unm_agree : leaves_agree expected_u expected_aliases_u leaves_u aliases_u = true.
Proof. vm_compute. reflexivity. Qed.

Theorem RLX_unm_first : forall k vals, Some (first_of (texty k) (src_leaf leaves_u k)) = model_first (head_of k vals).
Proof. exact (first_src leaves_u aliases_u RLX_unm_agree). Qed.

Theorem RLX_unm_entry : forall rt rest whole sup fixd k vals v,
  lentry rt rest whole fixd (head_of k vals) (first_of (texty k) (src_leaf leaves_u k)) v
  = entry_gen rt rest whole sup fixd (head_of k vals) v.
Proof. exact (entry_src leaves_u aliases_u RLX_unm_agree). Qed.

Theorem RLX_unm_steps : forall k, steps (lcall (src_leaf leaves_u k)) = described_u k.
Proof. exact (steps_src leaves_u aliases_u RLX_unm_agree). Qed.

Print Assumptions RLX_unm_agree.
Print Assumptions RLX_unm_first.
Print Assumptions RLX_unm_entry.
Print Assumptions RLX_unm_steps.
