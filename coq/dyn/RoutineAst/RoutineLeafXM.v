(* Leaf routine programs -- the per-run source tie of the LEAF marshallers (see RoutineLeafXU.v).
   RLX_mar_agree: the table translated from marshals/routines.py IS `expected_m` (classes, bases, __init__, __call__,
   aliases).  RLX_mar_steps: the per-kind descriptions.  RLX_mar_not_identity: only NoOpMarshaller's body is `return val`.
   Theorems only. *)
From Coq Require Import List Arith Bool String.
Import ListNotations.
Require Import TL.Model.Serdes TL.Model.RoutineLeafAst TL.Proofs.RoutineLeafAst.
Require Import TLRun.GenRoutineLeaves.

Theorem RLX_mar_agree : leaves_agree expected_m expected_aliases_m leaves_m aliases_m = true.
Proof. vm_compute. reflexivity. Qed.

Theorem RLX_mar_steps : forall k, steps (lcall (msrc_leaf leaves_m k)) = described_m k.
Proof. exact (msteps_src leaves_m aliases_m RLX_mar_agree). Qed.

Theorem RLX_mar_not_identity : forall k, is_identity (msrc_leaf leaves_m k) = match k with MNoOp => true | _ => false end.
Proof. exact (mar_identity_src leaves_m aliases_m RLX_mar_agree). Qed.

Print Assumptions RLX_mar_agree.
Print Assumptions RLX_mar_steps.
Print Assumptions RLX_mar_not_identity.
