(* Routine programs -- the per-run source tie of Core's composite UNMARSHAL steps.
   Compiled on every run against
     TLRun.GenRoutineProgs  (harness/routasttie.py: unmarshals/routines.py and marshals/routines.py parsed with `ast`;
                             __init__ and __call__ of the composite routine classes translated, fail closed, into
                             programs of Model/RoutineAst.v).
   RAX_unm_agree: the program translated from the source IS `RoutineAst.expected DU h` for every unmarshaller class (decidable
   equality, vm_compute).  RAX_unm_*_src: hence Core's `unm` step at every composite head is the interpretation of the body
   AS PARSED on this run.  This file contains only the property theorems. *)
From Coq Require Import List Arith Bool String.
Import ListNotations.
Require Import TL.Model.Core TL.Model.CoreLate TL.Model.RoutineAst TL.Proofs.RoutineAst.
Require Import TLRun.GenRoutineProgs.

Theorem RAX_unm_agree : progs_agree_dir DU translated = true.
Proof. vm_compute. reflexivity. Qed.

(* Core's steps are the interpretation of the source's bodies, at every composite head *)
Theorem RAX_unm_src : forall rt E n t x h, head_of E t = Some h -> guard_u E t = true ->
  run rt E (unm rt E n) t (src_prog translated DU h) x = unm rt E (S n) t x.
Proof. intros rt E. exact (unm_step_src rt E translated RAX_unm_agree). Qed.

(* class by class *)
Theorem RAX_unm_iterable_src : forall rt E n k a x,
  run rt E (unm rt E n) (TSeq k a) (src_prog translated DU HIterable) x = unm rt E (S n) (TSeq k a) x.
Proof. intros. rewrite (src_prog_expected_dir _ DU HIterable RAX_unm_agree). apply unm_iterable. Qed.
Theorem RAX_unm_mapping_src : forall rt E n k kt vt x,
  run rt E (unm rt E n) (TMap k kt vt) (src_prog translated DU HMapping) x = unm rt E (S n) (TMap k kt vt) x.
Proof. intros. rewrite (src_prog_expected_dir _ DU HMapping RAX_unm_agree). apply unm_mapping. Qed.
Theorem RAX_unm_tuple_src : forall rt E n ts x,
  run rt E (unm rt E n) (TTuple ts) (src_prog translated DU HTuple) x = unm rt E (S n) (TTuple ts) x.
Proof. intros. rewrite (src_prog_expected_dir _ DU HTuple RAX_unm_agree). apply unm_tuple. Qed.
Theorem RAX_unm_struct_src : forall rt E n c cd x, E c = Some (NClass cd) -> req_wf cd = true ->
  run rt E (unm rt E n) (TName c) (src_prog translated DU HStruct) x = unm rt E (S n) (TName c) x.
Proof. intros. rewrite (src_prog_expected_dir _ DU HStruct RAX_unm_agree). eapply unm_struct; eassumption. Qed.
Theorem RAX_unm_union_src : forall rt E n ts x,
  run rt E (unm rt E n) (TUnion ts) (src_prog translated DU HUnion) x = unm rt E (S n) (TUnion ts) x.
Proof. intros. rewrite (src_prog_expected_dir _ DU HUnion RAX_unm_agree). apply unm_union. Qed.
(* where hash-as-produced and the earlier "convert every member, then hash" differ, the body as parsed raises TypeError
   and the earlier formulation of Core's step (Model/CoreLate.v) did not *)
Theorem RAX_unm_set_late_outside_src : forall rt E n k a x, seq_parts rt (unm rt E n) k a x = true ->
  run rt E (unm rt E n) (TSeq k a) (src_prog translated DU HIterable) x = Raise EType /\
  CoreLate.is_other (seq_late rt (unm rt E n) k a x) = true.
Proof. intros. rewrite (src_prog_expected_dir _ DU HIterable RAX_unm_agree). apply unm_iterable_late_outside; assumption. Qed.

Print Assumptions RAX_unm_agree.
Print Assumptions RAX_unm_src.
Print Assumptions RAX_unm_iterable_src.
Print Assumptions RAX_unm_mapping_src.
Print Assumptions RAX_unm_tuple_src.
Print Assumptions RAX_unm_struct_src.
Print Assumptions RAX_unm_union_src.
Print Assumptions RAX_unm_set_late_outside_src.
