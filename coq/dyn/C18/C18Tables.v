(* Property C18, table-dependent part: the class predicates of typelib.py.inspection, evaluated on this run
   on the class of a representative of every kind of object (TLRun.GenIterClasses), agree with the
   predicates of the model (Model/Iter.v), and len() with py_len.  Only this theorem. *)
From Coq Require Import List ZArith NArith String Ascii Bool.
Import ListNotations.
Require Import TL.Model.Iter TL.Model.IterEq TLRun.GenIterClasses.

Theorem C18_class_table_ok : class_table_ok class_rows = true.
Proof. vm_compute. reflexivity. Qed.

Example C18_class_table_nonempty : Nat.leb 70 (List.length class_rows) = true.
Proof. vm_compute. reflexivity. Qed.

Print Assumptions C18_class_table_ok.
