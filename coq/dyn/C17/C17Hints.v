(* Property C17, hints layer (WP-N): what inspection.get_type_hints / signature / typed_dict_signature yield for a class,
   against the member list the class defines.  Compiled on every run against the class lattice and inspection tables
   regenerated from the live module and interpreter, extended with a row per synthesised class
   (TLRun.GenHintTables).  Only theorems (exact lemma), their non-vacuity examples and the refutation witnesses of the
   regions outside the guards.  Every statement is for ALL name tables W and ALL class descriptions d. *)
From Coq Require Import List NArith ZArith String Bool.
Import ListNotations.
Require Import TL.Model.Inspect TL.Model.InspectHints TL.Proofs.InspectHintsLemmas.
Require Import TLRun.GenHintTables.
Local Open Scope string_scope.

(* the statement without guards: FALSE of the faithful model (C17H_refuted_full) *)
Definition C17H_full : Prop :=
  forall W d fs, spec_fields W d = Some fs -> resolve_hints W (get_type_hints tbl W d true) = fs.

(* THE FIELD-LIST THEOREM.  For every class description inside the guard (dataclass / named tuple / TypedDict / plain
   class, any MRO, any name table): get_type_hints(cls), read through refs.evaluate, is exactly the member list --
   names, order, evaluated annotations -- that dataclasses.fields / _fields + __annotations__ /
   TypedDict.__annotations__ / the annotated __init__ parameters define *)
Theorem C17H_field_list : forall W d fs,
  field_guard tbl W d = true -> spec_fields W d = Some fs ->
  resolve_hints W (get_type_hints tbl W d true) = fs.
Proof. intros W d fs. exact (field_list tbl W d fs). Qed.

(* where the class (or a base) carries annotations the hints ARE that list, with either value of `exhaustive` ... *)
Theorem C17H_field_list_exact : forall W d fs,
  field_guard tbl W d = true -> spec_fields W d = Some fs -> unannotated (c_mro d) = false ->
  forall ex, get_type_hints tbl W d ex = fs.
Proof. intros W d fs. exact (field_list_exact tbl W d fs). Qed.

(* ... and it is the list graph._level walks and the list StructuredType(Un)Marshaller._fields_by_var iterates
   (bare type variables reduced): the `cfields` of Model/Graph.v and Model/Core.v *)
Theorem C17H_field_list_level : forall W d fs,
  field_guard tbl W d = true -> spec_fields W d = Some fs -> unannotated (c_mro d) = false ->
  level_members tbl W d = norm_hints fs /\ fields_by_var tbl W d = norm_hints fs.
Proof. intros W d fs. exact (field_list_level tbl W d fs). Qed.

(* the graph and the routines ask the same question about a structured class, guard or no guard *)
Theorem C17H_members_agree : forall W d,
  isstructuredtype tbl (self_ity d) = true -> level_members tbl W d = fields_by_var tbl W d.
Proof. intros W d. exact (members_agree tbl W d). Qed.

(* KW_ONLY never is a hint when the hints come from typing.get_type_hints (every class, no guard) *)
Theorem C17H_kw_only_dropped : forall W d n,
  ~ In (n, HKwOnly) (hints_nex W d) /\ ~ In (n, HKwOnly) (get_type_hints tbl W d false).
Proof. intros W d n. split; [exact (kw_only_dropped W d n) | exact (kw_only_dropped_nex tbl W d n)]. Qed.

(* a ClassVar annotation IS kept as a member (every class, no guard): the code does not drop it *)
Theorem C17H_classvar_kept : forall W d l n x ex,
  typing_hints W d = Some l -> In (n, HTy (IClassVar x)) l -> In (n, HTy (IClassVar x)) (get_type_hints tbl W d ex).
Proof. intros W d. exact (classvar_kept tbl W d). Qed.

(* the two paths, against the interpreter: typing.get_type_hints answers -> its answer without KW_ONLY (when
   anything is left); it raises -> {} without `exhaustive`, the signature's parameters with it *)
Theorem C17H_typing_path : forall W d l ex,
  typing_hints W d = Some l -> filter notkw l <> [] -> get_type_hints tbl W d ex = filter notkw l.
Proof. intros W d. exact (typing_path tbl W d). Qed.
Theorem C17H_fallback : forall W d, typing_hints W d = None ->
  get_type_hints tbl W d false = [] /\ get_type_hints tbl W d true = hints_from_signature tbl W d.
Proof. intros W d. exact (fallback tbl W d). Qed.

(* typed_dict_signature (as repaired): a key has a default exactly when it is not in __required_keys__ -- every class,
   no guard; and, whenever __required_keys__ is what the TypedDict metaclass model makes of the parts (any mix of
   totalities), exactly when the parts do not require it *)
Theorem C17H_td_signature_required : forall W d p,
  In p (typed_dict_signature W d) -> p_default p = negb (memS (p_name p) (c_required d)).
Proof. intros W d p. exact (td_signature_required W d p). Qed.
Theorem C17H_td_signature_defaults : forall W d p,
  td_sig_guard W d = true -> In p (typed_dict_signature W d) ->
  p_default p = negb (memS (p_name p) (td_required (c_parts d))).
Proof. intros W d p. exact (td_signature_defaults W d p). Qed.

(* a fixed tuple: the members are the positional-only parameters arg0.. of tuple_signature, only with `exhaustive` *)
Theorem C17H_tuple_members : forall t,
  istupletype tbl t = Ok true -> null (args t) = false -> last_is_ellipsis (args t) = false ->
  ann_hints tbl t true = hints_from_params EmptyString (tuple_params 0 (args t)) /\ ann_hints tbl t false = [].
Proof. exact (tuple_members tbl). Qed.

(* the bridge to the core model: when the per-run check of a class answers 0, the cfields the core harness encoded
   are the erasure of the member list the class DEFINES *)
Theorem C17H_erase_fields : forall Nm W d fs enc,
  field_guard tbl W d = true -> spec_fields W d = Some fs -> unannotated (c_mro d) = false ->
  check_cfields Nm tbl W d enc = 0 ->
  exists l, erase_fields Nm (norm_hints fs) = Some l
            /\ fields_eqb (map (fun nt => (fst nt, deref (snd nt))) l) (map (fun nt => (fst nt, deref (snd nt))) enc) = true.
Proof. intros Nm W d fs enc. exact (erase_fields_spec tbl W Nm d fs enc). Qed.

(* ---------------------------------------------------------------- descriptions used below *)
Definition tint : hint := HTy (IClass c_int).
Definition tstr : hint := HTy (IClass c_str).
Definition tfloat : hint := HTy (IClass c_float).
Definition kl (m : string) (anns : list (string * ann)) (dc : bool) (vals : list string) (init : option (list param)) : klass :=
  {| k_module := m; k_ann := anns; k_dc := dc; k_kwonly := false; k_values := vals; k_init := init; k_nt := NtNone |}.
Definition mk (c : cls) (fl : flavour) (mro : list klass) : cdesc :=
  {| c_cls := c; c_flavour := fl; c_mro := mro; c_fields := []; c_total := true; c_parts := []; c_required := []; c_attrs := [];
     c_slots := None; c_members := []; c_sigless := false |}.
Definition par (n : string) (k : pkind) (a : ann) (dfl : bool) : param :=
  {| p_name := n; p_kind := k; p_ann := a; p_default := dfl |}.

(* ---------------------------------------------------------------- non-vacuity *)
(* a dataclass of module "b" (all annotations strings, as under `from __future__ import annotations`) deriving from
   a dataclass of module "a": KW_ONLY marker, an overridden field, the name Thing bound differently in the two modules *)
Definition exW : world :=
  [(("a", "Thing"), tint); (("b", "Thing"), tstr); (("b", "KW_ONLY"), HKwOnly); (("b", "list[Thing]"), HTy (IClassSub c_list [IClass c_str]));
   (("b", "list"), HTy (IClass c_list)); (("b", "float"), tfloat); (("b", "Sub"), HTy (IClass k_UData))].
Definition exDC : cdesc :=
  mk k_UData FlDataclass
     [kl "b" [("b", AStr "Thing"); ("_", AStr "KW_ONLY"); ("k", AStr "list[Thing]"); ("z", AStr "float")] true ["b"; "k"; "z"] None;
      kl "a" [("a", AStr "Thing"); ("z", AObj tint)] true ["z"] None].
Example C17H_dataclass_satisfiable :
  field_guard tbl exW exDC = true
  /\ spec_fields exW exDC
     = Some [("a", tint); ("z", tfloat); ("b", tstr); ("k", HTy (IClassSub c_list [IClass c_str]))]
  /\ get_type_hints tbl exW exDC false
     = [("a", tint); ("z", tfloat); ("b", tstr); ("k", HTy (IClassSub c_list [IClass c_str]))]
  /\ map p_name (dc_init exW (c_mro exDC)) = ["a"; "b"; "z"; "k"].
Proof. vm_compute. repeat split. Qed.

(* an annotation-free subclass of a typing.NamedTuple; collections.namedtuple (every field reads as Any) *)
Definition exNT : cdesc :=
  {| c_cls := k_UNamed; c_flavour := FlNamedTuple;
     c_mro := [kl "a" [] false [] None;
               {| k_module := "a"; k_ann := [("a", AObj tint); ("b", AObj (HTy (IForwardRef "Thing" None)))]; k_dc := false; k_kwonly := false;
                  k_values := ["b"]; k_init := None; k_nt := NtTyping |}];
     c_fields := ["a"; "b"]; c_total := true; c_parts := []; c_required := []; c_attrs := []; c_slots := Some []; c_members := [];
     c_sigless := false |}.
Definition exNTC : cdesc :=
  {| c_cls := k_UNamedC; c_flavour := FlNamedTuple;
     c_mro := [{| k_module := "a"; k_ann := []; k_dc := false; k_kwonly := false; k_values := []; k_init := None; k_nt := NtColl ["a"; "b"] 1 |}];
     c_fields := ["a"; "b"]; c_total := true; c_parts := []; c_required := []; c_attrs := []; c_slots := Some []; c_members := [];
     c_sigless := false |}.
Example C17H_namedtuple_satisfiable :
  field_guard tbl exW exNT = true /\ get_type_hints tbl exW exNT true = [("a", tint); ("b", tint)]
  /\ field_guard tbl exW exNTC = true
  /\ get_type_hints tbl exW exNTC true = [("a", HTy (IClass c_Any)); ("b", HTy (IClass c_Any))]
  /\ get_type_hints tbl exW exNTC false = [].
Proof. vm_compute. repeat split. Qed.

(* a TypedDict of mixed totality (its own __annotations__ hold the merged keys); a class with only an annotated
   __init__ in a module with string annotations: the hints are references, refs.evaluate gives the member list *)
Definition exTD : cdesc :=
  {| c_cls := k_UTD; c_flavour := FlTypedDict;
     c_mro := [kl "a" [("a", AObj tint); ("b", AObj (HTy (IForwardRef "Thing" (Some "b"))))] false [] None];
     c_fields := []; c_total := false; c_parts := [(true, ["a"]); (false, ["b"])]; c_required := ["a"]; c_attrs := []; c_slots := None;
     c_members := []; c_sigless := false |}.
Definition exInit : cdesc :=
  mk k_UPlain FlPlain
     [kl "b" [] false [] (Some [par "a" KPosOrKw (AStr "Thing") false; par "k" KKwOnly (AStr "list[Thing]") true;
                                par "u" KPosOrKw AEmpty true])].
Example C17H_typeddict_init_satisfiable :
  field_guard tbl exW exTD = true /\ get_type_hints tbl exW exTD true = [("a", tint); ("b", tstr)]
  /\ td_required (c_parts exTD) = ["a"]
  /\ field_guard tbl exW exInit = true
  /\ get_type_hints tbl exW exInit true
     = [("a", HTy (IForwardRef "Thing" (Some "b"))); ("k", HTy (IForwardRef "list[Thing]" (Some "b"))); ("u", HTy (IClass c_Any))]
  /\ spec_fields exW exInit = Some [("a", tstr); ("k", HTy (IClassSub c_list [IClass c_str])); ("u", HTy (IClass c_Any))]
  /\ get_type_hints tbl exW exInit false = [].
Proof. vm_compute. repeat split. Qed.
Example C17H_td_signature_satisfiable :
  td_sig_guard exW exTD = true /\ map p_default (typed_dict_signature exW exTD) = [false; true]
  /\ map p_default (typed_dict_signature_pinned exW exTD) = [true; true].
Proof. vm_compute. repeat split. Qed.
Example C17H_tuple_satisfiable :
  ann_hints tbl (IClassSub c_tuple [IClass c_int; IClass c_str]) true = [("arg0", tint); ("arg1", tstr)]
  /\ ann_hints tbl (IClassSub c_tuple [IClass c_int; IEllipsis]) true = [("args", tint)]
  /\ ann_hints tbl (IClassSub c_tuple []) true = [("args", HTy (IClass c_Any))]
  /\ ann_hints tbl (IUnion UUnion [IClass c_int; IClass c_str]) true = [].
Proof. vm_compute. repeat split. Qed.

(* ---------------------------------------------------------------- refutations: what lies outside the guards *)
(* (1) ClassVar: dataclasses.fields does not list it, get_type_hints does -- a public ClassVar is a "member".
   Replayed on /repo: unmarshal(D, {"a": "1", "x": "5"}) raises TypeError (unexpected keyword), whereas any other
   unknown key is skipped *)
Definition wCv : cdesc :=
  mk 0%N FlDataclass [kl "m" [("a", AObj tint); ("x", AObj (HTy (IClassVar (IClass c_int))))] true ["x"] None].
Theorem C17H_refuted_classvar_member : exists d fs,
  c_flavour d = FlDataclass /\ spec_fields [] d = Some fs /\ get_type_hints tbl [] d true <> fs
  /\ In ("x", HTy (IClassVar (IClass c_int))) (get_type_hints tbl [] d true) /\ ~ In "x" (names_of fs).
Proof.
  exists wCv, [("a", tint)]. split; [reflexivity|]. split; [vm_compute; reflexivity|].
  split; [vm_compute; discriminate|]. split; [vm_compute; right; left; reflexivity|].
  cbn. intros [H|[]]. discriminate H.
Qed.
(* (2) an undecorated subclass of a dataclass that annotates: a hint, not a field *)
Definition wUndec : cdesc :=
  mk 0%N FlDataclass [kl "m" [("z", AObj tint)] false ["z"] None; kl "m" [("a", AObj tint)] true [] None].
Theorem C17H_refuted_undecorated_annotation : exists d fs,
  c_flavour d = FlDataclass /\ spec_fields [] d = Some fs /\ get_type_hints tbl [] d true <> fs.
Proof. exists wUndec, [("a", tint)]. split; [reflexivity|]. split; vm_compute; [reflexivity | discriminate]. Qed.
(* (3) InitVar: an __init__ parameter, not a field; get_type_hints lists it *)
Definition wInit : cdesc :=
  mk 0%N FlDataclass [kl "m" [("a", AObj tint); ("i", AObj (HInitVar (Some (IClass c_int))))] true ["i"] None].
Theorem C17H_refuted_initvar_member : exists d fs,
  c_flavour d = FlDataclass /\ spec_fields [] d = Some fs /\ get_type_hints tbl [] d true <> fs.
Proof. exists wInit, [("a", tint)]. split; [reflexivity|]. split; vm_compute; [reflexivity | discriminate]. Qed.
(* (4) a NamedTuple subclass that declares a new annotation: a class attribute, not a tuple field *)
Definition wNtAdd : cdesc :=
  {| c_cls := 0%N; c_flavour := FlNamedTuple;
     c_mro := [kl "m" [("c", AObj tint)] false ["c"] None;
               {| k_module := "m"; k_ann := [("a", AObj tint); ("b", AObj tstr)]; k_dc := false; k_kwonly := false; k_values := [];
                  k_init := None; k_nt := NtTyping |}];
     c_fields := ["a"; "b"]; c_total := true; c_parts := []; c_required := []; c_attrs := []; c_slots := None; c_members := [];
     c_sigless := false |}.
Theorem C17H_refuted_namedtuple_extra_annotation : exists d fs,
  c_flavour d = FlNamedTuple /\ spec_fields [] d = Some fs /\ get_type_hints tbl [] d true <> fs.
Proof. exists wNtAdd, [("a", tint); ("b", tstr)]. split; [reflexivity|]. split; vm_compute; [reflexivity | discriminate]. Qed.
(* (5) a plain class that annotates attributes its __init__ does not take *)
Definition wAttr : cdesc :=
  mk 0%N FlPlain [kl "m" [("a", AObj tint); ("c", AObj (HTy (IClassVar (IClass c_str)))); ("e", AObj tfloat)] false ["c"; "e"]
                     (Some [par "a" KPosOrKw (AObj tint) false])].
Theorem C17H_refuted_plain_attribute_annotation : exists d fs,
  c_flavour d = FlPlain /\ spec_fields [] d = Some fs /\ get_type_hints tbl [] d true <> fs.
Proof. exists wAttr, [("a", tint)]. split; [reflexivity|]. split; vm_compute; [reflexivity | discriminate]. Qed.
(* (6) REPAIRED (proposed_fixes/C17-fallback-annotation-module): class B(A) of module "b", A of module "a" declares
   a: "Thing"; one name of B is not bound yet -> typing raises -> the signature path.  The reference built for the
   inherited field names the module that DECLARES it; the pinned code (module = obj.__module__) said "b", where Thing is
   str, although A's own module says int *)
Definition wW : world := [(("a", "Thing"), tint); (("b", "Thing"), tstr)].
Definition wLate : cdesc :=
  mk 0%N FlDataclass [kl "b" [("n", AStr "Later")] true ["n"] None; kl "a" [("a", AStr "Thing")] true [] None].
Example C17H_fallback_declaring_module :
  typing_hints wW wLate = None
  /\ get_type_hints tbl wW wLate true
     = [("a", HTy (IForwardRef "Thing" (Some "a"))); ("n", HTy (IForwardRef "Later" (Some "b")))]
  /\ resolve_hint wW (HTy (IForwardRef "Thing" (Some "a"))) = tint
  /\ eval_ann wW "a" (AStr "Thing") = Some tint.
Proof. vm_compute. repeat split. Qed.
Theorem C17H_refuted_pinned_fallback_module : exists W d h,
  typing_hints W d = None /\ In ("a", h) (hints_from_signature_pinned tbl W d)
  /\ resolve_hint W h = tstr /\ eval_ann W "a" (AStr "Thing") = Some tint.
Proof.
  exists wW, wLate, (HTy (IForwardRef "Thing" (Some "b"))).
  split; [vm_compute; reflexivity|]. split; [vm_compute; left; reflexivity|]. split; vm_compute; reflexivity.
Qed.
(* (7) the fallback loses members: a TypedDict with one name not bound yet has NO hints at all (its "signature" is
   built from the same hints); a dataclass loses what is not an __init__ parameter *)
Definition wTdLate : cdesc :=
  mk k_UTD FlTypedDict [kl "m" [("a", AObj tint); ("b", AObj (HTy (IForwardRef "Later" (Some "m"))))] false [] None].
Theorem C17H_refuted_fallback_drops_members : exists d,
  istypeddict tbl (self_ity d) = true /\ names_of (k_ann (hd (kl "" [] false [] None) (c_mro d))) = ["a"; "b"]
  /\ get_type_hints tbl [] d true = [] /\ signature tbl [] d = Some [].
Proof. exists wTdLate. repeat split; vm_compute; reflexivity. Qed.
(* (8) REPAIRED (proposed_fixes/C17-typeddict-signature-defaults).  The pinned code took the default of EVERY key from
   the __total__ of the class itself: an inherited required key of a total=False subclass got a default *)
Definition wTdMixed : cdesc :=
  {| c_cls := 0%N; c_flavour := FlTypedDict; c_mro := [kl "m" [("a", AObj tint); ("b", AObj tint)] false [] None];
     c_fields := []; c_total := false; c_parts := [(true, ["a"]); (false, ["b"])]; c_required := ["a"]; c_attrs := []; c_slots := None;
     c_members := []; c_sigless := false |}.
Theorem C17H_refuted_pinned_td_totality : exists d p,
  In p (typed_dict_signature_pinned [] d) /\ memS (p_name p) (c_required d) = true /\ p_default p = true.
Proof. exists wTdMixed, (par "a" KKwOnly (AObj tint) true). split; [vm_compute; left; reflexivity|]. split; vm_compute; reflexivity. Qed.
(* (9) ... and getattr(cls, key, default): a key named like a dict method had that method as its default *)
Definition wTdKeys : cdesc :=
  {| c_cls := 0%N; c_flavour := FlTypedDict; c_mro := [kl "m" [("a", AObj tint); ("keys", AObj tstr)] false [] None];
     c_fields := []; c_total := true; c_parts := [(true, ["a"; "keys"])]; c_required := ["a"; "keys"]; c_attrs := ["keys"]; c_slots := None;
     c_members := []; c_sigless := false |}.
Theorem C17H_refuted_pinned_td_dict_attribute : exists d p,
  In p (typed_dict_signature_pinned [] d) /\ memS (p_name p) (c_required d) = true /\ p_default p = true.
Proof. exists wTdKeys, (par "keys" KKwOnly (AObj tstr) true). split; [vm_compute; right; left; reflexivity|]. split; vm_compute; reflexivity. Qed.
Example C17H_td_signature_repaired :
  map p_default (typed_dict_signature [] wTdMixed) = [false; true] /\ map p_default (typed_dict_signature [] wTdKeys) = [false; false].
Proof. vm_compute. split; reflexivity. Qed.
(* (10) KW_ONLY is filtered BEFORE the fallback: a parameter annotated with it comes back as a hint *)
Definition wKwSig : cdesc :=
  mk 0%N FlPlain [kl "m" [] false [] (Some [par "a" KPosOrKw (AObj tint) false; par "m" KPosOrKw (AObj HKwOnly) true])].
Theorem C17H_refuted_kw_only_in_signature : exists d, In ("m", HKwOnly) (get_type_hints tbl [] d true).
Proof. exists wKwSig. vm_compute. right. left. reflexivity. Qed.

Theorem C17H_refuted_full : ~ C17H_full.
Proof.
  intro H. specialize (H [] wCv [("a", tint)] eq_refl). vm_compute in H. discriminate H.
Qed.

Print Assumptions C17H_field_list.
Print Assumptions C17H_field_list_exact.
Print Assumptions C17H_field_list_level.
Print Assumptions C17H_members_agree.
Print Assumptions C17H_kw_only_dropped.
Print Assumptions C17H_classvar_kept.
Print Assumptions C17H_typing_path.
Print Assumptions C17H_fallback.
Print Assumptions C17H_td_signature_required.
Print Assumptions C17H_td_signature_defaults.
Print Assumptions C17H_tuple_members.
Print Assumptions C17H_erase_fields.
Print Assumptions C17H_refuted_classvar_member.
Print Assumptions C17H_refuted_undecorated_annotation.
Print Assumptions C17H_refuted_initvar_member.
Print Assumptions C17H_refuted_namedtuple_extra_annotation.
Print Assumptions C17H_refuted_plain_attribute_annotation.
Print Assumptions C17H_refuted_pinned_fallback_module.
Print Assumptions C17H_refuted_fallback_drops_members.
Print Assumptions C17H_refuted_pinned_td_totality.
Print Assumptions C17H_refuted_pinned_td_dict_attribute.
Print Assumptions C17H_refuted_kw_only_in_signature.
Print Assumptions C17H_refuted_full.
