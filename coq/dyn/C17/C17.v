(* Property C17 -- type predicates agree with Python's own type semantics.
   Compiled on every run against the class lattice and the inspection tables regenerated from the
   live module and interpreter (TLRun.GenInspectTables).  This file contains only the property theorems,
   their non-vacuity examples and the refutation witnesses of the excluded regions. *)
From Coq Require Import List NArith ZArith String Bool.
Import ListNotations.
Require Import TL.Model.Inspect TL.Model.InspectSpec TL.Model.InspectCache TL.Proofs.InspectLemmas.
Require Import TLRun.GenInspectTables.
Local Open Scope string_scope.

(* The statement at full strength: every predicate, every history.  Clauses 1 and 4 are now theorems
   without guard (C17_agrees, C17_origin_concrete); clauses 2 and 3 are FALSE of the faithful model for the
   string-based issubscriptedgeneric and for the ==-keyed caches (C17_refuted_* witnesses). *)
Definition C17_full : Prop :=
  (forall p t b, runtime_says tbl p t = Some b -> run_pred tbl p t = Ok b)
  /\ (forall p a b, spell tbl a b -> run_pred tbl p a = run_pred tbl p b)
  /\ (forall p h, pred_history tbl p h = map (run_pred tbl p) h)
  /\ (forall t c, head_class tbl (strip t) = Some c -> subclass tbl c c_Collection = true ->
        exists d, origin tbl t = IClass d /\ is_abstract_cls tbl d = false).

(* the reflected tables satisfy what the proofs assume about them *)
Theorem C17_tables_ok : tables_ok tbl = true.
Proof. vm_compute. reflexivity. Qed.

(* Every predicate that stands for a subclass test (22 of them: date/datetime/time/timedelta/decimal/
   fraction/uuid/iterable/iterator/tuple/sequence/collection/mapping via origin(); enum/text/string/
   bytes/number/integer/float/pattern/path via the typing origin of the resolved object) answers exactly
   what issubclass says for the class the annotation resolves to -- for EVERY nesting of NewTypes and
   aliases, of any depth, over a class, a typing alias or a parameterised generic with arbitrary
   arguments.  No guard is left: the domain (the annotation resolves to a class) is the only hypothesis. *)
Theorem C17_agrees : forall p t b, runtime_says tbl p t = Some b -> run_pred tbl p t = Ok b.
Proof. intros p t b. exact (agrees tbl p t b C17_tables_ok). Qed.

(* inside the domain no predicate raises *)
Theorem C17_total : forall p t, in_domain tbl p t = true -> exists b, run_pred tbl p t = Ok b.
Proof. intros p t. exact (total tbl p t C17_tables_ok). Qed.

(* origin() does not depend on the spelling of a class-like annotation (typing.List[int] vs list[int],
   typing.Mapping vs collections.abc.Mapping, under any nesting of NewTypes / aliases) ... *)
Theorem C17_spelling_origin : forall a b c,
  spell tbl a b -> head_class tbl (strip a) = Some c -> origin tbl a = origin tbl b.
Proof. exact (spelling_origin tbl). Qed.

(* ... hence neither does any of the 22 subclass-test predicates *)
Theorem C17_spelling : forall p f a b c,
  spell tbl a b -> head_class tbl (strip a) = Some c -> family_of p = Some f ->
  run_pred tbl p a = run_pred tbl p b.
Proof. exact (spelling_pred tbl). Qed.

(* Union[..] / Optional[..] / X | Y with pairwise equally-meant members (any length): all are unions,
   and optional-ness is the same *)
Theorem C17_spelling_union : forall s s' l l',
  Forall2 (spell tbl) l l' ->
  isuniontype tbl (IUnion s l) = true /\ isuniontype tbl (IUnion s' l') = true
  /\ isoptionaltype tbl (IUnion s l) = isoptionaltype tbl (IUnion s' l').
Proof. exact (spelling_union tbl C17_tables_ok). Qed.

(* origin() of a collection annotation is a concrete class of that kind: no abstract class below
   collections.abc.Collection is left without a concrete image (by computation on the tables) *)
Theorem C17_abstract_unmapped : abstract_unmapped tbl = [].
Proof. vm_compute. reflexivity. Qed.
Theorem C17_origin_concrete : forall t c,
  head_class tbl (strip t) = Some c -> subclass tbl c c_Collection = true ->
  origin tbl t = IClass (doc_map tbl c)
  /\ is_abstract_cls tbl (doc_map tbl c) = false /\ same_kind tbl (doc_map tbl c) c = true.
Proof.
  intros t c Hh Hcol.
  apply (origin_concrete tbl t c C17_tables_ok Hh Hcol).
  rewrite C17_abstract_unmapped. intros [].
Qed.

(* stable across calls: a history of calls of one predicate in which no key occurs in two spellings
   gets, call by call, the cold-cache answers *)
Theorem C17_stable : forall p h,
  (forall a b, In a h -> In b h -> key_eq a b = true -> a = b) ->
  pred_history tbl p h = map (run_pred tbl p) h.
Proof. exact (pred_history_stable tbl). Qed.

(* ---------------------------------------------------------------- non-vacuity *)
Definition ex_chain : ity :=
  IAlias "Outer" (INewType "Mid" (IAlias "Inner" (IAlias "Rows"
    (ITypingSub al_Sequence [IUnion UOptional [IClass c_int; IClass c_NoneType]])))).
Example C17_agrees_satisfiable :
  runtime_says tbl P_isiterabletype ex_chain = Some true
  /\ runtime_says tbl P_ismappingtype ex_chain = Some false
  /\ runtime_says tbl P_isstringtype (IAlias "S" (INewType "R" (IAlias "Q" (IClass c_str)))) = Some true
  /\ runtime_says tbl P_ispatterntype (INewType "P" (ITypingSub al_Pattern [IClass c_str])) = Some true
  /\ runtime_says tbl P_isdatetype (IClass k_UCallable) = Some false
  /\ origin tbl ex_chain = IClass c_list /\ origin tbl (IClass c_type) = IClass c_type.
Proof. vm_compute. repeat split. Qed.
Example C17_spelling_satisfiable :
  spell tbl (INewType "N" (ITypingSub al_Mapping [IClass c_str; ITypingSub al_List [IClass c_int]]))
            (INewType "N" (IClassSub (ta_origin tbl al_Mapping) [IClass c_str; IClassSub (ta_origin tbl al_List) [IClass c_int]]))
  /\ family_of P_ismappingtype = Some FMapping.
Proof.
  split; [|reflexivity].
  apply sp_newtype. apply sp_sub. repeat constructor.
Qed.
Example C17_concrete_satisfiable :
  head_class tbl (strip (ITypingSub al_MutableSet [IClass c_int])) = Some k_abcMutableSet
  /\ subclass tbl k_abcMutableSet c_Collection = true
  /\ doc_map tbl k_abcMutableSet = c_set /\ doc_map tbl k_abcByteString = c_bytes.
Proof. vm_compute. repeat split. Qed.
Example C17_stable_satisfiable :
  let h := [IUnion UOptional [IClass c_int; IClass c_NoneType]; IClass c_int;
            IUnion UOptional [IClass c_int; IClass c_NoneType]] in
  pred_history tbl P_issubscriptedgeneric h = [Ok true; Ok false; Ok true].
Proof. vm_compute. reflexivity. Qed.

(* ---------------------------------------------------------------- refutations of the excluded regions *)
(* spelling dependence with a cold cache: string-based issubscriptedgeneric *)
Theorem C17_refuted_spelling_subscripted : exists a b,
  spell tbl a b /\ run_pred tbl P_issubscriptedgeneric a <> run_pred tbl P_issubscriptedgeneric b.
Proof.
  exists (IUnion UOptional [IClass c_int; IClass c_NoneType]), (IUnion UPipe [IClass c_int; IClass c_NoneType]).
  split; [apply sp_union; repeat constructor | vm_compute; discriminate].
Qed.
(* not stable across calls: whichever of two ==-equal spellings is asked first fixes the answer *)
Theorem C17_refuted_cache_spelling : exists p a b,
  key_eq a b = true /\ spell tbl a b
  /\ pred_history tbl p [a; b] <> map (run_pred tbl p) [a; b]
  /\ pred_history tbl p [b; a] <> map (run_pred tbl p) [b; a].
Proof.
  exists P_issubscriptedgeneric,
    (IUnion UOptional [IClass c_int; IClass c_NoneType]), (IUnion UPipe [IClass c_int; IClass c_NoneType]).
  split; [vm_compute; reflexivity|]. split; [apply sp_union; repeat constructor|].
  split; vm_compute; discriminate.
Qed.
(* (repaired: isuniontype compares the origin by identity) *)
Example C17_union_by_identity : run_pred tbl P_isuniontype (IClass k_Union) = Ok false.
Proof. vm_compute. reflexivity. Qed.

(* (repaired: unwrap() takes the arguments of the resolved qualifier; bare forms fall through) *)
Example C17_unwrap_qualifier_behind_wrapper :
  unwrap tbl (INewType "N" (IClassVar (IClass c_int))) = Ok (IClass c_int)
  /\ unwrap tbl (IAlias "A" (IFinal (IClass c_int))) = Ok (IClass c_int)
  /\ unwrap tbl (ISpecial SFinal) = Ok (ISpecial SFinal)
  /\ unwrap tbl (IAlias "A" (INewType "N" (IFinal (IClassVar (ILiteral [LBool true]))))) = Ok (ILiteral [LBool true]).
Proof. vm_compute. repeat split. Qed.

(* (mirrors refs.forwardref since /repo 31a6d65: unwrap() of an alias of a string drops "<module>." where it leads a
   dotted name, and only there) *)
Example C17_unwrap_strips_module :
  unwrap tbl (IAliasStr "A" "verif_c17_mod.UData") = Ok (IForwardRef "UData" (Some user_module))
  /\ unwrap tbl (IAliasStr "B" "dict[verif_c17_mod.UData, verif_c17_mod.UNamed]")
      = Ok (IForwardRef "dict[UData, UNamed]" (Some user_module))
  /\ unwrap tbl (IAliasStr "C" "list[UData]") = Ok (IForwardRef "list[UData]" (Some user_module))
  /\ unwrap tbl (IAliasStr "D" "xverif_c17_mod.UData | pkg.verif_c17_mod.UData")
      = Ok (IForwardRef "xverif_c17_mod.UData | pkg.verif_c17_mod.UData" (Some user_module)).
Proof. vm_compute. repeat split. Qed.
(* the text function forwardref had before (str.replace: every occurrence) differs *)
Theorem C17_refuted_pinned_forwardref :
  remove_all_pinned "app." "app.webapp.Model" = "webModel" /\ fref_name "app" "app.webapp.Model" = "webapp.Model".
Proof. vm_compute. split; reflexivity. Qed.

Print Assumptions C17_tables_ok.
Print Assumptions C17_agrees.
Print Assumptions C17_total.
Print Assumptions C17_spelling_origin.
Print Assumptions C17_spelling.
Print Assumptions C17_spelling_union.
Print Assumptions C17_abstract_unmapped.
Print Assumptions C17_origin_concrete.
Print Assumptions C17_stable.
Print Assumptions C17_refuted_spelling_subscripted.
Print Assumptions C17_refuted_cache_spelling.
Print Assumptions C17_refuted_pinned_forwardref.
