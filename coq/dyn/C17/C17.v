(* Property C17 -- type predicates agree with Python's own type semantics.
   Compiled on every run against the class lattice and the inspection tables regenerated from the
   live module and interpreter (TLRun.GenInspectTables).  This file contains only the property theorems,
   their non-vacuity examples and the refutation witnesses of the excluded regions. *)
From Coq Require Import List NArith ZArith String Bool.
Import ListNotations.
Require Import TL.Model.Inspect TL.Model.InspectSpec TL.Model.InspectCache TL.Proofs.InspectLemmas.
Require Import TLRun.GenInspectTables.
Local Open Scope string_scope.

(* The statement at full strength: no guard, every predicate, every history.  It is FALSE of the
   faithful model (see the C17_refuted_* witnesses); the theorems below carry explicit guards. *)
Definition C17_full : Prop :=
  (forall p t b, runtime_says tbl p t = Some b -> run_pred tbl p t = Ok b)
  /\ (forall p a b, spell tbl a b -> run_pred tbl p a = run_pred tbl p b)
  /\ (forall p h, pred_history tbl p h = map (run_pred tbl p) h)
  /\ (forall t c, head_class tbl (strip t) = Some c -> subclass tbl c c_Collection = true ->
        exists d, origin tbl t = IClass d /\ is_abstract_cls tbl d = false).

(* the reflected tables satisfy what the proofs assume about them *)
Theorem C17_tables_ok : tables_ok tbl = true.
Proof. vm_compute. reflexivity. Qed.

(* Every predicate that stands for a subclass test (22 of them: date/datetime/time/timedelta/decimal/
   fraction/uuid/iterable/iterator/tuple/sequence/collection/mapping via origin(); enum/text/string/
   bytes/number/integer/float/pattern/path on the resolved object) answers exactly what issubclass says
   for the class the annotation resolves to -- for every NewType chain of any length, optionally ending
   in an alias, over a class, a typing alias or a parameterised generic with arbitrary arguments. *)
Theorem C17_agrees : forall p t b,
  runtime_says tbl p t = Some b -> c17_guard tbl p t = true -> run_pred tbl p t = Ok b.
Proof. intros p t b. exact (agrees tbl p t b C17_tables_ok). Qed.

(* inside the domain and the guard no predicate raises *)
Theorem C17_total : forall p t,
  in_domain tbl p t = true -> c17_guard tbl p t = true -> exists b, run_pred tbl p t = Ok b.
Proof. intros p t. exact (total tbl p t C17_tables_ok). Qed.

(* origin() does not depend on the spelling of a class-like annotation (typing.List[int] vs list[int],
   typing.Mapping vs collections.abc.Mapping, under any NewType chain / alias) ... *)
Theorem C17_spelling_origin : forall a b c,
  spell tbl a b -> chain_ok a = true -> head_class tbl (strip a) = Some c -> origin tbl a = origin tbl b.
Proof. exact (spelling_origin tbl). Qed.

(* ... hence neither does any predicate of the origin() family *)
Theorem C17_spelling : forall p f a b c,
  spell tbl a b -> chain_ok a = true -> head_class tbl (strip a) = Some c ->
  family_of p = Some f -> uses_map f = true -> run_pred tbl p a = run_pred tbl p b.
Proof. exact (spelling_pred tbl). Qed.

(* Union[..] / Optional[..] / X | Y with pairwise equally-meant members (any length): all are unions,
   and optional-ness is the same *)
Theorem C17_spelling_union : forall s s' l l',
  Forall2 (spell tbl) l l' ->
  isuniontype tbl (IUnion s l) = true /\ isuniontype tbl (IUnion s' l') = true
  /\ isoptionaltype tbl (IUnion s l) = isoptionaltype tbl (IUnion s' l').
Proof. exact (spelling_union tbl C17_tables_ok). Qed.

(* origin() of a collection annotation is a concrete class of that kind; the only abstract classes
   below collections.abc.Collection without a concrete image are listed by computation *)
Theorem C17_abstract_unmapped : abstract_unmapped tbl = [k_abcByteString].
Proof. vm_compute. reflexivity. Qed.
Theorem C17_origin_concrete : forall t c,
  chain_ok t = true -> head_class tbl (strip t) = Some c -> subclass tbl c c_Collection = true ->
  c <> k_abcByteString ->
  origin tbl t = IClass (doc_map tbl c)
  /\ is_abstract_cls tbl (doc_map tbl c) = false /\ same_kind tbl (doc_map tbl c) c = true.
Proof.
  intros t c Hc Hh Hcol Hne.
  apply (origin_concrete tbl t c C17_tables_ok Hc Hh Hcol).
  rewrite C17_abstract_unmapped. intros [H|[]]. apply Hne. symmetry. exact H.
Qed.

(* stable across calls: a history of calls of one predicate in which no key occurs in two spellings
   gets, call by call, the cold-cache answers *)
Theorem C17_stable : forall p h,
  (forall a b, In a h -> In b h -> key_eq a b = true -> a = b) ->
  pred_history tbl p h = map (run_pred tbl p) h.
Proof. exact (pred_history_stable tbl). Qed.

(* ---------------------------------------------------------------- non-vacuity *)
Definition ex_chain : ity :=
  INewType "Outer" (INewType "Inner" (IAlias "Rows" (ITypingSub al_Sequence [IUnion UOptional [IClass c_int; IClass c_NoneType]]))).
Example C17_agrees_satisfiable :
  runtime_says tbl P_isiterabletype ex_chain = Some true /\ c17_guard tbl P_isiterabletype ex_chain = true
  /\ runtime_says tbl P_ismappingtype ex_chain = Some false /\ c17_guard tbl P_ismappingtype ex_chain = true
  /\ runtime_says tbl P_isstringtype (INewType "S" (INewType "R" (IClass c_str))) = Some true
  /\ c17_guard tbl P_isstringtype (INewType "S" (INewType "R" (IClass c_str))) = true
  /\ origin tbl ex_chain = IClass c_list.
Proof. vm_compute. repeat split. Qed.
Example C17_spelling_satisfiable :
  spell tbl (INewType "N" (ITypingSub al_Mapping [IClass c_str; ITypingSub al_List [IClass c_int]]))
            (INewType "N" (IClassSub (ta_origin tbl al_Mapping) [IClass c_str; IClassSub (ta_origin tbl al_List) [IClass c_int]]))
  /\ chain_ok (INewType "N" (ITypingSub al_Mapping [IClass c_str; ITypingSub al_List [IClass c_int]])) = true
  /\ family_of P_ismappingtype = Some FMapping.
Proof.
  split; [|split; reflexivity].
  apply sp_newtype. apply sp_sub. repeat constructor.
Qed.
Example C17_concrete_satisfiable :
  chain_ok (ITypingSub al_MutableSet [IClass c_int]) = true
  /\ head_class tbl (strip (ITypingSub al_MutableSet [IClass c_int])) = Some k_abcMutableSet
  /\ subclass tbl k_abcMutableSet c_Collection = true /\ k_abcMutableSet <> k_abcByteString
  /\ doc_map tbl k_abcMutableSet = c_set.
Proof. vm_compute. repeat split. discriminate. Qed.
Example C17_stable_satisfiable :
  let h := [IUnion UOptional [IClass c_int; IClass c_NoneType]; IClass c_int;
            IUnion UOptional [IClass c_int; IClass c_NoneType]] in
  pred_history tbl P_issubscriptedgeneric h = [Ok true; Ok false; Ok true].
Proof. vm_compute. reflexivity. Qed.

(* ---------------------------------------------------------------- refutations of the excluded regions *)
(* wrapper chains the code cannot resolve: alias of NewType, alias of alias -> TypeError *)
Theorem C17_refuted_alias_chain : exists t,
  runtime_says tbl P_isdatetype t = Some true /\ chain_ok t = false /\ run_pred tbl P_isdatetype t = Raise EType.
Proof. exists (IAlias "A" (INewType "N" (IClass c_date))). vm_compute. repeat split. Qed.
Theorem C17_refuted_alias_alias : exists t,
  runtime_says tbl P_isstringtype t = Some true /\ chain_ok t = false /\ run_pred tbl P_isstringtype t = Ok false.
Proof. exists (IAlias "A" (IAlias "B" (IClass c_str))). vm_compute. repeat split. Qed.
(* (repaired in d552f9e: a class whose instances are callable keeps itself as origin) *)
Example C17_callable_class_agrees :
  runtime_says tbl P_isdatetype (IClass k_UCallable) = Some false
  /\ c17_guard tbl P_isdatetype (IClass k_UCallable) = true
  /\ origin tbl (IClass c_type) = IClass c_type.
Proof. vm_compute. repeat split. Qed.
(* the raw family does not take the typing origin: typing.Pattern[str], re.Pattern[str] *)
Theorem C17_refuted_raw_generic : exists t,
  runtime_says tbl P_ispatterntype t = Some true /\ chain_ok t = true /\ run_pred tbl P_ispatterntype t = Ok false.
Proof. exists (ITypingSub al_Pattern [IClass c_str]). vm_compute. repeat split. Qed.
(* spelling dependence with a cold cache: string-based issubscriptedgeneric *)
Theorem C17_refuted_spelling_subscripted : exists a b,
  spell tbl a b /\ run_pred tbl P_issubscriptedgeneric a <> run_pred tbl P_issubscriptedgeneric b.
Proof.
  exists (IUnion UOptional [IClass c_int; IClass c_NoneType]), (IUnion UPipe [IClass c_int; IClass c_NoneType]).
  split; [apply sp_union; repeat constructor | vm_compute; discriminate].
Qed.
(* not stable across calls: whichever of two ==-equal spellings is asked first fixes the answer *)
Theorem C17_refuted_cache_spelling : exists p a b,
  key_eq a b = true /\ spell tbl a b
  /\ pred_history tbl p [a; b] <> map (run_pred tbl p) [a; b]
  /\ pred_history tbl p [b; a] <> map (run_pred tbl p) [b; a].
Proof.
  exists P_issubscriptedgeneric,
    (IUnion UOptional [IClass c_int; IClass c_NoneType]), (IUnion UPipe [IClass c_int; IClass c_NoneType]).
  split; [vm_compute; reflexivity|]. split; [apply sp_union; repeat constructor|].
  split; vm_compute; discriminate.
Qed.
(* isuniontype/isoptionaltype look at the NAME of the origin *)
Theorem C17_refuted_union_by_name : run_pred tbl P_isuniontype (IClass k_Union) = Ok true.
Proof. vm_compute. reflexivity. Qed.

Print Assumptions C17_tables_ok.
Print Assumptions C17_agrees.
Print Assumptions C17_total.
Print Assumptions C17_spelling_origin.
Print Assumptions C17_spelling.
Print Assumptions C17_spelling_union.
Print Assumptions C17_abstract_unmapped.
Print Assumptions C17_origin_concrete.
Print Assumptions C17_stable.
Print Assumptions C17_refuted_alias_chain.
Print Assumptions C17_refuted_alias_alias.
Print Assumptions C17_refuted_raw_generic.
Print Assumptions C17_refuted_spelling_subscripted.
Print Assumptions C17_refuted_cache_spelling.
Print Assumptions C17_refuted_union_by_name.
