(* Property C08 -- union members are tried in declared order, None always honoured.
   Compiled on every run against the suppressed-exception tables measured on the live
   UnionUnmarshaller / UnionMarshaller classes (TLRun.GenSuppress: sup_u, sup_m).
   This file contains only the property theorems.  Each holds for every value universe V, arbitrary
   member routines (any functions V -> res V), member lists of any length, every input.

   Vocabulary (Model/Union.v): a declared member m has m_none m (it is NoneType) and its routine
   m_run m;  rejects r x = r raises some Exception on x;  rejects_sup sup r x = r raises a kind the
   try-loop swallows;  none_member_ok = what the library's own NoneType routine does (accept None,
   reject the rest) -- proved for the model of NoneTypeUnmarshaller in C08_nonetype_routine. *)
From Coq Require Import List Arith Bool Permutation.
Import ListNotations.
Require Import TL.Model.Union TL.Proofs.UnionLemmas TLRun.GenSuppress.

(* "whichever error the member used to reject": every Exception kind is swallowed by both loops
   (decided on the measured tables, all kinds) *)
Theorem C08_every_rejection_swallowed : swallows_all sup_u = true /\ swallows_all sup_m = true.
Proof. vm_compute. split; reflexivity. Qed.

Theorem C08_rejects_is_swallowed : forall (V : Type) (r : routine V) (x : V),
  rejects r x -> rejects_sup sup_u r x /\ rejects_sup sup_m r x.
Proof. intros V r x H. exact (conj (rejects_is_swallowed V sup_u r x (proj1 C08_every_rejection_swallowed) H)
                                   (rejects_is_swallowed V sup_m r x (proj2 C08_every_rejection_swallowed) H)). Qed.

(* unmarshal(Union[A1..An], x) answers y  <->  some member i, IN DECLARATION ORDER, answers y and every
   member declared before it rejected x.  (All inputs except "x is None and None is a member": C08_none.) *)
Theorem C08_first_acceptor : forall (V : Type) (vnone : V) (ms : list (member V)) (x y : V),
  (forall m, In m ms -> none_member_ok vnone sup_u m) ->
  x <> vnone \/ isoptional ms = false ->
  (unm_union sup_u ms x = Ok y <->
   exists i m, nth_error ms i = Some m /\ m_run m x = Ok y /\
               forall j mj, j < i -> nth_error ms j = Some mj -> rejects_sup sup_u (m_run mj) x).
Proof. intros V vnone ms x y Hok Hx. exact (unm_first_acceptor V vnone sup_u ms x y Hok Hx). Qed.

(* the routine list the constructor builds: a permutation of the declared members in which the members
   other than None keep their declared order and None comes first *)
Theorem C08_order : forall (V : Type) (ms : list (member V)),
  Permutation (stack_u ms) ms /\
  filter not_none (stack_u ms) = filter not_none ms /\
  filter m_none (stack_u ms) = filter m_none ms /\
  exists k, Forall (fun m => m_none m = true) (firstn k (stack_u ms)) /\
            Forall (fun m => m_none m = false) (skipn k (stack_u ms)).
Proof. intros V ms. exact (stack_u_order V ms). Qed.

(* None is a member, at ANY position, and x is None  =>  None *)
Theorem C08_none : forall (V : Type) (vnone : V) (ms : list (member V)),
  (forall m, In m ms -> none_member_ok vnone sup_u m) ->
  (exists m, In m ms /\ m_none m = true) ->
  unm_union sup_u ms vnone = Ok vnone.
Proof. intros V vnone ms Hok Hex. exact (unm_none V vnone sup_u ms Hok (proj2 (isoptional_iff V ms) Hex)). Qed.

(* for every other input, trying None first changes nothing: the result is that of the plain loop over
   the declared order, and also that of the loop over the declared members without None *)
Theorem C08_none_first_harmless : forall (V : Type) (vnone : V) (ms : list (member V)) (x : V),
  (forall m, In m ms -> none_member_ok vnone sup_u m) -> x <> vnone ->
  unm_union sup_u ms x = first_ok sup_u (map m_run ms) x /\
  unm_union sup_u ms x = first_ok sup_u (map m_run (filter not_none ms)) x.
Proof. intros V vnone ms x Hok Hx. exact (unm_other V vnone sup_u ms x Hok Hx). Qed.

(* every member rejects x, with whatever Exception  =>  ValueError *)
Theorem C08_raises_value : forall (V : Type) (ms : list (member V)) (x : V),
  Forall (fun m => rejects (m_run m) x) ms -> unm_union sup_u ms x = Raise EValue.
Proof. intros V ms x HF.
  exact (unm_all_reject V sup_u ms x (swallows_all_spec sup_u (proj1 C08_every_rejection_swallowed)) HF). Qed.

(* ValueError ONLY when every member rejected x; and no other Exception kind ever comes out *)
Theorem C08_value_only_if_all_reject : forall (V : Type) (ms : list (member V)) (x : V) (e : exn),
  unm_union sup_u ms x = Raise e ->
  (e = EValue \/ is_exception e = false) /\
  (e = EValue -> Forall (fun m => rejects_sup sup_u (m_run m) x) ms).
Proof. intros V ms x e H. exact (unm_raise_spec V sup_u ms x e (proj1 C08_every_rejection_swallowed) H). Qed.

(* the library's NoneType routine is a None member as assumed above, whatever serdes.decode does to
   other inputs (as long as it never turns them into None) *)
Theorem C08_nonetype_routine : forall (V : Type) (vnone : V) (is_none : V -> bool) (decode : V -> res V),
  (forall x, is_none x = true <-> x = vnone) -> decode_ok V vnone sup_u decode ->
  none_member_ok vnone sup_u {| m_none := true; m_run := none_unm vnone is_none decode |}.
Proof. intros V vnone is_none decode Hn Hd.
  exact (none_unm_ok V vnone is_none Hn sup_u decode
           (swallows_all_spec sup_u (proj1 C08_every_rejection_swallowed) EValue eq_refl) Hd). Qed.

(* ---- marshal ---- *)

(* optional union, value None  =>  None *)
Theorem C08m_none : forall (V : Type) (vnone : V) (is_none : V -> bool) (ms : list (member V)),
  (forall x, is_none x = true <-> x = vnone) ->
  (exists m, In m ms /\ m_none m = true) -> mar_union is_none sup_m ms vnone = Ok vnone.
Proof. intros V vnone is_none ms Hn Hex.
  exact (mar_none V vnone is_none Hn sup_m ms (proj2 (isoptional_iff V ms) Hex)). Qed.

(* otherwise: first acceptor in declaration order (no reordering on this side) *)
Theorem C08m_first_acceptor : forall (V : Type) (vnone : V) (is_none : V -> bool) (ms : list (member V)) (x y : V),
  (forall x, is_none x = true <-> x = vnone) ->
  x <> vnone \/ isoptional ms = false ->
  mar_union is_none sup_m ms x = first_ok sup_m (map m_run ms) x /\
  (mar_union is_none sup_m ms x = Ok y <->
   exists i m, nth_error ms i = Some m /\ m_run m x = Ok y /\
               forall j mj, j < i -> nth_error ms j = Some mj -> rejects_sup sup_m (m_run mj) x).
Proof. intros V vnone is_none ms x y Hn Hx.
  exact (mar_spec V vnone is_none Hn sup_m ms x y Hx). Qed.

Theorem C08m_raises_value : forall (V : Type) (vnone : V) (is_none : V -> bool) (ms : list (member V)) (x : V),
  (forall x, is_none x = true <-> x = vnone) ->
  x <> vnone \/ isoptional ms = false ->
  Forall (fun m => rejects (m_run m) x) ms -> mar_union is_none sup_m ms x = Raise EValue.
Proof. intros V vnone is_none ms x Hn Hx HF.
  exact (mar_all_reject V vnone is_none Hn sup_m ms x
           (swallows_all_spec sup_m (proj2 C08_every_rejection_swallowed)) Hx HF). Qed.

Theorem C08m_value_only_if_all_reject : forall (V : Type) (is_none : V -> bool) (ms : list (member V)) (x : V) (e : exn),
  mar_union is_none sup_m ms x = Raise e ->
  (e = EValue \/ is_exception e = false) /\
  (e = EValue -> Forall (fun m => rejects_sup sup_m (m_run m) x) ms).
Proof. intros V is_none ms x e H. exact (mar_raise_spec V is_none sup_m ms x e (proj2 C08_every_rejection_swallowed) H). Qed.

(* the defect repaired by proposed_fixes/C08-none-first.diff, as a statement about the old constructor *)
Theorem C08_pinned_rotation_refuted :
  exists (sup : exn -> bool) (ms : list (member nat)),
    (forall m, In m ms -> none_member_ok 0 sup m) /\ isoptional ms = true /\
    unm_union_pinned sup ms 0 <> Ok 0 /\ unm_union sup ms 0 = Ok 0.
Proof. exact pinned_rotation_breaks_none. Qed.

(* ---- non-vacuity: Union[Decimal-like, None, str-like] with the library's NoneType routine ---- *)
Definition ex_decode (x : nat) : res nat := if Nat.eqb x 7 then Raise EUnicode else Ok x.   (* 7 = undecodable bytes *)
Definition ex_none : member nat := {| m_none := true; m_run := none_unm 0 (Nat.eqb 0) ex_decode |}.
Definition ex_dec : member nat :=     (* rejects small inputs with an ArithmeticError, None with TypeError *)
  {| m_none := false; m_run := fun x => if Nat.eqb x 0 then Raise EType else if Nat.ltb x 5 then Raise EArith else Ok (x * 2) |}.
Definition ex_str : member nat := {| m_none := false; m_run := fun x => Ok (x + 100) |}.
Definition ex_ms := [ex_dec; ex_none; ex_str].

(* the hypotheses used above, instantiated: is_none_spec, decode_ok, none_member_ok, a None member in the
   middle, an input every member rejects with different kinds *)
Example C08_hyps_satisfiable :
  (forall x, Nat.eqb 0 x = true <-> x = 0) /\
  decode_ok nat 0 sup_u ex_decode /\
  (forall m, In m ex_ms -> none_member_ok 0 sup_u m) /\
  (exists m, In m ex_ms /\ m_none m = true) /\
  Forall (fun m => rejects (m_run m) 3) [ex_dec; ex_none] /\
  3 <> 0 /\ isoptional [ex_dec; ex_str] = false.
Proof.
  assert (N : forall x, Nat.eqb 0 x = true <-> x = 0).
  { intros x. split; [intros H; symmetry; apply Nat.eqb_eq; exact H | intros ->; reflexivity]. }
  assert (D : decode_ok nat 0 sup_u ex_decode).
  { split; [reflexivity|]. intros x Hx. unfold ex_decode. destruct (Nat.eqb x 7) eqn:E.
    - right. exists EUnicode. split; [reflexivity | vm_compute; reflexivity].
    - left. exists x. split; [reflexivity | exact Hx]. }
  split; [exact N|]. split; [exact D|]. split; [|split; [exists ex_none; split; [cbn; tauto | reflexivity]|]].
  - intros m [<-|[<-|[<-|[]]]]; try (intros Hn; discriminate Hn).
    exact (C08_nonetype_routine nat 0 (Nat.eqb 0) ex_decode N D).
  - split; [|split; [discriminate | reflexivity]].
    constructor; [exists EArith; split; reflexivity|]. constructor; [exists EValue; split; reflexivity|]. constructor.
Qed.

(* and what the theorems then say on it *)
Example C08_instance :
  unm_union sup_u ex_ms 0 = Ok 0 /\                       (* C08_none: None in the middle *)
  unm_union sup_u ex_ms 3 = Ok 103 /\                     (* first member rejects with EArith, falls through to str *)
  unm_union sup_u ex_ms 9 = Ok 18 /\                      (* the first declared member wins although None was moved *)
  unm_union sup_u [ex_dec; ex_none] 3 = Raise EValue /\   (* every member rejects (EArith, EValue) -> ValueError *)
  mar_union (Nat.eqb 0) sup_m ex_ms 0 = Ok 0 /\
  mar_union (Nat.eqb 0) sup_m [ex_dec; ex_str] 3 = Ok 103 /\
  mar_union (Nat.eqb 0) sup_m [ex_dec; ex_dec] 3 = Raise EValue.
Proof. vm_compute. repeat split. Qed.

Print Assumptions C08_every_rejection_swallowed.
Print Assumptions C08_rejects_is_swallowed.
Print Assumptions C08_first_acceptor.
Print Assumptions C08_order.
Print Assumptions C08_none.
Print Assumptions C08_none_first_harmless.
Print Assumptions C08_raises_value.
Print Assumptions C08_value_only_if_all_reject.
Print Assumptions C08_nonetype_routine.
Print Assumptions C08m_none.
Print Assumptions C08m_first_acceptor.
Print Assumptions C08m_raises_value.
Print Assumptions C08m_value_only_if_all_reject.
Print Assumptions C08_pinned_rotation_refuted.
