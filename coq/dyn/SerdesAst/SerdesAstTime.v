(* Source translator tie of typelib/serdes.py, part 3: compiled on every run against TLRun.GenSerdesAstTime (the
   isinstance ladders of isoformat / unixtime as translated from the SOURCE of serdes.py on this run).  Only theorems. *)
From Coq Require Import List Bool ZArith String.
Import ListNotations.
Require Import TL.Model.Duration TL.Model.Temporal TL.Model.SerdesAstTime TL.Proofs.SerdesAstTimeLemmas TLRun.GenSerdesAstTime.

Lemma isoformat_ladder : iladder_ok src_isoformat dflt_isoformat = true.
Proof. vm_compute. reflexivity. Qed.
Lemma unixtime_steps : usteps_equiv src_unixtime canonical_unixtime = true.
Proof. vm_compute. reflexivity. Qed.

(* isoformat as written: the interpreter's own writer for date / datetime / time, the duration writer for timedelta *)
Theorem SerdesAstTime_isoformat : forall rt v, is_temporal v = true ->
  isoformat_src src_isoformat dflt_isoformat rt v = Some (isoformat rt v).
Proof. exact (iladder_sound _ _ isoformat_ladder). Qed.

(* unixtime as written: timedelta first, a time through now(), a date that is not a datetime through midnight UTC *)
Theorem SerdesAstTime_unixtime : forall rt v, is_temporal v = true -> run_usteps rt src_unixtime v = unixtime rt v.
Proof. exact (usteps_sound _ unixtime_steps). Qed.

Print Assumptions SerdesAstTime_isoformat.
Print Assumptions SerdesAstTime_unixtime.
