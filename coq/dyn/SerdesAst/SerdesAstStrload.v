(* Source translator tie of typelib/serdes.py, part 2 (the memoised body _strload): compiled on every run against TLRun.GenSerdesAstLoad (decode,
   load, strload, _strload as translated from the SOURCE of serdes.py on this run; `expected_body` names the version
   of the memoised body the run is checked against: canonical_dec unless the caller asked for the code before
   C14-strload-decode-first.diff).  Only theorems. *)
From Coq Require Import List Bool NArith.
Import ListNotations.
Require Import TL.Model.Serdes TL.Model.SerdesAstLoad TL.Proofs.SerdesAstLoadLemmas TLRun.GenSerdesAstLoad.

Lemma strload_body_prog : sprog_equiv src__strload expected_body = true.
Proof. vm_compute. reflexivity. Qed.

(* _strload as written: the attempts, what each hands to which parser, the exception kinds each suppresses *)
Theorem SerdesAstLoad__strload : forall rt k p, run_sprog rt src__strload k p = run_sprog rt expected_body k p.
Proof. exact (sprog_equiv_run _ _ strload_body_prog). Qed.

(* ... which is the model's memoised body *)
Theorem SerdesAstLoad__strload_model : forall rt k p, run_sprog rt src__strload k p = expected_model rt k p.
Proof. exact (expected_sound src__strload strload_body_prog). Qed.

Print Assumptions SerdesAstLoad__strload.
Print Assumptions SerdesAstLoad__strload_model.
