(* Source translator tie of typelib/serdes.py, part 1: compiled on every run against TLRun.GenSerdesAstIter, the
   ladders / straight-line bodies harness/serdesasttie.py translated from the SOURCE of serdes.py (ast) on this run.
   Only theorems. *)
From Coq Require Import List Bool Arith String.
Import ListNotations.
Require Import TL.Model.Iter TL.Model.SerdesAst TL.Proofs.SerdesAstLemmas TLRun.GenSerdesAstIter.

(* finite checks, decided by computation over the 29 class representatives *)
Theorem SerdesAst_get_items_iter_ladder : gladder_ok src_get_items_iter dflt_get_items_iter = true.
Proof. vm_compute. reflexivity. Qed.

Theorem SerdesAst_is_iterable_of_pairs_ladder : pladder_ok src_is_iterable_of_pairs dflt_is_iterable_of_pairs = true.
Proof. vm_compute. reflexivity. Qed.

(* get_items_iter as written selects, on any class, the strategy Iter.get_items_iter does (both code variants) *)
Theorem SerdesAst_get_items_iter : forall cf cl,
  get_items_iter_src src_get_items_iter dflt_get_items_iter cf cl = get_items_iter cf cl.
Proof. exact (gladder_sound _ _ SerdesAst_get_items_iter_ladder). Qed.

(* _is_iterable_of_pairs as written takes, on any value, the branch Iter.is_iterable_of_pairs does *)
Theorem SerdesAst_is_iterable_of_pairs : forall x,
  is_iterable_of_pairs_src src_is_iterable_of_pairs dflt_is_iterable_of_pairs x = is_iterable_of_pairs repaired x.
Proof. exact (pladder_sound _ _ SerdesAst_is_iterable_of_pairs_ladder). Qed.

Lemma iteritems_prog : items_prog_eqb src_iteritems canonical_items = true.
Proof. vm_compute. reflexivity. Qed.
Lemma itervalues_prog : values_prog_eqb src_itervalues canonical_values = true.
Proof. vm_compute. reflexivity. Qed.

Theorem SerdesAst_iteritems_body : forall cf x, run_items src_iteritems cf x = iteritems cf x.
Proof. exact (items_prog_sound src_iteritems iteritems_prog). Qed.

Theorem SerdesAst_itervalues_body : forall cf x, run_values src_itervalues cf x = itervalues cf x.
Proof. exact (values_prog_sound src_itervalues itervalues_prog). Qed.

(* the four functions as written, composed *)
Theorem SerdesAst_iteritems : forall x,
  iteritems_src src_is_iterable_of_pairs dflt_is_iterable_of_pairs
                src_get_items_iter dflt_get_items_iter src_iteritems x = iteritems repaired x.
Proof.
  exact (iteritems_src_sound _ _ _ _ _ SerdesAst_is_iterable_of_pairs_ladder SerdesAst_get_items_iter_ladder iteritems_prog).
Qed.

Theorem SerdesAst_itervalues : forall x,
  itervalues_src src_get_items_iter dflt_get_items_iter src_itervalues x = itervalues repaired x.
Proof. exact (itervalues_src_sound _ _ _ SerdesAst_get_items_iter_ladder itervalues_prog). Qed.

Print Assumptions SerdesAst_get_items_iter_ladder.
Print Assumptions SerdesAst_is_iterable_of_pairs_ladder.
Print Assumptions SerdesAst_get_items_iter.
Print Assumptions SerdesAst_is_iterable_of_pairs.
Print Assumptions SerdesAst_iteritems_body.
Print Assumptions SerdesAst_itervalues_body.
Print Assumptions SerdesAst_iteritems.
Print Assumptions SerdesAst_itervalues.
