(* Source translator tie of typelib/serdes.py, part 2: compiled on every run against TLRun.GenSerdesAstLoad (decode,
   load, strload, _strload as translated from the SOURCE of serdes.py on this run; `expected_body` names the version
   of the memoised body the run is checked against: canonical_dec unless the caller asked for the code before
   C14-strload-decode-first.diff).  Only theorems. *)
From Coq Require Import List Bool NArith.
Import ListNotations.
Require Import TL.Model.Serdes TL.Model.SerdesAstLoad TL.Proofs.SerdesAstLoadLemmas TLRun.GenSerdesAstLoad.

Lemma load_ladder : lladder_ok src_load dflt_load = true.
Proof. vm_compute. reflexivity. Qed.
Lemma strload_prog : slprog_ok src_strload = true.
Proof. vm_compute. reflexivity. Qed.
Lemma decode_prog : dprog_ok src_decode = true.
Proof. vm_compute. reflexivity. Qed.

(* load as written: strload on the five text carriers, the value itself otherwise *)
Theorem SerdesAstLoad_load : forall rt v, load_src src_load dflt_load rt v = load rt v.
Proof. exact (lladder_sound _ _ load_ladder). Qed.

(* strload as written: the carrier normalised, the key hashable, then the memoised body *)
Theorem SerdesAstLoad_strload : forall rt k p, strload_src src_strload (strload_body rt true) k p = strload rt k p.
Proof. exact (slprog_sound _ strload_prog). Qed.

Theorem SerdesAstLoad_decode : forall rt v, decode_src src_decode rt v = decode rt v.
Proof. exact (dprog_sound _ decode_prog). Qed.

Print Assumptions SerdesAstLoad_load.
Print Assumptions SerdesAstLoad_strload.
Print Assumptions SerdesAstLoad_decode.
