(* Property C16 -- type-context lookups see through aliases and references.
   Compiled on every run against the key tables regenerated from the live module
   (TLRun.GenCtxTables: ids of Python ==/hash classes of the key family, with
   inspection.unwrap / refs.forwardref / isinstance(_, ForwardRef) read from the import).
   This file contains only the property theorems and their non-vacuity examples.

   Machine:        Model/Ctx.v  run  (dict + __missing__ with its memo write + get)
   Specification:  Model/Ctx.v  spec_run (inserted pairs only; lookup = key itself, else --
                   unless the key is a ForwardRef -- its unwrapped form, else forwardref(key))
   Histories:      ops_ok = insertions use fresh keys; `in` only for stored keys or keys no
                   lookup would find (memoised alias keys are deliberately not observed)
   Key family:     any, subject to key_laws (visible hypothesis); fuel = bound on nested
                   __missing__ frames, 2 suffice under key_laws (never ONoFuel). *)
From Coq Require Import List Arith Bool PeanoNat.
Import ListNotations.
Require Import TL.Model.Ctx TL.Model.CtxEq TL.Proofs.CtxLemmas TLRun.GenCtxTables.

(* For every key family satisfying key_laws and every history allowed by ops_ok (any length),
   the TypeContext machine and the specification produce the same outputs. *)
Theorem C16_refines : forall (key val : Type) (key_eqb : key -> key -> bool) (is_ref : key -> bool)
    (unwrap fref : key -> key),
  key_laws key key_eqb is_ref unwrap fref ->
  forall (fuel : nat) (ops : list (op key val)), 2 <= fuel ->
  ops_ok key val key_eqb is_ref unwrap fref [] ops = true ->
  run key val key_eqb is_ref unwrap fref fuel [] ops = spec_run key val key_eqb is_ref unwrap fref [] ops.
Proof. intros key val key_eqb is_ref unwrap fref KL fuel ops Hf Hok. exact (refines key val key_eqb is_ref unwrap fref KL fuel ops Hf Hok). Qed.

(* After any allowed history: a key stored neither under itself, its unwrapped form nor its
   forward reference raises KeyError on [], yields the default from get, and is not `in`. *)
Theorem C16_keyerror : forall (key val : Type) (key_eqb : key -> key -> bool) (is_ref : key -> bool)
    (unwrap fref : key -> key),
  key_laws key key_eqb is_ref unwrap fref ->
  forall (fuel : nat) (ops : list (op key val)) (k : key) (d : val), 2 <= fuel ->
  ops_ok key val key_eqb is_ref unwrap fref [] ops = true ->
  spec_lookup key val key_eqb is_ref unwrap fref (spec_final key val key_eqb is_ref unwrap fref [] ops) k = None ->
  run key val key_eqb is_ref unwrap fref fuel [] (ops ++ [OItem k; OGet k d; OIn k])
  = spec_run key val key_eqb is_ref unwrap fref [] ops ++ [OKeyError; OVal d; OBool false].
Proof. intros key val key_eqb is_ref unwrap fref KL fuel ops k d Hf Hok Hn. exact (keyerror key val key_eqb is_ref unwrap fref KL fuel ops k d Hf Hok Hn). Qed.

(* A key inserted with value v is found under itself with v by [], get and `in`, whatever
   allowed operations came before and after the insertion. *)
Theorem C16_stored_found : forall (key val : Type) (key_eqb : key -> key -> bool) (is_ref : key -> bool)
    (unwrap fref : key -> key),
  key_laws key key_eqb is_ref unwrap fref ->
  forall (fuel : nat) (ops1 : list (op key val)) (k : key) (v : val) (ops2 : list (op key val)) (d : val),
  2 <= fuel ->
  ops_ok key val key_eqb is_ref unwrap fref [] (ops1 ++ OSet k v :: ops2) = true ->
  run key val key_eqb is_ref unwrap fref fuel [] ((ops1 ++ OSet k v :: ops2) ++ [OItem k; OGet k d; OIn k])
  = spec_run key val key_eqb is_ref unwrap fref [] (ops1 ++ OSet k v :: ops2) ++ [OVal v; OVal v; OBool true].
Proof. intros key val key_eqb is_ref unwrap fref KL fuel ops1 k v ops2 d Hf Hok. exact (stored_found key val key_eqb is_ref unwrap fref KL fuel ops1 k v ops2 d Hf Hok). Qed.

(* Inserting a lookup ([] or get) anywhere into an allowed history changes no other output. *)
Theorem C16_lookup_pure : forall (key val : Type) (key_eqb : key -> key -> bool) (is_ref : key -> bool)
    (unwrap fref : key -> key),
  key_laws key key_eqb is_ref unwrap fref ->
  forall (fuel : nat) (ops1 : list (op key val)) (l : op key val) (ops2 : list (op key val)),
  2 <= fuel -> is_lookup key val l = true ->
  ops_ok key val key_eqb is_ref unwrap fref [] (ops1 ++ ops2) = true ->
  exists x, run key val key_eqb is_ref unwrap fref fuel [] (ops1 ++ l :: ops2)
            = firstn (length ops1) (run key val key_eqb is_ref unwrap fref fuel [] (ops1 ++ ops2)) ++ x ::
              skipn (length ops1) (run key val key_eqb is_ref unwrap fref fuel [] (ops1 ++ ops2)).
Proof. intros key val key_eqb is_ref unwrap fref KL fuel ops1 l ops2 Hf Hl Hok. exact (lookup_pure key val key_eqb is_ref unwrap fref KL fuel ops1 l ops2 Hf Hl Hok). Qed.

(* The hypotheses are satisfiable: the key family of the quantifier, as the live
   inspection.unwrap / refs.forwardref behave on it on this run, satisfies key_laws. *)
Theorem C16_live_tabs_ok : tabs_ok live = true.
Proof. vm_compute. reflexivity. Qed.

Theorem C16_instance : key_laws nat Nat.eqb (tab_isref live) (tab_unwrap live) (tab_fref live).
Proof. exact (tabs_ok_sound live C16_live_tabs_ok). Qed.

(* hence, for the live family, every allowed history of every length *)
Theorem C16_refines_live : forall (fuel : nat) (ops : list kop), 2 <= fuel ->
  t_ops_ok live ops = true -> t_run live fuel ops = t_spec_run live ops.
Proof. intros fuel ops Hf Hok. exact (refines nat nat Nat.eqb (tab_isref live) (tab_unwrap live) (tab_fref live) C16_instance fuel ops Hf Hok). Qed.

(* "its unwrapped form (through NewType, TypeAliasType, Final, ClassVar)": for every wrapper of a
   plain class in the catalogue the harness builds -- one and two levels deep: NewType, alias,
   Final, ClassVar of the class; Final / ClassVar / alias of its NewType, Final / NewType of its
   alias, NewType of alias of NewType -- the live unwrap reaches the class itself *)
Theorem C16_unwrap_reaches_base : tabs_reach live catalogue = true.
Proof. vm_compute. reflexivity. Qed.

(* hence each of them finds the value stored under the class in a fresh context
   (no earlier lookup that could have memoised an intermediate key) *)
Theorem C16_wrapper_finds_base : forall (k b v fuel : nat), In (k, b) catalogue -> 2 <= fuel ->
  t_run live fuel [OSet b v; OItem k] = [OUnit; OVal v].
Proof. intros k b v fuel Hin Hf. exact (reach_found live catalogue C16_live_tabs_ok C16_unwrap_reaches_base k b v fuel Hin Hf). Qed.

Example C16_catalogue_nontrivial :
  length catalogue = 33 /\ In (k_NTAN0, k_B0) catalogue /\ In (k_FIN1, k_B1) catalogue /\ In (k_TAN2, k_B2) catalogue.
Proof. vm_compute. repeat split; tauto. Qed.

(* non-vacuity: an allowed history on the live family that takes every route: direct hit,
   unwrap hit (then memoised), unwrapped form before naming reference, string alias through
   the reference to its target, reference key bail-out, default, membership *)
Definition ex_ops : list kop :=
  [ OSet k_B0 11; OItem k_NT0; OSet k_FRNT0 12; OItem k_NT0; OGet k_TA0 7; OItem k_FI0;
    OItem k_SA0; OSet k_FR0 13; OItem k_SA0; OItem k_FR1; OGet k_FR1 7; OItem k_FRNT0;
    OSet k_FRTA1 14; OItem k_TA1; OIn k_B0; OIn k_B1; OItem k_B1 ].
Example C16_hyps_satisfiable :
  t_ops_ok live ex_ops = true /\
  t_run live 2 ex_ops =
  [ OUnit; OVal 11; OUnit; OVal 11; OVal 11; OVal 11;
    OKeyError; OUnit; OVal 13; OKeyError; OVal 7; OVal 12;
    OUnit; OVal 14; OBool true; OBool false; OKeyError ].
Proof. vm_compute. split; reflexivity. Qed.

(* why the guard is there (information; the property text itself restricts the histories):
   outside it the memo entries become visible *)
Example C16_overwrite_observes_memo :
  t_run live 2 [OSet k_B0 11; OItem k_NT0; OSet k_B0 12; OItem k_NT0]
    = [OUnit; OVal 11; OUnit; OVal 11] /\
  t_spec_run live [OSet k_B0 11; OItem k_NT0; OSet k_B0 12; OItem k_NT0]
    = [OUnit; OVal 11; OUnit; OVal 12].
Proof. vm_compute. split; reflexivity. Qed.
Example C16_in_observes_memo :
  t_run live 2 [OSet k_B0 11; OIn k_NT0; OItem k_NT0; OIn k_NT0]
    = [OUnit; OBool false; OVal 11; OBool true].
Proof. vm_compute. reflexivity. Qed.

Print Assumptions C16_refines.
Print Assumptions C16_keyerror.
Print Assumptions C16_stored_found.
Print Assumptions C16_lookup_pure.
Print Assumptions C16_live_tabs_ok.
Print Assumptions C16_instance.
Print Assumptions C16_refines_live.
Print Assumptions C16_unwrap_reaches_base.
Print Assumptions C16_wrapper_finds_base.
