(* Property C16 -- type-context lookups see through aliases and references.
   Compiled on every run against the key tables regenerated from the live module
   (TLRun.GenCtxTables: ids of Python ==/hash classes of the key family, with
   inspection.unwrap / refs.forwardref / isinstance(_, ForwardRef) / "refs.evaluate(_) is key"
   read from the import).
   This file contains only the property theorems and their non-vacuity examples.

   Machine:        Model/Ctx.v  run  (dict + __missing__ with its memo write, its scan over the
                   stored keys in insertion order + get)
   Specification:  Model/Ctx.v  spec_run (inserted pairs only, in insertion order; lookup = key
                   itself, else -- unless the key is a ForwardRef -- its unwrapped form, else a
                   forward reference naming it: forwardref(key) if stored, else the FIRST stored
                   reference that evaluates to the key, whatever module it was written in)
   Histories:      ops_ok = insertions use fresh keys; `in` only for stored keys or keys no
                   lookup would find (memoised alias keys are deliberately not observed)
   Key family:     any, subject to key_laws (visible hypothesis); names r k = "the reference r
                   evaluates to k"; fuel = bound on nested __missing__ frames, 1 suffices under
                   key_laws (never ONoFuel). *)
From Coq Require Import List Arith Bool PeanoNat.
Import ListNotations.
Require Import TL.Model.Ctx TL.Model.CtxEq TL.Proofs.CtxLemmas TLRun.GenCtxTables.

(* For every key family satisfying key_laws and every history allowed by ops_ok (any length),
   the TypeContext machine and the specification produce the same outputs. *)
Theorem C16_refines : forall (key val : Type) (key_eqb : key -> key -> bool) (is_ref : key -> bool)
    (unwrap fref : key -> key) (names : key -> key -> bool),
  key_laws key key_eqb is_ref unwrap fref names ->
  forall (fuel : nat) (ops : list (op key val)), 1 <= fuel ->
  ops_ok key val key_eqb is_ref unwrap fref names [] ops = true ->
  run key val key_eqb is_ref unwrap fref names fuel [] ops = spec_run key val key_eqb is_ref unwrap fref names [] ops.
Proof. intros key val key_eqb is_ref unwrap fref names KL fuel ops Hf Hok. exact (refines key val key_eqb is_ref unwrap fref names KL fuel ops Hf Hok). Qed.

(* After any allowed history: a key stored neither under itself, its unwrapped form, its
   forward reference nor any stored reference naming it (spec_lookup = None) raises KeyError on [],
   yields the default from get, and is not `in`. *)
Theorem C16_keyerror : forall (key val : Type) (key_eqb : key -> key -> bool) (is_ref : key -> bool)
    (unwrap fref : key -> key) (names : key -> key -> bool),
  key_laws key key_eqb is_ref unwrap fref names ->
  forall (fuel : nat) (ops : list (op key val)) (k : key) (d : val), 1 <= fuel ->
  ops_ok key val key_eqb is_ref unwrap fref names [] ops = true ->
  spec_lookup key val key_eqb is_ref unwrap fref names (spec_final key val key_eqb is_ref unwrap fref names [] ops) k = None ->
  run key val key_eqb is_ref unwrap fref names fuel [] (ops ++ [OItem k; OGet k d; OIn k])
  = spec_run key val key_eqb is_ref unwrap fref names [] ops ++ [OKeyError; OVal d; OBool false].
Proof. intros key val key_eqb is_ref unwrap fref names KL fuel ops k d Hf Hok Hn. exact (keyerror key val key_eqb is_ref unwrap fref names KL fuel ops k d Hf Hok Hn). Qed.

(* A key inserted with value v is found under itself with v by [], get and `in`, whatever
   allowed operations came before and after the insertion. *)
Theorem C16_stored_found : forall (key val : Type) (key_eqb : key -> key -> bool) (is_ref : key -> bool)
    (unwrap fref : key -> key) (names : key -> key -> bool),
  key_laws key key_eqb is_ref unwrap fref names ->
  forall (fuel : nat) (ops1 : list (op key val)) (k : key) (v : val) (ops2 : list (op key val)) (d : val),
  1 <= fuel ->
  ops_ok key val key_eqb is_ref unwrap fref names [] (ops1 ++ OSet k v :: ops2) = true ->
  run key val key_eqb is_ref unwrap fref names fuel [] ((ops1 ++ OSet k v :: ops2) ++ [OItem k; OGet k d; OIn k])
  = spec_run key val key_eqb is_ref unwrap fref names [] (ops1 ++ OSet k v :: ops2) ++ [OVal v; OVal v; OBool true].
Proof. intros key val key_eqb is_ref unwrap fref names KL fuel ops1 k v ops2 d Hf Hok. exact (stored_found key val key_eqb is_ref unwrap fref names KL fuel ops1 k v ops2 d Hf Hok). Qed.

(* Inserting a lookup ([] or get) anywhere into an allowed history changes no other output. *)
Theorem C16_lookup_pure : forall (key val : Type) (key_eqb : key -> key -> bool) (is_ref : key -> bool)
    (unwrap fref : key -> key) (names : key -> key -> bool),
  key_laws key key_eqb is_ref unwrap fref names ->
  forall (fuel : nat) (ops1 : list (op key val)) (l : op key val) (ops2 : list (op key val)),
  1 <= fuel -> is_lookup key val l = true ->
  ops_ok key val key_eqb is_ref unwrap fref names [] (ops1 ++ ops2) = true ->
  exists x, run key val key_eqb is_ref unwrap fref names fuel [] (ops1 ++ l :: ops2)
            = firstn (length ops1) (run key val key_eqb is_ref unwrap fref names fuel [] (ops1 ++ ops2)) ++ x ::
              skipn (length ops1) (run key val key_eqb is_ref unwrap fref names fuel [] (ops1 ++ ops2)).
Proof. intros key val key_eqb is_ref unwrap fref names KL fuel ops1 l ops2 Hf Hl Hok. exact (lookup_pure key val key_eqb is_ref unwrap fref names KL fuel ops1 l ops2 Hf Hl Hok). Qed.

(* "under a forward reference naming it", free of order: for a key k that is not a reference and
   whose canonical reference names it (fref_names: decided on the live tables below), a lookup finds
   something exactly when k is stored under itself, under its unwrapped form, or under ANY stored
   forward reference naming it -- whatever module the reference was written in. *)
Theorem C16_found_iff_named : forall (key val : Type) (key_eqb : key -> key -> bool) (is_ref : key -> bool)
    (unwrap fref : key -> key) (names : key -> key -> bool),
  key_laws key key_eqb is_ref unwrap fref names ->
  forall (S : st key val) (k : key), is_ref k = false -> fref_names key fref names k ->
  is_some (spec_lookup key val key_eqb is_ref unwrap fref names S k)
  = is_some (find key val key_eqb S k) || is_some (find key val key_eqb S (unwrap k))
    || named_stored key val is_ref names S k.
Proof. intros key val key_eqb is_ref unwrap fref names KL S k Hr Hn. exact (found_iff key val key_eqb is_ref unwrap fref names KL S k Hr Hn). Qed.

(* WHICH naming reference when several are stored (the statement is silent; this is the code):
   the one refs.forwardref builds if it is stored, otherwise the one inserted first. *)
Theorem C16_which_reference : forall (key val : Type) (key_eqb : key -> key -> bool) (is_ref : key -> bool)
    (unwrap fref : key -> key) (names : key -> key -> bool),
  forall (S : st key val) (k : key), is_ref k = false ->
  find key val key_eqb S k = None -> find key val key_eqb S (unwrap k) = None ->
  spec_lookup key val key_eqb is_ref unwrap fref names S k
  = orelse (find key val key_eqb S (fref k)) (first_named key val is_ref names S k).
Proof. intros key val key_eqb is_ref unwrap fref names S k Hr H1 H2. exact (which_ref key val key_eqb is_ref unwrap fref names S k Hr H1 H2). Qed.

(* ... on the machine: two references r1, r2 (r1 names k; neither is k, its unwrapped form or
   forwardref(k)) inserted in this order: context[k] shows r1's value. *)
Theorem C16_first_stored_wins : forall (key val : Type) (key_eqb : key -> key -> bool) (is_ref : key -> bool)
    (unwrap fref : key -> key) (names : key -> key -> bool),
  key_laws key key_eqb is_ref unwrap fref names ->
  forall (fuel : nat) (k r1 r2 : key) (v1 v2 : val), 1 <= fuel ->
  is_ref k = false -> is_ref r1 = true -> is_ref r2 = true -> names r1 k = true ->
  key_eqb r2 r1 = false -> key_eqb k r1 = false -> key_eqb k r2 = false ->
  key_eqb (unwrap k) r1 = false -> key_eqb (unwrap k) r2 = false ->
  key_eqb (fref k) r1 = false -> key_eqb (fref k) r2 = false ->
  run key val key_eqb is_ref unwrap fref names fuel [] [OSet r1 v1; OSet r2 v2; OItem k] = [OUnit; OUnit; OVal v1].
Proof. intros key val key_eqb is_ref unwrap fref names KL. exact (first_stored_wins key val key_eqb is_ref unwrap fref names KL). Qed.

(* The hypotheses are satisfiable: the key family of the quantifier, as the live
   inspection.unwrap / refs.forwardref / refs.evaluate behave on it on this run, satisfies key_laws. *)
Theorem C16_live_tabs_ok : tabs_ok live = true.
Proof. vm_compute. reflexivity. Qed.

Theorem C16_instance : key_laws nat Nat.eqb (tab_isref live) (tab_unwrap live) (tab_fref live) (tab_names live).
Proof. exact (tabs_ok_sound live C16_live_tabs_ok). Qed.

(* hence, for the live family, every allowed history of every length *)
Theorem C16_refines_live : forall (fuel : nat) (ops : list kop), 1 <= fuel ->
  t_ops_ok live ops = true -> t_run live fuel ops = t_spec_run live ops.
Proof. intros fuel ops Hf Hok. exact (refines nat nat Nat.eqb (tab_isref live) (tab_unwrap live) (tab_fref live) (tab_names live) C16_instance fuel ops Hf Hok). Qed.

(* "its unwrapped form (through NewType, TypeAliasType, Final, ClassVar)": for every wrapper of a
   plain class in the catalogue the harness builds -- one and two levels deep: NewType, alias,
   Final, ClassVar of the class; Final / ClassVar / alias of its NewType, Final / NewType of its
   alias, NewType of alias of NewType -- the live unwrap reaches the class itself *)
Theorem C16_unwrap_reaches_base : tabs_reach live catalogue = true.
Proof. vm_compute. reflexivity. Qed.

(* hence each of them finds the value stored under the class in a fresh context
   (no earlier lookup that could have memoised an intermediate key) *)
Theorem C16_wrapper_finds_base : forall (k b v fuel : nat), In (k, b) catalogue -> 1 <= fuel ->
  t_run live fuel [OSet b v; OItem k] = [OUnit; OVal v].
Proof. intros k b v fuel Hin Hf. exact (reach_found live catalogue C16_live_tabs_ok C16_unwrap_reaches_base k b v fuel Hin Hf). Qed.

(* "a forward reference naming it": for every named key of the family (classes, NewTypes, aliases:
   the hypothesis fref_names of C16_found_iff_named) the live refs.forwardref builds a reference that
   the live refs.evaluate sends back to the key *)
Theorem C16_canonical_ref_names_live : tabs_fref_names live named_keys = true.
Proof. vm_compute. reflexivity. Qed.

(* the references written in a module that merely imports the name (or under another name bound to
   the type, or naming a Final[..] key): references, different from forwardref(key) and from the
   unwrapped form, which the live refs.evaluate sends to the key *)
Theorem C16_foreign_refs_live : tabs_foreign live foreign_refs = true.
Proof. vm_compute. reflexivity. Qed.

(* hence each of them, stored alone in a fresh context, is found by a lookup of its type *)
Theorem C16_foreign_ref_finds_type : forall (r k v fuel : nat), In (r, k) foreign_refs -> 1 <= fuel ->
  t_run live fuel [OSet r v; OItem k] = [OUnit; OVal v].
Proof. intros r k v fuel Hin Hf. exact (foreign_found live foreign_refs C16_live_tabs_ok C16_foreign_refs_live r k v fuel Hin Hf). Qed.

(* references that cannot be evaluated (missing name, module never imported, missing attribute)
   are references and name nothing on the live table *)
Theorem C16_nameless_refs_live : tabs_nameless live nameless_refs = true.
Proof. vm_compute. reflexivity. Qed.

Example C16_foreign_nontrivial :
  length foreign_refs = 18 /\ In (k_XR0, k_B0) foreign_refs /\ In (k_YR1, k_B1) foreign_refs /\
  In (k_ZR2, k_B2) foreign_refs /\ In (k_XRNT0, k_NT0) foreign_refs /\ In (k_XRSA1, k_SA1) foreign_refs /\
  In (k_FRFI2, k_FI2) foreign_refs /\ length nameless_refs = 9 /\ length named_keys = 21 /\
  fref_names nat (tab_fref live) (tab_names live) k_B0 /\
  (* Final[B]: forwardref gives ForwardRef('Final', module='typing'), which does not name it *)
  tab_names live (tab_fref live k_FI0) k_FI0 = false.
Proof. vm_compute. repeat split; tauto. Qed.

(* the routes through the scan, on the live family: a reference through an importing module is
   found; of two naming references the one inserted first wins, in both orders; the canonical
   reference wins over an earlier foreign one; references that cannot be evaluated are skipped
   wherever they stand; the unwrapped form wins over any reference; a scanned hit is not memoised
   (the canonical reference inserted later takes over); a reference key itself has no fallback;
   a reference naming the class does not name its NewType *)
Example C16_scan_routes :
  t_ops_ok live [OSet k_XR0 10; OItem k_B0; OGet k_B0 7; OSet k_YR0 11; OItem k_B0; OSet k_FR0 12; OItem k_B0;
                 OItem k_NT0; OSet k_B0 13; OItem k_B0; OItem k_NT0; OItem k_YR0; OItem k_ZR0] = true /\
  t_run live 1 [OSet k_XR0 10; OItem k_B0; OGet k_B0 7; OSet k_YR0 11; OItem k_B0; OSet k_FR0 12; OItem k_B0;
                OItem k_NT0; OSet k_B0 13; OItem k_B0; OItem k_NT0; OItem k_YR0; OItem k_ZR0]
  = [OUnit; OVal 10; OVal 10; OUnit; OVal 10; OUnit; OVal 12; OKeyError; OUnit; OVal 13; OVal 13; OVal 11; OKeyError] /\
  t_run live 1 [OSet k_YR0 11; OSet k_XR0 10; OItem k_B0] = [OUnit; OUnit; OVal 11] /\
  t_run live 1 [OSet k_UR0 9; OSet k_UM0 8; OSet k_UA0 6; OItem k_B0; OSet k_ZR0 10; OItem k_B0]
  = [OUnit; OUnit; OUnit; OKeyError; OUnit; OVal 10] /\
  t_run live 1 [OSet k_XRNT1 10; OSet k_XR1 11; OItem k_NT1; OItem k_B1; OSet k_XRSA1 12; OItem k_SA1; OSet k_FRFI1 13; OItem k_FI1]
  = [OUnit; OUnit; OVal 10; OVal 11; OUnit; OVal 12; OUnit; OVal 13].
Proof. vm_compute. repeat split; reflexivity. Qed.

Example C16_catalogue_nontrivial :
  length catalogue = 33 /\ In (k_NTAN0, k_B0) catalogue /\ In (k_FIN1, k_B1) catalogue /\ In (k_TAN2, k_B2) catalogue.
Proof. vm_compute. repeat split; tauto. Qed.

(* non-vacuity: an allowed history on the live family that takes every route: direct hit,
   unwrap hit (then memoised), unwrapped form before naming reference, string alias through
   the reference to its target, reference key bail-out, default, membership *)
Definition ex_ops : list kop :=
  [ OSet k_B0 11; OItem k_NT0; OSet k_FRNT0 12; OItem k_NT0; OGet k_TA0 7; OItem k_FI0;
    OItem k_SA0; OSet k_FR0 13; OItem k_SA0; OItem k_FR1; OGet k_FR1 7; OItem k_FRNT0;
    OSet k_FRTA1 14; OItem k_TA1; OIn k_B0; OIn k_B1; OItem k_B1 ].
Example C16_hyps_satisfiable :
  t_ops_ok live ex_ops = true /\
  t_run live 2 ex_ops =
  [ OUnit; OVal 11; OUnit; OVal 11; OVal 11; OVal 11;
    OKeyError; OUnit; OVal 13; OKeyError; OVal 7; OVal 12;
    OUnit; OVal 14; OBool true; OBool false; OKeyError ].
Proof. vm_compute. split; reflexivity. Qed.

(* why the guard is there (information; the property text itself restricts the histories):
   outside it the memo entries become visible *)
Example C16_overwrite_observes_memo :
  t_run live 2 [OSet k_B0 11; OItem k_NT0; OSet k_B0 12; OItem k_NT0]
    = [OUnit; OVal 11; OUnit; OVal 11] /\
  t_spec_run live [OSet k_B0 11; OItem k_NT0; OSet k_B0 12; OItem k_NT0]
    = [OUnit; OVal 11; OUnit; OVal 12].
Proof. vm_compute. split; reflexivity. Qed.
Example C16_in_observes_memo :
  t_run live 2 [OSet k_B0 11; OIn k_NT0; OItem k_NT0; OIn k_NT0]
    = [OUnit; OBool false; OVal 11; OBool true].
Proof. vm_compute. reflexivity. Qed.

Print Assumptions C16_refines.
Print Assumptions C16_keyerror.
Print Assumptions C16_stored_found.
Print Assumptions C16_lookup_pure.
Print Assumptions C16_found_iff_named.
Print Assumptions C16_which_reference.
Print Assumptions C16_first_stored_wins.
Print Assumptions C16_live_tabs_ok.
Print Assumptions C16_instance.
Print Assumptions C16_refines_live.
Print Assumptions C16_unwrap_reaches_base.
Print Assumptions C16_wrapper_finds_base.
Print Assumptions C16_canonical_ref_names_live.
Print Assumptions C16_foreign_refs_live.
Print Assumptions C16_foreign_ref_finds_type.
Print Assumptions C16_nameless_refs_live.
