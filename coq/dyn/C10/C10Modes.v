(* Property C10 -- the source tie of the binder classes and of _get_binding's startpos.
   Compiled on every run against
     TLRun.GenBindingMatrix  (the dispatch matrix read from the live module) and
     TLRun.GenBinderModes    (harness/bindtie.py: binding.py parsed with `ast`; the body of every
                              concrete binder class's __call__ translated into an idiom pair, the
                              max_pos statements of _get_binding's loop translated into mp_rules).
   This file contains only the property theorems. *)
From Coq Require Import String List Arith Bool ZArith.
Import ListNotations.
Require Import TL.Model.Binding TL.Proofs.BindingLemmas TL.Model.BindingShell TL.Proofs.BindingShellLemmas.
Require Import TLRun.GenBindingMatrix TLRun.GenBinderModes.

(* the idioms the translator read off the source ARE posmode_of / kwmode_of, for every class the
   reflected matrix names ... *)
Theorem C10_modes_tied : modes_tied translated_modes rows = true.
Proof. vm_compute. reflexivity. Qed.
(* ... and for each of the 16 modelled classes *)
Theorem C10_modes_all : forallb (modes_agree translated_modes) all_bcls = true.
Proof. vm_compute. reflexivity. Qed.

Theorem C10_matrix_ok_src : matrix_ok rows = true.
Proof. vm_compute. reflexivity. Qed.

(* hence the call computed with the source's idioms is the call of the hand model, on all inputs *)
Theorem C10_src_is_model : forall (val : Type) (s : sig) (args : list val) (kw : list (nat * val)),
  bound_call_src val translated_modes rows s args kw = bound_call val rows s args kw.
Proof. intros val s args kw. exact (bound_call_src_eq val translated_modes rows s args kw C10_modes_tied). Qed.

(* C10_converts restated about what the source says now *)
Theorem C10_converts_src : forall (val : Type) (s : sig) (args : list val) (kw : list (nat * val)) ea ek,
  wfb s = true ->
  expected_pos val s args = Some ea -> expected_kw val s kw = Some ek ->
  bound_call_src val translated_modes rows s args kw = Ok (ea, ek).
Proof. intros val s args kw ea ek H1 H2 H3.
  exact (converts_src val translated_modes rows s args kw ea ek C10_modes_tied H1 C10_matrix_ok_src H2 H3). Qed.

Theorem C10_rejected_or_shape_src : forall (val : Type) (s : sig) (args : list val) (kw : list (nat * val)),
  bound_call_src val translated_modes rows s args kw = RaiseType \/
  exists ua uk, bound_call_src val translated_modes rows s args kw = Ok (ua, uk) /\
                length ua = length args /\ map fst uk = map fst kw.
Proof. intros val s args kw. exact (rejected_or_shape_src val translated_modes rows s args kw C10_modes_tied). Qed.

(* _get_binding: the translated max_pos statements satisfy the guard ... *)
Theorem C10_mp_rules_ok : mp_rules_ok translated_mp_rules translated_mp_fin = true.
Proof. vm_compute. reflexivity. Qed.
(* ... hence the loop as written computes Binding.get_startpos on every well-formed signature *)
Theorem C10_startpos_src : forall s : sig, wfb s = true ->
  startpos_src translated_mp_rules translated_mp_fin s = option_map Z.of_nat (get_startpos s).
Proof. intros s H. exact (startpos_src_sound translated_mp_rules translated_mp_fin s C10_mp_rules_ok H). Qed.

(* registration by index / by name happens for exactly the kinds the model says *)
Theorem C10_reg_kinds_ok : reg_kinds_ok translated_idx_kinds translated_name_kinds = true.
Proof. vm_compute. reflexivity. Qed.
Theorem C10_registration_src : forall (s : sig) (i : nat),
  idx_map_src translated_idx_kinds s i = idx_map s i /\ name_map_src translated_name_kinds s i = name_map s i.
Proof. intros s i. exact (reg_src_sound translated_idx_kinds translated_name_kinds s i C10_reg_kinds_ok). Qed.

(* non-vacuity: the guards bite.  One `else v` read as `else k`, the slice bound of one class lost,
   `max_pos = i` for *args, by-name registration of positional-only parameters: each is refused. *)
Example C10_modes_guard_bites :
  modes_agree [("PosKwdArgsBinding"%string, (PosSplit, KwElseK))] PosKwdArgsBinding = false /\
  modes_agree [("PosArgsBinding"%string, (PosIndex, KwUntouched))] PosArgsBinding = false /\
  modes_agree [] KwdBinding = false /\
  mp_rules_ok [ {| mr_kind := PO; mr_off := Some 0%Z; mr_cont := true |};
                {| mr_kind := VP; mr_off := Some 0%Z; mr_cont := false |} ] 1%Z = false /\
  mp_rules_ok [ {| mr_kind := PO; mr_off := Some 0%Z; mr_cont := true |};
                {| mr_kind := PO; mr_off := Some 5%Z; mr_cont := false |};
                {| mr_kind := VK; mr_off := None; mr_cont := true |};
                {| mr_kind := VP; mr_off := Some (-1)%Z; mr_cont := false |} ] 1%Z = true /\
  reg_kinds_ok [PO; PK] [PO; PK; KO] = false.
Proof. vm_compute. repeat split. Qed.
(* the translated loop on a concrete signature: (a, b, /, c, *d, e, **f) -> startpos 3; (a, /, b) -> 1 *)
Example C10_startpos_src_ex :
  startpos_src translated_mp_rules translated_mp_fin
    [ {| pname := 0; pkind := PO; pann := true |}; {| pname := 1; pkind := PO; pann := true |};
      {| pname := 2; pkind := PK; pann := true |}; {| pname := 3; pkind := VP; pann := true |};
      {| pname := 4; pkind := KO; pann := true |}; {| pname := 5; pkind := VK; pann := true |} ] = Some 3%Z /\
  startpos_src translated_mp_rules translated_mp_fin
    [ {| pname := 0; pkind := PO; pann := true |}; {| pname := 1; pkind := PK; pann := true |} ] = Some 1%Z /\
  startpos_src translated_mp_rules translated_mp_fin [ {| pname := 0; pkind := PK; pann := true |} ] = None.
Proof. vm_compute. repeat split. Qed.

Print Assumptions C10_modes_tied.
Print Assumptions C10_modes_all.
Print Assumptions C10_src_is_model.
Print Assumptions C10_converts_src.
Print Assumptions C10_rejected_or_shape_src.
Print Assumptions C10_mp_rules_ok.
Print Assumptions C10_startpos_src.
Print Assumptions C10_reg_kinds_ok.
Print Assumptions C10_registration_src.
