(* Property C10 -- bound callables get every argument converted per its own parameter.
   Compiled on every run against the dispatch matrix regenerated from the live module
   (TLRun.GenBindingMatrix).  This file contains only the property theorems. *)
From Coq Require Import List Arith Bool.
Import ListNotations.
Require Import TL.Model.Binding TL.Proofs.BindingLemmas TLRun.GenBindingMatrix.

(* every kind-presence tuple is routed to a binder class whose idioms are adequate for it *)
Theorem C10_matrix_ok : matrix_ok rows = true.
Proof. vm_compute. reflexivity. Qed.

(* For every well-formed signature s (any length), every positional argument list and
   keyword list that the interpreter can bind (expected_* = Some ..): the binder chosen
   for s hands each argument to the unmarshaller of the parameter it binds to, positions
   and keyword names preserved. *)
Theorem C10_converts : forall (val : Type) (s : sig) (args : list val) (kw : list (nat * val)) ea ek,
  wfb s = true ->
  expected_pos val s args = Some ea -> expected_kw val s kw = Some ek ->
  bound_call val rows s args kw = Ok (ea, ek).
Proof. intros val s args kw ea ek H1 H2 H3. exact (converts val rows s args kw ea ek H1 C10_matrix_ok H2 H3). Qed.

(* Whatever the call: it is forwarded with the same number of positionals and the same
   keyword names in the same order, or refused with TypeError -- so the interpreter's own
   accept/reject decision (which depends on that shape only) is unchanged. *)
Theorem C10_rejected_or_shape : forall (val : Type) (s : sig) (args : list val) (kw : list (nat * val)),
  bound_call val rows s args kw = RaiseType \/
  exists ua uk, bound_call val rows s args kw = Ok (ua, uk) /\
                length ua = length args /\ map fst uk = map fst kw.
Proof. intros val s args kw. exact (rejected_or_shape val rows s args kw). Qed.

(* non-vacuity: a signature with all five kinds, a call using every route *)
Definition ex_sig : sig :=
  [ {| pname := 0; pkind := PO; pann := true |}; {| pname := 1; pkind := PK; pann := true |};
    {| pname := 2; pkind := VP; pann := true |}; {| pname := 3; pkind := KO; pann := false |};
    {| pname := 4; pkind := VK; pann := true |} ].
Example C10_hyps_satisfiable :
  wfb ex_sig = true /\
  expected_pos nat ex_sig [10; 11; 12; 13] = Some [Conv 0 10; Conv 1 11; Conv 2 12; Conv 2 13] /\
  expected_kw nat ex_sig [(3, 20); (0, 21); (9, 22)] = Some [(3, Conv 3 20); (0, Conv 4 21); (9, Conv 4 22)] /\
  bound_call nat rows ex_sig [10; 11; 12; 13] [(3, 20); (0, 21); (9, 22)]
    = Ok ([Conv 0 10; Conv 1 11; Conv 2 12; Conv 2 13], [(3, Conv 3 20); (0, Conv 4 21); (9, Conv 4 22)]).
Proof. vm_compute. repeat split. Qed.

Print Assumptions C10_matrix_ok.
Print Assumptions C10_converts.
Print Assumptions C10_rejected_or_shape.
