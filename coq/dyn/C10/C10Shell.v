(* Property C10 -- the shell theorems of Props/C10Shell.v instantiated with the dispatch matrix read from
   the live module on this run (TLRun.GenBindingMatrix).  Only theorems. *)
From Coq Require Import String List Arith Bool.
Import ListNotations.
Require Import TL.Model.Binding TL.Proofs.BindingLemmas TL.Model.BindingShell TL.Proofs.BindingShellLemmas.
Require Import TLRun.GenBindingMatrix.

Theorem C10_shell_matrix_ok : matrix_ok rows = true.
Proof. vm_compute. reflexivity. Qed.

(* bind(f) / wrap(f) with the live matrix, for every callable f and every call the specification binds (no
   keyword is reserved): f is called on the arguments converted per their own parameter and its outcome is
   returned unchanged *)
Theorem C10_bind_converts : forall (val E : Type) (type_error : E) (um : nat -> val -> val + E) (key_val : nat -> val)
    (R : Type) s (f : callable val E R) args kw r,
  wfb s = true ->
  conv_call val E type_error um key_val s args kw = Some r ->
  exists g, bind val E type_error um key_val R rows s f = Some g /\
            g args kw = match r with inl (ua, uk) => f ua uk | inr e => Raise e end.
Proof. intros val E type_error um key_val R s f args kw r H1 H2.
  exact (bind_converts val E type_error um key_val R rows s f args kw r H1 C10_shell_matrix_ok H2). Qed.
Theorem C10_wrap_converts : forall (val E : Type) (type_error : E) (um : nat -> val -> val + E) (key_val : nat -> val)
    (R : Type) s (f : callable val E R) args kw r,
  wfb s = true ->
  conv_call val E type_error um key_val s args kw = Some r ->
  exists g, wrap_fn val E type_error um key_val R rows s f = Some g /\
            g args kw = match r with inl (ua, uk) => f ua uk | inr e => Raise e end.
Proof. intros val E type_error um key_val R s f args kw r H1 H2.
  exact (wrap_converts val E type_error um key_val R rows s f args kw r H1 C10_shell_matrix_ok H2). Qed.

(* end to end with the interpreter's call rule: accepted calls run the body on the per-parameter converted
   frame (defaults untouched); rejected calls raise *)
Theorem C10_frame_accepts : forall (val E : Type) (type_error : E) (um : nat -> val -> val + E) (key_val : nat -> val)
    (R : Type) api (pf : pyfun val E R) args kw fr,
  wfb (f_sig pf) = true -> distinct_names (f_sig pf) = true ->
  py_bind val (f_def pf) (f_sig pf) args kw = Some fr ->
  exists g r, api_apply val E type_error um key_val R api rows (f_sig pf) (call_fn val E type_error pf) = Some g /\
    conv_call val E type_error um key_val (f_sig pf) args kw = Some r /\
    match r with
    | inr e => g args kw = Raise e
    | inl (ua, uk) => exists fr', conv_frame val E um 0 fr = inl fr' /\ py_bind val (f_def pf) (f_sig pf) ua uk = Some fr' /\
                                  g args kw = f_body pf fr'
    end.
Proof. intros val E type_error um key_val R api pf args kw fr H1 H2 H3.
  exact (api_frame_accepts val E type_error um key_val R api rows pf args kw fr H1 H2 C10_shell_matrix_ok H3). Qed.
Theorem C10_frame_rejects : forall (val E : Type) (type_error : E) (um : nat -> val -> val + E) (key_val : nat -> val)
    (R : Type) api (pf : pyfun val E R) args kw,
  py_bind val (f_def pf) (f_sig pf) args kw = None ->
  exists g e, api_apply val E type_error um key_val R api rows (f_sig pf) (call_fn val E type_error pf) = Some g /\
              g args kw = Raise e /\ (e = type_error \/ raised_by_um val E um e).
Proof. intros val E type_error um key_val R api pf args kw H.
  exact (api_frame_rejects val E type_error um key_val R api rows pf args kw C10_shell_matrix_ok H). Qed.

(* non-vacuity on the live matrix: def f(a: T0, b: T1 = 901, /, c=902, *d: T3, e: T4, g: T5 = 905, **h: T6) *)
Definition ex_sig : sig :=
  [ {| pname := 0; pkind := PO; pann := true |}; {| pname := 1; pkind := PO; pann := true |};
    {| pname := 2; pkind := PK; pann := false |}; {| pname := 3; pkind := VP; pann := true |};
    {| pname := 4; pkind := KO; pann := true |}; {| pname := 5; pkind := KO; pann := true |};
    {| pname := 6; pkind := VK; pann := true |} ].
Example C10_shell_live_ex :
  fn_case_model rows (ex_sig, [None; Some 901; Some 902; None; None; Some 905; None], 1, false,
                      [TRaw 1; TRaw 2; TRaw 3; TRaw 4], [(4, TRaw 5); (100, TRaw 6)], ORaiseType)
  = ORet [OVal (TConv 0 (TRaw 1)); OVal (TConv 1 (TRaw 2)); OVal (TRaw 3); OVarPos [TConv 3 (TRaw 4)];
          OVal (TConv 4 (TRaw 5)); OVal (TRaw 905); OVarKw [(100, TConv 6 (TRaw 6))]].
Proof. vm_compute. reflexivity. Qed.

Print Assumptions C10_shell_matrix_ok.
Print Assumptions C10_bind_converts.
Print Assumptions C10_wrap_converts.
Print Assumptions C10_frame_accepts.
Print Assumptions C10_frame_rejects.
