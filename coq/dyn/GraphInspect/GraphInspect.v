(* Bridge C09 <-> C17: the local copies of inspection.py inside the graph model (Model/Graph.v) agree with the
   inspection model (Model/Inspect.v) on the translated annotation, for EVERY annotation of Graph.v's language.
   Compiled on every run against the inspection tables regenerated from the live module (TLRun.GenGITables, written
   by C17's own writer, extended with rows for the classes Graph.v's universe names).  Table facts are decided by
   vm_compute (GI_base_ok); everything else is proved for all annotations (Proofs/GraphInspect.v).
   This file contains only the theorems, non-vacuity examples and refutation witnesses. *)
From Coq Require Import List NArith ZArith String Bool Arith.
Import ListNotations.
Require Import TL.Model.GraphInspect TL.Proofs.GraphInspect.
Require Import TLRun.GenGITables.
Local Open Scope string_scope.

(* the names of this run: Color, deque and the three typing aliases are read from the generated tables; the class
   ids of Graph's environment are ANY function [f] accepted by [rows_ok] *)
Definition nmf (f : G.cname -> I.cls) : names :=
  {| n_cls := f; n_enum := k_GIColor; n_deque := k_deque; n_List := al_List; n_Dict := al_Dict; n_Sequence := al_Sequence |}.
Definition nml (cl : cenv) : names := mk_names cl k_GIColor k_deque al_List al_Dict al_Sequence.

(* every finite fact about the live tables that the agreement proofs use: STDLIB_TYPES membership, module and name,
   str() and qualname of the 12 leaf classes; origin classes and printed names of the 9 generic spellings;
   NoneType / Any / Ellipsis; _UNRESOLVABLE; GENERIC_TYPE_MAP keys; the origins of the special forms *)
Theorem GI_base_ok : forall f, base_ok tbl (nmf f) = true.
Proof. intro f. vm_compute. reflexivity. Qed.

Section Run.
Variable f : G.cname -> I.cls.
Variable E : G.env.
Hypothesis Hrows : rows_ok tbl (nmf f) E.
Let Nm := nmf f.

(* inspection.unwrap commutes with the translation *)
Theorem GI_unwrap : forall t, wsize t < 200 -> unwrap_guard t = true ->
  I.unwrap tbl (tr Nm t) = I.Ok (tr Nm (G.unwrap t)).
Proof. intros t H1 H2. exact (unwrap_fuel_tr tbl Nm E (GI_base_ok f) Hrows 200 t H1 H2). Qed.

(* the generic-argument list of graph._level is inspection.args *)
Theorem GI_args : forall t, args_guard t = true -> I.args (tr Nm t) = map (tr Nm) (G.args_of t).
Proof. exact (args_tr Nm). Qed.

Theorem GI_issubscripted : forall t, nobr E t = true ->
  I.issubscriptedgeneric tbl (tr Nm t) = G.is_subscripted E t.
Proof. exact (issubscripted_tr tbl Nm E (GI_base_ok f) Hrows). Qed.

Theorem GI_isstdlib : forall t, std_guard t = true -> I.isstdlibtype tbl (tr Nm t) = G.is_stdlib t.
Proof. exact (isstdlibtype_tr tbl Nm E (GI_base_ok f) Hrows). Qed.

Theorem GI_can_be_cyclic : forall u, nobr E u = true -> std_guard u = true ->
  I.issubscriptedgeneric tbl (tr Nm u) || negb (I.isstdlibtype tbl (tr Nm u)) = G.can_be_cyclic E u.
Proof. exact (can_be_cyclic_tr tbl Nm E (GI_base_ok f) Hrows). Qed.

Theorem GI_isuniontype : forall t, I.isuniontype tbl (tr Nm t) = G.is_union (wcore t).
Proof. exact (isuniontype_tr tbl Nm E (GI_base_ok f) Hrows). Qed.

Theorem GI_is_generic : forall u, nobr E u = true -> is_wrapper u = false ->
  I.issubscriptedgeneric tbl (tr Nm u) || I.isuniontype tbl (tr Nm u) = G.is_generic E u.
Proof. exact (is_generic_tr tbl Nm E (GI_base_ok f) Hrows). Qed.

Theorem GI_should_unwrap : forall t, I.should_unwrap tbl (tr Nm t) = G.should_unwrap t.
Proof. exact (should_unwrap_G tbl Nm E (GI_base_ok f) Hrows). Qed.

(* the decision of get_type_graph on a revisited, cyclic-capable member: deferred as itself iff generic, qualified
   (also behind NewTypes / aliases) or already a reference (otherwise the reference branch) *)
Theorem GI_defer_decision : forall c, nobr E (G.unwrap c) = true ->
  (I.issubscriptedgeneric tbl (tr Nm (G.unwrap c)) || I.isuniontype tbl (tr Nm (G.unwrap c)))
  || I.should_unwrap tbl (tr Nm c) || I.isforwardref (tr Nm c)
  = G.is_generic E (G.unwrap c) || G.should_unwrap c || G.is_ref c.
Proof. exact (defer_decision_tr tbl Nm E (GI_base_ok f) Hrows). Qed.

(* isliteral: exact on every annotation that is not a NewType / alias (graph.py asks unwrapped parents only);
   in general: a Literal behind NewTypes / aliases, or a reference named Literal.. *)
Theorem GI_isliteral : forall t, is_wrapper t = false -> I.isliteral tbl (tr Nm t) = G.is_literal t.
Proof. exact (isliteral_plain_tr tbl Nm E (GI_base_ok f) Hrows). Qed.
Theorem GI_isliteral_any : forall t, I.isliteral tbl (tr Nm t) = lit_core t || ref_literal t.
Proof. exact (isliteral_tr tbl Nm E (GI_base_ok f) Hrows). Qed.

Theorem GI_isforwardref : forall t, I.isforwardref (tr Nm t) = G.is_ref t.
Proof. exact (isforwardref_tr Nm). Qed.

Theorem GI_isfixedtuple : forall t, I.isfixedtupletype tbl (tr Nm t) = G.is_fixed_tuple t.
Proof. exact (isfixedtupletype_tr tbl Nm (GI_base_ok f)). Qed.

Theorem GI_isstructured : forall t, plain t = true -> I.isstructuredtype tbl (tr Nm t) = structured_g t.
Proof. exact (isstructuredtype_tr tbl Nm E (GI_base_ok f) Hrows). Qed.

(* graph._level pulls members from the hints / the signature only of structured annotations *)
Theorem GI_hints_structured : forall t, plain t = true -> G.hints E t <> [] ->
  I.isstructuredtype tbl (tr Nm t) = true.
Proof. exact (hints_structured tbl Nm E (GI_base_ok f) Hrows). Qed.

(* the first line of graph._level, and the members graph.py drops *)
Theorem GI_unresolvable : forall t,
  I.isunresolvable tbl (tr Nm t) = is_ellipsis t || is_any t
  /\ (I.isunresolvable tbl (tr Nm t) = true -> G.level E t = []).
Proof.
  intro t. split; [exact (isunresolvable_tr tbl Nm E (GI_base_ok f) Hrows t)
                  | exact (unresolvable_level tbl Nm E (GI_base_ok f) Hrows t)].
Qed.
Theorem GI_skip : forall var c,
  G.skip var c =
  I.ity_eqb (tr Nm c) I.IEllipsis
  || (I.ity_eqb (tr Nm c) (I.IClass I.c_Any) && match var with Some _ => true | None => false end).
Proof. exact (skip_tr tbl Nm E (GI_base_ok f) Hrows). Qed.

(* inspection.qualname as the reference branch of get_type_graph uses it; module and name of a class *)
Theorem GI_qualname : forall t, qual_guard E t = true -> I.qualname tbl (tr Nm t) = G.qualname E t.
Proof. exact (qualname_tr tbl Nm E (GI_base_ok f) Hrows). Qed.
Theorem GI_class_names : forall c d, E c = Some d ->
  I.cstr tbl I.ci_trepr (n_cls Nm c) = String.append (G.cmodule d) (String.append "." (G.cqual d))
  /\ I.cstr tbl I.ci_qualname (n_cls Nm c) = G.cqual d
  /\ I.cstr tbl I.ci_str (n_cls Nm c)
     = String.append "<class '" (String.append (G.cmodule d) (String.append "." (String.append (G.cqual d) "'>")))
  /\ G.module_attr E (G.GClass c) = Some (G.cmodule d).
Proof. exact (class_names_tr tbl Nm E Hrows). Qed.
End Run.

(* a finite class list whose rows the tables accept (decided by computation) gives the hypothesis above *)
Theorem GI_rows_sound : forall cl, rows_okb tbl cl = true -> rows_ok tbl (nmf (ncls_of cl)) (env_of_cenv cl).
Proof. intros cl H. exact (rows_okb_sound tbl cl k_GIColor k_deque al_List al_Dict al_Sequence H). Qed.

(* ---------------------------------------------------------------- non-vacuity *)
(* classes of C17's own live module, described as Graph.v describes classes: a dataclass, a NamedTuple, a
   TypedDict, a plain class, a class nested two levels deep *)
Definition ex_cl : cenv :=
  [ (0, (k_UData, {| G.cmodule := I.user_module; G.cqual := "UData";
                     G.cfields := [("a", G.GScalar G.SInt); ("b", G.GScalar G.SStr)] |}));
    (1, (k_UNamed, {| G.cmodule := I.user_module; G.cqual := "UNamed";
                      G.cfields := [("a", G.GScalar G.SInt); ("b", G.GScalar G.SStr)] |}));
    (2, (k_UTD, {| G.cmodule := I.user_module; G.cqual := "UTD"; G.cfields := [("a", G.GScalar G.SInt)] |}));
    (3, (k_UPlain, {| G.cmodule := I.user_module; G.cqual := "UPlain"; G.cfields := [("a", G.GScalar G.SInt)] |}));
    (4, (k_UInner, {| G.cmodule := I.user_module; G.cqual := "Outer.Mid.Inner"; G.cfields := [] |})) ].
Example GI_rows_satisfiable : rows_okb tbl ex_cl = true.
Proof. vm_compute. reflexivity. Qed.
Definition ex_E := env_of_cenv ex_cl.
Definition ex_Nm := nmf (ncls_of ex_cl).
Definition ex_t : G.gty :=
  G.GNewType I.user_module "NT"
    (G.GAlias I.user_module "AL" (G.GFinal (G.GGen G.GDict [G.GScalar G.SStr;
       G.GUnion G.UPipe [G.GGen G.GTList [G.GClass 0]; G.GScalar G.SFraction; G.GNone]]))).
Example GI_hyps_satisfiable :
  wsize ex_t < 200 /\ unwrap_guard ex_t = true /\ nobr ex_E (G.unwrap ex_t) = true /\ std_guard (G.unwrap ex_t) = true
  /\ I.unwrap tbl (tr ex_Nm ex_t) = I.Ok (tr ex_Nm (G.unwrap ex_t))
  /\ G.can_be_cyclic ex_E (G.unwrap ex_t) = true
  /\ G.is_stdlib (G.GUnion G.UPipe [G.GScalar G.SInt; G.GNone]) = true
  /\ G.is_subscripted ex_E (G.GUnion G.UPipe [G.GScalar G.SInt; G.GNone]) = false
  /\ I.unwrap tbl (tr ex_Nm (G.GAliasStr I.user_module "AS" "list[UData]"))
     = I.Ok (I.IForwardRef "list[UData]" (Some I.user_module))
  /\ qual_guard ex_E (G.GClass 4) = true /\ G.qualname ex_E (G.GClass 4) = "Outer.Mid.Inner"
  /\ I.isstructuredtype tbl (tr ex_Nm (G.GClass 1)) = true /\ I.isstructuredtype tbl (tr ex_Nm (G.GClass 2)) = true.
Proof. vm_compute. repeat split; apply le_n || (repeat constructor). Qed.

(* (aligned with /repo since: Inspect.unwrap and Graph.unwrap drop "<module>." like refs.forwardref -- where it leads a
   dotted name only, 31a6d65; tuple[()] is a fixed tuple for
   Graph.is_fixed_tuple; Graph.should_unwrap sees a qualifier behind NewTypes / aliases) *)
Example GI_aligned :
  I.unwrap tbl (tr ex_Nm (G.GAliasStr I.user_module "A" "verif_c17_mod.UData"))
    = I.Ok (tr ex_Nm (G.unwrap (G.GAliasStr I.user_module "A" "verif_c17_mod.UData")))
  /\ G.unwrap (G.GAliasStr I.user_module "A" "verif_c17_mod.UData") = G.GRef "UData" (Some I.user_module)
  /\ I.unwrap tbl (tr ex_Nm (G.GAliasStr I.user_module "B" "xverif_c17_mod.UData"))
     = I.Ok (I.IForwardRef "xverif_c17_mod.UData" (Some I.user_module))
  /\ G.unwrap (G.GAliasStr I.user_module "B" "xverif_c17_mod.UData") = G.GRef "xverif_c17_mod.UData" (Some I.user_module)
  /\ I.isfixedtupletype tbl (tr ex_Nm (G.GGen G.GTuple [])) = true /\ G.is_fixed_tuple (G.GGen G.GTuple []) = true
  /\ G.level ex_E (G.GGen G.GTuple []) = []
  /\ I.should_unwrap tbl (tr ex_Nm (G.GNewType "m" "NF" (G.GFinal (G.GScalar G.SInt)))) = true
  /\ G.should_unwrap (G.GNewType "m" "NF" (G.GFinal (G.GScalar G.SInt))) = true.
Proof. vm_compute. repeat split. Qed.

(* ---------------------------------------------------------------- where the two models disagree *)
(* The agreements without their guards: *)
Definition GI_full : Prop :=
  forall f E, rows_ok tbl (nmf f) E -> forall t,
    I.unwrap tbl (tr (nmf f) t) = I.Ok (tr (nmf f) (G.unwrap t))
    /\ I.args (tr (nmf f) t) = map (tr (nmf f)) (G.args_of t)
    /\ I.issubscriptedgeneric tbl (tr (nmf f) t) = G.is_subscripted E t
    /\ I.isstdlibtype tbl (tr (nmf f) t) = G.is_stdlib t
    /\ I.isliteral tbl (tr (nmf f) t) = G.is_literal t.

(* (1) INSPECT model: the wrapper loop has fuel 200 (the code loops without bound) *)
Theorem GI_refuted_unwrap_fuel : exists t, wsize t = 200 /\ unwrap_guard t = true
  /\ I.unwrap tbl (tr ex_Nm t) = I.Raise I.EOther /\ G.unwrap t = G.GScalar G.SInt.
Proof.
  exists (Nat.iter 200 (G.GNewType "m" "N") (G.GScalar G.SInt)). vm_compute. repeat split.
Qed.
(* (2) GRAPH model: args_of answers () for Literal[1] and Final[int]; inspection.args answers (1,) and (int,).
       Not reachable from the walk: a literal parent is cut before _level, parents are unwrapped *)
Theorem GI_refuted_args : exists t1 t2, args_guard t1 = false /\ args_guard t2 = false
  /\ I.args (tr ex_Nm t1) <> map (tr ex_Nm) (G.args_of t1)
  /\ I.args (tr ex_Nm t2) <> map (tr ex_Nm) (G.args_of t2).
Proof.
  exists (G.GLit 1), (G.GFinal (G.GScalar G.SInt)). repeat split; vm_compute; discriminate.
Qed.
(* (3) GRAPH model: is_stdlib says False for a NewType / alias of a union of stdlib and non-stdlib classes;
       inspection.isstdlibtype says True (isuniontype sees through the wrapper, get_args of the wrapper is empty) *)
Theorem GI_refuted_isstdlib_wrapped_union : exists t1 t2, std_guard t1 = false /\ std_guard t2 = false
  /\ I.isstdlibtype tbl (tr ex_Nm t1) = true /\ G.is_stdlib t1 = false
  /\ I.isstdlibtype tbl (tr ex_Nm t2) = true /\ G.is_stdlib t2 = false.
Proof.
  exists (G.GNewType "m" "NU" (G.GUnion G.UUnion [G.GScalar G.SInt; G.GScalar G.SFraction])),
         (G.GUnion G.UUnion [G.GAlias "m" "AU" (G.GUnion G.UUnion [G.GScalar G.SInt; G.GScalar G.SFraction]); G.GScalar G.SStr]).
  vm_compute. repeat split.
Qed.
(* (4) GRAPH model: a class whose name carries "[" is a subscripted generic for the string test of
       issubscriptedgeneric; has_bracket answers False for every class.  Rows built from the environment itself *)
Definition br_cl : cenv := [(0, (900001%N, {| G.cmodule := "m"; G.cqual := "A["; G.cfields := [] |}))].
Theorem GI_refuted_subscripted_class_name :
  let T' := ext tbl (rows_of br_cl) in
  rows_okb T' br_cl = true /\ base_ok T' (nml br_cl) = true /\ nobr (env_of_cenv br_cl) (G.GClass 0) = false
  /\ I.issubscriptedgeneric T' (tr (nml br_cl) (G.GClass 0)) = true
  /\ G.is_subscripted (env_of_cenv br_cl) (G.GClass 0) = false.
Proof. vm_compute. repeat split. Qed.
(* (5) GRAPH model: a Literal behind a NewType: inspection.isliteral sees through NewTypes and aliases, Graph.is_literal
       looks at the outermost constructor.  Not reachable: graph.py asks isliteral on unwrapped parents only *)
Theorem GI_refuted_isliteral_behind_wrapper : exists t, is_wrapper t = true
  /\ I.isliteral tbl (tr ex_Nm t) = true /\ G.is_literal t = false /\ G.is_literal (G.unwrap t) = true.
Proof. exists (G.GNewType "m" "NL" (G.GLit 1)). vm_compute. repeat split. Qed.
Theorem GI_refuted_full : ~ GI_full.
Proof.
  intro H. specialize (H (ncls_of ex_cl) ex_E (GI_rows_sound ex_cl GI_rows_satisfiable) (G.GLit 1)).
  destruct H as [_ [H _]]. vm_compute in H. discriminate H.
Qed.

Print Assumptions GI_base_ok.
Print Assumptions GI_unwrap.
Print Assumptions GI_args.
Print Assumptions GI_issubscripted.
Print Assumptions GI_isstdlib.
Print Assumptions GI_can_be_cyclic.
Print Assumptions GI_isuniontype.
Print Assumptions GI_is_generic.
Print Assumptions GI_should_unwrap.
Print Assumptions GI_defer_decision.
Print Assumptions GI_isliteral.
Print Assumptions GI_isliteral_any.
Print Assumptions GI_isforwardref.
Print Assumptions GI_isfixedtuple.
Print Assumptions GI_isstructured.
Print Assumptions GI_hints_structured.
Print Assumptions GI_unresolvable.
Print Assumptions GI_skip.
Print Assumptions GI_qualname.
Print Assumptions GI_class_names.
Print Assumptions GI_rows_sound.
Print Assumptions GI_refuted_unwrap_fuel.
Print Assumptions GI_refuted_args.
Print Assumptions GI_refuted_isstdlib_wrapped_union.
Print Assumptions GI_refuted_subscripted_class_name.
Print Assumptions GI_refuted_isliteral_behind_wrapper.
Print Assumptions GI_refuted_full.
