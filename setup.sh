#!/bin/bash
# Full .vo build of the table-independent Coq development (never -vos/-vok).
set -e
cd "$(dirname "$0")/coq"
{
  echo "-Q theories TL"
  find theories -name '*.v' | sort
} > _CoqProject.new
if ! cmp -s _CoqProject.new _CoqProject 2>/dev/null; then
  mv _CoqProject.new _CoqProject
  coq_makefile -f _CoqProject -o Makefile > /dev/null
else
  rm -f _CoqProject.new
  [ -f Makefile ] || coq_makefile -f _CoqProject -o Makefile > /dev/null
fi
timeout 1500 make -j16 2>&1 | grep -v '^COQDEP\|^COQC\|^make' || true
# make's status, not grep's
timeout 1500 make -j16 > /dev/null 2>&1
