#!/bin/bash
# Full .vo build of the table-independent Coq development (never -vos/-vok).
# usage: setup.sh [target.vo ...]   (no target = everything)
cd "$(dirname "$0")/coq" || exit 2
exec 9>.lock; flock 9
{
  echo "-Q theories TL"
  find theories -name '*.v' | sort
} > _CoqProject.new
if ! cmp -s _CoqProject.new _CoqProject 2>/dev/null; then
  mv _CoqProject.new _CoqProject
  coq_makefile -f _CoqProject -o Makefile > /dev/null || exit 2
else
  rm -f _CoqProject.new
  [ -f Makefile ] || coq_makefile -f _CoqProject -o Makefile > /dev/null || exit 2
fi
timeout 1700 make -k -j16 "$@" > .make.log 2>&1
rc=$?
grep -v '^COQDEP\|^COQC\|^make\|^CLEAN\|^ROCQ' .make.log | head -60
exit $rc
