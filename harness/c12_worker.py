"""C12 worker: executes typelib operations in cold processes.

Run as a server:  python c12_worker.py   (stdin: one JSON request per line, stdout: one JSON answer per line)
The server imports typelib once and never calls into it; every request is executed in a fork()ed child,
i.e. in an interpreter whose typelib caches are exactly those of a freshly started process.
`--fresh` executes a single request in this (really fresh) interpreter: used to validate fork-cold == process-cold.

Requests:
  {"kind":"cold","op":OP}                          -> {"obs":OBS}
  {"kind":"history","ops":[OP...]}                 -> {"obs":[OBS...], "snap":[input spec at call time|null ...],
                                                       "oracle":[failure ...]}
  {"kind":"diagnose","ops":[OP...],"at":i,"cold":OBS} -> {"cause":..., "facts":{...}}
  {"kind":"world","atoms":[VSPEC...],"maxidx":n}   -> reflected tables for the model's [world]

Specs (JSON): types  ["S",name] ["BL"] ["BD"] ["L",t] ["D",t] ["U",style,[t...]]
              values ["i",n] ["f",hex] ["b",bool] ["n"] ["s",str] ["y",latin1] ["dt",iso,offmin] ["td",d,s,us]
                     ["l",[v...]] ["d",[[k,v]...]] ["o",typename,repr]
"""
from __future__ import annotations

import copy
import datetime
import json
import os
import sys
import typing

MARK = 777
ZZ = "zz"


# ---------------------------------------------------------------------------------- specs
def mk_type(sp):
    k = sp[0]
    if k == "S":
        return scalar_types()[sp[1]]
    if k == "F":            # a frozen dataclass with one field v: T
        import c12_types
        return c12_types.field_class(json.dumps(sp[1]), mk_type(sp[1]))
    if k == "FS":
        return frozenset[mk_type(sp[1])]
    if k == "DK":
        return dict[mk_type(sp[1]), int]
    if k == "BL":
        return list
    if k == "BD":
        return dict
    if k == "L":
        return list[mk_type(sp[1])]
    if k == "D":
        return dict[str, mk_type(sp[1])]
    if k == "U":
        ms = [mk_type(m) for m in sp[2]]
        if sp[1] == "optional":
            assert len(ms) == 2 and ms[1] is type(None)
            return typing.Optional[ms[0]]
        if sp[1] == "typing":
            return typing.Union[tuple(ms)]
        t = ms[0]
        for m in ms[1:]:
            t = t | (None if m is type(None) else m)
        return t
    if k == "C":
        import c12_types
        return c12_types.CLASSES[sp[1]]
    if k == "T":
        return tuple[tuple(mk_type(m) for m in sp[1])]
    if k == "BT":
        return tuple
    if k == "BS":
        return set
    if k == "TV":
        return tuple[mk_type(sp[1]), ...]
    if k == "ANY":
        return typing.Any
    if k == "OBJ":
        return object
    if k == "SET":
        return set[mk_type(sp[1])]
    if k == "LIT":
        return typing.Literal[tuple(sp[1])]
    if k == "OPT":
        return typing.Optional[mk_type(sp[1])]
    raise ValueError(sp)


def scalar_types():
    import decimal
    import fractions
    import pathlib
    import uuid
    return {"int": int, "float": float, "str": str, "bytes": bytes, "none": type(None),
            "datetime": datetime.datetime, "timedelta": datetime.timedelta,
            "date": datetime.date, "time": datetime.time, "decimal": decimal.Decimal, "fraction": fractions.Fraction,
            "bool": bool, "uuid": uuid.UUID, "path": pathlib.Path, "purepath": pathlib.PurePath,
            "winpath": pathlib.PureWindowsPath, "posixpath": pathlib.PurePosixPath}


def _tz(offmin):
    return None if offmin is None else datetime.timezone(datetime.timedelta(minutes=offmin))


def mk_val(sp):
    k = sp[0]
    if k == "i":
        return sp[1]
    if k == "f":
        return float.fromhex(sp[1])
    if k == "b":
        return bool(sp[1])
    if k == "n":
        return None
    if k == "s":
        return sp[1]
    if k == "y":
        return sp[1].encode("latin1")
    if k == "dt":           # ["dt", naive iso text, offset in minutes | null (naive), fold (optional)]
        return datetime.datetime.fromisoformat(sp[1]).replace(tzinfo=_tz(sp[2]), fold=sp[3] if len(sp) > 3 else 0)
    if k == "tm":           # ["tm", naive iso text, offset in minutes | null, fold (optional)]
        return datetime.time.fromisoformat(sp[1]).replace(tzinfo=_tz(sp[2]), fold=sp[3] if len(sp) > 3 else 0)
    if k == "date":
        return datetime.date.fromisoformat(sp[1])
    if k == "dec":
        import decimal
        return decimal.Decimal(sp[1])
    if k == "frac":
        import fractions
        return fractions.Fraction(sp[1], sp[2])
    if k == "cx":
        return complex(float.fromhex(sp[1]), float.fromhex(sp[2]))
    if k == "uuid":
        import uuid
        return uuid.UUID(sp[1])
    if k == "path":
        import pathlib
        return getattr(pathlib, sp[1])(sp[2])
    if k == "enum":
        import c12_types
        return c12_types.CLASSES[sp[1]][sp[2]]
    if k == "sub":          # an instance of a subclass (c12_types) with the state of the base value
        import c12_types
        b = mk_val(sp[2])
        cls = c12_types.CLASSES[sp[1]]
        if isinstance(b, datetime.datetime):
            return cls(b.year, b.month, b.day, b.hour, b.minute, b.second, b.microsecond, b.tzinfo, fold=b.fold)
        if isinstance(b, datetime.date):
            return cls(b.year, b.month, b.day)
        if isinstance(b, datetime.time):
            return cls(b.hour, b.minute, b.second, b.microsecond, b.tzinfo, fold=b.fold)
        return cls(days=b.days, seconds=b.seconds, microseconds=b.microseconds)
    if k == "pend":         # the pendulum counterpart of a stdlib temporal
        import pendulum
        b = mk_val(sp[1])
        if isinstance(b, datetime.datetime):
            return pendulum.instance(b)
        if isinstance(b, datetime.date):
            return pendulum.date(b.year, b.month, b.day)
        if isinstance(b, datetime.time):
            return pendulum.time(b.hour, b.minute, b.second, b.microsecond)
        return pendulum.duration(days=b.days, seconds=b.seconds, microseconds=b.microseconds)
    if k == "fobj":         # an instance of the frozen one-field dataclass for the declared type
        return mk_type(["F", sp[1]])(v=mk_val(sp[2]))
    if k == "td":
        return datetime.timedelta(days=sp[1], seconds=sp[2], microseconds=sp[3])
    if k == "l":
        return [mk_val(x) for x in sp[1]]
    if k == "d":
        return {mk_val(a): mk_val(b) for a, b in sp[1]}
    if k == "t":
        return tuple(mk_val(x) for x in sp[1])
    if k == "set":
        return {mk_val(x) for x in sp[1]}
    if k == "iter":         # a one-shot iterator over the given list
        return iter(mk_val(sp[1]))
    if k == "odict":
        import collections
        return collections.OrderedDict(mk_val(sp[1]))
    if k == "deque":
        import collections
        return collections.deque(mk_val(sp[1]))
    if k == "fset":
        return frozenset(mk_val(sp[1]))
    if k == "obj":          # an instance built by unmarshalling a plain dict cold-independently: by the constructor
        import c12_types
        return build_obj(c12_types.CLASSES[sp[1]], mk_val(sp[2]))
    raise ValueError(sp)


def build_obj(cls, d):
    import c12_types
    if cls is c12_types.Node:
        return cls(v=d["v"], nxt=build_obj(cls, d["nxt"]) if d.get("nxt") else None,
                   kids=[build_obj(cls, k) for k in d.get("kids", [])])
    if cls is c12_types.Tree:
        return cls(name=d["name"], sub={k: build_obj(cls, v) for k, v in d.get("sub", {}).items()})
    if cls is c12_types.NT:
        return cls(**d)
    if cls is c12_types.Color:
        return cls(d)
    if cls.__name__.startswith("Src") and cls is not c12_types.SrcDC:
        return cls(d["x"], d["y"])
    return cls(**d)


def to_spec(x, depth=0):
    t = type(x)
    if depth > 20:
        return ["o", "deep", "..."]
    if t is bool:
        return ["b", x]
    if t is int:
        return ["i", x] if abs(x) < 2 ** 62 else ["o", "int", repr(x)]
    if t is float:
        return ["f", x.hex()]
    if x is None:
        return ["n"]
    if t is str:
        return ["s", x] if all(32 <= ord(c) < 127 for c in x) else ["o", "str", ascii(x)]
    if t is bytes:
        return ["y", x.decode("latin1")] if all(32 <= c < 127 for c in x) else ["o", "bytes", repr(x)]
    if t in (datetime.datetime, datetime.time) and (x.tzinfo is None or type(x.tzinfo) is datetime.timezone):
        off = x.utcoffset()
        if off is None or (off.seconds % 60 == 0 and off.microseconds == 0 and x.tzinfo.tzname(None).startswith("UTC")):
            return ["dt" if t is datetime.datetime else "tm", x.replace(tzinfo=None).isoformat(),
                    None if off is None else int(off.total_seconds() // 60)] + ([x.fold] if x.fold else [])
    if t is datetime.date:
        return ["date", x.isoformat()]
    if t is datetime.timedelta:
        return ["td", x.days, x.seconds, x.microseconds]
    if t is list:
        return ["l", [to_spec(y, depth + 1) for y in x]]
    if t is dict:
        return ["d", [[to_spec(a, depth + 1), to_spec(b, depth + 1)] for a, b in x.items()]]
    if t is tuple:
        return ["t", [to_spec(y, depth + 1) for y in x]]
    if t is set:
        return ["set", sorted((to_spec(y, depth + 1) for y in x), key=json.dumps)]
    r = scalar_spec(x, t)
    if r is not None:
        return r
    if isinstance(x, datetime.timedelta):       # a subclass (pendulum.Duration): its repr drops microseconds
        p = datetime.timedelta.__pos__(x) if t.__pos__ is datetime.timedelta.__pos__ else +x
        return ["o", t.__module__ + "." + t.__qualname__,
                ascii(repr(x))[:300] + "|%d,%d,%d|%r,%r,%r" % (p.days, p.seconds, p.microseconds, x.days, x.seconds, x.microseconds)]
    return ["o", t.__module__ + "." + t.__qualname__, ascii(repr(x))[:300]]


def scalar_spec(x, t):
    """round-trippable specs of the remaining scalar kinds (exact class + every field that ==, hash or text read)"""
    import decimal
    import enum
    import fractions
    import pathlib
    import uuid
    if t is decimal.Decimal:
        return ["dec", str(x)]
    if t is fractions.Fraction:
        return ["frac", x.numerator, x.denominator] if abs(x.numerator) < 2 ** 62 and x.denominator < 2 ** 62 else None
    if t is complex:
        return ["cx", x.real.hex(), x.imag.hex()]
    if t is uuid.UUID:
        return ["uuid", x.hex] if x.is_safe is uuid.SafeUUID.unknown else None
    if t in (pathlib.PurePosixPath, pathlib.PureWindowsPath, pathlib.PosixPath):
        txt = str(x)
        return ["path", t.__name__, txt] if all(32 <= ord(c) < 127 for c in txt) and type(x)(txt) == x and str(type(x)(txt)) == txt else None
    if isinstance(x, enum.Enum) and t.__module__ == "c12_types":
        return ["enum", t.__name__, x.name] if x.name is not None and t.__members__.get(x.name) is x else None
    return None


def exc_kind(e):
    import decimal
    if isinstance(e, RecursionError):
        return "ERecursion"
    if isinstance(e, UnicodeError):
        return "EUnicode"
    if isinstance(e, (decimal.InvalidOperation, ArithmeticError)):
        return "EArith"
    if isinstance(e, KeyError):
        return "EKey"
    if isinstance(e, StopIteration):
        return "EStopIter"
    if isinstance(e, ValueError):
        return "EValue"
    if isinstance(e, TypeError):
        return "EType"
    if isinstance(e, SyntaxError):
        return "ESyntax"
    if isinstance(e, AttributeError):
        return "EAttribute"
    return "EOther"


def observe(fn):
    try:
        r = fn()
    except Exception as e:  # noqa: BLE001
        return ["raise", exc_kind(e)], None
    return ["ok", to_spec(r)], r


# ---------------------------------------------------------------------------------- operations
def all_caches():
    import impl
    return impl.cached_functions()


def iso_cache():
    """the functools cache behind serdes.isoformat (the whole function on old trees, its duration writer now)"""
    from typelib import serdes
    return getattr(serdes, "_isoduration", None) or serdes.isoformat


def load_cache():
    """the functools cache behind serdes.strload (the function itself on old trees, _strload now)"""
    from typelib import serdes
    return getattr(serdes, "_strload", None) or serdes.strload


def iso_body(x):
    from typelib import serdes
    iso_cache().cache_clear()
    return getattr(serdes.isoformat, "__wrapped__", serdes.isoformat)(x)


def cache_groups():
    from typelib import codecs, graph, serdes
    from typelib.marshals import api as mapi
    from typelib.unmarshals import api as uapi
    g = {"strload": [load_cache()], "isoformat": [iso_cache()], "dateparse": [serdes.dateparse],
         "factories": [graph.static_order, uapi.unmarshaller, mapi.marshaller, codecs.codec]}
    g = {k: [f for f in fs if hasattr(f, "cache_clear")] for k, fs in g.items()}
    from typelib.py import inspection
    insp = {id(v) for v in vars(inspection).values() if hasattr(v, "cache_clear")}
    g["inspection"] = [f for f in all_caches() if id(f) in insp]
    named = {id(f) for fs in g.values() for f in fs}
    g["other"] = [f for f in all_caches() if id(f) not in named]
    g["annotation-keyed"] = g["factories"] + g["inspection"]
    return g


CONSTRUCTED = ('"obj"', '"iter"', '"odict"', '"deque"', '"fset"', '"set"', '"sub"', '"pend"', '"fobj"')   # inputs rebuilt from their spec, not from a snapshot


def call_op(op, x):
    """the public call of one operation on input object x; returns (obs, result object)"""
    import typelib
    from typelib import compat
    k = op["op"]
    if k in ("build_u", "build_m", "build_c"):
        T = mk_type(op["t"])
        f = {"build_u": typelib.unmarshaller, "build_m": typelib.marshaller, "build_c": typelib.codec}[k]
        try:
            f(T)
        except Exception:  # construction errors are not observed by the model's universe
            pass
        return ["unit"], None
    if k in ("iteritems", "itervalues"):      # the generic iteration every structured routine is built on
        from typelib import serdes
        f = getattr(serdes, k)
        obs, _ = observe(lambda: [list(p) if k == "iteritems" else p for p in f(x)])
        return obs, None
    T = mk_type(op["t"])
    if k == "unmarshal":
        return observe(lambda: typelib.unmarshal(T, x))
    if k == "marshal":
        return observe(lambda: typelib.marshal(x, t=T))
    if k == "decode":
        return observe(lambda: typelib.decode(T, x))
    if k == "cdecode":
        return observe(lambda: typelib.codec(T).decode(x))
    if k in ("encode", "cencode"):
        def enc():
            b = typelib.encode(x, t=T) if k == "encode" else typelib.codec(T).encode(x)
            return compat.json.loads(b)     # the bytes are compared by what they mean
        obs, _ = observe(enc)
        return obs, None
    raise ValueError(k)


def children(x):
    """the objects held by a builtin container (dict: values; keys are hashable, hence immutable)"""
    if isinstance(x, dict):
        return list(x.values())
    if isinstance(x, (set, frozenset)):
        return sorted(x, key=repr)
    return list(x)


WALKED = (list, dict, tuple, set, frozenset)
MUTABLE = (list, dict, set)


def navigate(obj, path):
    """follows child indexes through lists, dicts, tuples and sets; the target must be a mutable container"""
    for i in path:
        if type(obj) in WALKED and i < len(obj):
            obj = children(obj)[i]
        else:
            return None
    return obj if type(obj) in MUTABLE else None


def do_mutate(obj):
    if isinstance(obj, list):
        obj.append(MARK)
    elif isinstance(obj, dict):
        obj[ZZ] = MARK
    elif isinstance(obj, set):
        obj.add(MARK)


def containers(x, acc=None, depth=0, seen=None):
    """id -> object of every mutable builtin container reachable from x (tuples and frozensets are walked through)"""
    acc = {} if acc is None else acc
    seen = set() if seen is None else seen
    if type(x) in WALKED and id(x) not in seen and depth < 20:
        seen.add(id(x))
        if type(x) in MUTABLE:
            acc[id(x)] = x
        for y in children(x):
            containers(y, acc, depth + 1, seen)
    return acc


def texts_in(x, acc, depth=0):
    if isinstance(x, (str, bytes)):
        acc.add(x)
    elif type(x) in WALKED and depth < 20:
        for y in children(x) + (list(x.keys()) if isinstance(x, dict) else []):
            texts_in(y, acc, depth + 1)


def strload_owned(texts):
    """ids of the containers currently owned by the strload cache for the given keys (cache hits only)"""
    from typelib import serdes
    owned = {}
    for t in texts:
        c = load_cache()
        before = c.cache_info().misses
        try:
            v = c(t)
        except Exception:  # noqa: BLE001
            continue
        if c.cache_info().misses == before:      # a hit: v is the cached object
            for i in containers(v):
                owned[i] = t
            # entries created by this probe would be pristine and are harmless
    return owned


def run_history(ops, stop_before=None):
    """Executes the operations in this process.  Returns observations, input snapshots, oracle failures and the
    live objects (for diagnose)."""
    inputs, results, obs_l, snaps, fails = [], [], [], [], []
    texts = set()
    earlier = {}          # id -> (op index) of containers of earlier results, kept alive in `results`
    poisoned = set()      # strload keys whose cached object was mutated by the caller
    for n, op in enumerate(ops):
        if stop_before is not None and n == stop_before:
            break
        k = op["op"]
        if k == "clear":
            for f in all_caches():
                f.cache_clear()
            obs_l.append(["unit"]); snaps.append(None); results.append(None)
            continue
        if k in ("mutres", "mutin"):
            base = (results[op["i"]] if op["i"] < len(results) else None) if k == "mutres" else \
                   (inputs[op["i"]] if op["i"] < len(inputs) else None)
            tgt = navigate(base, op["path"]) if base is not None else None
            if tgt is not None:
                owned = strload_owned(texts)
                if id(tgt) in owned:
                    poisoned.add(owned[id(tgt)])
                do_mutate(tgt)
            obs_l.append(["unit"]); snaps.append(None); results.append(None)
            continue
        if k.startswith("build"):
            o, _ = call_op(op, None)
            obs_l.append(o); snaps.append(None); results.append(None)
            continue
        xs = op["x"]
        if "new" in xs:
            x = mk_val(xs["new"])
            inputs.append(x)
        else:
            x = inputs[xs["old"]] if xs["old"] < len(inputs) else None
        before = to_spec(x)
        snap = xs["new"] if "new" in xs and any(k in json.dumps(xs["new"]) for k in CONSTRUCTED) else before
        texts_in(x, texts)
        o, r = call_op(op, x)
        after = to_spec(x)
        obs_l.append(o); snaps.append(snap); results.append(r)
        # ---- the statement's side conditions, read directly
        if after != before:
            fails.append({"symptom": "input mutated by the call", "at": n, "before": before, "after": after})
        if r is not None:
            mine = containers(r)
            from_input = containers(x)
            for i in mine:
                if i in earlier and i not in from_input:
                    owned = strload_owned(texts)
                    fails.append({"symptom": "returned container is shared with an earlier result", "at": n,
                                  "with": earlier[i], "strload_owned": i in owned,
                                  "strload_key": to_spec(owned[i]) if i in owned else None})
                    break
            for i in mine:
                earlier.setdefault(i, n)
    return obs_l, snaps, fails, {"inputs": inputs, "results": results, "texts": texts, "poisoned": poisoned}


def temporals_in(x, acc, depth=0):
    if isinstance(x, (datetime.date, datetime.time, datetime.timedelta)):
        acc.append(x)
    elif type(x) in WALKED and depth < 20:
        for y in children(x):
            temporals_in(y, acc, depth + 1)


def norm_type_spec(sp):
    """spelling with the style of unions removed (member order kept)"""
    if sp[0] in ("L", "D"):
        return [sp[0], norm_type_spec(sp[1])]
    if sp[0] == "U":
        return ["U", [norm_type_spec(m) for m in sp[2]]]
    return sp


def subterms(sp):
    out = [sp]
    if sp[0] in ("L", "D"):
        out += subterms(sp[1])
    elif sp[0] == "U":
        for m in sp[2]:
            out += subterms(m)
    return [s for s in out if s[0] in ("L", "D", "U")]


def _eq(a, b):
    try:
        return bool(a == b)
    except Exception:  # noqa: BLE001
        return False


def ann_subterms(T, seen=None, out=None):
    """every generic / union annotation reachable from T through arguments and class field hints (typing only)"""
    import types
    seen = set() if seen is None else seen
    out = [] if out is None else out
    if id(T) in seen or len(seen) > 200:
        return out
    seen.add(id(T))
    args = typing.get_args(T)
    if args or isinstance(T, types.UnionType):
        if typing.get_origin(T) is not typing.Literal:
            out.append(T)
            for a in args:
                ann_subterms(a, seen, out)
    elif isinstance(T, type) and getattr(T, "__module__", "") == "c12_types":
        try:
            hints = typing.get_type_hints(T)
        except Exception:  # noqa: BLE001
            hints = {}
        for h in hints.values():
            ann_subterms(h, seen, out)
    return out


def ann_sig(T):
    import types
    args = typing.get_args(T)
    o = typing.get_origin(T)
    if o is typing.Union or isinstance(T, types.UnionType):
        return ("U", tuple(ann_sig(a) for a in args))
    if args:
        return (getattr(o, "__qualname__", repr(o)), tuple(ann_sig(a) for a in args))
    return getattr(T, "__qualname__", repr(T))


def predicate_probe(req):
    """finding 24: a cached predicate asked with two ==-equal spellings, in the given order"""
    from typelib.py import inspection
    f = getattr(inspection, req["predicate"])
    return {"answers": [bool(f(mk_type(sp))) for sp in req["types"]]}


def family_probe(req):
    """the catalogue of equal-value families against the live interpreter: which members are ==/hash equal, whether
    a member's spec is the canonical one (spec -> object -> spec is the identity; constructed kinds are exempt)"""
    out = []
    for members in req["families"]:
        objs = [mk_val(m) for m in members]
        eq = [[bool(_eq(a, b) and hash(a) == hash(b)) for b in objs] for a in objs]
        distinct = [[a is not b for b in objs] for a in objs]
        canon = [any(c in json.dumps(m) for c in CONSTRUCTED) or to_spec(o) == m for m, o in zip(members, objs)]
        out.append({"eq": eq, "canon": canon, "distinct": distinct})
    return {"families": out}


def diagnose(ops, at, cold):
    """Replays ops[:at], then finds which cache makes ops[at] differ from its cold observation, and collects the
    facts the known-finding matchers look at."""
    _, _, _, live = run_history(ops, stop_before=at)
    op = ops[at]
    xs = op["x"]
    x = mk_val(xs["new"]) if "new" in xs else (live["inputs"][xs["old"]] if xs["old"] < len(live["inputs"]) else None)
    groups = cache_groups()
    facts = {}
    # facts: was the caller's mutation applied to an object owned by strload, and does this call read that key
    mine = set()
    texts_in(x, mine)
    if op["op"] in ("decode", "cdecode"):
        mine = set()
        try:
            texts_in(json.loads(x), mine)
        except Exception:  # noqa: BLE001
            pass
    facts["reads_poisoned_strload_key"] = bool(mine & live["poisoned"])
    # facts: an equal temporal with another text was formatted before
    from typelib import serdes
    tm = []
    temporals_in(x, tm)
    prev = []
    for o2 in ops[:at]:
        if "x" in o2 and "new" in o2["x"]:
            temporals_in(mk_val(o2["x"]["new"]), prev)
    facts["equal_temporal_other_text"] = any(
        a == b and hash(a) == hash(b) and iso_body(a) != iso_body(b)
        for a in tm for b in prev)
    # facts: the equal temporal is a timedelta of ANOTHER CLASS (a subclass such as pendulum.Duration re-defines the
    # fields the duration writer reads)
    facts["equal_timedelta_other_class_other_text"] = any(
        isinstance(a, datetime.timedelta) and isinstance(b, datetime.timedelta) and type(a) is not type(b)
        and a == b and hash(a) == hash(b) and iso_body(a) != iso_body(b) for a in tm for b in prev)
    # facts: an ==-equal annotation with another member order was used before
    cur = ann_subterms(mk_type(op["t"])) if "t" in op else []
    old = [s for o2 in ops[:at] if "t" in o2 for s in ann_subterms(mk_type(o2["t"]))]
    facts["equal_annotation_other_order"] = any(_eq(a, b) and ann_sig(a) != ann_sig(b) for a in cur for b in old)
    facts["equal_annotation_other_spelling"] = any(
        _eq(a, b) and ann_sig(a) == ann_sig(b) and repr(a) != repr(b) for a in cur for b in old)
    order = ["isoformat", "dateparse", "strload", "factories", "inspection", "annotation-keyed", "other"]
    cause = None
    tried = []
    for g in order:
        pid_r, pid_w = os.pipe()
        pid = os.fork()
        if pid == 0:
            os.close(pid_r)
            for f in groups[g]:
                f.cache_clear()
            o, _ = call_op(op, x)
            os.write(pid_w, json.dumps(o).encode())
            os._exit(0)
        os.close(pid_w)
        data = b""
        while True:
            ch = os.read(pid_r, 65536)
            if not ch:
                break
            data += ch
        os.close(pid_r)
        os.waitpid(pid, 0)
        o = json.loads(data) if data else None
        tried.append([g, o])
        if o == cold:
            cause = g
            break
    if cause is None:
        for f in all_caches():
            f.cache_clear()
        o, _ = call_op(op, x)
        cause = "several-caches" if o == cold else "not-a-cache"
    return {"cause": cause, "facts": facts, "tried": tried}


# ---------------------------------------------------------------------------------- the world tables
import decimal as _decimal  # noqa: E402
import fractions as _fractions  # noqa: E402

STY = ["SInt", "SFloat", "SStr", "SBytes", "SNone", "SDateTime", "STimeDelta", "SDate", "STime", "SDecimal", "SFraction"]
STY_T = {"SInt": int, "SFloat": float, "SStr": str, "SBytes": bytes, "SNone": type(None),
         "SDateTime": datetime.datetime, "STimeDelta": datetime.timedelta, "SDate": datetime.date,
         "STime": datetime.time, "SDecimal": _decimal.Decimal, "SFraction": _fractions.Fraction}
TEMPORAL_STY = ("SDateTime", "STimeDelta", "SDate", "STime")


def world(atom_specs, maxidx):
    """Everything the model needs to know about atoms, measured on uncached bodies / cold routines."""
    import typelib
    from typelib import compat, serdes
    from typelib.py import inspection
    objs, keys = [], {}
    # Which atoms need which tables: an atom a routine can be RUN on (an input atom, a member of an object strload /
    # json.loads / list() / dict() / iteration produced from one, the ISO text a text routine continues with) gets
    # everything ("full", two generations deep as before); an atom that only ever is a result gets the cheap tables
    # (class predicates, ==/hash class, decode, JSON image) -- nothing else is ever looked up for it.
    full_q, queued = [], {}
    cur_gen = [0]

    def intern(x, full=False):
        sp = to_spec(x)
        if sp[0] in ("l", "d"):
            raise ValueError("not an atom")
        k = json.dumps(sp)
        if k not in keys:
            keys[k] = len(objs)
            objs.append((sp, x))
        i = keys[k]
        if full and i not in queued and cur_gen[0] + 1 <= 1:
            queued[i] = cur_gen[0] + 1
            full_q.append(i)
        return i

    def tree(x):
        if type(x) is list:
            return ["l", [tree(y) for y in x]]
        if type(x) is dict:
            return ["d", [[intern(a, True), tree(b)] for a, b in x.items()]]
        if type(x) in (tuple, set, frozenset):
            raise ValueError("unmodelled container")
        return ["a", intern(x, True)]

    def res_atom(fn, full=False):
        try:
            return ["ok", intern(fn(), full)]
        except Exception as e:  # noqa: BLE001
            return ["raise", exc_kind(e)] if not isinstance(e, ValueError) or str(e) != "not an atom" else ["unmodelled"]

    def res_tree(fn):
        try:
            v = fn()
        except Exception as e:  # noqa: BLE001
            return ["raise", exc_kind(e)]
        try:
            return ["ok", tree(v)]
        except ValueError:
            return ["unmodelled"]

    for i in range(maxidx):
        intern(i)
    intern(MARK); intern(ZZ); intern(None)
    for sp in atom_specs:
        intern(mk_val(sp))
    for i in range(len(objs)):
        queued[i] = 0
        full_q.append(i)
    routines_u = {s: typelib.unmarshaller(T) for s, T in STY_T.items()}
    routines_m = {s: typelib.marshaller(T) for s, T in STY_T.items()}
    W = {k: {} for k in ("text", "temporal", "isdelta", "isnone", "eqc", "strload", "iso", "decode", "chars", "len2", "json",
                         "jkey", "loads", "castl", "castd")}
    W["parse"] = {s: {} for s in TEMPORAL_STY}
    W["post"] = {s: {} for s in TEMPORAL_STY}
    W["leaf_u"] = {s: {} for s in STY}
    W["leaf_m"] = {s: {} for s in STY}
    qi = 0
    while qi < len(full_q):
        a = full_q[qi]
        qi += 1
        cur_gen[0] = queued[a]
        sp, x = objs[a]
        istext = bool(inspection.istexttype(type(x)))
        W["chars"][a] = _chars(serdes, x, lambda v: intern(v, True))
        W["castl"][a] = res_tree(lambda: list(x))
        W["castd"][a] = res_tree(lambda: dict(x))
        if istext:
            W["strload"][a] = res_tree(lambda: load_cache().__wrapped__(x))
            W["loads"][a] = res_tree(lambda: compat.json.loads(x))
        W["iso"][a] = res_atom(lambda: iso_body(x), full=True)
        for s in STY:
            temporal_sty = s in TEMPORAL_STY
            if not (temporal_sty and istext):
                iso_cache().cache_clear(); serdes.dateparse.cache_clear()
                W["leaf_u"][s][a] = res_atom(lambda: routines_u[s](x))
            if not temporal_sty:
                W["leaf_m"][s][a] = res_atom(lambda: routines_m[s](x))
        if istext:
            for s in TEMPORAL_STY:
                try:
                    d = serdes.decode(x)
                except Exception:  # noqa: BLE001
                    continue
                if not isinstance(d, str):
                    continue
                da = intern(d)
                try:
                    p = serdes.dateparse.__wrapped__(d, STY_T[s])
                except Exception as e:  # noqa: BLE001
                    W["parse"][s][da] = ["raise", exc_kind(e)]
                    continue
                pa = intern(p)
                W["parse"][s][da] = ["ok", pa]
                serdes.dateparse.cache_clear()
                post = res_atom(lambda: routines_u[s](x))
                if pa in W["post"][s] and W["post"][s][pa] != post:
                    W.setdefault("inconsistent", []).append([s, pa])
                W["post"][s][pa] = post
    # the cheap tables, for every atom (the JSON image of an atom may be a new atom: the list grows while it is walked)
    cur_gen[0] = 99
    buckets = {}
    a = 0
    while a < len(objs) and a < 200000:
        sp, x = objs[a]
        W["text"][a] = bool(inspection.istexttype(type(x)))
        W["temporal"][a] = isinstance(x, (datetime.date, datetime.time, datetime.timedelta))
        W["isnone"][a] = x is None
        W["isdelta"][a] = hasattr(serdes, "_isoduration") and not isinstance(x, (datetime.date, datetime.time)) \
            or not hasattr(serdes, "_isoduration")
        eq = a
        try:
            hx = hash(x)
        except Exception:  # noqa: BLE001
            hx = None
        if hx is not None:
            for b in buckets.setdefault(hx, []):
                try:
                    if objs[b][1] == x:
                        eq = W["eqc"][b]
                        break
                except Exception:  # noqa: BLE001
                    pass
            buckets[hx].append(a)
        W["eqc"][a] = eq
        W["decode"][a] = res_atom(lambda: serdes.decode(x))
        try:
            W["len2"][a] = bool(inspection.iscollectiontype(type(x)) and len(x) == 2)
        except Exception:  # noqa: BLE001
            W["len2"][a] = False
        W["json"][a] = res_atom(lambda: compat.json.loads(compat.json.dumps(x)))
        W["jkey"][a] = res_atom(lambda: next(iter(compat.json.loads(compat.json.dumps({x: 0})))))
        a += 1
    done = a
    from typelib import serdes as sd
    return {"atoms": [o[0] for o in objs], "tables": W, "complete": done == len(objs),
            "index": [keys[json.dumps(["i", i])] for i in range(maxidx)],
            "marker": keys[json.dumps(["i", MARK])], "zz": keys[json.dumps(["s", ZZ])], "none": keys[json.dumps(["n"])],
            "max": {"load": load_cache().cache_parameters()["maxsize"], "iso": iso_cache().cache_parameters()["maxsize"],
                    "parse": sd.dateparse.cache_parameters()["maxsize"]},
            "typed": [load_cache().cache_parameters()["typed"], iso_cache().cache_parameters()["typed"],
                      sd.dateparse.cache_parameters()["typed"]]}


def _chars(serdes, x, intern):
    try:
        vs = list(serdes.itervalues(x))
    except Exception as e:  # noqa: BLE001
        return ["raise", exc_kind(e)]
    try:
        return ["ok", [intern(v) for v in vs]]
    except ValueError:
        return ["unmodelled"]


# ---------------------------------------------------------------------------------- server
def handle(req):
    k = req["kind"]
    if k == "cold":
        op = req["op"]
        x = mk_val(op["x"]["new"]) if "x" in op else None
        o, _ = call_op(op, x)
        return {"obs": o}
    if k == "history":
        o, s, f, live = run_history(req["ops"])
        return {"obs": o, "snap": s, "oracle": f}
    if k == "diagnose":
        return diagnose(req["ops"], req["at"], req["cold"])
    if k == "world":
        return world(req["atoms"], req["maxidx"])
    if k == "predicate":
        return predicate_probe(req)
    if k == "family":
        return family_probe(req)
    raise ValueError(k)


def in_child(req):
    r, w = os.pipe()
    pid = os.fork()
    if pid == 0:
        os.close(r)
        try:
            import warnings
            warnings.simplefilter("ignore")
            out = handle(req)
        except BaseException as e:  # noqa: BLE001
            import traceback
            out = {"error": repr(e), "trace": traceback.format_exc()[-1500:]}
        data = json.dumps(out).encode()
        while data:
            n = os.write(w, data)
            data = data[n:]
        os._exit(0)
    os.close(w)
    chunks = []
    while True:
        ch = os.read(r, 1 << 16)
        if not ch:
            break
        chunks.append(ch)
    os.close(r)
    os.waitpid(pid, 0)
    return b"".join(chunks).decode() or json.dumps({"error": "child died"})


def main():
    sys.path.insert(0, os.path.dirname(os.path.abspath(__file__)))
    import typelib  # noqa: F401  (imported, never called, in the server)
    import impl  # noqa: F401
    # harness classes (one frozen dataclass per declared scalar type) are created once, before any fork: creating
    # them is the dataclasses module's work, no typelib function is called
    import c12_acceptors
    import c12_families
    for t in c12_families.all_types() + c12_acceptors.all_types():
        mk_type(["F", t])
    if "--fresh" in sys.argv:
        import warnings
        warnings.simplefilter("ignore")
        print(json.dumps(handle(json.loads(sys.stdin.read()))))
        return
    out = sys.stdout
    for line in sys.stdin:
        line = line.strip()
        if not line:
            continue
        out.write(in_child(json.loads(line)) + "\n")
        out.flush()


if __name__ == "__main__":
    main()
