"""Source translator tie for typelib/serdes.py (WP serdes-ast): on every run the CURRENT source of serdes.py is parsed
with `ast`, a restricted fragment of each tied function is translated FAIL-CLOSED into the little target language of
Model/SerdesAst*.v (decision ladders = `if G: return A` rungs in source order + the fall-through action; straight-line
bodies as records of the choices they make; suppress-blocks as attempt lists), written as Gen*.v into the run's build
dir, and coq/dyn/SerdesAst/*.v proves that the translated code IS the hand-written model:

  part 1 (Model/Iter.v, C18)     get_items_iter, _is_iterable_of_pairs, iteritems, itervalues
  part 2 (Model/Serdes.v, C14)   decode, load, strload, _strload
  part 3 (Model/Temporal.v, C04) isoformat, unixtime

Anything outside the fragment raises `Closed`: the obligation `serdesast:translate <fn>` fails with the reason, the
function gets no definition and the dyn file of its part cannot compile.  Nothing is guessed.  See notes/serdesast.md
for the fragment accepted per function, what is refused, and the mutations tried.

Entry points: `obligations(run, parts=("iter", "load", "time"), strload_shape=None)`, `search(run, parts)`,
`replay(payload)` (payloads with kind "serdesast"), `COQ_TARGETS[_ITER|_LOAD|_TIME]`.
"""
from __future__ import annotations

import ast
import inspect
import json
import os
import re
import sys
import time

import lib

_HERE = os.path.dirname(os.path.abspath(__file__))

COQ_TARGETS_ITER = ["theories/Props/SerdesAst.vo"]
COQ_TARGETS_LOAD = ["theories/Props/SerdesAstLoad.vo"]
COQ_TARGETS_TIME = ["theories/Props/SerdesAstTime.vo"]
COQ_TARGETS = COQ_TARGETS_ITER + COQ_TARGETS_LOAD + COQ_TARGETS_TIME

PROPS_ITER = [("Props/SerdesAst.v", [
    "SerdesAst_reps_complete", "SerdesAst_model_branches", "SerdesAst_gladder_sound", "SerdesAst_gladder_complete",
    "SerdesAst_pladder_sound", "SerdesAst_items_prog_sound", "SerdesAst_values_prog_sound",
    "SerdesAst_iteritems_src_sound", "SerdesAst_itervalues_src_sound", "SerdesAst_refuted_enumerate_first",
    "SerdesAst_refuted_namedtuple_not_excluded", "SerdesAst_refuted_apply_val", "SerdesAst_refuted_keys_for_values"])]
ITER_THEOREMS = ["SerdesAst_get_items_iter_ladder", "SerdesAst_is_iterable_of_pairs_ladder", "SerdesAst_get_items_iter",
                 "SerdesAst_is_iterable_of_pairs", "SerdesAst_iteritems_body", "SerdesAst_itervalues_body",
                 "SerdesAst_iteritems", "SerdesAst_itervalues"]


class Closed(Exception):
    """the source is outside what the translator understands: fail closed"""


# ==================================================================================
# 0. the parsed module
# ==================================================================================

BUILTINS_USED = ("enumerate", "iter", "next", "len", "zip", "isinstance", "bytes", "memoryview", "bytearray", "str")


class Source:
    def __init__(self):
        from typelib import serdes
        self.live = serdes
        self.path = inspect.getsourcefile(serdes)
        self.problems: list[str] = []
        want = os.path.join(lib.REPO, "src", "typelib", "serdes.py")
        if os.path.realpath(self.path) != os.path.realpath(want):
            self.problems.append(f"typelib.serdes is loaded from {self.path}, not from {lib.REPO}")
        self.text = open(self.path).read()
        self.tree = ast.parse(self.text, self.path)
        self.lines = self.text.split("\n")
        # module-level bindings (through top-level if/try/with blocks)
        self.bound: dict[str, list] = {}
        self._collect(self.tree.body)

    def _bind(self, name, node):
        self.bound.setdefault(name, []).append(node)

    def _collect(self, stmts):
        for st in stmts:
            if isinstance(st, (ast.FunctionDef, ast.AsyncFunctionDef, ast.ClassDef)):
                self._bind(st.name, st)
            elif isinstance(st, ast.Import):
                for a in st.names:
                    self._bind(a.asname or a.name.split(".")[0], st)
            elif isinstance(st, ast.ImportFrom):
                for a in st.names:
                    self._bind(a.asname or a.name, st)
            elif isinstance(st, (ast.Assign, ast.AnnAssign, ast.AugAssign)):
                tg = st.targets if isinstance(st, ast.Assign) else [st.target]
                for t in tg:
                    for n in ast.walk(t):
                        if isinstance(n, ast.Name):
                            self._bind(n.id, st)
            elif isinstance(st, (ast.If, ast.Try, ast.With, ast.For, ast.While)):
                for fld in ("body", "orelse", "finalbody"):
                    self._collect(getattr(st, fld, []) or [])
                for h in getattr(st, "handlers", []) or []:
                    self._collect(h.body)
            elif isinstance(st, (ast.Delete, ast.Global)):
                raise Closed(f"module level `{ast.unparse(st)}` (line {st.lineno})")

    # -- lookups -------------------------------------------------------------------
    def func(self, name: str) -> ast.FunctionDef:
        defs = [d for d in self.bound.get(name, []) if isinstance(d, ast.FunctionDef)
                and not any(ast.unparse(x) in ("t.overload", "typing.overload") for x in d.decorator_list)]
        others = [d for d in self.bound.get(name, []) if not isinstance(d, ast.FunctionDef)]
        if len(defs) != 1 or others:
            raise Closed(f"{name}: expected exactly one module-level definition, found {len(defs)} def(s) and "
                         f"{len(others)} other binding(s)")
        return defs[0]

    def imported_from(self, name: str, module: str) -> bool:
        b = self.bound.get(name, [])
        return (len(b) == 1 and isinstance(b[0], ast.ImportFrom) and b[0].module == module and b[0].level == 0
                and any(a.name == name and a.asname is None for a in b[0].names))

    def imported(self, name: str) -> bool:
        b = self.bound.get(name, [])
        return (len(b) == 1 and isinstance(b[0], ast.Import)
                and any(a.name == name and a.asname is None for a in b[0].names))

    def need_builtin(self, fn: str, name: str):
        if name in self.bound:
            raise Closed(f"{fn}: the builtin `{name}` is re-bound at module level (line {self.bound[name][0].lineno})")

    def need_inspection(self, fn: str):
        if not self.imported_from("inspection", "typelib.py"):
            raise Closed(f"{fn}: `inspection` is not `from typelib.py import inspection`")

    def src(self, node) -> str:
        return " ".join(ast.unparse(node).split())

    def check_live(self, name: str, fn: ast.FunctionDef):
        obj = getattr(self.live, name, None)
        obj = inspect.unwrap(obj) if obj is not None else None
        code = getattr(obj, "__code__", None)
        first = min([fn.lineno] + [d.lineno for d in fn.decorator_list])
        if code is None or code.co_firstlineno not in (fn.lineno, first) \
                or os.path.realpath(code.co_filename) != os.path.realpath(self.path):
            self.problems.append(f"{name} of the live module is not the function parsed at line {fn.lineno}")


def body_of(fn: ast.FunctionDef) -> list:
    b = list(fn.body)
    if b and isinstance(b[0], ast.Expr) and isinstance(b[0].value, ast.Constant) and isinstance(b[0].value.value, str):
        b = b[1:]
    return b


def simple_params(fn: ast.FunctionDef, n_pos: int, kwonly=()) -> list[str]:
    a = fn.args
    if (a.posonlyargs or a.vararg or a.kwarg or a.defaults or len(a.args) != n_pos
            or [k.arg for k in a.kwonlyargs] != list(kwonly)):
        raise Closed(f"{fn.name}: unexpected parameter list ({ast.unparse(a)})")
    return [x.arg for x in a.args]


def local_stores(fn: ast.FunctionDef) -> set[str]:
    out = set()
    for n in ast.walk(fn):
        if isinstance(n, ast.Name) and isinstance(n.ctx, (ast.Store, ast.Del)):
            out.add(n.id)
        elif isinstance(n, (ast.FunctionDef, ast.ClassDef)) and n is not fn:
            out.add(n.name)
        elif isinstance(n, (ast.Import, ast.ImportFrom)):
            out.update(a.asname or a.name.split(".")[0] for a in n.names)
        elif isinstance(n, (ast.Global, ast.Nonlocal)):
            raise Closed(f"{fn.name}: global / nonlocal statement")
    return out


def need_globals(S: Source, fn: ast.FunctionDef, names):
    """the names the translation reads as module globals / builtins are not parameters or locals of fn"""
    loc = local_stores(fn) | {a.arg for a in fn.args.args + fn.args.kwonlyargs}
    for n in names:
        if n in loc:
            raise Closed(f"{fn.name}: `{n}` is a local name here")


def decorators(fn: ast.FunctionDef, allowed: list[str]):
    got = [" ".join(ast.unparse(d).split()) for d in fn.decorator_list]
    ok = len(got) == len(allowed) and all(re.fullmatch(p, g) for p, g in zip(allowed, got))
    if not ok:
        raise Closed(f"{fn.name}: decorators {got} (expected {allowed})")


# ==================================================================================
# 1. part 1: generic iteration (Model/Iter.v)
# ==================================================================================

CPREDS = {"isiterabletype": "PIterable", "ismappingtype": "PMapping", "isnamedtuple": "PNamedTuple",
          "issequencetype": "PSequence", "iscollectiontype": "PCollection"}


def g_coq(g) -> str:
    if g[0] == "pred":
        return f"(GPred {g[1]})"
    if g[0] == "not":
        return f"(GNot {g_coq(g[1])})"
    return "(%s %s %s)" % ({"or": "GOr", "and": "GAnd"}[g[0]], g_coq(g[1]), g_coq(g[2]))


class Iterish:
    """symbolic evaluation of the bodies of part 1.  Symbolic values:
       ('val',)                    the parameter
       ('cls', of)                 of.__class__   (of = ('val',) or a peek)
       ('guard', g)                a boolean combination of inspection predicates on the class of val
       ('peek_next', dflt)         next(iter(val)[, ()])
       ('peekable',)               peekable(val)
       ('peek_pk', dflt)           <peekable>.peek([()])
       ('elemcls', P, peek)        inspection.P(peek.__class__)
       ('test', peek, P, n)        inspection.P(peek.__class__) and len(peek) == n
       ('const', b)  ('tuple', [..])  ('probe',) ('probe_flag',) ('probe_it',) ('iterate',)"""

    def __init__(self, S: Source, fn: ast.FunctionDef, param: str, param_is_class: bool):
        self.S, self.fn, self.name, self.param, self.param_is_class = S, fn, fn.name, param, param_is_class

    def closed(self, msg, node=None):
        where = f" (line {node.lineno})" if node is not None and hasattr(node, "lineno") else ""
        return Closed(f"{self.name}: {msg}{where}")

    def classof_val(self, v) -> bool:
        return v == (("tp",) if self.param_is_class else ("cls", ("val",)))

    def sym(self, e, env):
        S = self.S
        if isinstance(e, ast.Name) and isinstance(e.ctx, ast.Load):
            if e.id in env["names"]:
                return env["names"][e.id]
            if e.id == self.param:
                return ("tp",) if self.param_is_class else ("val",)
            raise self.closed(f"name `{e.id}` is not understood", e)
        if isinstance(e, ast.Constant) and isinstance(e.value, bool):
            return ("const", e.value)
        if isinstance(e, ast.Tuple) and isinstance(e.ctx, ast.Load):
            return ("tuple", [self.sym(x, env) for x in e.elts])
        if isinstance(e, ast.Attribute) and e.attr == "__class__":
            of = self.sym(e.value, env)
            if of == ("val",) or of[0] in ("peek_next", "peek_pk"):
                return ("cls", of)
            raise self.closed(f"`{S.src(e)}`: class of something else than the parameter or the peeked element", e)
        if isinstance(e, ast.UnaryOp) and isinstance(e.op, ast.Not):
            g = self.sym(e.operand, env)
            if g[0] != "guard":
                raise self.closed(f"`not` of something else than a class predicate: `{S.src(e)}`", e)
            return ("guard", ("not", g[1]))
        if isinstance(e, ast.BoolOp):
            vs = [self.sym(x, env) for x in e.values]
            if all(v[0] == "guard" for v in vs):
                op = "or" if isinstance(e.op, ast.Or) else "and"
                g = vs[-1][1]
                for v in reversed(vs[:-1]):
                    g = (op, v[1], g)
                return ("guard", g)
            if isinstance(e.op, ast.And) and len(vs) == 2 and vs[0][0] == "elemcls" and vs[1][0] == "lencmp" \
                    and vs[0][2] == vs[1][1]:
                return ("test", vs[0][2], vs[0][1], vs[1][2])
            raise self.closed(f"boolean expression not understood: `{S.src(e)}`", e)
        if isinstance(e, ast.Compare) and len(e.ops) == 1 and isinstance(e.ops[0], ast.Eq):
            l, r = e.left, e.comparators[0]
            if (isinstance(l, ast.Call) and isinstance(l.func, ast.Name) and l.func.id == "len" and len(l.args) == 1
                    and not l.keywords and isinstance(r, ast.Constant) and type(r.value) is int and 0 <= r.value < 100):
                S.need_builtin(self.name, "len")
                of = self.sym(l.args[0], env)
                if of[0] in ("peek_next", "peek_pk"):
                    return ("lencmp", of, r.value)
            raise self.closed(f"comparison not understood: `{S.src(e)}`", e)
        if isinstance(e, ast.Call) and not e.keywords:
            f = e.func
            # inspection.P(<class>)
            if isinstance(f, ast.Attribute) and isinstance(f.value, ast.Name) and f.value.id == "inspection":
                S.need_inspection(self.name)
                if f.attr not in CPREDS or len(e.args) != 1:
                    raise self.closed(f"`{S.src(e)}`: not one of the class predicates {sorted(CPREDS)}", e)
                a = self.sym(e.args[0], env)
                if self.classof_val(a):
                    return ("guard", ("pred", CPREDS[f.attr]))
                if a[0] == "cls" and a[1][0] in ("peek_next", "peek_pk"):
                    return ("elemcls", CPREDS[f.attr], a[1])
                raise self.closed(f"`{S.src(e)}`: the predicate is not applied to "
                                  f"{'the parameter' if self.param_is_class else 'val.__class__'}", e)
            if isinstance(f, ast.Name) and f.id not in env["names"]:
                if f.id == "next":
                    S.need_builtin(self.name, "next"), S.need_builtin(self.name, "iter")
                    if len(e.args) in (1, 2) and isinstance(e.args[0], ast.Call) and isinstance(e.args[0].func, ast.Name) \
                            and e.args[0].func.id == "iter" and len(e.args[0].args) == 1 and not e.args[0].keywords \
                            and self.sym(e.args[0].args[0], env) == ("val",):
                        v = ("peek_next", self.default(e.args[1:], e))
                        env["effects"].append(v[0])
                        return v
                    raise self.closed(f"`{S.src(e)}`: not next(iter(val)[, ()])", e)
                if f.id == "peekable":
                    if not S.imported_from("peekable", "more_itertools"):
                        raise self.closed("`peekable` is not `from more_itertools import peekable`", e)
                    if len(e.args) == 1 and self.sym(e.args[0], env) == ("val",):
                        env["effects"].append("peekable")
                        return ("peekable",)
                    raise self.closed(f"`{S.src(e)}`: not peekable(val)", e)
                if f.id == "_is_iterable_of_pairs":
                    S.func("_is_iterable_of_pairs")
                    if len(e.args) == 1 and self.sym(e.args[0], env) == ("val",):
                        return ("probe",)
                    raise self.closed(f"`{S.src(e)}`: not _is_iterable_of_pairs(val)", e)
                if f.id == "get_items_iter":
                    S.func("get_items_iter")
                    if len(e.args) == 1 and self.sym(e.args[0], env) == ("cls", ("val",)):
                        return ("iterate",)
                    raise self.closed(f"`{S.src(e)}`: get_items_iter is not applied to val.__class__ "
                                      "(type(val) is refused: the model's class_of and the reflected predicate table "
                                      "are about __class__)", e)
            # <peekable>.peek([()])
            if isinstance(f, ast.Attribute) and f.attr == "peek" and self.sym(f.value, env) == ("peekable",):
                v = ("peek_pk", self.default(e.args, e))
                env["effects"].append(v[0])
                return v
        raise self.closed(f"expression not understood: `{S.src(e)}`", e)

    def default(self, args, node):
        if not args:
            return None
        if len(args) == 1 and isinstance(args[0], ast.Tuple) and not args[0].elts:
            return "DEmptyTuple"
        raise self.closed(f"default `{self.S.src(args[0])}` is not the empty tuple", node)

    def assign(self, st, env):
        """x = e / x: T = e / a, b = (e1, e2)"""
        if isinstance(st, ast.AnnAssign) and st.value is not None and isinstance(st.target, ast.Name):
            targets, value = [st.target], st.value
        elif isinstance(st, ast.Assign) and len(st.targets) == 1:
            targets, value = st.targets, st.value
        else:
            raise self.closed(f"statement not understood: `{self.S.src(st)}`", st)
        t = targets[0]
        if isinstance(t, ast.Name):
            if t.id == self.param:
                raise self.closed(f"the parameter `{t.id}` is re-bound", st)
            env["names"][t.id] = self.sym(value, env)
            return
        if isinstance(t, ast.Tuple) and all(isinstance(x, ast.Name) for x in t.elts):
            v = self.sym(value, env)
            names = [x.id for x in t.elts]
            if self.param in names or len(set(names)) != len(names):
                raise self.closed(f"bad unpacking targets in `{self.S.src(st)}`", st)
            if v[0] == "tuple" and len(v[1]) == len(names):
                for n, x in zip(names, v[1]):
                    env["names"][n] = x
                return
            if v == ("probe",) and len(names) == 2:
                env["names"][names[0]], env["names"][names[1]] = ("probe_flag",), ("probe_it",)
                return
        raise self.closed(f"assignment not understood: `{self.S.src(st)}`", st)

    def ladder(self, stmts, env, action):
        """-> (rungs [(guard, action, lineno, text)], default (action, lineno, text))"""
        rungs = []
        for i, st in enumerate(stmts):
            if isinstance(st, (ast.Assign, ast.AnnAssign)):
                self.assign(st, env)
            elif isinstance(st, ast.If):
                g = self.sym(st.test, env)
                if g[0] != "guard":
                    raise self.closed(f"`if {self.S.src(st.test)}`: the test is not a combination of class predicates", st)
                benv = {"names": dict(env["names"]), "effects": list(env["effects"])}
                a = self.block(st.body, benv, action)
                rungs.append((g[1], a, st.lineno, f"if {self.S.src(st.test)}: ... {self.S.src(st.body[-1])}"))
                if st.orelse:
                    if i != len(stmts) - 1:
                        raise self.closed("statements after an if/else", stmts[i + 1])
                    r2, d2 = self.ladder(st.orelse, env, action)
                    return rungs + r2, d2
            elif isinstance(st, ast.Return):
                if i != len(stmts) - 1:
                    raise self.closed("statements after a return", stmts[i + 1])
                return rungs, (action(st, env), st.lineno, self.S.src(st))
            else:
                raise self.closed(f"statement not understood: `{self.S.src(st)}`", st)
        raise self.closed("the body does not end with a return")

    def block(self, stmts, env, action):
        for i, st in enumerate(stmts):
            if isinstance(st, (ast.Assign, ast.AnnAssign)):
                self.assign(st, env)
            elif isinstance(st, ast.Return) and i == len(stmts) - 1:
                return action(st, env)
            else:
                raise self.closed(f"statement not understood in a branch: `{self.S.src(st)}`", st)
        raise self.closed("a branch does not end with a return", stmts[-1] if stmts else None)


def tr_get_items_iter(S: Source):
    fn = S.func("get_items_iter")
    decorators(fn, [r"compat\.cache"])        # memoisation per class: invisible to a function of the class alone
    (tp,) = simple_params(fn, 1)
    need_globals(S, fn, ["inspection", "enumerate", "_itemscaller", "_namedtupleitems", "_make_fields_iterator"])
    T = Iterish(S, fn, tp, param_is_class=True)

    def action(st: ast.Return, env):
        if env["effects"]:
            raise T.closed("side effects before the return", st)
        e = st.value
        if isinstance(e, ast.Name) and e.id not in env["names"]:
            if e.id == "_itemscaller":
                b = S.bound.get("_itemscaller", [])
                if not (len(b) == 1 and isinstance(b[0], ast.Assign)
                        and S.src(b[0].value) in ("operator.methodcaller('items')",) and S.imported("operator")):
                    raise T.closed("`_itemscaller` is not operator.methodcaller('items')", st)
                return "AItemsCaller"
            if e.id == "_namedtupleitems":
                f2 = S.func("_namedtupleitems")
                (p,) = simple_params(f2, 1)
                b2 = body_of(f2)
                S.need_builtin(fn.name, "zip")
                if not (len(b2) == 1 and isinstance(b2[0], ast.Return) and not f2.decorator_list
                        and S.src(b2[0].value) == f"zip({p}._fields, {p})"):
                    raise T.closed("`_namedtupleitems` is not `return zip(val._fields, val)`", st)
                return "ANamedTupleItems"
            if e.id == "enumerate":
                S.need_builtin(fn.name, "enumerate")
                return "AEnumerate"
        if isinstance(e, ast.Call) and isinstance(e.func, ast.Name) and e.func.id == "_make_fields_iterator" \
                and not e.keywords and len(e.args) == 1 and isinstance(e.args[0], ast.Name) and e.args[0].id == tp:
            S.func("_make_fields_iterator")
            return "AMakeFields"
        raise T.closed(f"returned strategy not understood: `{S.src(st)}`", st)

    rungs, dflt = T.ladder(body_of(fn), {"names": {}, "effects": []}, action)
    S.check_live("get_items_iter", fn)
    return {"fn": "get_items_iter", "rungs": rungs, "default": dflt, "line": fn.lineno}


def tr_is_iterable_of_pairs(S: Source):
    fn = S.func("_is_iterable_of_pairs")
    decorators(fn, [])
    (val,) = simple_params(fn, 1)
    need_globals(S, fn, ["inspection", "next", "iter", "len", "peekable"])
    T = Iterish(S, fn, val, param_is_class=False)

    def test_coq(t):
        return f"(ETest {t[2]} {t[3]})"

    def dflt_coq(d):
        return "None" if d is None else f"(Some {d})"

    def action(st: ast.Return, env):
        if st.value is None:
            raise T.closed("bare return", st)
        v = T.sym(st.value, env)
        if v[0] != "tuple" or len(v[1]) != 2:
            raise T.closed(f"`{S.src(st)}` does not return a pair", st)
        flag, carrier = v[1]
        eff = env["effects"]
        if flag == ("const", False) and carrier == ("val",) and eff == []:
            return "PANo"
        if flag[0] == "test" and flag[1][0] == "peek_next" and carrier == ("val",) and eff == ["peek_next"]:
            return f"(PAHead {dflt_coq(flag[1][1])} {test_coq(flag)})"
        if flag[0] == "test" and flag[1][0] == "peek_pk" and carrier == ("peekable",) and eff == ["peekable", "peek_pk"]:
            return f"(PAPeekable {dflt_coq(flag[1][1])} {test_coq(flag)})"
        raise T.closed(f"`{S.src(st)}`: returned pair not understood (flag {flag[0]}, carrier {carrier[0]}, "
                       f"iterator operations in this branch: {eff or 'none'})", st)

    rungs, dflt = T.ladder(body_of(fn), {"names": {}, "effects": []}, action)
    S.check_live("_is_iterable_of_pairs", fn)
    return {"fn": "_is_iterable_of_pairs", "rungs": rungs, "default": dflt, "line": fn.lineno}


def tr_iteritems(S: Source):
    fn = S.func("iteritems")
    decorators(fn, [])
    (val,) = simple_params(fn, 1)
    need_globals(S, fn, ["iter", "_is_iterable_of_pairs", "get_items_iter"])
    T = Iterish(S, fn, val, param_is_class=False)
    env = {"names": {}, "effects": []}
    b = body_of(fn)

    def operand(e, what):
        v = T.sym(e, env)
        if v == ("val",):
            return "OVal"
        if v == ("probe_it",):
            return "OIt"
        raise T.closed(f"{what}: `{S.src(e)}` is neither the parameter nor the iterable the probe returned", e)

    if not (len(b) >= 3 and isinstance(b[0], ast.Assign) and isinstance(b[1], ast.If) and isinstance(b[-1], ast.Return)
            and len(b) in (3, 4)):
        raise T.closed("body is not `flag, it = _is_iterable_of_pairs(val); if flag: return iter(..); "
                       "[iterate = get_items_iter(val.__class__);] return iterate(..)`", fn)
    T.assign(b[0], env)
    if ("probe_flag",) not in env["names"].values():
        raise T.closed(f"`{S.src(b[0])}` does not unpack _is_iterable_of_pairs(val)", b[0])
    iff = b[1]
    if T.sym(iff.test, env) != ("probe_flag",) or iff.orelse or len(iff.body) != 1 or not isinstance(iff.body[0], ast.Return):
        raise T.closed(f"`if {S.src(iff.test)}: ...` is not `if <flag of the probe>: return iter(..)`", iff)
    r = iff.body[0].value
    S.need_builtin(fn.name, "iter")
    if not (isinstance(r, ast.Call) and isinstance(r.func, ast.Name) and r.func.id == "iter" and len(r.args) == 1
            and not r.keywords):
        raise T.closed(f"`{S.src(iff.body[0])}` is not `return iter(..)`", iff.body[0])
    pairs_ret = operand(r.args[0], "the pairs branch")
    if len(b) == 4:
        if not isinstance(b[2], (ast.Assign, ast.AnnAssign)):
            raise T.closed(f"statement not understood: `{S.src(b[2])}`", b[2])
        T.assign(b[2], env)
    ret = b[-1].value
    if not (isinstance(ret, ast.Call) and not ret.keywords and len(ret.args) == 1 and T.sym(ret.func, env) == ("iterate",)):
        raise T.closed(f"`{S.src(b[-1])}` is not `return get_items_iter(val.__class__)(..)`", b[-1])
    apply = operand(ret.args[0], "the strategy")
    S.check_live("iteritems", fn)
    return {"fn": "iteritems", "pairs_ret": pairs_ret, "apply": apply, "line": fn.lineno,
            "lines": {"pairs_ret": (iff.lineno, S.src(iff)), "apply": (b[-1].lineno, S.src(b[-1]))}}


def tr_itervalues(S: Source):
    fn = S.func("itervalues")
    decorators(fn, [])
    (val,) = simple_params(fn, 1)
    need_globals(S, fn, ["get_items_iter"])
    T = Iterish(S, fn, val, param_is_class=False)
    env = {"names": {}, "effects": []}
    b = body_of(fn)
    if not (len(b) in (1, 2) and isinstance(b[-1], ast.Return)):
        raise T.closed("body is not `[iterate = get_items_iter(val.__class__);] return (v for k, v in iterate(val))`", fn)
    if len(b) == 2:
        if not isinstance(b[0], (ast.Assign, ast.AnnAssign)):
            raise T.closed(f"statement not understood: `{S.src(b[0])}`", b[0])
        T.assign(b[0], env)
    g = b[-1].value
    if not (isinstance(g, ast.GeneratorExp) and len(g.generators) == 1):
        raise T.closed(f"`{S.src(b[-1])}` does not return one generator expression", b[-1])
    c = g.generators[0]
    if c.ifs or c.is_async or not (isinstance(c.target, ast.Tuple) and len(c.target.elts) == 2
                                   and all(isinstance(x, ast.Name) for x in c.target.elts)):
        raise T.closed(f"`{S.src(g)}`: the loop is not `for k, v in ...` without conditions", b[-1])
    k, v = (x.id for x in c.target.elts)
    if k == v or {k, v} & (set(env["names"]) | {val}):
        raise T.closed(f"`{S.src(g)}`: loop variables shadow a name in use", b[-1])
    it = c.iter
    if not (isinstance(it, ast.Call) and not it.keywords and len(it.args) == 1 and T.sym(it.func, env) == ("iterate",)
            and T.sym(it.args[0], env) == ("val",)):
        raise T.closed(f"`{S.src(it)}` is not get_items_iter(val.__class__)(val)", b[-1])
    if not (isinstance(g.elt, ast.Name) and g.elt.id in (k, v)):
        raise T.closed(f"`{S.src(g)}`: the element is not one of the loop variables", b[-1])
    S.check_live("itervalues", fn)
    return {"fn": "itervalues", "proj": "PrValue" if g.elt.id == v else "PrKey", "line": fn.lineno,
            "lines": {"proj": (b[-1].lineno, S.src(b[-1]))}}


def ladder_coq(name, ty, t) -> str:
    rows = ["(%s, %s)" % (g_coq(g), a) for g, a, _, _ in t["rungs"]]
    return (f"Definition src_{name} : ladder {ty} :=\n  " + lib.coq_list(rows, f"(guard * {ty})").replace("; (", ";\n   (")
            + f".\nDefinition dflt_{name} : {ty} := {t['default'][0]}.\n")


ITER_FUNCS = [("get_items_iter", tr_get_items_iter), ("_is_iterable_of_pairs", tr_is_iterable_of_pairs),
              ("iteritems", tr_iteritems), ("itervalues", tr_itervalues)]


def translate_part(S: Source, funcs):
    out, problems = {}, []
    for name, tr in funcs:
        try:
            out[name] = tr(S)
        except Closed as e:
            problems.append((name, str(e)))
    return out, problems


def gen_iter(tr: dict) -> str:
    text = ("(* generated by harness/serdesasttie.py from the SOURCE of typelib/serdes.py (ast) on this run *)\n"
            "From Coq Require Import List. Import ListNotations.\n"
            "Require Import TL.Model.Iter TL.Model.SerdesAst.\n")
    if "get_items_iter" in tr:
        text += ladder_coq("get_items_iter", "gaction", tr["get_items_iter"])
    if "_is_iterable_of_pairs" in tr:
        text += ladder_coq("is_iterable_of_pairs", "paction", tr["_is_iterable_of_pairs"])
    if "iteritems" in tr:
        t = tr["iteritems"]
        text += f"Definition src_iteritems : items_prog := {{| ip_pairs_ret := {t['pairs_ret']}; ip_apply := {t['apply']} |}}.\n"
    if "itervalues" in tr:
        text += f"Definition src_itervalues : values_prog := {{| vp_proj := {tr['itervalues']['proj']} |}}.\n"
    return text


# -- diagnostics: which class, which rung -------------------------------------------

def split_top(s: str, sep: str) -> list[str]:
    out, depth, cur = [], 0, ""
    i = 0
    while i < len(s):
        c = s[i]
        if c in "([{":
            depth += 1
        elif c in ")]}":
            depth -= 1
        if depth == 0 and s.startswith(sep, i):
            out.append(cur)
            cur = ""
            i += len(sep)
            continue
        cur += c
        i += 1
    if cur.strip():
        out.append(cur)
    return [x.strip() for x in out]


def parse_diag(s: str) -> list[list[str]]:
    s = " ".join(s.split())
    if s in ("[]", "nil"):
        return []
    assert s.startswith("[") and s.endswith("]"), s
    rows = []
    for item in split_top(s[1:-1], ";"):
        assert item.startswith("(") and item.endswith(")"), item
        rows.append(split_top(item[1:-1], ","))
    return rows


def explain_ladder(t: dict, rows: list[list[str]], what="class") -> str:
    """rows: (descriptor, rung index, action taken, action of the model)"""
    msgs = []
    seen = set()
    for d, ix, got, want in rows:
        ix = int(ix)
        if ix < len(t["rungs"]):
            _, _, ln, txt = t["rungs"][ix]
            where = f"rung {ix} (line {ln}: `{txt}`)"
        else:
            _, ln, txt = t["default"]
            where = f"the fall-through (line {ln}: `{txt}`)"
        key = (ix, got, want)
        if key in seen:
            continue
        seen.add(key)
        msgs.append(f"on {what} {d} the source takes {where} = {got}, the model takes {want}")
    more = f" [{len(rows)} differing {what} descriptors]" if len(rows) > len(msgs) else ""
    return f"{t['fn']}: " + "; ".join(msgs[:4]) + more


def iter_obligations(run: lib.Run, S: Source) -> bool:
    tr, problems = translate_part(S, ITER_FUNCS)
    for name, _ in ITER_FUNCS:
        p = [m for n, m in problems if n == name]
        run.oblige(f"serdesast:translate {name} (ast of serdes.py -> "
                   + {"get_items_iter": "ladder of class predicates -> strategy",
                      "_is_iterable_of_pairs": "ladder of class predicates -> peek action",
                      "iteritems": "probe / pairs branch / strategy application",
                      "itervalues": "strategy application / projection"}[name] + "; fail closed)", not p, "; ".join(p))
    run.extra_cov.setdefault("serdesast_translation", {}).update(
        {k: {kk: vv for kk, vv in v.items() if kk != "fn"} for k, v in tr.items()})
    ok = run.compile_dyn("GenSerdesAstIter.v", text=gen_iter(tr))
    # readable comparison, function by function (the theorems below fail on the same differences)
    ev = ["From Coq Require Import List. Import ListNotations.",
          "Require Import TL.Model.Iter TL.Model.SerdesAst TLRun.GenSerdesAstIter."]
    order = []
    if ok:
        if "get_items_iter" in tr:
            ev.append("Eval vm_compute in (gladder_diag src_get_items_iter dflt_get_items_iter)."), order.append("get_items_iter")
        if "_is_iterable_of_pairs" in tr:
            ev.append("Eval vm_compute in (pladder_diag src_is_iterable_of_pairs dflt_is_iterable_of_pairs)."), order.append("_is_iterable_of_pairs")
        res = run.coq_eval("serdesast_iter_diag.v", "\n".join(ev) + "\n", timeout=120) or []
        for name, out in zip(order, res):
            rows = parse_diag(out)
            run.oblige(f"serdesast:{name} as written selects the model's branch on each of the 29 class representatives",
                       not rows, explain_ladder(tr[name], rows) if rows else "")
        if len(res) != len(order):
            run.oblige("serdesast:iteration ladders evaluated", False, "the diagnostic file did not compile")
        if "iteritems" in tr:
            t = tr["iteritems"]
            bad = [f"{k.replace('_', ' ')}: line {t['lines'][k][0]} `{t['lines'][k][1]}` hands over "
                   f"{'the parameter' if t[k] == 'OVal' else 'the probe result'}, the model the iterable the probe returned"
                   for k in ("pairs_ret", "apply") if t[k] != "OIt"]
            run.oblige("serdesast:iteritems as written is the model's body", not bad, "iteritems: " + "; ".join(bad))
        if "itervalues" in tr:
            t = tr["itervalues"]
            run.oblige("serdesast:itervalues as written is the model's body", t["proj"] == "PrValue",
                       f"itervalues: line {t['lines']['proj'][0]} `{t['lines']['proj'][1]}` yields the keys, the model the values")
    if ok and not problems:
        ok = run.compile_dyn("SerdesAstIter.v", src=os.path.join(lib.DYN, "SerdesAst", "SerdesAstIter.v"),
                             theorems=ITER_THEOREMS)
    else:
        for t in ITER_THEOREMS:
            run.oblige(f"theorem:{t}", False, "translation refused or generated definitions do not compile")
        ok = False
    run.assumptions += [
        "SerdesAst (iteration): harness/serdesasttie.py (ast -> ladder / body record, fail closed) is trusted to read "
        "get_items_iter / _is_iterable_of_pairs / iteritems / itervalues as terms of Model/SerdesAst.v; the inspection "
        "predicates themselves stay tied by C18's reflected class table, _make_fields_iterator / _all_slots by the Iter "
        "correspondence (not translated)",
    ]
    return ok and not problems


# ==================================================================================
# 2. part 2: decode / load / strload / _strload (Model/Serdes.v)
# ==================================================================================

LOAD_THEOREMS = ["SerdesAstLoad_load", "SerdesAstLoad_strload", "SerdesAstLoad_decode"]
STRLOAD_THEOREMS = ["SerdesAstLoad__strload", "SerdesAstLoad__strload_model"]
PROPS_LOAD = [("Props/SerdesAstLoad.v", [
    "SerdesAstLoad_desc_complete", "SerdesAstLoad_load_sound", "SerdesAstLoad_strload_sound", "SerdesAstLoad_equiv_run",
    "SerdesAstLoad_body_dec", "SerdesAstLoad_body_raw", "SerdesAstLoad_decode_sound", "SerdesAstLoad_refuted_raw_json",
    "SerdesAstLoad_refuted_dropped_kind", "SerdesAstLoad_refuted_no_normalisation"])]

TCLS = {"str": "TStr", "bytes": "TBytes", "bytearray": "TBytearray", "memoryview": "TMemoryview"}
PYEXC = {"ValueError": "XValueError", "UnicodeError": "XUnicodeError", "UnicodeDecodeError": "XUnicodeError",
         "TypeError": "XTypeError", "SyntaxError": "XSyntaxError", "MemoryError": "XMemoryError",
         "RecursionError": "XRecursionError", "AttributeError": "XAttributeError"}
# the version of the memoised body the run is checked against: "dec" = after C14-strload-decode-first.diff (the model)
STRLOAD_SHAPES = {"dec": ("canonical_dec", "strload_body rt true", "sprog_sound_dec"),
                  "raw": ("canonical_raw", "strload_body_raw rt true", "sprog_sound_raw")}


def closed(fn, msg, node=None):
    where = f" (line {node.lineno})" if node is not None and hasattr(node, "lineno") else ""
    return Closed(f"{fn}: {msg}{where}")


def tguard(S: Source, fn: str, e, val: str) -> str:
    """isinstance(val, C | (C, ..)) / inspection.istexttype(val.__class__)"""
    if isinstance(e, ast.Call) and not e.keywords:
        f = e.func
        if isinstance(f, ast.Name) and f.id == "isinstance" and len(e.args) == 2 \
                and isinstance(e.args[0], ast.Name) and e.args[0].id == val:
            S.need_builtin(fn, "isinstance")
            c = e.args[1]
            names = c.elts if isinstance(c, ast.Tuple) else [c]
            out = []
            for n in names:
                if not (isinstance(n, ast.Name) and n.id in TCLS):
                    raise closed(fn, f"`{S.src(e)}`: class `{S.src(n)}` is not one of {sorted(TCLS)}", e)
                S.need_builtin(fn, n.id)
                out.append(TCLS[n.id])
            return "(TInst %s)" % lib.coq_list(out, "tcls")
        if isinstance(f, ast.Attribute) and f.attr == "istexttype" and isinstance(f.value, ast.Name) \
                and f.value.id == "inspection" and len(e.args) == 1 and S.src(e.args[0]) == f"{val}.__class__":
            S.need_inspection(fn)
            return "TIsText"
    raise closed(fn, f"guard not understood: `{S.src(e)}` (isinstance(val, ..) on str / bytes / bytearray / memoryview or "
                     "inspection.istexttype(val.__class__); negations and combinations are refused)", e)


def conv_of(S: Source, fn: str, e, val: str) -> str:
    if isinstance(e, ast.Name) and e.id == val:
        return "NKeep"
    if isinstance(e, ast.Call) and not e.keywords:
        if isinstance(e.func, ast.Name) and e.func.id == "bytes" and len(e.args) == 1 and S.src(e.args[0]) == val:
            S.need_builtin(fn, "bytes")
            return "NBytesCtor"
        if isinstance(e.func, ast.Attribute) and e.func.attr == "tobytes" and not e.args and S.src(e.func.value) == val:
            return "NTobytes"
    raise closed(fn, f"conversion not understood: `{S.src(e)}` (bytes(val) / val.tobytes())", e)


def rebinding(S: Source, fn: str, st, val: str):
    """`val = A if G else val` / `if G: val = A [elif ..]` -> (rungs [(guard, conv, line, text)], default conv) or None"""
    if isinstance(st, ast.Assign) and len(st.targets) == 1 and isinstance(st.targets[0], ast.Name) \
            and st.targets[0].id == val and isinstance(st.value, ast.IfExp):
        ie = st.value
        if conv_of(S, fn, ie.orelse, val) != "NKeep":
            raise closed(fn, f"`{S.src(st)}`: the else part is not `{val}`", st)
        return [(tguard(S, fn, ie.test, val), conv_of(S, fn, ie.body, val), st.lineno, S.src(st))], "NKeep"
    if isinstance(st, ast.If) and len(st.body) == 1 and isinstance(st.body[0], ast.Assign) \
            and len(st.body[0].targets) == 1 and isinstance(st.body[0].targets[0], ast.Name) and st.body[0].targets[0].id == val:
        rungs = [(tguard(S, fn, st.test, val), conv_of(S, fn, st.body[0].value, val), st.lineno,
                  f"if {S.src(st.test)}: {S.src(st.body[0])}")]
        if st.orelse:
            if len(st.orelse) != 1:
                raise closed(fn, "else part of a re-binding not understood", st)
            r = rebinding(S, fn, st.orelse[0], val)
            if r is None:
                raise closed(fn, "else part of a re-binding not understood", st)
            return rungs + r[0], r[1]
        return rungs, "NKeep"
    return None


def tladder_coq(rungs, ty) -> str:
    return lib.coq_list(["(%s, %s)" % (g, a) for g, a, _, _ in rungs], f"(tguard * {ty})")


def tr_load(S: Source):
    fn = S.func("load")
    decorators(fn, [])
    (val,) = simple_params(fn, 1)
    need_globals(S, fn, ["inspection", "strload"])
    b = body_of(fn)

    def action(e):
        if isinstance(e, ast.Name) and e.id == val:
            return "LIdentity"
        if isinstance(e, ast.Call) and isinstance(e.func, ast.Name) and e.func.id == "strload" and not e.keywords \
                and len(e.args) == 1 and S.src(e.args[0]) == val:
            S.func("strload")
            return "LStrload"
        raise closed("load", f"result not understood: `{S.src(e)}`", e)

    rungs = []
    for i, st in enumerate(b):
        last = i == len(b) - 1
        if isinstance(st, ast.If) and not st.orelse and len(st.body) == 1 and isinstance(st.body[0], ast.Return) and not last:
            rungs.append((tguard(S, "load", st.test, val), action(st.body[0].value), st.lineno, S.src(st)))
        elif isinstance(st, ast.Return) and last and st.value is not None:
            e = st.value
            while isinstance(e, ast.IfExp):
                rungs.append((tguard(S, "load", e.test, val), action(e.body), st.lineno, S.src(st)))
                e = e.orelse
            S.check_live("load", fn)
            return {"fn": "load", "rungs": rungs, "default": (action(e), st.lineno, S.src(st)), "line": fn.lineno}
        else:
            raise closed("load", f"statement not understood: `{S.src(st)}`", st)
    raise closed("load", "the body does not end with a return")


def tr_strload(S: Source):
    fn = S.func("strload")
    decorators(fn, [])
    (val,) = simple_params(fn, 1)
    need_globals(S, fn, ["isinstance", "bytes", "copy", "_strload", "bytearray", "memoryview", "str"])
    b = body_of(fn)
    if not (1 <= len(b) <= 2 and isinstance(b[-1], ast.Return)):
        raise closed("strload", "body is not `[if isinstance(val, ..): val = bytes(val);] return copy.deepcopy(_strload(val))`", fn)
    rungs, dflt = [], "NKeep"
    if len(b) == 2:
        r = rebinding(S, "strload", b[0], val)
        if r is None:
            raise closed("strload", f"statement not understood: `{S.src(b[0])}`", b[0])
        rungs, dflt = r
    if S.src(b[-1].value) != f"copy.deepcopy(_strload({val}))" or not S.imported("copy"):
        raise closed("strload", f"`{S.src(b[-1])}` is not `return copy.deepcopy(_strload({val}))` (the memoised object must "
                                "not be handed out)", b[-1])
    inner = S.func("_strload")
    decs = [S.src(d) for d in inner.decorator_list]
    if decs == []:
        memo = False
    elif len(decs) == 1 and re.fullmatch(r"compat\.lru_cache\(maxsize=[\d_]+\)", decs[0]):
        memo = True
    else:
        raise closed("strload", f"decorators of _strload not understood: {decs}", inner)
    S.check_live("strload", fn)
    return {"fn": "strload", "rungs": rungs, "default": (dflt, b[-1].lineno, S.src(b[-1])), "memo": memo, "line": fn.lineno}


def tr__strload(S: Source):
    fn = S.func("_strload")
    (val,) = simple_params(fn, 1)
    need_globals(S, fn, ["contextlib", "compat", "ast", "decode"] + list(PYEXC))
    b = body_of(fn)
    steps, decoded = [], None

    def arg(e):
        if isinstance(e, ast.Name) and e.id == val:
            return "ARaw"
        if isinstance(e, ast.Name) and decoded is not None and e.id == decoded:
            return "ADecoded"
        raise closed("_strload", f"argument `{S.src(e)}` is neither the parameter nor the decoded text", e)

    for i, st in enumerate(b):
        last = i == len(b) - 1
        if isinstance(st, ast.Assign) and len(st.targets) == 1 and isinstance(st.targets[0], ast.Name) and not last:
            if decoded is not None or st.targets[0].id == val or S.src(st.value) != f"decode({val})":
                raise closed("_strload", f"`{S.src(st)}` is not the one binding `<name> = decode({val})`", st)
            S.func("decode")
            decoded = st.targets[0].id
            steps.append(("SDecode", st.lineno, S.src(st)))
        elif isinstance(st, ast.With) and not last:
            if len(st.items) != 1 or st.items[0].optional_vars is not None:
                raise closed("_strload", "with statement not understood", st)
            cm = st.items[0].context_expr
            if not (isinstance(cm, ast.Call) and S.src(cm.func) == "contextlib.suppress" and not cm.keywords and cm.args
                    and S.imported("contextlib")):
                raise closed("_strload", f"`with {S.src(cm)}` is not contextlib.suppress(..)", st)
            sup = []
            for x in cm.args:
                if not (isinstance(x, ast.Name) and x.id in PYEXC):
                    raise closed("_strload", f"suppressed exception `{S.src(x)}` is not one of {sorted(PYEXC)}", st)
                S.need_builtin("_strload", x.id)
                sup.append(PYEXC[x.id])
            if not (len(st.body) == 1 and isinstance(st.body[0], ast.Return) and isinstance(st.body[0].value, ast.Call)):
                raise closed("_strload", "the suppress block is not a single `return f(arg)`", st)
            c = st.body[0].value
            f = S.src(c.func)
            if c.keywords or len(c.args) != 1:
                raise closed("_strload", f"call not understood: `{S.src(c)}`", st)
            if f == "compat.json.loads" and S.imported_from("compat", "typelib.py"):
                fun = "FJson"
            elif f == "ast.literal_eval" and S.imported("ast"):
                fun = "FLiteral"
            else:
                raise closed("_strload", f"parser `{f}` is neither compat.json.loads nor ast.literal_eval", st)
            steps.append((f"(SAttempt {fun} {arg(c.args[0])} {lib.coq_list(sup, 'pyexc')})", st.lineno,
                          f"with {S.src(cm)}: {S.src(st.body[0])}"))
        elif isinstance(st, ast.Return) and last and st.value is not None:
            ret = arg(st.value)
            S.check_live("_strload", fn)
            return {"fn": "_strload", "steps": steps, "ret": (ret, st.lineno, S.src(st)), "line": fn.lineno}
        else:
            raise closed("_strload", f"statement not understood: `{S.src(st)}`", st)
    raise closed("_strload", "the body does not end with a return")


def tr_decode(S: Source):
    import codecs
    fn = S.func("decode")
    decorators(fn, [])
    (val,) = simple_params(fn, 1, kwonly=("encoding",))
    if [S.src(d) if d is not None else None for d in fn.args.kw_defaults] != ["constants.DEFAULT_ENCODING"] \
            or not S.imported_from("constants", "typelib"):
        raise closed("decode", "the default of `encoding` is not typelib.constants.DEFAULT_ENCODING", fn)
    from typelib import constants
    if codecs.lookup(constants.DEFAULT_ENCODING).name != "utf-8":
        raise closed("decode", f"constants.DEFAULT_ENCODING is {constants.DEFAULT_ENCODING!r}, not UTF-8")
    need_globals(S, fn, ["isinstance", "bytes", "bytearray", "memoryview", "str", "constants"])
    b = body_of(fn)
    crungs, cd = [], "NKeep"
    if b:
        r = rebinding(S, "decode", b[0], val)
        if r is not None:
            crungs, cd = r
            b = b[1:]

    def action(stmts, node):
        names = {}
        for j, st in enumerate(stmts):
            if isinstance(st, ast.Assign) and len(st.targets) == 1 and isinstance(st.targets[0], ast.Name) \
                    and st.targets[0].id not in (val, "encoding") and S.src(st.value) == f"{val}.decode(encoding)" \
                    and j < len(stmts) - 1:
                names[st.targets[0].id] = "DUtf8"
            elif isinstance(st, ast.Return) and j == len(stmts) - 1 and st.value is not None:
                e = st.value
                if isinstance(e, ast.Name) and e.id == val:
                    return "DIdentity" if not names else None
                if isinstance(e, ast.Name) and e.id in names and len(names) == 1:
                    return "DUtf8"
                if S.src(e) == f"{val}.decode(encoding)" and not names:
                    return "DUtf8"
                return None
            else:
                return None
        return None

    rungs = []
    for i, st in enumerate(b):
        last = i == len(b) - 1
        if isinstance(st, ast.If) and not st.orelse and not last:
            a = action(st.body, st)
            if a is None:
                raise closed("decode", f"branch not understood: `{S.src(st)}`", st)
            rungs.append((tguard(S, "decode", st.test, val), a, st.lineno, S.src(st)))
        elif isinstance(st, ast.Return) and last:
            a = action([st], st)
            if a is None:
                raise closed("decode", f"`{S.src(st)}` not understood", st)
            S.check_live("decode", fn)
            return {"fn": "decode", "conv": crungs, "conv_default": cd, "rungs": rungs,
                    "default": (a, st.lineno, S.src(st)), "line": fn.lineno}
        else:
            raise closed("decode", f"statement not understood: `{S.src(st)}`", st)
    raise closed("decode", "the body does not end with a return")


LOAD_FUNCS = [("load", tr_load), ("strload", tr_strload), ("_strload", tr__strload), ("decode", tr_decode)]


def gen_load(tr: dict, shape: str) -> str:
    exp = STRLOAD_SHAPES[shape]
    text = ("(* generated by harness/serdesasttie.py from the SOURCE of typelib/serdes.py (ast) on this run *)\n"
            "From Coq Require Import List NArith. Import ListNotations.\n"
            "Require Import TL.Model.Serdes TL.Model.SerdesAstLoad TL.Proofs.SerdesAstLoadLemmas.\n"
            f"Definition expected_body : sprog := {exp[0]}.\n"
            f"Definition expected_model (rt : Runtime) := {exp[1]}.\n"
            f"Definition expected_sound := {exp[2]}.\n")
    if "load" in tr:
        t = tr["load"]
        text += (f"Definition src_load : tladder laction := {tladder_coq(t['rungs'], 'laction')}.\n"
                 f"Definition dflt_load : laction := {t['default'][0]}.\n")
    if "strload" in tr:
        t = tr["strload"]
        text += ("Definition src_strload : slprog :=\n  {| sl_conv := %s; sl_conv_d := %s; sl_memo := %s |}.\n"
                 % (tladder_coq(t["rungs"], "conv"), t["default"][0], lib.coq_bool(t["memo"])))
    if "_strload" in tr:
        t = tr["_strload"]
        text += ("Definition src__strload : sprog :=\n  {| sp_steps := %s;\n     sp_ret := %s |}.\n"
                 % (lib.coq_list([x[0] for x in t["steps"]], "step").replace("; (S", ";\n                  (S"), t["ret"][0]))
    if "decode" in tr:
        t = tr["decode"]
        text += ("Definition src_decode : dprog :=\n  {| dp_conv := %s; dp_conv_d := %s;\n     dp_lad := %s; dp_lad_d := %s |}.\n"
                 % (tladder_coq(t["conv"], "conv"), t["conv_default"], tladder_coq(t["rungs"], "daction"), t["default"][0]))
    return text


def load_obligations(run: lib.Run, S: Source, shape: str = "dec") -> bool:
    tr, problems = translate_part(S, LOAD_FUNCS)
    what = {"load": "ladder of text tests -> strload / identity", "strload": "carrier normalisation + memoised call",
            "_strload": "attempt list: decode, suppress-blocks with the parser, its argument and the suppressed kinds",
            "decode": "re-binding + ladder of isinstance tests -> utf-8 / identity"}
    for name, _ in LOAD_FUNCS:
        p = [m for n, m in problems if n == name]
        run.oblige(f"serdesast:translate {name} (ast of serdes.py -> {what[name]}; fail closed)", not p, "; ".join(p))
    run.extra_cov.setdefault("serdesast_translation", {}).update(
        {k: {kk: vv for kk, vv in v.items() if kk != "fn"} for k, v in tr.items()})
    ok = run.compile_dyn("GenSerdesAstLoad.v", text=gen_load(tr, shape))
    if ok:
        ev = ["From Coq Require Import List NArith. Import ListNotations.",
              "Require Import TL.Model.Serdes TL.Model.SerdesAstLoad TLRun.GenSerdesAstLoad."]
        order = []
        for name, q in (("load", "lladder_diag src_load dflt_load"), ("strload", "slprog_diag src_strload"),
                        ("decode", "dprog_diag src_decode"),
                        ("_strload", "(sprog_equiv src__strload expected_body, steps_diff (sp_steps src__strload) (sp_steps expected_body), sp_steps expected_body, sp_ret expected_body)")):
            if name in tr:
                ev.append(f"Eval vm_compute in ({q})."), order.append(name)
        res = run.coq_eval("serdesast_load_diag.v", "\n".join(ev) + "\n", timeout=120) or []
        if len(res) != len(order):
            run.oblige("serdesast:text-loading functions evaluated", False, "the diagnostic file did not compile")
        for name, out in zip(order, res):
            t = tr[name]
            if name == "load":
                rows = parse_diag(out)
                run.oblige("serdesast:load as written selects the model's branch on each of the 6 value descriptors",
                           not rows, explain_ladder(t, rows, "descriptor") if rows else "")
            elif name == "strload":
                rows = parse_diag(out)
                msg = "; ".join(
                    f"on a {k} carrier " + (f"rung {ix} (line {t['rungs'][int(ix)][2]}: `{t['rungs'][int(ix)][3]}`)"
                                            if int(ix) < len(t["rungs"]) else "no re-binding")
                    + f" gives {got} as the memoised call's argument / outcome, the model normalises to {want}"
                    for k, ix, got, want in rows[:3])
                run.oblige("serdesast:strload as written hands the model's carrier kind to the memoised body (5 carriers)",
                           not rows, "strload: " + msg)
            elif name == "decode":
                rows = parse_diag(out)
                msg = "; ".join(
                    f"on descriptor {d}: re-binding " + (f"rung {ci} (line {t['conv'][int(ci)][2]})" if int(ci) < len(t["conv"]) else "none")
                    + f" gives {c}, then " + (f"rung {li} (line {t['rungs'][int(li)][2]}: `{t['rungs'][int(li)][3]}`)"
                                              if int(li) < len(t["rungs"]) else f"the fall-through (line {t['default'][1]}: `{t['default'][2]}`)")
                    + "; the model decodes the bytes-like carriers (memoryview through tobytes) and returns anything else unchanged"
                    for d, ci, li, c in rows[:3])
                run.oblige("serdesast:decode as written takes the model's branch on each of the 6 value descriptors",
                           not rows, "decode: " + msg)
            else:
                o = " ".join(out.split())
                same = o.startswith("(true")
                msg = ""
                if not same:
                    parts = split_top(o[1:-1], ",")
                    ix = int(parts[1])
                    exp_steps = split_top(parts[2].strip()[1:-1], ";")
                    if ix < len(t["steps"]):
                        got = f"step {ix} (line {t['steps'][ix][1]}: `{t['steps'][ix][2]}`) = {t['steps'][ix][0]}"
                    else:
                        got = f"the final `{t['ret'][2]}` (line {t['ret'][1]}) = {t['ret'][0]} after {len(t['steps'])} steps"
                    want = exp_steps[ix] if ix < len(exp_steps) else f"return {parts[3]} after {len(exp_steps)} steps"
                    msg = (f"_strload: {got}; the model ({STRLOAD_SHAPES[shape][0]}) has {want} there "
                           "(suppressed sets compared as sets of exception kinds)")
                run.oblige(f"serdesast:_strload as written is the model's attempt list ({STRLOAD_SHAPES[shape][0]})", same, msg)
    refused = {n for n, _ in problems}
    proved = True
    for fname, thms, needs in (("SerdesAstLoad.v", LOAD_THEOREMS, {"load", "strload", "decode"}),
                               ("SerdesAstStrload.v", STRLOAD_THEOREMS, {"_strload"})):
        if ok and not (refused & needs):
            proved = run.compile_dyn(fname, src=os.path.join(lib.DYN, "SerdesAst", fname), theorems=thms) and proved
        else:
            for t in thms:
                run.oblige(f"theorem:{t}", False, "translation refused or generated definitions do not compile")
            proved = False
    ok = ok and proved
    run.assumptions += [
        "SerdesAst (text loading): harness/serdesasttie.py (ast -> ladders / attempt list, fail closed) is trusted to read "
        "decode / load / strload / _strload as terms of Model/SerdesAstLoad.v; exception classes are read by name "
        "(builtins not re-bound), str / bytes / bytearray / memoryview subclasses are their base kind as in Model/Serdes.v; "
        "copy.deepcopy and the lru_cache are required syntactically, their effect is outside this model",
    ]
    return ok and not problems


# ==================================================================================
# 3. part 3: isoformat / unixtime (Model/Temporal.v)
# ==================================================================================

TIME_THEOREMS = ["SerdesAstTime_isoformat", "SerdesAstTime_unixtime"]
PROPS_TIME = [("Props/SerdesAstTime.v", [
    "SerdesAstTime_kinds_complete", "SerdesAstTime_isoformat_sound", "SerdesAstTime_unixtime_equiv_run",
    "SerdesAstTime_unixtime_sound", "SerdesAstTime_refuted_date_eats_datetime", "SerdesAstTime_refuted_iso_date_missing"])]
DCLS = {"date": "DDate", "datetime": "DDateTime", "time": "DTime", "timedelta": "DTimeDelta"}


def qguard(S: Source, fn: str, e, dt: str) -> str:
    if isinstance(e, ast.UnaryOp) and isinstance(e.op, ast.Not):
        return f"(QNot {qguard(S, fn, e.operand, dt)})"
    if isinstance(e, ast.BoolOp):
        op = "QAnd" if isinstance(e.op, ast.And) else "QOr"
        gs = [qguard(S, fn, x, dt) for x in e.values]
        g = gs[-1]
        for x in reversed(gs[:-1]):
            g = f"({op} {x} {g})"
        return g
    if isinstance(e, ast.Call) and isinstance(e.func, ast.Name) and e.func.id == "isinstance" and not e.keywords \
            and len(e.args) == 2 and isinstance(e.args[0], ast.Name) and e.args[0].id == dt:
        S.need_builtin(fn, "isinstance")
        if not S.imported("datetime"):
            raise closed(fn, "`datetime` is not `import datetime`", e)
        c = e.args[1]
        out = []
        for n in (c.elts if isinstance(c, ast.Tuple) else [c]):
            if not (isinstance(n, ast.Attribute) and isinstance(n.value, ast.Name) and n.value.id == "datetime" and n.attr in DCLS):
                raise closed(fn, f"`{S.src(e)}`: class `{S.src(n)}` is not datetime.date / datetime / time / timedelta", e)
            out.append(DCLS[n.attr])
        return "(QInst %s)" % lib.coq_list(out, "dcls")
    raise closed(fn, f"guard not understood: `{S.src(e)}`", e)


def tr_isoformat(S: Source):
    fn = S.func("isoformat")
    decorators(fn, [])
    (dt,) = simple_params(fn, 1)
    need_globals(S, fn, ["isinstance", "datetime", "_isoduration"])

    def action(e):
        if S.src(e) == f"{dt}.isoformat()":
            return "IOwn"
        if S.src(e) == f"_isoduration({dt})":
            S.func("_isoduration")
            return "IDuration"
        raise closed("isoformat", f"result not understood: `{S.src(e)}`", e)

    rungs = []
    b = body_of(fn)
    for i, st in enumerate(b):
        last = i == len(b) - 1
        if isinstance(st, ast.If) and not st.orelse and len(st.body) == 1 and isinstance(st.body[0], ast.Return) \
                and st.body[0].value is not None and not last:
            rungs.append((qguard(S, "isoformat", st.test, dt), action(st.body[0].value), st.lineno, S.src(st)))
        elif isinstance(st, ast.Return) and last and st.value is not None:
            S.check_live("isoformat", fn)
            return {"fn": "isoformat", "rungs": rungs, "default": (action(st.value), st.lineno, S.src(st)), "line": fn.lineno}
        else:
            raise closed("isoformat", f"statement not understood: `{S.src(st)}`", st)
    raise closed("isoformat", "the body does not end with a return")


def tr_unixtime(S: Source):
    fn = S.func("unixtime")
    decorators(fn, [])
    (dt,) = simple_params(fn, 1)
    need_globals(S, fn, ["isinstance", "datetime"])

    def kw(call):
        if call.args or any(k.arg is None for k in call.keywords):
            return None
        return {k.arg: S.src(k.value) for k in call.keywords}

    def conv(e):
        if isinstance(e, ast.Call) and S.src(e.func) == "datetime.datetime" \
                and kw(e) == {"year": f"{dt}.year", "month": f"{dt}.month", "day": f"{dt}.day", "tzinfo": "datetime.timezone.utc"}:
            return "CMidnightUTC"
        if isinstance(e, ast.Call) and isinstance(e.func, ast.Attribute) and e.func.attr == "replace" \
                and isinstance(e.func.value, ast.Call) and S.src(e.func.value.func) == "datetime.datetime.now" \
                and kw(e.func.value) == {"tz": f"{dt}.tzinfo"} \
                and kw(e) == {"hour": f"{dt}.hour", "minute": f"{dt}.minute", "second": f"{dt}.second", "microsecond": f"{dt}.microsecond"}:
            return "CNowReplace"
        raise closed("unixtime", f"conversion not understood: `{S.src(e)}`", e)

    steps = []
    b = body_of(fn)
    for i, st in enumerate(b):
        last = i == len(b) - 1
        if isinstance(st, ast.If) and not st.orelse and len(st.body) == 1 and not last:
            g = qguard(S, "unixtime", st.test, dt)
            x = st.body[0]
            if isinstance(x, ast.Return) and x.value is not None and S.src(x.value) == f"{dt}.total_seconds()":
                steps.append((f"(UReturnTotal {g})", st.lineno, S.src(st)))
            elif isinstance(x, ast.Assign) and len(x.targets) == 1 and isinstance(x.targets[0], ast.Name) and x.targets[0].id == dt:
                steps.append((f"(URebind {g} {conv(x.value)})", st.lineno, f"if {S.src(st.test)}: {dt} = ..."))
            else:
                raise closed("unixtime", f"branch not understood: `{S.src(x)}`", x)
        elif isinstance(st, ast.Return) and last and st.value is not None and S.src(st.value) == f"{dt}.timestamp()":
            S.check_live("unixtime", fn)
            return {"fn": "unixtime", "steps": steps, "line": fn.lineno}
        else:
            raise closed("unixtime", f"statement not understood: `{S.src(st)}`", st)
    raise closed("unixtime", "the body does not end with `return dt.timestamp()`")


TIME_FUNCS = [("isoformat", tr_isoformat), ("unixtime", tr_unixtime)]


def gen_time(tr: dict) -> str:
    text = ("(* generated by harness/serdesasttie.py from the SOURCE of typelib/serdes.py (ast) on this run *)\n"
            "From Coq Require Import List. Import ListNotations.\n"
            "Require Import TL.Model.Temporal TL.Model.SerdesAstTime.\n")
    if "isoformat" in tr:
        t = tr["isoformat"]
        text += ("Definition src_isoformat : qladder iaction := %s.\nDefinition dflt_isoformat : iaction := %s.\n"
                 % (lib.coq_list(["(%s, %s)" % (g, a) for g, a, _, _ in t["rungs"]], "(qguard * iaction)"), t["default"][0]))
    if "unixtime" in tr:
        text += ("Definition src_unixtime : list ustep :=\n  %s.\n"
                 % lib.coq_list([x[0] for x in tr["unixtime"]["steps"]], "ustep").replace("; (U", ";\n   (U"))
    return text


def time_obligations(run: lib.Run, S: Source) -> bool:
    tr, problems = translate_part(S, TIME_FUNCS)
    what = {"isoformat": "ladder of isinstance tests -> own writer / duration writer",
            "unixtime": "step list: early return, re-bindings with their isinstance guards, timestamp"}
    for name, _ in TIME_FUNCS:
        p = [m for n, m in problems if n == name]
        run.oblige(f"serdesast:translate {name} (ast of serdes.py -> {what[name]}; fail closed)", not p, "; ".join(p))
    run.extra_cov.setdefault("serdesast_translation", {}).update(
        {k: {kk: vv for kk, vv in v.items() if kk != "fn"} for k, v in tr.items()})
    ok = run.compile_dyn("GenSerdesAstTime.v", text=gen_time(tr))
    if ok:
        ev = ["From Coq Require Import List. Import ListNotations.",
              "Require Import TL.Model.Temporal TL.Model.SerdesAstTime TLRun.GenSerdesAstTime."]
        order = []
        if "isoformat" in tr:
            ev.append("Eval vm_compute in (iladder_diag src_isoformat dflt_isoformat)."), order.append("isoformat")
        if "unixtime" in tr:
            ev.append("Eval vm_compute in (usteps_equiv src_unixtime canonical_unixtime, usteps_diff src_unixtime canonical_unixtime, canonical_unixtime)."), order.append("unixtime")
        res = run.coq_eval("serdesast_time_diag.v", "\n".join(ev) + "\n", timeout=120) or []
        if len(res) != len(order):
            run.oblige("serdesast:date/time ladders evaluated", False, "the diagnostic file did not compile")
        for name, out in zip(order, res):
            t = tr[name]
            if name == "isoformat":
                rows = parse_diag(out)
                run.oblige("serdesast:isoformat as written selects the model's writer on each of the 4 temporal kinds",
                           not rows, explain_ladder(t, rows, "kind") if rows else "")
            else:
                o = " ".join(out.split())
                same = o.startswith("(true")
                msg = ""
                if not same:
                    parts = split_top(o[1:-1], ",")
                    ix = int(parts[1])
                    exp_steps = split_top(parts[2].strip()[1:-1], ";")
                    got = (f"step {ix} (line {t['steps'][ix][1]}: `{t['steps'][ix][2]}`) = {t['steps'][ix][0]}"
                           if ix < len(t["steps"]) else f"`return dt.timestamp()` after {len(t['steps'])} steps")
                    want = exp_steps[ix] if ix < len(exp_steps) else f"`return dt.timestamp()` after {len(exp_steps)} steps"
                    msg = (f"unixtime: {got}; the model has {want} there (guards compared by their value on date / datetime / "
                           "time / timedelta / other: datetime is a date)")
                run.oblige("serdesast:unixtime as written is the model's step list (timedelta, time, date-not-datetime, timestamp)",
                           same, msg)
    if ok and not problems:
        ok = run.compile_dyn("SerdesAstTime.v", src=os.path.join(lib.DYN, "SerdesAst", "SerdesAstTime.v"), theorems=TIME_THEOREMS)
    else:
        for t in TIME_THEOREMS:
            run.oblige(f"theorem:{t}", False, "translation refused or generated definitions do not compile")
        ok = False
    run.assumptions += [
        "SerdesAst (date/time): harness/serdesasttie.py (ast -> ladder / step list, fail closed) is trusted to read the "
        "isinstance tests of isoformat / unixtime as terms of Model/SerdesAstTime.v (datetime.datetime a subclass of "
        "datetime.date; pendulum subclasses are their base kind as in Model/Temporal.v); _isoduration, dateparse, "
        "_nomalize_dt, _normalize_number are not translated (C04's correspondence)",
    ]
    return ok and not problems


# ==================================================================================
# entry points
# ==================================================================================

def ensure_built(targets):
    missing = [t for t in targets if not os.path.exists(os.path.join(lib.COQ, t))
               or os.path.getmtime(os.path.join(lib.COQ, t)) < os.path.getmtime(os.path.join(lib.COQ, t[:-1]))]
    if not missing:
        return True, ""
    rc, out, err = lib.sh(["bash", os.path.join(lib.VERIF, "setup.sh")] + list(targets), timeout=1800, cwd=lib.VERIF)
    ok = all(os.path.exists(os.path.join(lib.COQ, t)) for t in targets)
    return ok, (out + err)[-400:]


PARTS = {
    "iter": (COQ_TARGETS_ITER, PROPS_ITER, iter_obligations),
    "load": (COQ_TARGETS_LOAD, PROPS_LOAD, load_obligations),
    "time": (COQ_TARGETS_TIME, PROPS_TIME, time_obligations),
}


def obligations(run: lib.Run, parts=("iter", "load", "time"), strload_shape: str | None = None) -> bool:
    """translate + prove, for the parts asked for (c18: iter; c14: load; c04: time).  strload_shape: "dec" (default; the
    memoised body after C14-strload-decode-first.diff, which Model/Serdes.v follows) or "raw" (the body before it);
    SERDESAST_STRLOAD_SHAPE overrides the default"""
    strload_shape = strload_shape or os.environ.get("SERDESAST_STRLOAD_SHAPE") or "dec"
    t0 = time.time()
    try:
        S = Source()
    except (Closed, SyntaxError) as e:
        run.oblige("serdesast:parse serdes.py", False, str(e))
        return False
    good = True
    for p in parts:
        if p not in PARTS:
            continue
        targets, props, fn = PARTS[p]
        ok, detail = ensure_built(targets)
        run.oblige("build:serdes source-translator theories (%s)" % " ".join(targets), ok, detail)
        if not ok:
            good = False
            continue
        for rel, thms in props:
            good = run.check_props(rel, thms) and good
        good = (fn(run, S, strload_shape) if p == "load" else fn(run, S)) and good
    run.oblige("serdesast:the live typelib.serdes is the parsed file, every translated function starts on its parsed line",
               not S.problems, "; ".join(S.problems[:4]))
    run.notes.append(f"serdesasttie {'+'.join(parts)}: {time.time() - t0:.1f}s")
    return good and not S.problems


# ==================================================================================
# search / replay: concrete inputs, judged by the property statements read directly (no model involved)
# ==================================================================================

def _samples():
    """name -> (part, function name, thunk making a FRESH input, expected result)"""
    import collections
    import dataclasses
    import datetime
    import types

    NT = collections.namedtuple("NT", "a b")

    @dataclasses.dataclass
    class DC:
        x: int
        y: tuple

    def gen(l):
        return (e for e in l)

    out = {}

    def items(name, mk, exp):
        out[f"iteritems:{name}"] = ("iter", "iteritems", mk, exp)

    def values(name, mk, exp):
        out[f"itervalues:{name}"] = ("iter", "itervalues", mk, exp)

    pairs = [(1, 2), (3, 4)]
    for nm, mk in (("str", lambda: "ab"), ("bytes", lambda: b"ab"), ("list", lambda: [7, 8]), ("tuple", lambda: (7, 8)),
                   ("deque", lambda: collections.deque([7, 8])), ("frozenset", lambda: frozenset([7])),
                   ("keysview", lambda: {7: 0, 8: 0}.keys()), ("list-iterator", lambda: iter([7, 8])),
                   ("generator", lambda: gen([7, 8])), ("map-object", lambda: map(int, [7, 8]))):
        els = list(mk())
        items(nm, mk, [(i, e) for i, e in enumerate(els)])
        values(nm, mk, els)
    for nm, mk in (("list-of-pairs", lambda: list(pairs)), ("generator-of-pairs", lambda: gen(pairs)),
                   ("zip-object", lambda: zip([1, 3], [2, 4])), ("itemsview", lambda: {1: 2, 3: 4}.items())):
        items(nm, mk, pairs)
    for nm, mk in (("dict", lambda: {"a": (1, 2), "b": 3}), ("ordereddict", lambda: collections.OrderedDict(a=(1, 2), b=3)),
                   ("defaultdict", lambda: collections.defaultdict(int, a=(1, 2), b=3)),
                   ("mappingproxy", lambda: types.MappingProxyType({"a": (1, 2), "b": 3})),
                   ("namedtuple", lambda: NT((1, 2), 3))):
        items(nm, mk, [("a", (1, 2)), ("b", 3)])
        values(nm, mk, [(1, 2), 3])
    items("dataclass", lambda: DC(1, (2, 3)), [("x", 1), ("y", (2, 3))])
    values("dataclass", lambda: DC(1, (2, 3)), [1, (2, 3)])
    # text carriers read alike; anything else is returned unchanged
    for txt, exp in (("1", 1), ('{"a": [1, 2]}', {"a": [1, 2]}), ("1,2", (1, 2)), ("{1, 2}", {1, 2}), ("\ufeff1", "\ufeff1"),
                     ("plain text", "plain text"), ("[" * 3000, "[" * 3000)):
        for cn, c in (("str", lambda t: t), ("bytes", lambda t: t.encode()), ("bytearray", lambda t: bytearray(t.encode())),
                      ("memoryview", lambda t: memoryview(t.encode())),
                      ("memoryview-rw", lambda t: memoryview(bytearray(t.encode())))):
            for f in ("load", "strload"):
                out[f"{f}:{cn}:{txt[:12]!r}"] = ("load", f, (lambda t=txt, c=c: c(t)), exp)
            out[f"decode:{cn}:{txt[:12]!r}"] = ("load", "decode", (lambda t=txt, c=c: c(t)), txt)
    for nm, v in (("int", 5), ("none", None), ("list", [1]), ("float", 1.5)):
        out[f"load:{nm}"] = ("load", "load", (lambda v=v: v), v)
        out[f"decode:{nm}"] = ("load", "decode", (lambda v=v: v), v)
    utc = datetime.timezone.utc
    for nm, f, v, exp in (
            ("date", "isoformat", datetime.date(1970, 1, 2), "1970-01-02"),
            ("datetime", "isoformat", datetime.datetime(1970, 1, 2, 3, 4, 5), "1970-01-02T03:04:05"),
            ("time", "isoformat", datetime.time(3, 4, 5), "03:04:05"),
            ("timedelta", "isoformat", datetime.timedelta(hours=1), "PT1H"),
            ("timedelta", "unixtime", datetime.timedelta(seconds=5), 5.0),
            ("date", "unixtime", datetime.date(1970, 1, 2), 86400.0),
            ("datetime-utc", "unixtime", datetime.datetime(1970, 1, 2, 3, tzinfo=utc), 86400.0 + 3 * 3600),
            ("datetime-offset", "unixtime",
             datetime.datetime(1970, 1, 2, 3, tzinfo=datetime.timezone(datetime.timedelta(hours=1))), 86400.0 + 2 * 3600)):
        out[f"{f}:{nm}"] = ("time", f, (lambda v=v: v), exp)
    return out


def _run_sample(name: str):
    import impl
    from typelib import serdes
    part, f, mk, exp = _samples()[name]
    impl.clear_caches()
    x = mk()
    try:
        got = getattr(serdes, f)(x)
        if f in ("iteritems", "itervalues"):
            got = list(got)
            left = list(x) if hasattr(x, "__next__") else None
            if left:
                return {"fails": True, "sample": name, "expected": repr(exp), "got": repr(got), "left_in_iterator": repr(left)}
        ok = type(got) is type(exp) and got == exp
        return {"fails": not ok, "sample": name, "input": repr(mk())[:80], "expected": repr(exp)[:120], "got": repr(got)[:120]}
    except Exception as e:      # noqa: BLE001 -- any exception is an observation here
        return {"fails": True, "sample": name, "input": repr(mk())[:80], "expected": repr(exp)[:120],
                "got": f"raised {type(e).__name__}: {e}"[:160]}


def search(run: lib.Run, parts=("iter", "load", "time")) -> list:
    """concrete failing inputs for the translated functions: ~150 fixed samples over every class representative /
    carrier / temporal kind, judged by the statements of C18 / C14 / C04 read directly"""
    fails, n = [], 0
    for name, (part, f, _, _) in _samples().items():
        if part not in parts:
            continue
        n += 1
        r = _run_sample(name)
        if r["fails"]:
            r.update({"kind": "serdesast", "function": f, "key": f"serdesast:{f}:{r['got'][:60]}"})
            fails.append(r)
    run.search_stats["serdesast_samples"] = {"evaluations": n, "distinct_nontrivial": n, "failures": len(fails),
                                             "rule": "fixed samples: one per class representative / carrier / temporal kind"}
    return fails


def replay(payload) -> dict:
    r = _run_sample(payload["sample"])
    return {"fails": r["fails"], "failures": [r] if r["fails"] else []}


if __name__ == "__main__":
    # standalone: python harness/serdesasttie.py [iter load time]   (TYPELIB_REPO selects the checkout)
    parts = tuple(sys.argv[1:]) or ("iter", "load", "time")
    run = lib.Run("SerdesAst", "quick", 1)
    run.prepare()
    okk = obligations(run, parts=parts)
    fails = search(run, parts)
    for o in run.obligations:
        print(("ok   " if o["ok"] else "FAIL ") + o["name"] + ("" if o["ok"] else "\n        " + o["detail"][:900]))
    for f in fails:
        print("FAILING INPUT", json.dumps(f, default=str)[:600])
    print("notes:", run.notes)
    sys.exit(0 if okk else 1)
