"""C04 round 3: the equal-but-differently-represented families of the temporal kinds, enumerated.

The property quantifies over "datetimes/times with every whole-minute offset in (-24h, +24h), microseconds, fold;
timedeltas ...; each also after the caches were warmed with an equal-but-differently-represented value".  For a
temporal value v the values that are == v (and hash equal) while rendered differently are

* datetime: the same instant written with ANY other whole-minute offset (the wall clock, often the date, moves with it),
  and the other `fold`;
* time: the same time of day written with another offset, as long as the shifted wall clock stays inside one day
  (aware times never wrap: two offsets 24 h apart cannot carry equal times), and the other `fold`;
* timedelta: the same duration in another constructor spelling or as a subclass instance (pendulum.Duration, which is
  what `pendulum.parse` / `serdes.dateparse` hand out);
* date: nothing is == a date but a date; the nearest neighbour is the datetime at midnight of that day (a subclass
  instance; naive or aware) -- kept as a "near" family.

Nothing here is random except the extra seeded base instants, nothing knows a cache, and nothing imports typelib: this
module only produces JSON-able history specs

    {"op": "history", "family": ..., "warm_op": ..., "warm": <value spec>, "kind": ..., "value": ..., ["spelling": ...]}

A value spec is {"kind", "value"[, "spelling"]} in the vocabulary of props/c04.build_value (datetime:
[y, mo, d, h, mi, s, us, offset_seconds|None, fold], time: [h, mi, s, us, offset_seconds, fold], date: [y, mo, d],
timedelta: [days, seconds, microseconds] + spelling).

Offset pairs (minutes east of UTC, both strictly inside one day) are enumerated by CLASS, each in both orders:
  grid     all ordered pairs of a coarse grid (extremes, +-1 min, half/quarter-hour zones, every sign combination);
  dist=D   for each structurally special distance D (1 min, the sub-hour steps, 1 h, 12 h, 24 h -- where the
           normalised `timedelta.seconds` of the offset wraps --, 24 h +- 1 min, 25 h, 36 h, the maximum 47 h 58 min)
           a sweep of (o, o + D) over the whole range of o;
  mirror   (o, -o).
"""
from __future__ import annotations

import datetime as D
import random

TD = D.timedelta
OPS = ["isoformat", "marshal", "unmarshal_str", "unmarshal_bytes"]
LO, HI = -1439, 1439

GRID_QUICK = [-1439, -1380, -1080, -720, -570, -300, -60, -1, 0, 1, 60, 330, 345, 720, 840, 1140, 1380, 1439]
GRID_THOROUGH = sorted(set(GRID_QUICK + list(range(-1260, 1261, 180)) + [-1438, -210, 525, 765, 1438]))
DISTANCES = [1, 15, 30, 45, 59, 60, 61, 720, 1380, 1439, 1440, 1441, 1500, 2160, 2878]
DENSE = {1440}          # swept at full hourly resolution in every tier


def offset_pairs(tier: str):
    """[(class, o1, o2)] -- ordered pairs of distinct offsets in minutes; every class in both orders"""
    out, seen = [], set()

    def add(cls, a, b):
        if a != b and LO <= a <= HI and LO <= b <= HI and (a, b) not in seen:
            seen.add((a, b))
            out.append((cls, a, b))

    # the special distances first, so that a pair that is also on the grid keeps its distance class
    for dist in DISTANCES:
        span = HI - dist - LO          # o ranges over [LO, HI - dist]
        step = 60 if (dist in DENSE or tier == "thorough") else max(60, 60 * (span // 60 // 7 or 1))
        sweep = set(range(-1380, HI - dist + 1, step)) | {LO, HI - dist, LO + span // 2}
        sweep |= {o for o in (-dist, 0, -60, -1) if LO <= o <= HI - dist}      # pairs touching UTC / straddling it
        for o in sorted(sweep):
            add(f"dist={dist}", o, o + dist)
            add(f"dist={dist}", o + dist, o)
    for o in sorted(set(range(60, 1440, 180 if tier != "thorough" else 60)) | {1, 330, 1439}):
        add("mirror", o, -o)
        add("mirror", -o, o)
    grid = GRID_THOROUGH if tier == "thorough" else GRID_QUICK
    for a in grid:
        for b in grid:
            add("grid", a, b)
    return out


# UTC instants [y, mo, d, h, mi, s, us, fold-of-the-judged-value]: every negative offset of the first one is the
# previous day / month / year, the second flips forward at +1 min, then a leap day, the epoch's eve, a leap boundary
BASES = [
    [2020, 1, 1, 0, 0, 0, 0, 0],
    [1999, 12, 31, 23, 59, 59, 999999, 0],
    [2024, 2, 29, 12, 30, 15, 1, 1],
    [1969, 12, 31, 1, 2, 3, 456789, 0],
    [2024, 3, 1, 0, 0, 0, 500000, 1],
    [2, 1, 2, 0, 0, 0, 0, 0],
    [9998, 12, 30, 23, 59, 59, 0, 0],
]


def base_instants(tier: str, rng: random.Random, few=False):
    """few: the first fixed instant and the seeded ones only (quick-tier correspondence; the oracle takes all)"""
    bases = list(BASES[:4] if tier != "thorough" else BASES)
    if few and tier != "thorough":
        bases = bases[:1]
    for _ in range(1 if tier != "thorough" else 3):
        t = D.datetime(2, 1, 2) + TD(days=rng.randint(0, 3650000), seconds=rng.randint(0, 86399),
                                     microseconds=rng.choice([0, rng.randint(1, 999999)]))
        bases.append([t.year, t.month, t.day, t.hour, t.minute, t.second, t.microsecond, rng.randint(0, 1)])
    return bases


def _dt_spec(x: D.datetime, off_min, fold):
    return [x.year, x.month, x.day, x.hour, x.minute, x.second, x.microsecond, None if off_min is None else off_min * 60, fold]


def at_offset(base, off_min: int, fold=0):
    """spec of the aware datetime that writes the UTC instant `base` with the offset `off_min`"""
    wall = D.datetime(*base[:7]) + TD(minutes=off_min)
    return {"kind": "datetime", "value": _dt_spec(wall, off_min, fold)}


def datetime_pairs(tier, rng, few=False):
    """(family, warm spec, judged spec)"""
    out = []
    pairs = offset_pairs(tier)
    for base in base_instants(tier, rng, few):
        for cls, o_w, o_v in pairs:
            out.append((f"datetime/{cls}", at_offset(base, o_w), at_offset(base, o_v, base[7])))
        for o in (0, -1439, 1439, 330, -60, 1380):           # the other fold, same offset (== and same text)
            for f in (0, 1):
                out.append(("datetime/fold", at_offset(base, o, 1 - f), at_offset(base, o, f)))
    return out


def time_pairs(tier, rng):
    """equal aware times: wall_w - o_w == wall_v - o_v, both wall clocks inside the day (no wrap)"""
    out, infeasible = [], 0
    clocks = [(0, 0, 0), (59, 999999, 1)] + ([(rng.randint(0, 59), rng.randint(0, 999999), 0)] if tier == "thorough" else [])
    for cls, o_w, o_v in offset_pairs(tier):
        delta = o_w - o_v                        # wall_w = wall_v + delta
        if abs(delta) > 1439:
            infeasible += 1
            continue
        lo, hi = max(0, -delta), min(1439, 1439 - delta)       # feasible wall minutes of v
        walls = sorted({lo, hi} | ({(lo + hi) // 2} if tier == "thorough" else set()))
        for i, mv in enumerate(walls):
            s, us, fold = clocks[(i + abs(o_v)) % len(clocks)]
            mw = mv + delta
            out.append((f"time/{cls}",
                        {"kind": "time", "value": [mw // 60, mw % 60, s, us, o_w * 60, 0]},
                        {"kind": "time", "value": [mv // 60, mv % 60, s, us, o_v * 60, fold]}))
    for o in (0, -1439, 1439, 330):
        for f in (0, 1):
            out.append(("time/fold", {"kind": "time", "value": [1, 30, 0, 0, o * 60, 1 - f]},
                        {"kind": "time", "value": [1, 30, 0, 0, o * 60, f]}))
    return out, infeasible


def date_pairs(tier, rng):
    """the 'near' family: a date and the datetimes at midnight of that day (not == in Python >= 3.9: no cache keyed
    on equality can confuse them; one keyed on a projection -- ordinal, date text -- can).  Judged values are the date,
    and the aware midnight datetimes (naive ones only warm)."""
    out = []
    r = D.date.fromordinal(rng.randint(400, 3650000))
    dates = [[1970, 1, 1], [2024, 2, 29], [1999, 12, 31], [2, 1, 1], [9998, 12, 31], [r.year, r.month, r.day]]
    for y, m, d in dates:
        date = {"kind": "date", "value": [y, m, d]}
        for off in (None, 0, 840, -720):
            mid = {"kind": "datetime", "value": [y, m, d, 0, 0, 0, 0, None if off is None else off * 60, 0]}
            out.append(("date/midnight-datetime", mid, date))
            if off is not None:
                out.append(("date/midnight-datetime", date, mid))
    return out


TD_VALUES = [(0, 0, 0), (8, 0, 0), (7, 0, 0), (1, 0, 0), (-1, 0, 0), (-1, 86399, 999990), (-5, 0, 7), (-1, 86398, 999999),
             (0, 59, 999999), (14, 59, 999999), (0, 3661, 0), (365, 0, 0), (30, 0, 0), (100000, 3, 999999),
             (99999999, 0, 1), (-99999999, 86399, 999999), (999999999, 86399, 999999), (-999999999, 0, 0),
             (999999999, 0, 0), (0, 0, 1), (0, 86399, 999999)]
SPELLINGS = ["fields", "hours", "mixed", "micros", "negated", "sum", "pendulum", "pendulum-parsed"]


def timedelta_pairs(tier, rng):
    """the plain timedelta after every other spelling of the same duration, and every spelling after the plain one"""
    out = []
    vals = list(TD_VALUES)
    for _ in range(6 if tier != "thorough" else 40):
        vals.append((rng.choice([rng.randint(-1000, 1000), rng.randint(-999999999, 999999998), 7 * rng.randint(-10 ** 6, 10 ** 6)]),
                     rng.choice([0, 59, 3600, rng.randint(0, 86399)]), rng.choice([0, 1, 999999, rng.randint(0, 999999)])))
    for d, s, us in vals:
        plain = {"kind": "timedelta", "value": [d, s, us], "spelling": "fields"}
        for sp in SPELLINGS[1:]:
            other = {"kind": "timedelta", "value": [d, s, us], "spelling": sp}
            out.append((f"timedelta/{sp}", other, plain))
            out.append((f"timedelta/{sp}", plain, other))
    return out


def histories(tier: str, seed: int, few=False):
    """every (family, warm, judged) pair; the caller crosses it with the warming operation.  few: see base_instants"""
    rng = random.Random(seed + 404)
    tms, infeasible = time_pairs(tier, rng)
    pairs = datetime_pairs(tier, rng, few) + tms + date_pairs(tier, rng) + timedelta_pairs(tier, rng)
    return pairs, {"time_pairs_infeasible(|distance| >= 24h: equal aware times never wrap)": infeasible}


def case_of(family, warm, judged, warm_op):
    c = {"op": "history", "family": family, "warm_op": warm_op, "warm": warm}
    c.update(judged)
    return c
