"""C04 round 3: the equal-but-differently-represented families of the temporal kinds, enumerated.

The property quantifies over "datetimes/times with every whole-minute offset in (-24h, +24h), microseconds, fold;
timedeltas ...; each also after the caches were warmed with an equal-but-differently-represented value".  For a
temporal value v the values that are == v (and hash equal) while rendered differently are

* datetime: the same instant written with ANY other whole-minute offset (the wall clock, often the date, moves with it),
  and the other `fold`;
* time: the same time of day written with another offset, as long as the shifted wall clock stays inside one day
  (aware times never wrap: two offsets 24 h apart cannot carry equal times), and the other `fold`;
* timedelta: the same duration in another constructor spelling or as a subclass instance (pendulum.Duration, which is
  what `pendulum.parse` / `serdes.dateparse` hand out);
* date: nothing is == a date but a date; the nearest neighbour is the datetime at midnight of that day (a subclass
  instance; naive or aware) -- kept as a "near" family.

Nothing here is random except the extra seeded base instants, nothing knows a cache, and nothing imports typelib: this
module only produces JSON-able history specs

    {"op": "history", "family": ..., "warm_op": ..., "warm": <value spec>, "kind": ..., "value": ..., ["spelling": ...]}

A value spec is {"kind", "value"[, "spelling"]} in the vocabulary of props/c04.build_value (datetime:
[y, mo, d, h, mi, s, us, offset_seconds|None, fold], time: [h, mi, s, us, offset_seconds, fold], date: [y, mo, d],
timedelta: [days, seconds, microseconds] + spelling).

Offset pairs (minutes east of UTC, both strictly inside one day) are enumerated by CLASS, each in both orders:
  grid     all ordered pairs of a coarse grid (extremes, +-1 min, half/quarter-hour zones, every sign combination);
  dist=D   for each structurally special distance D (1 min, the sub-hour steps, 1 h, 12 h, 24 h -- where the
           normalised `timedelta.seconds` of the offset wraps --, 24 h +- 1 min, 25 h, 36 h, the maximum 47 h 58 min)
           a sweep of (o, o + D) over the whole range of o;
  mirror   (o, -o).
"""
from __future__ import annotations

import datetime as D
import random

TD = D.timedelta
OPS = ["isoformat", "marshal", "unmarshal_str", "unmarshal_bytes"]
LO, HI = -1439, 1439

GRID_QUICK = [-1439, -1380, -1080, -720, -570, -300, -60, -1, 0, 1, 60, 330, 345, 720, 840, 1140, 1380, 1439]
GRID_THOROUGH = sorted(set(GRID_QUICK + list(range(-1260, 1261, 180)) + [-1438, -210, 525, 765, 1438]))
DISTANCES = [1, 15, 30, 45, 59, 60, 61, 720, 1380, 1439, 1440, 1441, 1500, 2160, 2878]
DENSE = {1440}          # swept at full hourly resolution in every tier


def offset_pairs(tier: str):
    """[(class, o1, o2)] -- ordered pairs of distinct offsets in minutes; every class in both orders"""
    out, seen = [], set()

    def add(cls, a, b):
        if a != b and LO <= a <= HI and LO <= b <= HI and (a, b) not in seen:
            seen.add((a, b))
            out.append((cls, a, b))

    # the special distances first, so that a pair that is also on the grid keeps its distance class
    for dist in DISTANCES:
        span = HI - dist - LO          # o ranges over [LO, HI - dist]
        step = 60 if (dist in DENSE or tier == "thorough") else max(60, 60 * (span // 60 // 7 or 1))
        sweep = set(range(-1380, HI - dist + 1, step)) | {LO, HI - dist, LO + span // 2}
        sweep |= {o for o in (-dist, 0, -60, -1) if LO <= o <= HI - dist}      # pairs touching UTC / straddling it
        for o in sorted(sweep):
            add(f"dist={dist}", o, o + dist)
            add(f"dist={dist}", o + dist, o)
    for o in sorted(set(range(60, 1440, 180 if tier != "thorough" else 60)) | {1, 330, 1439}):
        add("mirror", o, -o)
        add("mirror", -o, o)
    grid = GRID_THOROUGH if tier == "thorough" else GRID_QUICK
    for a in grid:
        for b in grid:
            add("grid", a, b)
    return out


# UTC instants [y, mo, d, h, mi, s, us, fold-of-the-judged-value]: every negative offset of the first one is the
# previous day / month / year, the second flips forward at +1 min, then a leap day, the epoch's eve, a leap boundary
BASES = [
    [2020, 1, 1, 0, 0, 0, 0, 0],
    [1999, 12, 31, 23, 59, 59, 999999, 0],
    [2024, 2, 29, 12, 30, 15, 1, 1],
    [1969, 12, 31, 1, 2, 3, 456789, 0],
    [2024, 3, 1, 0, 0, 0, 500000, 1],
    [2, 1, 2, 0, 0, 0, 0, 0],
    [9998, 12, 30, 23, 59, 59, 0, 0],
]


def base_instants(tier: str, rng: random.Random, few=False):
    """few: the first fixed instant and the seeded ones only (quick-tier correspondence; the oracle takes all)"""
    bases = list(BASES[:4] if tier != "thorough" else BASES)
    if few and tier != "thorough":
        bases = bases[:1]
    for _ in range(1 if tier != "thorough" else 3):
        t = D.datetime(2, 1, 2) + TD(days=rng.randint(0, 3650000), seconds=rng.randint(0, 86399),
                                     microseconds=rng.choice([0, rng.randint(1, 999999)]))
        bases.append([t.year, t.month, t.day, t.hour, t.minute, t.second, t.microsecond, rng.randint(0, 1)])
    return bases


def _dt_spec(x: D.datetime, off_min, fold):
    return [x.year, x.month, x.day, x.hour, x.minute, x.second, x.microsecond, None if off_min is None else off_min * 60, fold]


def at_offset(base, off_min: int, fold=0):
    """spec of the aware datetime that writes the UTC instant `base` with the offset `off_min`"""
    wall = D.datetime(*base[:7]) + TD(minutes=off_min)
    return {"kind": "datetime", "value": _dt_spec(wall, off_min, fold)}


def datetime_pairs(tier, rng, few=False):
    """(family, warm spec, judged spec)"""
    out = []
    pairs = offset_pairs(tier)
    for base in base_instants(tier, rng, few):
        for cls, o_w, o_v in pairs:
            out.append((f"datetime/{cls}", at_offset(base, o_w), at_offset(base, o_v, base[7])))
        for o in (0, -1439, 1439, 330, -60, 1380):           # the other fold, same offset (== and same text)
            for f in (0, 1):
                out.append(("datetime/fold", at_offset(base, o, 1 - f), at_offset(base, o, f)))
    return out


def time_pairs(tier, rng):
    """equal aware times: wall_w - o_w == wall_v - o_v, both wall clocks inside the day (no wrap)"""
    out, infeasible = [], 0
    clocks = [(0, 0, 0), (59, 999999, 1)] + ([(rng.randint(0, 59), rng.randint(0, 999999), 0)] if tier == "thorough" else [])
    for cls, o_w, o_v in offset_pairs(tier):
        delta = o_w - o_v                        # wall_w = wall_v + delta
        if abs(delta) > 1439:
            infeasible += 1
            continue
        lo, hi = max(0, -delta), min(1439, 1439 - delta)       # feasible wall minutes of v
        walls = sorted({lo, hi} | ({(lo + hi) // 2} if tier == "thorough" else set()))
        for i, mv in enumerate(walls):
            s, us, fold = clocks[(i + abs(o_v)) % len(clocks)]
            mw = mv + delta
            out.append((f"time/{cls}",
                        {"kind": "time", "value": [mw // 60, mw % 60, s, us, o_w * 60, 0]},
                        {"kind": "time", "value": [mv // 60, mv % 60, s, us, o_v * 60, fold]}))
    for o in (0, -1439, 1439, 330):
        for f in (0, 1):
            out.append(("time/fold", {"kind": "time", "value": [1, 30, 0, 0, o * 60, 1 - f]},
                        {"kind": "time", "value": [1, 30, 0, 0, o * 60, f]}))
    return out, infeasible


def date_pairs(tier, rng):
    """the 'near' family: a date and the datetimes at midnight of that day (not == in Python >= 3.9: no cache keyed
    on equality can confuse them; one keyed on a projection -- ordinal, date text -- can).  Judged values are the date,
    and the aware midnight datetimes (naive ones only warm)."""
    out = []
    r = D.date.fromordinal(rng.randint(400, 3650000))
    dates = [[1970, 1, 1], [2024, 2, 29], [1999, 12, 31], [2, 1, 1], [9998, 12, 31], [r.year, r.month, r.day]]
    for y, m, d in dates:
        date = {"kind": "date", "value": [y, m, d]}
        for off in (None, 0, 840, -720):
            mid = {"kind": "datetime", "value": [y, m, d, 0, 0, 0, 0, None if off is None else off * 60, 0]}
            out.append(("date/midnight-datetime", mid, date))
            if off is not None:
                out.append(("date/midnight-datetime", date, mid))
    return out


TD_VALUES = [(0, 0, 0), (8, 0, 0), (7, 0, 0), (1, 0, 0), (-1, 0, 0), (-1, 86399, 999990), (-5, 0, 7), (-1, 86398, 999999),
             (0, 59, 999999), (14, 59, 999999), (0, 3661, 0), (365, 0, 0), (30, 0, 0), (100000, 3, 999999),
             (99999999, 0, 1), (-99999999, 86399, 999999), (999999999, 86399, 999999), (-999999999, 0, 0),
             (999999999, 0, 0), (0, 0, 1), (0, 86399, 999999)]
SPELLINGS = ["fields", "hours", "mixed", "micros", "negated", "sum", "pendulum", "pendulum-parsed"]


def timedelta_pairs(tier, rng):
    """the plain timedelta after every other spelling of the same duration, and every spelling after the plain one"""
    out = []
    vals = list(TD_VALUES)
    for _ in range(6 if tier != "thorough" else 40):
        vals.append((rng.choice([rng.randint(-1000, 1000), rng.randint(-999999999, 999999998), 7 * rng.randint(-10 ** 6, 10 ** 6)]),
                     rng.choice([0, 59, 3600, rng.randint(0, 86399)]), rng.choice([0, 1, 999999, rng.randint(0, 999999)])))
    for d, s, us in vals:
        plain = {"kind": "timedelta", "value": [d, s, us], "spelling": "fields"}
        for sp in SPELLINGS[1:]:
            other = {"kind": "timedelta", "value": [d, s, us], "spelling": sp}
            out.append((f"timedelta/{sp}", other, plain))
            out.append((f"timedelta/{sp}", plain, other))
    return out


def histories(tier: str, seed: int, few=False):
    """every (family, warm, judged) pair; the caller crosses it with the warming operation.  few: see base_instants"""
    rng = random.Random(seed + 404)
    tms, infeasible = time_pairs(tier, rng)
    pairs = datetime_pairs(tier, rng, few) + tms + date_pairs(tier, rng) + timedelta_pairs(tier, rng)
    return pairs, {"time_pairs_infeasible(|distance| >= 24h: equal aware times never wrap)": infeasible}


def case_of(family, warm, judged, warm_op):
    c = {"op": "history", "family": family, "warm_op": warm_op, "warm": warm}
    c.update(judged)
    return c


# ----------------------------------------------------------------------------------
# round 4: the NON-temporal scalar kinds
# ----------------------------------------------------------------------------------
# Numbers that are equal compare AND hash equal across spellings and across classes (1 == True == 1.0 == Decimal('1.00')
# == Fraction(1, 1); Decimal('0.5') == Fraction(1, 2) == 0.5; 0.0 == -0.0 == Decimal('-0')), an IntEnum member equals its
# int, a (str, Enum) member equals its str, pure paths of one flavour are equal across their concrete / pure classes and
# -- Windows flavour -- across letter case.  Each GROUP below lists value specs that are pairwise == and hash-equal (checked
# on the live interpreter when the history is built; a pair that is not is outside the clause and skipped) although their
# wire forms differ: the value itself for int / float / bool, str(v) for Decimal / Fraction / path, the member's value for
# an enum.  A history is  warm_op(w); then every emitting operation on v  for every ordered pair of a group.

import decimal as _decimal
import fractions as _fractions

SCALAR_OPS = ["marshal", "unmarshal_str", "unmarshal_bytes"]
# canonical_text: unmarshal(type(w), str(w)) -- the text -> value direction as a warm-up
SCALAR_WARM_OPS = SCALAR_OPS + ["canonical_text"]


def _I(n): return {"kind": "int", "value": str(n)}                                   # noqa: E704
def _B(b): return {"kind": "bool", "value": bool(b)}                                 # noqa: E704
def _F(x): return {"kind": "float", "value": float(x).hex()}                         # noqa: E704
def _D(*ts): return [{"kind": "decimal", "value": t} for t in ts]                    # noqa: E704
def _Q(t): return {"kind": "fraction", "value": t}                                   # noqa: E704
def _E(cls, name): return {"kind": "enum", "value": [cls, name]}                     # noqa: E704
def _P(cls, s): return {"kind": "path", "value": [cls, s]}                           # noqa: E704
def _S(s): return {"kind": "str", "value": s}                                        # noqa: E704


def scalar_groups(tier: str, rng: random.Random):
    g = {
        "num:zero": [_I(0), _B(False), _F(0.0), _F(-0.0), *_D("0", "-0", "0.0", "0.00", "0E+2", "0E-3"), _Q("0")],
        "num:one": [_I(1), _B(True), _F(1.0), *_D("1", "1.0", "1.00", "1E+0", "10E-1", "0.1E+1"), _Q("1")],
        "num:two": [_I(2), _F(2.0), *_D("2", "2.0", "2.00", "2E+0", "0.2E+1"), _Q("2")],
        "num:seven": [_I(7), _F(7.0), _E("EIntEnum", "x"), *_D("7", "7.0", "7E+0", "0.7E+1"), _Q("7")],
        "num:minus-three": [_I(-3), _F(-3.0), _E("EIntEnum", "y"), *_D("-3", "-3.0", "-0.3E+1", "-30E-1"), _Q("-3")],
        "num:half": [_F(0.5), *_D("0.5", "0.50", "5E-1", "0.5000"), _Q("1/2")],
        "num:quarter": [_F(0.25), *_D("0.25", "0.250", "25E-2"), _Q("1/4")],
        "num:minus-2.5": [_F(-2.5), *_D("-2.5", "-2.50", "-25E-1"), _Q("-5/2")],
        "num:3000": [_I(3000), _F(3000.0), *_D("3000", "3E+3", "3.0E+3", "3000.00", "0.3E+4"), _Q("3000")],
        "num:tenth(decimal)": [*_D("0.1", "0.10", "1E-1"), _Q("1/10")],
        "num:tenth(float)": [_F(0.1), *_D(str(_decimal.Decimal(0.1))), _Q(str(_fractions.Fraction(0.1)))],
        "num:2**70": [_I(2 ** 70), _F(float(2 ** 70)), *_D(str(2 ** 70), str(2 ** 70) + ".0", "1.180591620717411303424E+21"),
                      _Q(str(2 ** 70))],
        "num:1e22": [_I(10 ** 22), _F(1e22), *_D("1E+22", "1" + "0" * 22, "1.0E+22"), _Q(str(10 ** 22))],
        "path:posix": [_P("PurePosixPath", "a/b"), _P("PosixPath", "a/b"), _P("PurePosixPath", "a//b/")],
        "path:posix-abs": [_P("PurePosixPath", "/my/path"), _P("Path", "/my/path")],
        "path:windows-case": [_P("PureWindowsPath", "A/b"), _P("PureWindowsPath", "a\\B"), _P("PureWindowsPath", "a/b")],
        "path:windows-drive": [_P("PureWindowsPath", "C:/X/y.txt"), _P("PureWindowsPath", "c:\\x\\Y.TXT")],
        "str:str-enum(a)": [_S("a"), _E("ESMix", "a")],
        "str:str-enum(5)": [_S("5"), _E("ESMix", "five")],
    }
    with _decimal.localcontext() as ctx:
        ctx.prec = 60
        for i in range(4 if tier != "thorough" else 40):       # seeded dyadic rationals n / 2**j: exact as float and Decimal
            n, j = rng.choice([rng.randint(-10 ** 6, 10 ** 6), rng.randint(-99, 99)]), rng.randint(0, 6)
            q = _fractions.Fraction(n, 2 ** j)
            d = _decimal.Decimal(n) / _decimal.Decimal(2 ** j)
            t = str(d)
            group = [_F(n / 2 ** j), *_D(t, t + ("0" if "." in t else ".0"), "{:E}".format(d)), _Q(str(q))]
            if q.denominator == 1:
                group.insert(0, _I(int(q)))
            g[f"num:seeded-{i}({q})"] = group
    return g


def scalar_histories(tier: str, seed: int):
    """(family, warm spec, judged spec) for every ordered pair of distinct specs of every group"""
    rng = random.Random(seed + 405)
    out = []
    for name, group in scalar_groups(tier, rng).items():
        for w in group:
            for v in group:
                if w != v:
                    out.append((f"scalar/{name}", w, v))
    return out
