"""C19 -- generator of class programs and their Python source (shared by correspondence and oracle).

A *program* is a list of class specs executed top to bottom in one throw-away module.  Every class statement
goes through the module-level helper `_S(i, ...)`, whose behaviour is supplied by the caller (`hook`):
identity (the original dataclasses), the real `classes.slotted` (the decorated twin), or the real decorator
plus reflection of the class before / observation after (correspondence).
"""
from __future__ import annotations

import itertools
import random

FIELD_POOL = ["a", "b", "c", "d", "e", "x1", "val", "_p"]
NAME_POOL = ["K0", "K1", "K2"]


def _fields_of(prog, i):
    """all dataclass fields of class i (inherited first), as (name, has_default)"""
    s = prog[i]
    out = []
    if isinstance(s["base"], int):
        out = list(_fields_of(prog, s["base"]))
    if not s["dataclass"]:
        return out
    for f in s["fields"]:
        hd = f["def"] != "none"
        for k, (n, _) in enumerate(out):
            if n == f["name"]:
                out[k] = (n, hd)
                break
        else:
            out.append((f["name"], hd))
    return out


def _dc_root(prog, i):
    """nearest dataclass among class i's bases (index) or None"""
    b = prog[i]["base"]
    while isinstance(b, int):
        if prog[b]["dataclass"]:
            return b
        b = prog[b]["base"]
    return None


def inst_has_dict(prog, i) -> bool:
    """do instances of class i (after decoration, on a correct slotted()) have a __dict__?  Conservative: True only
    when certain.  Non-field instance state (__post_init__ extras, cached_property) is only generated then, because
    without a __dict__ it cannot exist at all -- that is what slots mean, not a difference the property is about."""
    s = prog[i]
    if not s["slot"]:
        return True                      # never slotted
    if not s["dataclass"] and _dc_root(prog, i) is None:
        return True                      # not a dataclass at all: the decoration fails and leaves the plain class
    if s.get("reslot"):
        return False
    if s["dict"] and not s["bare"]:
        return True
    b = s["base"]
    if b == "PU":
        return True
    if isinstance(b, int):
        return inst_has_dict(prog, b)
    return False


def gen_spec(rng: random.Random, prog: list, malformed: float = 0.06, names=NAME_POOL) -> dict:
    i = len(prog)
    s = {"name": rng.choice(names), "outer": rng.choice([None, None, "H0"]),
         "dataclass": rng.random() >= malformed, "slot": rng.random() < 0.8,
         "hooks": rng.choices(["none", "pair", "pairlist", "get", "set"], [12, 4, 3, 2, 2])[0],
         "classvar": rng.random() < 0.3, "method": rng.random() < 0.3, "super_repr": rng.random() < 0.04,
         "dict": rng.random() < 0.5, "weakref": rng.random() < 0.5, "bare": rng.random() < 0.15,
         "reslot": False, "post_init": rng.random() < 0.3, "cached": rng.random() < 0.2}
    # base: none / earlier class / plain non-dataclass bases
    r = rng.random()
    if prog and r < 0.55:
        s["base"] = rng.randrange(len(prog))
    elif r < 0.62:
        s["base"] = "PU"
    elif r < 0.69:
        s["base"] = "PS"
    else:
        s["base"] = None
    prog.append(s)     # so the helpers can see it
    root = _dc_root(prog, i)
    inherited = _fields_of(prog, s["base"]) if isinstance(s["base"], int) else []
    s["frozen"] = prog[root]["frozen"] if root is not None else rng.random() < 0.4
    s["eq"] = rng.random() < 0.8
    s["order"] = s["eq"] and rng.random() < 0.3
    s["unsafe_hash"] = rng.random() < 0.25
    nf = rng.choice([0, 1, 1, 2, 2, 3, 4, 5])
    taken = {n for n, _ in inherited}
    pool = [n for n in FIELD_POOL if n not in taken]
    rng.shuffle(pool)
    own = pool[:nf]
    if inherited and rng.random() < 0.12:
        own = [rng.choice(inherited)[0]] + own[: max(0, nf - 1)]     # re-declares an inherited field
    need_default = any(hd for _, hd in inherited)
    fields = []
    for n in own:
        if need_default or rng.random() < 0.45:
            d = rng.choice(["default", "default", "factory"])
            need_default = True
        else:
            d = "none"
        if n in taken and any(hd for nn, hd in inherited if nn != n) and d == "none":
            d = "default"
        fields.append({"name": n, "def": d})
    # a re-declared field keeps its inherited position: everything after it must have a default
    if any(f["name"] in taken for f in fields):
        for f in fields:
            if f["def"] == "none":
                f["def"] = "default"
        # and inherited fields behind it already have theirs or the class statement fails: checked by caller
    s["fields"] = fields
    if s["bare"]:
        s["dict"], s["weakref"] = False, True
    prog.pop()
    return s


def gen_program(rng: random.Random, nmax: int = 4, malformed: float = 0.06) -> list:
    prog = []
    n = rng.randint(1, nmax)
    for _ in range(n):
        prog.append(gen_spec(rng, prog, malformed))
    if not any(s["slot"] for s in prog):
        prog[-1]["slot"] = True
    return prog


# ----------------------------------------------------------------------------------
# source
# ----------------------------------------------------------------------------------

HOOK = None      # set by the caller before a program's module is executed

PRELUDE = '''import dataclasses, functools, typing
import c19_gen as _g
def _hook(i, c, bare, kw):
    return _g.HOOK(i, c, bare, kw)
class H0:
    pass
class PU:
    """plain base without __slots__"""
class PS:
    """plain base with empty __slots__"""
    __slots__ = ()
_plain = {}
_c = {}
_err = {}
def _S(i, bare=False, **kw):
    def deco(c):
        _plain[i] = c
        return _hook(i, c, bare, kw)
    return deco
'''


def default_expr(k: int, d: str) -> str:
    if d == "default":
        return f" = {k + 10}"
    if d == "factory":
        return " = dataclasses.field(default_factory=list)"
    return ""


def class_source(i: int, s: dict, prog: list | None = None) -> str:
    base = s["base"]
    extra_state = prog is not None and inst_has_dict(prog, i)
    bexpr = "" if base is None else (f"(_c[{base}])" if isinstance(base, int) else f"({base})")
    lines = []
    ind = "    "
    decos = []
    if s["slot"]:
        if s["bare"]:
            decos.append(f"@_S({i}, bare=True)")
        else:
            decos.append(f"@_S({i}, dict={s['dict']}, weakref={s['weakref']})")
    if s.get("reslot"):
        decos.append(f"@_S({i + 1000}, dict=False, weakref=False)")
    if s["dataclass"]:
        decos.append("@dataclasses.dataclass(frozen=%s, eq=%s, order=%s, unsafe_hash=%s)" % (
            s["frozen"], s["eq"], s["order"], s["unsafe_hash"]))
    body = []
    if s["outer"]:
        body.append(f"__qualname__ = '{s['outer']}.{s['name']}'")
    for k, f in enumerate(s["fields"]):
        ann = "list" if f["def"] == "factory" else "int"
        body.append(f"{f['name']}: {ann}{default_expr(k, f['def'])}")
    if s["classvar"]:
        body.append("cv: typing.ClassVar[int] = 7")
    if s["method"]:
        body.append("def total(self):\n    return [getattr(self, f.name) for f in dataclasses.fields(self)]")
    if extra_state and s.get("post_init"):
        # the usual frozen-dataclass idiom for derived state
        body.append("def __post_init__(self):\n    object.__setattr__(self, '_derived', ['derived', len(dataclasses.fields(self))])")
    if extra_state and s.get("cached"):
        body.append("@functools.cached_property\ndef cp(self):\n    return ['cp', len(dataclasses.fields(self))]")
    if s["super_repr"]:
        body.append("def __repr__(self):\n    return 'R:' + str(super().__eq__(self))")
    # user pickle hooks.  The pair uses its own (versioned) state format, so that it only works when it is really the
    # user's __setstate__ that receives the user's __getstate__ result; a lone hook keeps the default formats.
    if s["hooks"] == "pair":
        body.append("def __getstate__(self):\n    return ('v1', {f.name: getattr(self, f.name) for f in dataclasses.fields(self)})")
        body.append("def __setstate__(self, state):\n    tag, values = state\n    assert tag == 'v1'\n"
                    "    for k, v in values.items():\n        object.__setattr__(self, k, v)")
    if s["hooks"] == "pairlist":
        # a second private format that is not a dict at all: (version, [values in field order])
        body.append("def __getstate__(self):\n    return (2, [getattr(self, f.name) for f in dataclasses.fields(self)])")
        body.append("def __setstate__(self, state):\n    version, values = state\n    assert version == 2\n"
                    "    for f, v in zip(dataclasses.fields(self), values):\n        object.__setattr__(self, f.name, v)")
    if s["hooks"] == "get":
        body.append("def __getstate__(self):\n    return {f.name: getattr(self, f.name) for f in dataclasses.fields(self)}")
    if s["hooks"] == "set":
        body.append("def __setstate__(self, state):\n    for k, v in (state.items() if isinstance(state, dict) else "
                    "[kv for d in state if d for kv in d.items()]):\n        object.__setattr__(self, k, v)")
    if not body:
        body.append("pass")
    out = "try:\n"
    for d in decos:
        out += ind + d + "\n"
    out += ind + f"class {s['name']}{bexpr}:\n"
    for b in body:
        for line in b.split("\n"):
            out += ind * 2 + line + "\n"
    out += ind + f"_c[{i}] = {s['name']}\n"
    if s["outer"]:
        out += ind + f"{s['outer']}.{s['name']} = {s['name']}\n"
    out += "except Exception as _e:\n"
    out += ind + f"_err[{i}] = _e\n"
    out += ind + f"_c[{i}] = _plain.get({i}, PU)\n"
    out += ind + f"{s['name']} = _c[{i}]\n"
    if s["outer"]:
        out += ind + f"{s['outer']}.{s['name']} = _c[{i}]\n"
    return out


def program_source(prog: list) -> str:
    return PRELUDE + "".join(class_source(i, s, prog) for i, s in enumerate(prog))


# ----------------------------------------------------------------------------------
# small-scope catalogue for exhaustive histories
# ----------------------------------------------------------------------------------

def _mk(name, **kw):
    s = {"name": name, "outer": None, "dataclass": True, "slot": True, "hooks": "none", "classvar": False,
         "method": False, "super_repr": False, "dict": False, "weakref": True, "bare": False, "base": None,
         "frozen": False, "eq": True, "order": False, "unsafe_hash": False, "reslot": False,
         "post_init": False, "cached": False,
         "fields": [{"name": "a", "def": "none"}, {"name": "b", "def": "default"}]}
    s.update(kw)
    return s


def catalogue(names=("K0", "K1")):
    """canonical class shapes; `base` is filled in by the enumerator (None or the previous class)"""
    shapes = [
        dict(),                                             # plain dataclass, default flags
        dict(frozen=True, weakref=False),                   # frozen: pickle fix
        dict(dict=True, weakref=False),                     # asks for __dict__
        dict(dataclass=False, fields=[]),                   # not a dataclass: legitimately raises TypeError
        dict(slot=False),                                   # stays unslotted (a base for the next one)
        dict(frozen=True, hooks="pair", dict=True),         # user hooks
        dict(frozen=True, dict=True, weakref=False, post_init=True, cached=True),   # non-field instance state
        dict(frozen=True, weakref=True, post_init=True),    # ... only when chained to a base with a __dict__
    ]
    return [_mk(n, **sh) for n in names for sh in shapes]


def histories(maxlen: int, names=("K0", "K1")):
    """all sequences up to maxlen over the catalogue; each class after the first inherits from its
    predecessor when that keeps the dataclass legal (same frozen-ness), else stands alone"""
    cat = catalogue(names)
    for n in range(1, maxlen + 1):
        for combo in itertools.product(range(len(cat)), repeat=n):
            for chain in ((False, True) if n > 1 else (False,)):
                prog = []
                for pos, ci in enumerate(combo):
                    s = {**cat[ci], "fields": [dict(f) for f in cat[ci]["fields"]]}
                    if chain and pos > 0:
                        prev = prog[pos - 1]
                        if s["dataclass"] and (not prev["dataclass"] or prev["frozen"] == s["frozen"]):
                            s["base"] = pos - 1
                            if prev["dataclass"] or _dc_root(prog, pos - 1) is not None:
                                inh = {n for n, _ in _fields_of(prog, pos - 1)}
                                s["fields"] = [{"name": f"f{pos}", "def": "default"}] if inh else s["fields"]
                    prog.append(s)
                yield prog


# ----------------------------------------------------------------------------------
# class families for the instance layer (construction, comparison, state protocol)
# ----------------------------------------------------------------------------------

def families():
    """two- and three-class chains that put each instance-level feature over a slotted and an unslotted base: a
    re-declared base field with a new default, inherited user state hooks in two non-default formats, default
    factories, unsafe_hash, order=True, an eq=False child of an eq=True base, __post_init__ state with dict=True"""
    out = []
    features = ["redeclare", "redeclare_factory", "pair", "pairlist", "factory", "unsafe_hash", "order", "eq_false_child",
                "post_init", "plain"]
    for base_slotted in (True, False):
        for frozen in (False, True):
            for feat in features:
                for child_dict in (False, True):
                    base = _mk("K0", slot=base_slotted, frozen=frozen, weakref=False,
                               fields=[{"name": "a", "def": "none"}, {"name": "b", "def": "default"}])
                    child = _mk("K1", base=0, frozen=frozen, dict=child_dict, weakref=False,
                                fields=[{"name": "c", "def": "default"}])
                    if feat == "redeclare":
                        child["fields"] = [{"name": "b", "def": "default"}, {"name": "c", "def": "default"}]
                    elif feat == "redeclare_factory":
                        child["fields"] = [{"name": "b", "def": "factory"}, {"name": "c", "def": "default"}]
                    elif feat in ("pair", "pairlist"):
                        base["hooks"] = feat
                    elif feat == "factory":
                        child["fields"] = [{"name": "c", "def": "factory"}, {"name": "d", "def": "default"}]
                    elif feat == "unsafe_hash":
                        child["unsafe_hash"] = True
                    elif feat == "order":
                        base["order"] = child["order"] = True
                    elif feat == "eq_false_child":
                        child["eq"] = False
                    elif feat == "post_init":
                        child["post_init"] = True
                    out.append([base, child])
                    if feat in ("pair", "pairlist", "redeclare") and not child_dict:
                        grand = _mk("K2", base=1, frozen=frozen, weakref=False,
                                    fields=[{"name": "a", "def": "none"}, {"name": "e", "def": "default"}]
                                    if feat == "redeclare" else [{"name": "e", "def": "default"}])
                        if feat == "redeclare":       # a re-declared field keeps its place: everything after it has a default
                            grand["fields"] = [{"name": "b", "def": "default"}, {"name": "e", "def": "default"}]
                        out.append([dict(base), dict(child), grand])
    return out
