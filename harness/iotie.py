"""Serdes / iteration bridge (WP-C): ties Core.itervalues / Core.iteritems / Core.load DIRECTLY to serdes.py.

`obligations(run)` does, on every run,

  1. *theorems*: Props/IoBridge.v is re-compiled in the build dir (Print Assumptions captured, one obligation per
     theorem): the commutation of Core's three serdes functions with Model/Iter.v (C18) and Model/Serdes.v (C14),
     C18's and C14's statements carried over to the core functions, the refutation witnesses.
  2. *correspondence* `core-io`: synthesised modules of the core harness (universe / coregen / coremodel.Group) and a
     value pool that stresses the three functions (containers of every kind, named tuples, dataclass / plain /
     slotted instances, typed dicts, sets, 2-element first members of every sort, scalars of every leaf class,
     JSON / literal / plain text in all five carriers).  For every value x:
         list(serdes.itervalues(x)),  [(k, v) for k, v in serdes.iteritems(x)],  serdes.load(x)      on /repo
       vs
         Core.itervalues rt x,  Core.iteritems rt E x,  Core.load rt x                              in Coq (vm_compute)
     on the core encoding of x (universe.Registry.enc), where rt is the INDUCED runtime (Model/IoBridge.v:
     io_runtime): every scalar field (values_scalar, items_scalar, pairlike_scalar, index, load_scalar) is
     computed by the C18 / C14 models from a DESCRIPTION of each atom, not looked up in a table filled by the
     implementation.  Atoms are described from the interpreter's view of the object (never through typelib):
     str / bytes-like / int / None directly, any other object by what the code can read from its class
     (dataclasses.is_dataclass, dataclasses.fields, typing.get_type_hints, __slots__) and instance (slot values,
     __dict__) -- the same facts harness/c18_objs.py derives from its class descriptions; text atoms additionally as
     Serdes carriers with the answers of the interpreter's decoders (UTF-8, the JSON decoder in use,
     ast.literal_eval) as tables (the Prims / Emitter of harness/props/c14.py).
     Mismatching indexes are computed inside Coq.  Also decided per group inside Coq: the back table is sound
     (emb v = x for every entry: the hypothesis bl_sound of IoBridge_induced_laws), which cases lie in io_guard.
     Every group contains the two inputs that refuted the PREVIOUS definition of Core.unpack2 (scalar members unpacked
     through itervalues): [(1, 2), UUID(int=5)] and [(1, 2), mappingproxy({0: 1, 1: 0})].  Core.iteritems (whose scalar
     unpacking is now the runtime field unpack_scalar, here ind_unpack = the Iter model's reading of `k, v = x`) must
     AGREE with the code on them like on every other value; how often the previous definition (iteritems_pinned) would
     still disagree is reported as information (`previous_definition_disagrees`).

`table_obligations(run, groups, tag)` (optional, for the properties that run a core correspondence: C01 C03 C05 C06 C07
C11 C13 C15): the scalar tables coremodel.Mirror filled by calling the implementation (load / values / items / unpack /
pairlike / index) are re-derived from the two models, entry by entry, inside Coq (`core-io-tables:<tag>`): the runtime those
correspondences evaluate Core.unm / Core.mar on obeys IterLaws / LoadLaw at every entry it used.

Called from the property modules (C18, C14, C05); everything is recorded on the given `run`.
"""
from __future__ import annotations

import collections
import collections.abc
import copy
import dataclasses
import json
import os
import random
import re
import sys
import types
import typing
import uuid
import warnings

import impl
import lib
from lib import coq_list, coq_nat, coq_pair, coq_string

_HERE = os.path.dirname(os.path.abspath(__file__))
if os.path.join(_HERE, "props") not in sys.path:
    sys.path.insert(0, os.path.join(_HERE, "props"))

COQ_TARGETS = ["theories/Model/IoBridge.vo", "theories/Model/IoBridgeEq.vo", "theories/Proofs/IoBridge.vo",
               "theories/Props/IoBridge.vo"]
THEOREMS = [
    "IoBridge_results_faithful", "IoBridge_scalar_shape",
    "IoBridge_values_commute", "IoBridge_items_commute",
    "IoBridge_load_commute", "IoBridge_load_embS", "IoBridge_readback", "IoBridge_readback_sound",
    "IoBridge_induced_laws",
    "IoBridge_C18_values", "IoBridge_C18_items", "IoBridge_C18_items_pairs", "IoBridge_C18_nondestructive",
    "IoBridge_oneshot_outside",
    "IoBridge_C14_load_carriers", "IoBridge_C14_load_json", "IoBridge_C14_load_plain_text", "IoBridge_C14_load_nontext",
    "IoBridge_unm_text_is_value", "IoBridge_C14_unm_carriers", "IoBridge_C14_unm_json_text",
    "IoBridge_pinned_agrees", "IoBridge_pinned_refuted_noniterable", "IoBridge_pinned_refuted_mapping",
    "IoBridge_pinned_full_refuted", "IoBridge_guard_needed",
]
PROPS = [("Props/IoBridge.v", THEOREMS)]

HDR = ("From Coq Require Import List ZArith NArith String Ascii Bool. Import ListNotations.\n"
       "Require Import TL.Model.Core TL.Model.IoBridge TL.Model.IoBridgeEq.\n")


class Unsupported(Exception):
    """the object has no description in Model/Iter.v's universe: the case is counted as outside"""


# ----------------------------------------------------------------------------------
# descriptions of atoms for the iteration model (qualified Iter.v terms)
# ----------------------------------------------------------------------------------

def istr(s: str) -> str:
    if all(32 <= ord(c) < 127 for c in s):
        return coq_string(s)
    if any(ord(c) > 255 for c in s):
        raise Unsupported("str beyond latin-1")
    t = "EmptyString"
    for c in reversed(s):
        t = f"(String (ascii_of_nat {ord(c)}) {t})"
    return t


def istrs(l) -> str:
    return coq_list([istr(s) for s in l], "string")


def emit_clsdesc(flavour, is_dc, dc_fields, hints, sig, slots) -> str:
    return ("{| I.c_flavour := I.%s; I.c_dataclass := %s; I.c_dc_fields := %s; I.c_hints := %s; I.c_sig := %s; "
            "I.c_slots := %s |}" % (flavour, lib.coq_bool(is_dc), istrs(dc_fields), istrs(hints), istrs(sig),
                                    "None" if slots is None else f"(Some {istrs(slots)})"))


def class_facts(tp):
    """what serdes._make_fields_iterator can read from a class, asked from the interpreter (not from typelib)"""
    is_dc = dataclasses.is_dataclass(tp)
    dc_fields = [f.name for f in dataclasses.fields(tp)] if is_dc else []
    try:
        with warnings.catch_warnings():
            warnings.simplefilter("ignore")
            hints = [k for k, v in typing.get_type_hints(tp).items() if v is not dataclasses.KW_ONLY]
    except Exception:  # noqa: BLE001
        hints = []
    slots = None
    if hasattr(tp, "__slots__"):
        sl = tp.__slots__
        slots = [sl] if isinstance(sl, str) else list(sl)
    public = lambda l: [n for n in l if not n.startswith("_")]  # noqa: E731
    if is_dc:
        flavour = "FDataclass"
    elif public(hints):
        flavour = "FAnnotated"
    elif slots is not None and public(slots):
        flavour = "FSlots"
    else:
        flavour = "FVars"
    return flavour, is_dc, dc_fields, hints, slots


class Describer:
    """Python object -> Iter.val term (the Python-side reading of IoBridge.emb) for one Registry"""

    def __init__(self, reg):
        self.reg = reg
        self.back = []          # extra (Iter term, core term) pairs: attribute values of generic objects
        self.memo = {}

    def value(self, v, depth=0) -> str:
        """a value as emb sees it: scalars through the atom description, core containers structurally"""
        if depth > 6:
            raise Unsupported("too deep")
        k = self.reg.kind_of(v)
        if k[0] == "key":
            return f"(I.VStr {istr(v)})"
        if k[0] == "atom":
            return self.atom(v, depth)
        if k[0] == "seq":
            kind = {"KList": "I.KList", "KTuple": "I.KTuple", "KSet": "I.KSet", "KFrozenset": "I.KFrozenSet",
                    "KDeque": "I.KDeque"}[k[1]]
            return "(I.VColl %s %s)" % (kind, coq_list([self.value(e, depth + 1) for e in v], "I.val"))
        if k[0] == "dict":
            kind = {"KDict": "I.MDict", "KOrderedDict": "I.MOrderedDict"}[k[1]]
            return "(I.VDict %s %s)" % (kind, coq_list(
                [coq_pair(self.value(a, depth + 1), self.value(b, depth + 1)) for a, b in v.items()], "(I.val * I.val)"))
        raise Unsupported("structured attribute value")

    def atom(self, o, depth=0) -> str:
        aid = self.reg.atom(o)
        if aid in self.memo:
            if self.memo[aid] is None:
                raise Unsupported("atom")
            return self.memo[aid]
        self.memo[aid] = None
        t = self._atom(o, aid, depth)
        self.memo[aid] = t
        return t

    def _atom(self, o, aid, depth) -> str:
        tp = type(o)
        if o is None:
            return "I.VNone"
        if tp is int:
            return f"(I.VInt ({o})%Z)"
        if tp is str:
            return f"(I.VStr {istr(o)})"
        if tp in (bytes, bytearray, memoryview):
            return "(I.VBytes %s)" % coq_list([f"{b}%N" for b in bytes(o)], "N")
        if tp in (collections.defaultdict, types.MappingProxyType):
            kind = "I.MDefaultDict" if tp is collections.defaultdict else "I.MProxy"
            items = [(self.value(a, depth + 1), self.value(b, depth + 1)) for a, b in o.items()]
            for (ta, tb), (a, b) in zip(items, o.items()):
                self.back.append((ta, self.reg.enc(a)))
                self.back.append((tb, self.reg.enc(b)))
            return "(I.VDict %s %s)" % (kind, coq_list([coq_pair(a, b) for a, b in items], "(I.val * I.val)"))
        if isinstance(o, type) or isinstance(o, (str, bytes, collections.abc.Iterable, collections.abc.Mapping)):
            raise Unsupported(f"{tp.__name__} object")
        if callable(o):
            raise Unsupported("callable object")
        # any other object: what the code can read from its class and from the instance
        flavour, is_dc, dc_fields, hints, slots = class_facts(tp)
        pub = lambda n: not n.startswith("_")  # noqa: E731
        slotvals, dictvals, clsattrs = [], None, [("_verif_atom", f"(I.VInt {aid}%Z)")]
        seen = set()

        def attr_term(n):
            v = getattr(o, n)
            t = self.value(v, depth + 1)
            self.back.append((t, self.reg.enc(v)))
            return t
        for n in (slots or []):
            if pub(n) and hasattr(o, n) and n not in seen:
                seen.add(n)
                slotvals.append((n, attr_term(n)))
        dd = getattr(o, "__dict__", None)
        if dd is not None:
            dictvals = []
            for n in dd:
                if isinstance(n, str) and pub(n):
                    seen.add(n)
                    dictvals.append((n, attr_term(n)))
        for n in (dc_fields if is_dc else hints):
            if pub(n) and n not in seen and hasattr(o, n):
                seen.add(n)
                clsattrs.append((n, attr_term(n)))
        attrs = lambda l: coq_list(["(%s, %s)" % (istr(n), t) for n, t in l], "(string * I.val)")  # noqa: E731
        return "(I.VObj %s %s %s %s)" % (
            emit_clsdesc(flavour, is_dc, dc_fields, hints, [], slots), attrs(slotvals),
            "None" if dictvals is None else f"(Some {attrs(dictvals)})", attrs(clsattrs))


# ----------------------------------------------------------------------------------
# descriptions for the text model: harness/props/c14.py's Emitter / Prims, names qualified
# ----------------------------------------------------------------------------------
_S_NAMES = ("PNone PBool PInt PFloatS PFloat PText PList PTuple PSet PDict POther CStr CBytes CBytearray CMemviewRO "
            "CMemviewRW Ok Raise EValue EUnicode EType ESyntax EAttribute ERecursion EMemory EOther EUnmodelled").split()
_S_RE = re.compile(r"(?<![\w.@])(@?)(" + "|".join(_S_NAMES) + r")\b")


def sq(term: str) -> str:
    """qualify the Serdes.v identifiers of a term printed by c14.Emitter"""
    term = term.replace("@Raise pv", "@S.Raise S.pv").replace("@Raise str", "@S.Raise S.str")
    return _S_RE.sub(lambda m: m.group(1) + "S." + m.group(2), term).replace("S.S.", "S.").replace("(@nil pv)", "(@nil S.pv)") \
        .replace("(@nil (pv * pv))", "(@nil (S.pv * S.pv))")


TEXT_TYPES = (str, bytes, bytearray, memoryview)


class TextSide:
    def __init__(self):
        import c14
        self.c14 = c14
        self.em = c14.Emitter()
        self.utf8, self.jstr, self.jbin, self.lit = {}, {}, {}, {}
        self.results = []        # decoder results (Python objects): their scalars must be atoms of the registry

    def pv(self, o) -> str:
        return sq(self.em.pv(o))

    def add_text(self, o):
        """tables of the interpreter's answers for one text carrier"""
        payload = o if isinstance(o, str) else bytes(o)
        pr = self.c14.Prims(payload)
        em = self.em
        b = em.nlist(list(pr.bytes))
        self.utf8[b] = sq(em.res_str(pr.utf8))
        self.jbin[b] = sq(em.res(pr.jbin))
        if pr.jbin[0] == "ok":
            self.results.append(pr.jbin[1])
        if pr.decoded is not None:
            s = em.nlist([ord(c) for c in pr.decoded])
            self.jstr[s] = sq(em.res(pr.jstr))
            self.lit[s] = sq(em.res(pr.lit))
            self.results.append(pr.decoded)
            for r in (pr.jstr, pr.lit):
                if r[0] == "ok":
                    self.results.append(r[1])

    def tabs(self) -> str:
        def tbl(d, ty):
            return coq_list([f"({k}, {v})" for k, v in d.items()], f"(list N * S.res {ty})")
        return ("{| SE.t_utf8 := %s; SE.t_jstr := %s; SE.t_jbin := %s; SE.t_lit := %s |}" % (
            tbl(self.utf8, "S.str"), tbl(self.jstr, "S.pv"), tbl(self.jbin, "S.pv"), tbl(self.lit, "S.pv")))


# ----------------------------------------------------------------------------------
# the value pool
# ----------------------------------------------------------------------------------

def subvalues(x, acc, depth=0):
    """x and every container / instance nested in it"""
    if depth > 5 or len(acc) > 400:
        return
    acc.append(x)
    if isinstance(x, (str, bytes, bytearray, memoryview)):
        return
    if isinstance(x, dict):
        for v in x.values():
            subvalues(v, acc, depth + 1)
    elif isinstance(x, (list, tuple, set, frozenset, collections.deque)):
        for v in x:
            subvalues(v, acc, depth + 1)
    elif dataclasses.is_dataclass(x) or (hasattr(x, "__dict__") and type(x).__module__.startswith("verif_core")):
        for v in (getattr(x, f, None) for f in getattr(x, "__dict__", None) or getattr(x, "__slots__", ())):
            subvalues(v, acc, depth + 1)


TEXTS = ["", "a", "ab", "abc", "1", "-1", "1.5", "true", "null", "None", "[]", "{}", "[1,2]", "[1, 2]", '["a","b"]',
         '{"a": 1}', '{"a": 1, "b": [1, 2]}', '[{"a": 1}, {"a": 2}]', "[[1, 2], [3]]", '[1, "2"]', "1,2", "(1, 2)", "()",
         "{1, 2}", "{1: 2}", "{'a': 1, 'b': 'x'}", "['a', 'b']", "[1,", '{"a":', "x y", "2020-01-02", '"abc"', "'abc'",
         "h\xe9llo", '["\xe9"]', "b'ab'", "1e400", "[1.5, null, true]", "1 2"]


def carriers(s: str):
    b = s.encode("utf-8")
    return [s, b, bytearray(b), memoryview(b), memoryview(bytearray(b))]


def pair_firsts(rng, g):
    """first members of length 2, of every sort"""
    out = [(1, 2), ["k", 3], "ab", b"xy", {1: 2, 3: 4}, frozenset({5, 6}), collections.deque([7, 8]), {9, 10},
           (("a", "b"), [1]), collections.OrderedDict([(1, 2), (3, 4)]), types.MappingProxyType({0: 1, 1: 0}),
           collections.defaultdict(int, {"p": 1, "q": 2}), bytearray(b"pq")]
    for cls, n in g.reg.classes.items():
        d = g.env["defs"][n]
        if d[1] == "namedtuple" and len(d[3]) == 2:
            try:
                out.append(cls(1, "z"))
            except Exception:  # noqa: BLE001
                pass
    return out


def later_members(rng, g, objs):
    out = [(3, 4), [5, 6], (1, 2, 3), [], "cd", "c", "", 7, None, 1.5, b"zz", {1: 2}, {"k": 1, "j": 2}, (8,),
           uuid.UUID(int=5), types.MappingProxyType({0: 1, 1: 0}), collections.defaultdict(int, {"p": 1, "q": 2}),
           frozenset({1, 2})]
    return out + objs[:3]


def WITNESSES():
    return [(1, 2), uuid.UUID(int=5)], [(1, 2), types.MappingProxyType({0: 1, 1: 0})]


def value_pool(rng, g, per_root):
    import coregen
    xs = []
    objs = []
    for ri, r in enumerate(g.roots):
        for _ in range(per_root):
            try:
                v = coregen.gen_value(rng, r, g.env, g.mod, depth=3)
            except RecursionError:
                continue
            sub = []
            subvalues(v, sub)
            xs += sub
            objs += [s for s in sub if type(s) in g.reg.classes]
    rng.shuffle(objs)
    # every class of the module: one instance directly (also those no root reaches)
    for cls, n in g.reg.classes.items():
        try:
            xs.append(coregen.gen_value(rng, ("name", n), g.env, g.mod, depth=2))
        except Exception:  # noqa: BLE001
            pass
    # named tuples whose first field holds something of length 2 (never an "iterable of pairs")
    for cls, n in g.reg.classes.items():
        d = g.env["defs"][n]
        if d[1] == "namedtuple" and d[3]:
            try:
                xs.append(cls(*([rng.choice(["ab", (1, 2), ["k", 3]])] + [7] * (len(d[3]) - 1))))
            except Exception:  # noqa: BLE001
                pass
    # containers of every kind whose first member has length 2, followed by members of every sort
    firsts = pair_firsts(rng, g)
    laters = later_members(rng, g, objs)
    for _ in range(10):
        first = rng.choice(firsts)
        rest = [rng.choice(laters + firsts) for _ in range(rng.choice([0, 1, 1, 2, 3]))]
        kind = rng.choice([list, tuple, collections.deque, list])
        xs.append(kind([first] + rest))
    for _ in range(4):
        hashable = [f for f in firsts + laters if _hashable(f)]
        xs.append(rng.choice([set, frozenset])(rng.sample(hashable, rng.choice([1, 2, 3]))))
    # the two inputs that refuted the previous definition of Core.unpack2: part of every group
    xs += list(WITNESSES())
    # scalars of every leaf class and members of the module's enums
    for key, vals in coregen.LEAF_VALUES.items():
        if key not in ("Any", "list", "dict"):
            xs.append(copy.deepcopy(rng.choice(vals)))
    for n, d in g.env["defs"].items():
        if d[0] == "enum":
            xs.append(rng.choice(list(getattr(g.mod, n))))
    # text in all five carriers
    texts = rng.sample(TEXTS, 6)
    jv = [v for v in xs if _jsonable(v)]
    for v in rng.sample(jv, min(3, len(jv))):
        texts.append(json.dumps(v))
        texts.append(repr(v))
    for s in texts:
        if len(s) < 400 or rng.random() < 0.2:
            xs += carriers(s)
    return xs


def _hashable(x):
    try:
        hash(x)
        return True
    except TypeError:
        return False


def _jsonable(x):
    if not isinstance(x, (list, dict)):
        return False
    try:
        json.dumps(x)
        return True
    except Exception:  # noqa: BLE001
        return False


# ----------------------------------------------------------------------------------
# one group: observations on /repo, tables, Coq module
# ----------------------------------------------------------------------------------

def observe(f):
    impl.clear_caches()
    try:
        with warnings.catch_warnings():
            warnings.simplefilter("ignore")
            return ("ok", f())
    except RecursionError:
        return ("raise", "ERecursion")
    except BaseException as e:  # noqa: BLE001 - the kind is the observation
        if isinstance(e, (KeyboardInterrupt, SystemExit)):
            raise
        return ("raise", impl.exc_kind(e))


def label(g, x) -> str:
    k = g.reg.kind_of(x)
    if k[0] in ("seq", "dict"):
        return k[1]
    if k[0] in ("obj", "named"):
        d = g.env["defs"][k[1]]
        return f"{d[1]}" + (f"({d[2]})" if d[2] else "")
    if isinstance(x, TEXT_TYPES):
        t = type(x).__name__
        return "text:" + (t if t != "memoryview" else ("memoryview-ro" if x.readonly else "memoryview-rw"))
    return "scalar:" + type(x).__name__


class GroupTables:
    """everything the induced runtime needs to know about one synthesised module: descriptions of its atoms for
    both models, its classes, the back tables, the decoders' answers for its text atoms"""

    def __init__(self, g):
        self.g = g
        self.outside = collections.Counter()
        self.desc = Describer(g.reg)
        self.text = TextSide()

    def finish(self, maxlen):
        reg = self.g.reg
        self.env_term = reg.emit_env()
        # enumerate indexes, decoder results: their scalars must be atoms
        for i in range(maxlen + 1):
            reg.enc(i)
        for r in self.text.results:
            try:
                reg.enc(r)
            except Exception:  # noqa: BLE001
                pass
        # what unpacking / iterating a text scalar yields (characters, byte values), whether or not the code got that far
        for o in list(reg.atom_objs):
            if type(o) is str and len(o) <= 64:
                for ch in o:
                    reg.enc(ch)
            elif type(o) in (bytes, bytearray, memoryview) and len(o) <= 64:
                for b in bytes(o):
                    reg.enc(b)
        for n in list(reg.fields):
            for ch in n:
                reg.enc(ch)
        # descriptions of all atoms (the list may grow while attribute values are described)
        self.a_iter, self.a_ser, self.unsupported = {}, {}, {}
        i = 0
        while i < len(reg.atom_objs):
            o = reg.atom_objs[i]
            try:
                self.a_iter[i] = self.desc.atom(o)
            except Unsupported as e:
                self.unsupported[i] = str(e)
            except Exception as e:  # noqa: BLE001
                self.unsupported[i] = f"describe: {type(e).__name__}"
            i += 1
        for i, o in enumerate(reg.atom_objs):
            try:
                self.a_ser[i] = self.text.pv(o)
            except Exception:  # noqa: BLE001
                pass

    def why_outside(self, term):
        """a term that mentions an atom without description is outside"""
        ids = {int(m) for m in re.findall(r"PAtom (\d+)%nat", term)}
        bad = [i for i in ids if i in self.unsupported]
        return ("atom without description: " + self.unsupported[bad[0]]) if bad else None

    def class_tables(self):
        reg, g = self.g.reg, self.g
        cls_terms, slotted = [], []
        for cls, n in reg.classes.items():
            d = g.env["defs"][n]
            if d[1] in ("namedtuple", "typeddict"):
                continue
            flavour, is_dc, dc_fields, hints, slots = class_facts(cls)
            cls_terms.append(coq_pair(coq_nat(n), emit_clsdesc(flavour, is_dc, dc_fields, hints, [], slots)))
            if slots is not None and "__dict__" not in slots and not any("__dict__" in vars(b) for b in cls.__mro__[:-1]):
                slotted.append(coq_nat(n))
        return coq_list(cls_terms, "(nat * I.clsdesc)"), coq_list(slotted, "nat")

    def header(self) -> str:
        reg = self.g.reg
        ai = coq_list([coq_pair(coq_nat(i), t) for i, t in self.a_iter.items()], "(nat * I.val)")
        kn = coq_list([coq_pair(coq_nat(f), istr(n)) for n, f in reg.fields.items()], "(nat * string)")
        cl, sl = self.class_tables()
        bk = [coq_pair(f"(I.VStr {istr(n)})", f"(PKey {coq_nat(f)})") for n, f in reg.fields.items()]
        bk += [coq_pair(t, f"(PAtom {coq_nat(i)})") for i, t in self.a_iter.items()]
        bk += [coq_pair(a, b) for a, b in self.desc.back]
        sa = coq_list([coq_pair(coq_nat(i), t) for i, t in self.a_ser.items()], "(nat * S.pv)")
        kt = coq_list([coq_pair(coq_nat(f), lib.coq_codepoints(n)) for n, f in reg.fields.items()], "(nat * S.str)")
        sb = [coq_pair("(S.PText S.CStr %s)" % lib.coq_codepoints(n), f"(PKey {coq_nat(f)})") for n, f in reg.fields.items()]
        sb += [coq_pair(t, f"(PAtom {coq_nat(i)})") for i, t in self.a_ser.items()]
        return (
            "\n".join(self.text.em.defs) + "\n"
            f"Definition E : env := {self.env_term}.\n"
            f"Definition P : shape := mk_shape\n  {ai}\n  {kn}\n  {cl}\n  {sl}.\n"
            f"Definition BK : list (I.val * pv) :=\n  {coq_list(bk, '(I.val * pv)')}.\n"
            f"Definition T : tshape := mk_tshape\n  {sa}\n  {kt}\n  {coq_list(sb, '(S.pv * pv)')}.\n"
            f"Definition TABS : SE.tabs := {self.text.tabs()}.\n"
            f"Definition back_ok := sound_back P E BK.\n")


class IoGroup(GroupTables):
    def __init__(self, g, xs):
        from typelib import serdes
        super().__init__(g)
        reg = g.reg
        self.cases = []          # dicts: enc terms, description
        maxlen = 0
        for x in xs:
            try:
                enc_x = reg.enc(x)
                if isinstance(x, TEXT_TYPES):
                    self.text.add_text(x)
                ov = observe(lambda: list(serdes.itervalues(x)))
                oi = observe(lambda: [(k, v) for k, v in serdes.iteritems(x)])
                ol = observe(lambda: serdes.load(x))        # never mutated here
                t_ov = ("(Ok %s)" % coq_list([reg.enc(v) for v in ov[1]], "pv")) if ov[0] == "ok" \
                    else f"(@Raise (list pv) {ov[1]})"
                t_oi = ("(Ok %s)" % coq_list([coq_pair(reg.enc(k), reg.enc(v)) for k, v in oi[1]], "(pv * pv)")) \
                    if oi[0] == "ok" else f"(@Raise (list (pv * pv)) {oi[1]})"
                t_ol = f"(Ok {reg.enc(ol[1])})" if ol[0] == "ok" else f"(@Raise pv {ol[1]})"
            except Exception as e:  # noqa: BLE001
                self.outside[f"harness: {type(e).__name__}"] += 1
                continue
            try:
                maxlen = max(maxlen, len(x))
            except TypeError:
                pass
            term = f"({enc_x}, {t_ov}, {t_oi}, {t_ol})"
            self.cases.append({"term": term, "label": label(g, x), "input": repr(x)[:200],
                               "witness": any(repr(x) == repr(w) for w in WITNESSES()),
                               "itervalues": repr(ov[1])[:200], "iteritems": repr(oi[1])[:200], "load": repr(ol[1])[:200],
                               "module": g.env["module"]})
        self.finish(maxlen)
        kept = []
        for c in self.cases:
            why = self.why_outside(c["term"])
            if why:
                self.outside[why] += 1
            else:
                kept.append(c)
        self.cases = kept

    def emit(self, name) -> str:
        cases = coq_list([c["term"] for c in self.cases], "io_case").replace("; ((P", ";\n   ((P")
        args = "P E (mk_back BK) T (SE.rt_of TABS)"
        return (
            f"Module {name}.\n" + self.header() +
            f"Definition cases : list io_case :=\n  {cases}.\n"
            f"Definition bad_values := CT.mismatches (ok_values {args}) cases.\n"
            f"Definition bad_items := CT.mismatches (ok_items {args}) cases.\n"
            f"Definition bad_items_pinned := CT.mismatches (ok_items_pinned {args}) cases.\n"
            f"Definition bad_load := CT.mismatches (ok_load {args}) cases.\n"
            f"Definition out_guard := CT.mismatches (in_guard P E) cases.\n"
            f"Definition out_unpack := CT.mismatches (in_unpack_guard P E) cases.\n"
            f"End {name}.\n")


NEVAL = 7


def stream(run: lib.Run, n_groups: int, per_root: int, per_file: int = 6):
    import coregen
    import coremodel
    import coreprop
    rng = random.Random(run.seed * 1000 + 77)
    sup = coreprop.suppressed()
    groups = []
    for gi in range(n_groups):
        env = coregen.gen_env(rng, ncls=rng.randint(2, 4), cyclic=(gi % 4 == 3), depth=2)
        classes = [n for n, d in env["defs"].items() if d[0] in ("class", "alias")]
        roots = [("name", n) for n in classes] + [coregen.gen_ty(rng, env, 2) for _ in range(3)]
        g = coremodel.Group(env, roots, sup)
        try:
            xs = value_pool(rng, g, per_root)
            groups.append(IoGroup(g, xs))
        finally:
            g.close()
    files, order = {}, []
    for fi in range(0, len(groups), per_file):
        chunk = groups[fi:fi + per_file]
        text = HDR          # each emitter's list definitions (L0, L1, ...) live inside its group's module
        names = []
        for k, ig in enumerate(chunk):
            nm = f"G{fi + k}"
            text += ig.emit(nm)
            names.append(nm)
        for nm in names:
            text += "".join(f"Eval vm_compute in {nm}.{d}.\n" for d in
                            ("bad_values", "bad_items", "bad_items_pinned", "bad_load", "out_guard", "out_unpack", "back_ok"))
        fname = f"cases_coreio_{fi // per_file}.v"
        files[fname] = text
        order.append((fname, chunk))
    results = run.coq_eval_many(files, timeout=900)
    mism, gap, outg, witnesses = [], [], 0, 0
    back_bad, failed = [], []
    ncases = 0
    dist, outcomes, outside = collections.Counter(), collections.Counter(), collections.Counter()
    for fname, chunk in order:
        res = results.get(fname)
        if res is None or len(res) != NEVAL * len(chunk):
            failed.append(fname)
            for ig in chunk:
                mism += [dict(c, layer="core-io", why="model evaluation did not compile") for c in ig.cases]
                ncases += 3 * len(ig.cases)
            continue
        for gi, ig in enumerate(chunk):
            r = res[NEVAL * gi: NEVAL * (gi + 1)]
            bv, bi, bp, bl, og, ou = (set(lib.parse_nat_list(s)) for s in r[:6])
            if r[6].strip() != "true":
                back_bad.append(ig.g.env["module"])
            ncases += 3 * len(ig.cases)
            outg += len(og)
            outside.update(ig.outside)
            witnesses += sum(1 for c in ig.cases if c.get("witness"))
            for i, c in enumerate(ig.cases):
                dist[c["label"]] += 1
                why = []
                if i in bv:
                    why.append("itervalues")
                if i in bl:
                    why.append("load")
                if i in bi:
                    why.append("iteritems")
                if i in bp:
                    gap.append(c)
                if why:
                    mism.append(dict(c, layer="core-io", why=", ".join(why), in_io_guard=i not in og))
                for f in ("itervalues", "iteritems", "load"):
                    outcomes[f + ":" + ("raise" if c[f] in impl_kinds() else "ok")] += 1
    run.oblige("evaluate:core-io model shards compile (%d)" % len(files), not failed, ", ".join(failed))
    run.oblige("io:back table sound on every group (emb v = x: hypothesis bl_sound of IoBridge_induced_laws)",
               not back_bad and not failed, "groups: " + ", ".join(back_bad[:5]))
    run.oblige("io:the two inputs that refuted the previous Core.unpack2 are part of every group "
               "([(1, 2), UUID(int=5)], [(1, 2), mappingproxy({0: 1, 1: 0})]; Core.iteritems must agree on them)",
               witnesses >= 2 * len(groups) or bool(failed), f"{witnesses} witness cases in {len(groups)} groups")
    for m in mism:
        m.pop("term", None)
    distinct = len({c["term"] if "term" in c else c["input"] for ig in groups for c in ig.cases})
    run.record_corr("core-io", ncases, mism, 3 * distinct,
                    {"groups": len(groups), "values": ncases // 3, "kinds": dict(dist), "outcomes": dict(outcomes),
                     "outside_io_guard": outg, "former_refutation_witnesses": witnesses,
                     "previous_definition_disagrees (iteritems_pinned: scalar members unpacked through itervalues)": len(gap),
                     "outside (no description in Iter.v's universe)": dict(outside)})
    run.extra_cov.setdefault("io_bridge", {})["core-io"] = {
        "values": ncases // 3, "mismatches": len(mism), "former_refutation_witnesses": witnesses,
        "previous_definition_disagrees": len(gap)}
    if groups and groups[0].cases:
        run.samples.append({k: v for k, v in groups[0].cases[0].items() if k != "term"})
    return mism


# ----------------------------------------------------------------------------------
# the runtime tables of the core correspondences are what the two models compute
# ----------------------------------------------------------------------------------

class TableGroup(GroupTables):
    """The scalar tables a core correspondence filled by calling the implementation (coremodel.Mirror: load_scalar,
    values_scalar, items_scalar, unpack_scalar, pairlike_scalar, index) re-derived from the C18 / C14 models: every entry must be what
    the induced runtime answers.  That is IterLaws / LoadLaw at the entries the correspondence used."""

    def __init__(self, g):
        super().__init__(g)
        reg, t = g.reg, g.mirror.t
        rev_fields = {f: n for n, f in reg.fields.items()}

        def obj_of(key):
            m = re.fullmatch(r"\(PAtom (\d+)%nat\)", key)
            if m:
                return reg.atom_objs[int(m.group(1))]
            m = re.fullmatch(r"\(PKey (\d+)%nat\)", key)
            return rev_fields[int(m.group(1))] if m else None
        for key in t.ld:
            o = obj_of(key)
            if isinstance(o, TEXT_TYPES):
                try:
                    self.text.add_text(o)
                except Exception:  # noqa: BLE001
                    pass
        self.finish(max(list(t.ix) + [0]))
        self.tables = {}
        for name, tbl in (("ld", t.ld), ("vs", t.vs), ("its", t.its), ("ups", getattr(t, "ups", {})), ("pl", t.pl)):
            rows = []
            for k, v in tbl.items():
                why = self.why_outside(k + v)
                o = obj_of(k)
                if why is None and name == "ld" and isinstance(o, str) and type(o) is not str:
                    why = "str subclass"
                if why:
                    self.outside[why] += 1
                else:
                    rows.append((k, v))
            self.tables[name] = rows
        self.tables["ix"] = [(coq_nat(i), v) for i, v in t.ix.items() if self.why_outside(v) is None]

    def n_entries(self):
        return sum(len(v) for v in self.tables.values())

    def emit(self, name) -> str:
        def tbl(rows, ty):
            return coq_list([f"({k}, {v})" for k, v in rows], ty)
        T = self.tables
        return (
            f"Module {name}.\n" + self.header() +
            f"Definition t_ld : list (pv * res pv) := {tbl(T['ld'], '(pv * res pv)')}.\n"
            f"Definition t_vs : list (pv * res (list pv)) := {tbl(T['vs'], '(pv * res (list pv))')}.\n"
            f"Definition t_its : list (pv * res (list (pv * pv))) := {tbl(T['its'], '(pv * res (list (pv * pv)))')}.\n"
            f"Definition t_ups : list (pv * res (pv * pv)) := {tbl(T['ups'], '(pv * res (pv * pv))')}.\n"
            f"Definition t_pl : list (pv * bool) := {tbl(T['pl'], '(pv * bool)')}.\n"
            f"Definition t_ix : list (nat * pv) := {tbl(T['ix'], '(nat * pv)')}.\n"
            "Definition bad_ld := CT.mismatches (fun e : pv * res pv => res_cmp CT.pv_sim (ind_load T (SE.rt_of TABS) (fst e)) (snd e)) t_ld.\n"
            "Definition bad_vs := CT.mismatches (fun e : pv * res (list pv) => res_cmp list_sim (ind_values P E (mk_back BK) (fst e)) (snd e)) t_vs.\n"
            "Definition bad_its := CT.mismatches (fun e : pv * res (list (pv * pv)) => res_cmp pairs_sim (ind_items P E (mk_back BK) (fst e)) (snd e)) t_its.\n"
            "Definition bad_ups := CT.mismatches (fun e : pv * res (pv * pv) => res_cmp pair_sim (ind_unpack P E (mk_back BK) (fst e)) (snd e)) t_ups.\n"
            "Definition bad_pl := CT.mismatches (fun e : pv * bool => Bool.eqb (ind_pairlike P E (fst e)) (snd e)) t_pl.\n"
            "Definition bad_ix := CT.mismatches (fun e : nat * pv => CT.pv_sim (ind_index (mk_back BK) (fst e)) (snd e)) t_ix.\n"
            f"End {name}.\n")


TABLE_EVALS = ("bad_ld", "bad_vs", "bad_its", "bad_ups", "bad_pl", "bad_ix", "back_ok")


def table_obligations(run: lib.Run, groups, tag: str, per_file: int = 8):
    """groups: coremodel.Group objects AFTER their cases were added (the mirror's tables are filled)"""
    tgs = []
    for g in groups:
        try:
            tgs.append(TableGroup(g))
        except Exception as e:  # noqa: BLE001
            run.notes.append(f"iotie.table_obligations: group {g.env['module']} skipped: {e!r}")
    files, order = {}, []
    for fi in range(0, len(tgs), per_file):
        chunk = tgs[fi:fi + per_file]
        text = HDR
        for k, tg in enumerate(chunk):
            text += tg.emit(f"T{fi + k}")
        for k in range(len(chunk)):
            text += "".join(f"Eval vm_compute in T{fi + k}.{d}.\n" for d in TABLE_EVALS)
        fname = f"cases_iotab_{tag}_{fi // per_file}.v"
        files[fname] = text
        order.append((fname, chunk))
    results = run.coq_eval_many(files, timeout=900)
    mism, failed, back_bad = [], [], []
    n, per_table, outside = 0, collections.Counter(), collections.Counter()
    names = {"bad_ld": "ld", "bad_vs": "vs", "bad_its": "its", "bad_ups": "ups", "bad_pl": "pl", "bad_ix": "ix"}
    for fname, chunk in order:
        res = results.get(fname)
        if res is None or len(res) != len(TABLE_EVALS) * len(chunk):
            failed.append(fname)
            continue
        for gi, tg in enumerate(chunk):
            r = res[len(TABLE_EVALS) * gi: len(TABLE_EVALS) * (gi + 1)]
            outside.update(tg.outside)
            n += tg.n_entries()
            if r[-1].strip() != "true":
                back_bad.append(tg.g.env["module"])
            for ev, out in zip(TABLE_EVALS[:-1], r[:-1]):
                rows = tg.tables[names[ev]]
                per_table[names[ev]] += len(rows)
                for i in lib.parse_nat_list(out):
                    mism.append({"layer": f"core-io-tables:{tag}", "table": names[ev], "module": tg.g.env["module"],
                                 "scalar": rows[i][0], "entry_filled_by_the_implementation": rows[i][1][:300]})
    run.oblige(f"evaluate:core-io-tables:{tag} model shards compile ({len(files)})", not failed, ", ".join(failed))
    run.oblige(f"io:back table sound on every group of {tag}", not back_bad and not failed, ", ".join(back_bad[:5]))
    run.record_corr(f"core-io-tables:{tag}", n, mism, n,
                    {"groups": len(tgs), "entries_per_table": dict(per_table),
                     "outside (no description in Iter.v's universe)": dict(outside),
                     "rule": "every entry of the mirror's load / values / items / unpack / pairlike / index tables whose atoms have a "
                             "description; the entry must equal what Model/Iter.v / Model/Serdes.v compute"})
    return mism


_KINDS = None


def impl_kinds():
    global _KINDS
    if _KINDS is None:
        _KINDS = {repr(k) for k in ("EValue", "EType", "ESyntax", "EAttribute", "EKey", "EArith", "EStopIter", "EUnicode",
                                    "ERecursion", "EOther")}
    return _KINDS


def ensure_built():
    """the bridge's own theories (the calling property's COQ_TARGETS need not list them)"""
    missing = [t for t in COQ_TARGETS if not os.path.exists(os.path.join(lib.COQ, t))
               or os.path.getmtime(os.path.join(lib.COQ, t)) < os.path.getmtime(os.path.join(lib.COQ, t[:-1]))]
    if not missing:
        return True, ""
    rc, out, err = lib.sh(["bash", os.path.join(lib.VERIF, "setup.sh")] + COQ_TARGETS, timeout=1800, cwd=lib.VERIF)
    ok = all(os.path.exists(os.path.join(lib.COQ, t)) for t in COQ_TARGETS)
    return ok, (out + err)[-400:]


def obligations(run: lib.Run, streams: bool = True, n_groups: int | None = None):
    """theorems (always) + the `core-io` stream (streams=True; n_groups overrides the tier's budget of 12 / 90 modules)"""
    ok, detail = ensure_built()
    run.oblige("build:serdes / iteration bridge theories (%s)" % " ".join(COQ_TARGETS), ok, detail)
    if not ok:
        return
    for rel, thms in PROPS:
        run.check_props(rel, thms)
    run.assumptions += [
        "IoBridge: Core.itervalues / iteritems / load are tied to serdes.py by the `core-io` stream, evaluated on the "
        "induced runtime (every scalar field computed by Model/Iter.v / Model/Serdes.v from a description of the atom "
        "taken from the interpreter's view of the object); the embedding emb / sc and the reading-back unS are the "
        "intended reading of 'the same value in the three models'",
        "IoBridge: laws IterLaws / LoadLaw are proved of the induced runtime (IoBridge_induced_laws) from BackLaws; "
        "bl_sound is decided per group by vm_compute, the definedness clauses are what a missing table entry "
        "(Unmodelled = mismatch) would show",
    ]
    if streams:
        stream(run, n_groups=n_groups or run.budget(12, 90), per_root=run.budget(1, 2))
