"""C09 -- one bare string given to graph.static_order / graph.itertypes from SEVERAL modules that bind it differently.

"String ... inputs give the same sequence as the evaluated type" and "same-named classes in different modules" are both in
the quantifier: a bare string is resolved in the calling module, so the same text names another class in each module,
and the answer for the second module must not be the first module's (seeded change C09-r7m2 memoised refs.forwardref on
the text alone).  Every ordering of 2-3 synthesised modules is a history in one process (caches cleared at its start only);
each call is made by a helper defined INSIDE the module.
"""
from __future__ import annotations

import itertools
import json

import impl

MODULES = {
    "tree": "import dataclasses, typing\n@dataclasses.dataclass\nclass Node:\n    kids: list['Node']\n    weight: int = 0\n",
    "chain": "import dataclasses, typing\n@dataclasses.dataclass\nclass Node:\n    label: str\n    parent: typing.Optional['Node'] = None\n",
    "flat": "import typing\nclass Node(typing.TypedDict):\n    x: int\n    y: float\n",
    "alias": "import typing\nNode = dict[str, list[int]]\n",
}
HELPERS = '''
from typelib import graph as _graph

def order(s):
    return list(_graph.static_order(s))

def walk(s):
    return list(_graph.itertypes(s))
'''


def _sig(nodes):
    out = []
    for n in nodes:
        t = getattr(n, "unwrapped", n)
        out.append((getattr(t, "__module__", None), getattr(t, "__qualname__", None) or repr(t), getattr(n, "var", None),
                    bool(getattr(n, "cyclic", False))))
    return out


def run_scenario(sc, tag="s"):
    from typelib import graph
    mods, fails = [], []
    try:
        for i, k in enumerate(sc["kinds"]):
            name = f"verif_c09_mod_{tag}_{i}_{k}"
            mods.append((k, impl.new_module(name, MODULES[k] + HELPERS)))
        # reference: the class object itself, each in a fresh state
        want = {}
        for k, m in mods:
            impl.clear_caches()
            want[m.__name__] = (_sig(list(graph.static_order(m.Node))), _sig(list(graph.itertypes(m.Node))))
        impl.clear_caches()
        for step, (k, m) in enumerate(mods):
            for fn, idx in (("order", 0), ("walk", 1)):
                try:
                    got = _sig(getattr(m, fn)("Node"))
                except Exception as e:      # noqa: BLE001
                    got = repr(e)
                exp = want[m.__name__][idx]
                # up to the root node's own label: compare the body and what the root denotes
                same = isinstance(got, list) and got[:-1] == exp[:-1] and bool(got) and got[-1][:2] == exp[-1][:2]
                if not same:
                    fails.append({"kind": "c09-string-modules", "symptom": "string-input-differs-across-modules", "why": fn,
                                  "scenario": sc, "step": step, "binding": k,
                                  "got": repr(got)[:300], "expected": repr(exp)[:300],
                                  "history": [f"{mm.__name__}.{fn}('Node')" for _, mm in mods[:step + 1]],
                                  "key": json.dumps(["string-input-differs-across-modules", fn])})
                    return fails
    finally:
        for _, m in mods:
            impl.drop_module(m.__name__)
        impl.clear_caches()
    return fails


def scenarios():
    kinds = list(MODULES)
    for n in (2, 3):
        for p in itertools.permutations(kinds, n):
            yield {"kinds": list(p)}


def check():
    fails, n, seen = [], 0, set()
    for i, sc in enumerate(scenarios()):
        n += 1
        for f in run_scenario(sc, tag=str(i)):
            if f["key"] not in seen:
                seen.add(f["key"])
                fails.append(f)
    return n, fails


def replay(payload):
    fs = run_scenario(payload["scenario"], tag="r")
    return {"fails": bool(fs), "failures": fs}
