"""Graph <-> inspection bridge (WP-H): ties Model/GraphInspect.v (the translation of Graph.v's annotations into
Inspect.v's, the agreement theorems of coq/dyn/GraphInspect/GraphInspect.v) to /repo on every run.

`obligations(run)` does, in this order,

  1. *modules*: generated class graphs / wrapper chains / random annotations of C09's generator (`c09_gen`) are built
     as live modules; plus a hand-made set over C17's own live module (string aliases and NewTypes created in
     `verif_c17_mod`, the one module of Inspect.v's universe).  Every annotation OBJECT of every module is asked
     the inspection functions graph.py calls (unwrap, args, issubscriptedgeneric, isstdlibtype, isstructuredtype,
     isuniontype, isliteral, isforwardref, should_unwrap, isfixedtupletype, isunresolvable, qualname), caches cleared
     per object.
  2. *tables*: the inspection tables are regenerated with C17's own writer (`props/c17.py: reflect_tables`) on a
     private copy of C17's catalogue extended with the classes Graph.v's universe names and C17 does not have
     (`verif_c09_enum.Color`) and with every structured class of the generated modules (rows read from the live
     classes: issubclass lattice, str(), __qualname__, flags) -> GenGITables.v.
  3. *theorems*: coq/dyn/GraphInspect/GraphInspect.v is compiled against these tables: `GI_base_ok` decides every
     table fact by vm_compute, the agreement theorems hold for all annotations, the refutation witnesses are replayed.
  4. *stream* `ginspect`: inside Coq, for every annotation: Graph.v's local copy on the `gty` term AND Inspect.v on
     the translated term are compared with the live answers (each clause inside its guard), and the rows of the
     module's classes are checked against Graph's class definitions (`rows_okb`, the hypothesis of the theorems).

Called from the property modules of C09 and C17; everything is recorded on the given `run`.
"""
from __future__ import annotations

import copy
import os
import random
import re
import sys

import impl
import lib
from lib import coq_bool, coq_list, coq_string

_HERE = os.path.dirname(os.path.abspath(__file__))
if os.path.join(_HERE, "props") not in sys.path:
    sys.path.insert(0, os.path.join(_HERE, "props"))

COQ_TARGETS = ["theories/Model/Graph.vo", "theories/Model/Inspect.vo", "theories/Model/InspectSpec.vo",
               "theories/Proofs/GraphLemmas.vo", "theories/Proofs/InspectLemmas.vo",
               "theories/Model/GraphInspect.vo", "theories/Proofs/GraphInspect.vo"]

THEOREMS = [
    "GI_base_ok", "GI_unwrap", "GI_args", "GI_issubscripted", "GI_isstdlib", "GI_can_be_cyclic", "GI_isuniontype",
    "GI_is_generic", "GI_should_unwrap", "GI_defer_decision", "GI_isliteral", "GI_isliteral_any", "GI_isforwardref",
    "GI_isfixedtuple", "GI_isstructured", "GI_hints_structured", "GI_unresolvable", "GI_skip", "GI_qualname",
    "GI_class_names", "GI_rows_sound",
    "GI_refuted_unwrap_fuel", "GI_refuted_args", "GI_refuted_isstdlib_wrapped_union",
    "GI_refuted_subscripted_class_name", "GI_refuted_isliteral_behind_wrapper", "GI_refuted_full",
]

CLAUSES = {1: "unwrap", 2: "args", 3: "issubscriptedgeneric", 4: "isstdlibtype", 5: "isstructuredtype",
           6: "isuniontype", 7: "isliteral", 8: "isforwardref", 9: "should_unwrap", 10: "isfixedtupletype",
           11: "isunresolvable", 12: "qualname", 13: "tr = C17's encoder", 200: "class rows"}
BOOL_FUNCS = ["issubscriptedgeneric", "isstdlibtype", "isstructuredtype", "isuniontype", "isliteral", "isforwardref",
              "should_unwrap", "isfixedtupletype", "isunresolvable"]


# ----------------------------------------------------------------------------------
# the catalogue (a private copy of C17's, extended)
# ----------------------------------------------------------------------------------

def fork_cat():
    import c17
    import c09_gen
    base = c17.get_cat()
    cat = copy.copy(base)
    cat.classes = dict(base.classes)
    cat.cid = dict(base.cid)
    cat.cls_by_obj = dict(base.cls_by_obj)
    cat.has_instance = dict(getattr(base, "has_instance", {}))
    cat.problems = list(base.problems)
    cat._memo = dict(base._memo)
    cat._keep = list(base._keep)
    c09_gen.ensure_enum_module()
    add_class(cat, "GIColor", sys.modules[c09_gen.ENUM_MOD].Color)
    return cat


def add_class(cat, key, c):
    """register a class under a key of my own (C17's ensure_class keys by module_qualname: the generated modules
    reuse their names)"""
    if id(c) in cat.cls_by_obj:
        return cat.cls_by_obj[id(c)]
    assert key not in cat.classes, key
    cat.classes[key] = c
    cat.cid[key] = max(cat.cid.values()) + 1
    cat.cls_by_obj[id(c)] = key
    return key


# ----------------------------------------------------------------------------------
# modules and observations
# ----------------------------------------------------------------------------------

def gen_cases(rng: random.Random, tier: str):
    import c09_gen as G
    thorough = tier == "thorough"
    out = []
    for variant, k in (("plain", 10), ("nested", 6), ("twomod", 6), ("wrappers", 14)):
        for _ in range(k * (6 if thorough else 1)):
            n = rng.choice([1, 2, 2, 3])
            mask = rng.randrange(1 << (n * n))
            out.append(G.class_graph_case(n, mask, rng, rng.randrange(n), rng.choice(G.ROOT_KINDS), variant))
    for _ in range(60 if thorough else 10):
        out.append(G.chain_case(rng, rng.choice([1, 2, 2, 3])))
    for _ in range(20 if thorough else 4):
        out.append(G.unresolvable_case(rng))
    for _ in range(500 if thorough else 70):
        out.append(G.random_case(rng, depth=rng.choice([1, 2, 3, 3])))
    return out


class Hand:
    """annotations over C17's live module: the NewTypes / aliases are created with __name__ = verif_c17_mod (as C17's
    catalogue creates them), the classes are C17's own"""

    CLASSES = [("UData", "UData"), ("UNamed", "UNamed"), ("UTD", "UTD"), ("UPlain", "UPlain"), ("UInner", "Outer.Mid.Inner"),
               ("UBare", "UBare"), ("USlots", "USlots")]

    def __init__(self, cat):
        import typing
        from c17_cat import MODNAME
        from typelib.py import compat
        self.cat = cat
        self.mod = MODNAME
        self.classes = [{"id": i, "module": MODNAME, "qual": q, "flavour": "live", "fields": [], "key": k}
                        for i, (k, q) in enumerate(self.CLASSES)]
        self.objs = {}      # repr(desc) -> object
        self.descs = []
        self.by_obj = {}
        self._n = 0
        ns = {"typing": typing, "TAT": compat.TypeAliasType, "__name__": MODNAME}

        def named(kind, body_desc=None, text=None, name=None):
            self._n += 1
            nm = name or f"GI{kind[0].upper()}{self._n}"
            if kind == "newtype":
                ns["v"] = self.obj(body_desc)
                exec(compile(f"r = typing.NewType({nm!r}, v)", "<gi>", "exec", dont_inherit=True), ns)
                d = ("newtype", MODNAME, nm, body_desc)
            elif kind == "alias":
                ns["v"] = self.obj(body_desc)
                exec(compile(f"r = TAT({nm!r}, v)", "<gi>", "exec", dont_inherit=True), ns)
                d = ("alias", MODNAME, nm, body_desc)
            else:
                ns["v"] = text
                exec(compile(f"r = TAT({nm!r}, v)", "<gi>", "exec", dont_inherit=True), ns)
                d = ("aliasstr", MODNAME, nm, text)
            self.objs[repr(d)] = ns["r"]
            return d

        C = lambda i: ("cls", i)
        INT, STR, FR, NONE = ("s", "int"), ("s", "str"), ("s", "Fraction"), ("none",)
        L = lambda x: ("gen", "list", [x])
        roots = []
        for i in range(len(self.classes)):
            roots.append(C(i))
        roots += [named("aliasstr", text="UData"), named("aliasstr", text="list[UData]"),
                  named("aliasstr", text=f"{MODNAME}.UData"), named("aliasstr", text=f"dict[str, {MODNAME}.UData]"),
                  named("aliasstr", text="Outer.Mid.Inner"), named("aliasstr", text="Literal[1]"),
                  # "<module>." that does NOT lead a dotted name stays (refs.forwardref, /repo 31a6d65)
                  named("aliasstr", text=f"x{MODNAME}.UData"), named("aliasstr", text=f"pkg.{MODNAME}.UData"),
                  named("aliasstr", text=f"dict[{MODNAME}.UData, x{MODNAME}.UData] | {MODNAME}.{MODNAME}.UNamed")]
        nt = named("newtype", C(0))
        roots += [nt, named("newtype", nt), named("alias", nt), named("alias", L(C(1))),
                  ("final", named("alias", named("newtype", C(2)))),
                  named("newtype", ("final", INT)), named("alias", ("final", L(C(0)))),
                  named("newtype", named("alias", ("final", ("lit", 1)))),
                  named("newtype", ("lit", 2)), named("alias", ("lit", 3)),
                  named("newtype", ("union", "union", [INT, FR])), named("alias", ("union", "union", [INT, STR])),
                  named("newtype", named("alias", ("union", "opt", [FR, NONE]))),
                  ("union", "union", [named("newtype", ("union", "union", [INT, FR])), STR]),
                  ("union", "opt", [named("alias", ("union", "union", [STR, FR])), NONE]),
                  named("newtype", named("aliasstr", text="UNamed")),
                  ("gen", "tuple", []), ("gen", "tuple", [INT]), ("gen", "tuple", [C(0), ("ell",)]),
                  ("gen", "typing.Sequence", [C(3)]), ("gen", "collections.deque", [FR]),
                  ("gen", "typing.Dict", [STR, ("union", "pipe", [INT, NONE])]),
                  ("union", "pipe", [L(INT), NONE]), ("union", "pipe", [("gen", "dict", [STR, INT]), L(C(1))]),
                  ("union", "pipe", [("gen", "tuple", [INT, ("ell",)]), NONE, FR]), ("union", "pipe", [INT, ("s", "bytes")]), ("union", "pipe", [C(0), NONE]),
                  ("union", "pipe", [NONE, C(4)]), ("union", "union", [INT, STR, NONE]),
                  ("final", INT),
                  ("lit", 0), ("any",), ("ell",), NONE,
                  ("ref", "UData", MODNAME), ("ref", "list[UData]", MODNAME), ("ref", "Literal[1]", None),
                  ("ref", "typing.List", None), ("ref", "typing_extensions.Foo", MODNAME), ("ref", "a.b.C", None)]
        import c09_gen as G
        for s in G.SCALARS:
            roots.append(("s", s))
        seen = set()
        for r in roots:
            for d in G.subterms(r):
                k = repr(G.freeze(d))
                if k not in seen:
                    seen.add(k)
                    self.descs.append(d)
        for d in self.descs:
            o = self.obj(d)
            try:
                self.by_obj.setdefault(o, d)
            except TypeError:
                pass

    def obj(self, d):
        import collections
        import typing
        import c09_gen as G
        k = d[0]
        key = repr(d)
        if key in self.objs:
            return self.objs[key]
        O = self.obj
        if k == "s":
            return eval(G.SCALARS[d[1]][1], {"decimal": __import__("decimal"), "datetime": __import__("datetime"),
                                             "uuid": __import__("uuid"), "fractions": __import__("fractions"),
                                             "pathlib": __import__("pathlib"), G.ENUM_MOD: sys.modules[G.ENUM_MOD]})
        if k == "none":
            return type(None)
        if k == "ell":
            return Ellipsis
        if k == "any":
            return typing.Any
        if k == "lit":
            return typing.Literal[d[1]]
        if k == "cls":
            return self.cat.classes[self.classes[d[1]]["key"]]
        if k == "gen":
            base = {"list": list, "set": set, "frozenset": frozenset, "dict": dict, "tuple": tuple,
                    "collections.deque": collections.deque, "typing.List": typing.List, "typing.Dict": typing.Dict,
                    "typing.Sequence": typing.Sequence}[d[1]]
            a = tuple(O(x) for x in d[2])
            return base[()] if not a else base[a if len(a) > 1 else a[0]]
        if k == "union":
            a = [O(x) for x in d[2]]
            if d[1] == "opt":
                return typing.Optional[a[0]]
            if d[1] == "union":
                return typing.Union[tuple(a)]
            import functools
            import operator
            import types
            o = functools.reduce(operator.or_, [None if x is type(None) else x for x in a])
            assert type(o) is types.UnionType, d
            return o
        if k == "final":
            return typing.Final[O(d[1])]
        if k == "ref":
            return typing.ForwardRef(d[1], module=d[2]) if d[2] is not None else typing.ForwardRef(d[1])
        raise KeyError(d)

    def describe(self, o):
        import typing
        if o.__class__ is typing.ForwardRef:
            return ("ref", o.__forward_arg__, o.__forward_module__)
        if o is Ellipsis:
            return ("ell",)
        try:
            return self.by_obj.get(o)
        except TypeError:
            return None


_TOK = re.compile(r"\b(ity|lit|I[A-Z][A-Za-z]*|U(?:Union|Optional|Pipe)|L(?:Int|Str|Bool|None|Bytes)|"
                  r"S(?:Union|Optional|Literal|Final|ClassVar|NoReturn|TypeAlias))\b")


def qualify(term: str) -> str:
    """C17's emitter prints Inspect.v's constructors unqualified; the case files import Graph.v's names"""
    parts = re.split(r'("(?:[^"]|"")*")', term)
    return "".join(p if i % 2 else _TOK.sub(r"I.\1", p) for i, p in enumerate(parts))


def c17_term(cat, obj):
    try:
        return "(Some %s)" % qualify(cat.emit(cat.describe(obj)))
    except (ValueError, KeyError):
        return "None"


def observe_obj(obj, describe, cat=None):
    """-> (Coq obs term, printable dict) | (None, error)"""
    from typelib.py import inspection as I
    import c09_gen as G
    impl.clear_caches()
    shown = {}
    try:
        u = I.unwrap(obj)
        a = I.args(obj)
        bools = [bool(getattr(I, f)(obj)) for f in BOOL_FUNCS]
        q = I.qualname(obj)
    except Exception as e:  # noqa: BLE001 - an annotation the functions raise on is outside the stream
        return None, f"{type(e).__name__}: {e}"[:120]
    ud = describe(u)
    ads = [describe(x) for x in a]
    shown = {"unwrap": repr(u), "args": repr(a), **dict(zip(BOOL_FUNCS, bools)), "qualname": q}
    try:
        qs = coq_string(q)
    except Exception:  # noqa: BLE001
        return None, "qualname not encodable"
    if not all(32 <= ord(c) < 127 for c in q) or '"' in q:
        return None, "qualname not ASCII"
    term = "(Build_obs %s %s %s %s %s)" % (
        "None" if ud is None else f"(Some {G.coq(ud)})",
        "None" if any(x is None for x in ads) else "(Some %s)" % coq_list([G.coq(x) for x in ads], "gty"),
        " ".join(coq_bool(b) for b in bools), qs, c17_term(cat, obj) if cat is not None else "None")
    return term, shown


def coq_cenv(cat, classes, live_cls):
    import c09_gen as G
    items = []
    for c in classes:
        key = live_cls[c["id"]]
        fields = "; ".join(f"({G.cstr(f)}, {G.coq(t)})" for f, t in c["fields"])
        items.append(f"({c['id']}, ({cat.cid[key]}%N, {{| cmodule := {G.cstr(c['module'])}; cqual := {G.cstr(c['qual'])}; "
                     f"cfields := [{fields}] |}}))")
    return "[" + "; ".join(items) + "]" if items else "(@nil (cname * (I.cls * classdef)))"


def build_modules(run, cat):
    """-> list of module records {tag, cenv (coq), anns: [(desc, coq term, obs term, shown)], skipped: {...}}"""
    import c09_gen as G
    mods = []
    skipped = {}

    def bump(k):
        skipped[k] = skipped.get(k, 0) + 1

    keep = []
    for ci, case in enumerate(gen_cases(run.rng, run.tier)):
        try:
            live = G.Live(case)
        except Exception as e:  # noqa: BLE001 - a case the generator cannot build is not mine to judge
            bump(f"cannot build: {type(e).__name__}")
            continue
        keep.append(live)
        live_cls = {}
        for c in case["classes"]:
            o = live.obj(("cls", c["id"]))
            live_cls[c["id"]] = add_class(cat, f"gi{ci}_{c['id']}", o)
        amb = {repr(G.freeze(d)) for d, _ in live.ambiguous}
        anns = []
        for d in G.universe(case):
            if repr(G.freeze(d)) in amb:
                bump("ambiguous spelling")
                continue
            term, shown = observe_obj(live.obj(d), live.describe, cat)
            if term is None:
                bump(f"raises: {shown[:40]}")
                continue
            anns.append((d, G.coq(d), term, shown))
        mods.append({"tag": case["tag"], "cenv": coq_cenv(cat, case["classes"], live_cls), "anns": anns,
                     "source": dict(live.source), "case": case})
    hand = Hand(cat)
    keep.append(hand)
    anns = []
    for d in hand.descs:
        term, shown = observe_obj(hand.obj(d), hand.describe, cat)
        if term is None:
            bump(f"raises: {shown[:40]}")
            continue
        anns.append((d, G.coq(d), term, shown))
    mods.append({"tag": "hand:verif_c17_mod", "cenv": coq_cenv(cat, hand.classes, {c["id"]: c["key"] for c in hand.classes}),
                 "anns": anns, "source": {}, "case": {"classes": hand.classes}})
    run._gi_keep = keep
    return mods, skipped


HDR = ("From Coq Require Import List NArith ZArith String.\nImport ListNotations.\n"
       "Require Import TL.Model.Graph.\nRequire Import TL.Model.GraphInspect TLRun.GenGITables.\n"
       "Local Open Scope string_scope.\n")
ARGS = "tbl k_GIColor k_deque al_List al_Dict al_Sequence"


def evaluate(run, mods):
    files, index = {}, {}
    per = 25
    for s in range(0, len(mods), per):
        part = list(range(s, min(s + per, len(mods))))
        name = f"cases_ginspect_{s // per}.v"
        body = ";\n  ".join("(%s,\n   [%s])" % (mods[i]["cenv"], ";\n    ".join(f"({t}, {o})" for _, t, o, _ in mods[i]["anns"]))
                            for i in part)
        files[name] = (HDR + f"Definition cases : list gcase :=\n  [ {body} ].\n"
                       f"Eval vm_compute in mismatches {ARGS} cases.\n"
                       "Eval vm_compute in fold_right Nat.add 0 (map (fun c => fold_right Nat.add 0 (map (fun a => "
                       f"outside_count (env_of_cenv (fst c)) (fst a)) (snd c))) cases).\n")
        index[name] = part
    bad, outside = [], 0
    res = run.coq_eval_many(files, timeout=900)
    for name, out in res.items():
        if out is None:
            run.oblige(f"evaluate:{name}", False, "model evaluation did not compile")
            bad += [(i, 0, -1) for i in index[name]]
            continue
        for a, b, c in re.findall(r"\((\d+),\s*(\d+),\s*(\d+)\)", out[0]):
            bad.append((index[name][int(a)], int(b), int(c)))
        try:
            outside += int(out[1].strip())
        except (ValueError, IndexError):
            pass
    return sorted(set(bad)), outside


# ----------------------------------------------------------------------------------
# the refutation witnesses of GraphInspect.v, replayed on the real code
# ----------------------------------------------------------------------------------

def replay_witnesses():
    """-> [(theorem, which model /repo sides with, reproduced?, what was seen)]"""
    import fractions
    import typing
    from c17_cat import MODNAME
    from typelib.py import compat, inspection as I
    out = []

    def case(thm, side, fn):
        impl.clear_caches()
        try:
            ok, seen = fn()
        except Exception as e:  # noqa: BLE001
            ok, seen = False, f"raised {type(e).__name__}: {e}"
        out.append((thm, side, bool(ok), str(seen)[:160]))

    ns = {"typing": typing, "TAT": compat.TypeAliasType, "__name__": MODNAME}
    exec(compile(f"A = TAT('A', '{MODNAME}.UData')", "<gi>", "exec", dont_inherit=True), ns)

    def strip():
        r = I.unwrap(ns["A"])
        return (r.__class__ is typing.ForwardRef and r.__forward_arg__ == "UData" and r.__forward_module__ == MODNAME), r
    case("GI_aligned (unwrap strips the module prefix)", "both models", strip)

    def fuel():
        t = int
        for i in range(200):
            t = typing.NewType(f"N{i}", t)
        r = I.unwrap(t)
        return r is int, r
    case("GI_refuted_unwrap_fuel", "Graph.v", fuel)
    case("GI_refuted_args", "Inspect.v",
         lambda: ((I.args(typing.Literal[1]), I.args(typing.Final[int])) == ((1,), (int,)),
                  (I.args(typing.Literal[1]), I.args(typing.Final[int]))))

    def wrapped_union():
        nu = typing.NewType("NU", typing.Union[int, fractions.Fraction])
        au = compat.TypeAliasType("AU", typing.Union[int, fractions.Fraction])
        r = (I.isstdlibtype(nu), I.isstdlibtype(typing.Union[au, str]))
        return r == (True, True), r
    case("GI_refuted_isstdlib_wrapped_union", "Inspect.v", wrapped_union)
    case("GI_aligned (tuple[()] is a fixed tuple)", "both models",
         lambda: (I.isfixedtupletype(tuple[()]) is True, I.isfixedtupletype(tuple[()])))
    case("GI_refuted_subscripted_class_name", "Inspect.v",
         lambda: (I.issubscriptedgeneric(type("A[", (), {})) is True, I.issubscriptedgeneric(type("A[", (), {}))))

    case("GI_aligned (should_unwrap sees a qualifier behind a NewType)", "both models",
         lambda: (I.should_unwrap(typing.NewType("NF", typing.Final[int])) is True,
                  I.should_unwrap(typing.NewType("NF", typing.Final[int]))))
    case("GI_refuted_isliteral_behind_wrapper", "Inspect.v",
         lambda: (I.isliteral(typing.NewType("NL", typing.Literal[1])) is True,
                  I.isliteral(typing.NewType("NL", typing.Literal[1]))))
    return out


# ----------------------------------------------------------------------------------
# entry point
# ----------------------------------------------------------------------------------

def obligations(run: lib.Run, streams: bool = True):
    import c17
    cat = fork_cat()
    mods, skipped = build_modules(run, cat)
    text, problems = c17.reflect_tables(cat)
    run.oblige("ginspect:reflect inspection tables (C17 writer) + rows of the classes Graph.v's universe names",
               not problems, "; ".join(problems[:4]))
    ok = run.compile_dyn("GenGITables.v", text=text)
    if ok:
        ok = run.compile_dyn("GraphInspect.v", src=os.path.join(lib.DYN, "GraphInspect", "GraphInspect.v"),
                             theorems=THEOREMS, timeout=600)
    else:
        for t in THEOREMS:
            run.oblige(f"theorem:{t}", False, "generated tables do not compile")
    for thm, side, okr, seen in replay_witnesses():
        run.oblige(f"ginspect:{thm} replayed on /repo (the code sides with {side})", okr, seen)
    nann = sum(len(m["anns"]) for m in mods)
    if streams and os.path.exists(os.path.join(run.build, "GenGITables.vo")):
        bad, outside = evaluate(run, mods)
        mism = []
        for i, j, c in bad:
            m = mods[i]
            if c == 200 or j == 0:
                mism.append({"module": m["tag"], "clause": CLAUSES.get(c, c), "classes": m["case"]["classes"][:4]})
                continue
            d, t, _, shown = m["anns"][j - 1]
            side = "Graph.v" if c < 100 else "Inspect.v on tr t"
            if c == 13:
                side = "tr"
            mism.append({"module": m["tag"], "annotation": t, "clause": CLAUSES.get(c % 100, c), "model": side,
                         "observed": shown})
        dist = {"modules": len(mods), "annotations": nann, "clauses_outside_a_guard": outside, "skipped": skipped}
        for m in mods:
            k = m["tag"].split(":")[0]
            dist[k] = dist.get(k, 0) + len(m["anns"])
        kinds = {}
        for m in mods:
            for d, *_ in m["anns"]:
                kinds[d[0]] = kinds.get(d[0], 0) + 1
        dist["by_constructor"] = kinds
        dist["described_by_c17_encoder"] = sum(1 for m in mods for _, _, o, _ in m["anns"] if not o.endswith(" None)"))
        run.record_corr("ginspect", nann * 25, mism, nann * 25, dist)
    run.extra_cov["ginspect"] = {"classes_added": len(cat.classes) - len(c17.get_cat().classes), "modules": len(mods),
                                 "annotations": nann}
    run.assumptions += [
        "graph<->inspection bridge: the translation tr (Model/GraphInspect.v) is the intended reading of 'the same "
        "annotation in both models'; the stream `ginspect` compares BOTH models with the live inspection functions on "
        "the same objects (C09's encoder for the gty term, tr for the ity term)",
        "graph<->inspection bridge: the rows of user classes are read from the live classes by C17's writer and checked "
        "against Graph.v's class definitions (rows_okb) per generated module",
    ]
    return ok
