"""C11, round 3: wrapper chains on class FIELDS whose target is a first visit, a revisit on another path, or a
revisit that closes a cycle of the class graph.

An *instance* is one small class graph (a SHAPE) in which the marked member(s) (the SLOT) carry one wrapper chain
at one POSITION of the field annotation:

    shape     which class declares the member and how its target was reached before (first / revisit / cycle)
    position  direct `f: W(T)`, union member `Optional[W(T)]`, collection argument `list[W(T)]`,
              mapping value `dict[str, W(T)]`, tuple member `tuple[int, W(T)]`
    base      how T is named: the class, a string-valued alias, ForwardRef(module=...), a string
    chain     NewType / TypeAliasType sequences (innermost first), optionally `Final[...]` around the whole field

Every instance has a *twin*: the same shape / position / flavour with the plain class T in the slot.  C11 says the
routines of the two behave identically; since W(T) sits inside a class body, "identically" is read modulo the
identity of the enclosing classes (class k of the instance <-> class k of the twin), which is the weakest reading.
"""
from __future__ import annotations

import ast
import itertools
import json

from universe import cname

I = ("leaf", "int")
POSITIONS = ["direct", "opt", "list", "dict", "tuple"]


def S(target, k=0):
    return ("slot", target, k)


def Ed(pos, target):
    return ("edge", pos, target)


# (name, visit state of the slot target when the graph walk reaches the slot, classes in definition order, roots)
SHAPES = [
    ("first", "first-visit", [("A", [("v", I), ("f", S("B"))]), ("B", [("v", I)])], ["A"]),
    ("self", "cycle", [("A", [("v", I), ("f", S("A"))])], ["A"]),
    ("cyc2", "cycle", [("P", [("v", I), ("c", Ed("opt", "C"))]), ("C", [("v", I), ("p", S("P"))])], ["P", "C"]),
    ("cyc2d", "cycle", [("P", [("v", I), ("c", Ed("direct", "C"))]), ("C", [("v", I), ("p", S("P"))])], ["P", "C"]),
    ("cyc2w", "cycle", [("P", [("v", I), ("c", S("C"))]), ("C", [("v", I), ("p", S("P", 1))])], ["P", "C"]),
    ("cyc3", "cycle", [("P", [("c", Ed("opt", "C")), ("v", I)]), ("C", [("g", Ed("list", "G"))]),
                       ("G", [("v", I), ("p", S("P"))])], ["P", "C", "G"]),
    ("dia_pw", "revisit", [("R", [("a", Ed("direct", "D")), ("b", S("D"))]), ("D", [("v", I)])], ["R"]),
    ("dia_wp", "revisit", [("R", [("a", S("D")), ("b", Ed("direct", "D"))]), ("D", [("v", I)])], ["R"]),
    ("dia_ww", "revisit", [("R", [("a", S("D")), ("b", S("D"))]), ("D", [("v", I)])], ["R"]),
    ("dia_w2", "revisit", [("R", [("a", S("D")), ("b", S("D", 1))]), ("D", [("v", I)])], ["R"]),
    ("dia_lw", "revisit", [("R", [("a", Ed("list", "D")), ("b", S("D"))]), ("D", [("v", I)])], ["R"]),
    ("dia_deep", "revisit", [("R", [("a", Ed("direct", "L")), ("b", Ed("direct", "M"))]), ("L", [("x", Ed("direct", "D"))]),
                             ("M", [("y", S("D"))]), ("D", [("v", I)])], ["R"]),
    ("dia_up", "revisit", [("R", [("a", Ed("direct", "L")), ("b", S("D"))]), ("L", [("x", Ed("direct", "D"))]),
                           ("D", [("v", I)])], ["R"]),
]
SHAPE_BY_NAME = {s[0]: s for s in SHAPES}
FLAVOURS = ["dataclass", "plain", "namedtuple", "typeddict"]


def at(pos, t):
    return {"direct": lambda: t,
            "opt": lambda: ("union", "Optional", [t, ("none",)]),
            "list": lambda: ("seq", "KList", "list[{}]", t),
            "dict": lambda: ("map", "KDict", "dict[{}, {}]", ("leaf", "str"), t),
            "tuple": lambda: ("tuple", "tuple[{}]", [("leaf", "int"), t])}[pos]()


def all_chains():
    """(base, kinds innermost first, final) -- every chain of length <= 3 of the property's wrapper kinds that Python
    permits on a class field; a reference (ForwardRef / string) can only be innermost, and only a qualifier or a
    generic can be written around it"""
    out = []
    for n in range(0, 4):
        for kinds in itertools.product(("newtype", "alias"), repeat=n):
            for final in (False, True):
                if 1 <= n + final <= 3:
                    out.append(("name", kinds, final))
                if n + final + 1 <= 3:
                    out.append(("aliasstr", kinds, final))
    for base in ("fwd", "str"):
        for final in (False, True):
            out.append((base, (), final))
    return out


QUICK_CHAINS = [
    ("name", (), True), ("name", ("newtype",), False), ("name", ("alias",), False), ("name", ("newtype",), True),
    ("name", ("alias",), True), ("name", ("alias", "newtype"), True), ("name", ("newtype", "alias"), False),
    ("name", ("alias", "newtype", "alias"), False),
    ("aliasstr", (), False), ("aliasstr", (), True), ("aliasstr", ("newtype",), True),
    ("fwd", (), False), ("fwd", (), True), ("str", (), False), ("str", (), True),
]


def chain_label(ch):
    base, kinds, final = ch
    s = {"name": "T", "aliasstr": "AliasStr(T)", "fwd": "ForwardRef(T)", "str": "'T'"}[base]
    for k in kinds:
        s = {"newtype": "NewType", "alias": "Alias"}[k] + f"({s})"
    return f"Final[{s}]" if final else s


class Instance:
    """one materialisable copy of a shape inside an environment"""

    def __init__(self, env, shape, pos, chain, flavour):
        self.shape, self.pos, self.chain, self.flavour = shape, pos, chain, flavour
        _, self.visit, classes, roots = SHAPE_BY_NAME[shape]
        defs = env["defs"]
        ids = env.setdefault("_next", itertools.count(0))
        wid = env.setdefault("wid", itertools.count(1))
        self.ids = {label: next(ids) for label, _ in classes}
        self.roots = [self.ids[r] for r in roots]
        slots = {}

        def slot(target, k):
            if (target, k) not in slots:
                if chain is None:
                    slots[(target, k)] = ("name", self.ids[target])
                else:
                    base, kinds, _ = chain
                    n = self.ids[target]
                    t = {"name": lambda: ("name", n), "aliasstr": lambda: ("aliasstr", next(wid), n),
                         "fwd": lambda: ("ref", n, "fwd"), "str": lambda: ("ref", n, "str")}[base]()
                    for kd in kinds:
                        t = (kd, next(wid), t)
                    slots[(target, k)] = t
            return slots[(target, k)]

        final = chain is not None and chain[2]
        for label, fields in classes:
            out, have_default = [], False
            for fname, spec in fields:
                if spec[0] == "leaf":
                    t, default = spec, ("0" if have_default else None)
                elif spec[0] == "edge":
                    t, default = at(spec[1], ("name", self.ids[spec[2]])), "None"
                else:
                    t, default = at(pos, slot(spec[1], spec[2])), "None"
                    if final:
                        t = ("final", t)
                have_default = have_default or default is not None
                out.append((fname, t, None if flavour == "typeddict" else default))
            defs[self.ids[label]] = ("class", flavour, "total=False" if flavour == "typeddict" else "", out)

    def spec(self):
        return {"shape": self.shape, "pos": self.pos, "chain": list(self.chain) if self.chain else None,
                "flavour": self.flavour}


def reaches_class(t):
    k = t[0]
    if k in ("name", "ref", "aliasstr"):
        return True
    if k == "seq":
        return reaches_class(t[3])
    if k == "map":
        return reaches_class(t[4])
    if k in ("tuple", "union"):
        return any(reaches_class(x) for x in t[2])
    if k in ("newtype", "alias"):
        return reaches_class(t[2])
    if k in ("final", "classvar"):
        return reaches_class(t[1])
    return False


def build_value(t, env, mod, budget, ctr):
    """deterministic valid value of description t: class edges are unrolled `budget` times, then cut at a field
    with a default / a missing key / None / an empty collection"""
    k = t[0]
    if k == "leaf":
        return next(ctr)
    if k == "none":
        return None
    if k in ("newtype", "alias"):
        return build_value(t[2], env, mod, budget, ctr)
    if k in ("final", "classvar"):
        return build_value(t[1], env, mod, budget, ctr)
    if k == "union":
        return build_value(t[2][0], env, mod, budget, ctr) if budget > 0 else None
    if k == "seq":
        return [build_value(t[3], env, mod, budget, ctr)] if budget > 0 else []
    if k == "map":
        return {"k": build_value(t[4], env, mod, budget, ctr)} if budget > 0 else {}
    if k == "tuple":
        return tuple(build_value(x, env, mod, budget, ctr) for x in t[2])
    n = t[1] if k != "aliasstr" else t[2]
    d = env["defs"][n]
    kw = {}
    for fn, ft, _ in d[3]:
        if reaches_class(ft):
            if budget <= 0:
                continue
            kw[fn] = build_value(ft, env, mod, budget - 1, ctr)
        else:
            kw[fn] = build_value(ft, env, mod, budget, ctr)
    return getattr(mod, cname(n))(**kw)


def canon(v, labels):
    """class-independent form of a result: instances of the instance's classes become ('obj', label, fields)"""
    t = type(v)
    if t in labels:
        d = labels[t]
        if isinstance(v, tuple):
            return ("obj", d[0], [(f, canon(x, labels)) for f, x in zip(d[1], v)])
        return ("obj", d[0], [(f, canon(getattr(v, f), labels)) for f in d[1] if hasattr(v, f)])
    if isinstance(v, dict):
        return (t.__name__, [(canon(a, labels), canon(b, labels)) for a, b in v.items()])
    if isinstance(v, (list, tuple)):
        return (t.__name__, [canon(x, labels) for x in v])
    return (t.__name__, repr(v))


def labels_of(inst, env, mod):
    """class object -> (label, field names) for the classes of one instance"""
    return {getattr(mod, cname(n)): (label, [f for f, _, _ in env["defs"][n][3]]) for label, n in inst.ids.items()}


def outcome(obs, labels):
    return ("ok", canon(obs[1], labels)) if obs[0] == "ok" else obs


CORE_SHAPES = ["first", "self", "cyc2", "dia_deep"]     # one per visit state (+ the self cycle): full product in quick


def plan(tier_thorough, seed):
    """[(shape, pos, flavour, [chains])].
    thorough: every chain (<= 3) x every position x every shape.
    quick: the quick chains (every wrapper kind alone, under Final, mixed chains of length 2 and 3) x every position x
    one shape per visit state (first visit / revisit on another path / revisit closing a cycle / self cycle); the other
    shapes take every third quick chain per (shape, position), rotating with the seed.
    The flavour of the declaring classes rotates."""
    chains = all_chains() if tier_thorough else QUICK_CHAINS
    out = []
    i = seed
    for si, (shape, _, _, _) in enumerate(SHAPES):
        for pi, pos in enumerate(POSITIONS):
            by_fl = {}
            for ci, ch in enumerate(chains):
                if not tier_thorough and shape not in CORE_SHAPES and (ci + si + pi + seed) % 3:
                    continue
                fl = FLAVOURS[i % 4]
                i += 1
                if ch[2] and fl in ("namedtuple", "typeddict"):
                    fl = "dataclass"         # Final only where the existing universe puts it: dataclass / plain class
                by_fl.setdefault(fl, []).append(ch)
            for fl, chs in by_fl.items():
                out.append((shape, pos, fl, chs))
    return out


def literal(x):
    """input that can be written into a replay file (wire-level data), or None"""
    try:
        r = repr(x)
        if ast.literal_eval(r) == x and type(ast.literal_eval(r)) is type(x):
            return r
    except Exception:
        pass
    return None


def evaluated(t):
    """a member annotation as the routines see it: typing.get_type_hints evaluates every string / ForwardRef inside
    a class body (the universe already models an auto-quoted forward annotation as the class it names)"""
    k = t[0]
    if k == "ref":
        return ("name", t[1])
    if k == "seq":
        return t[:3] + (evaluated(t[3]),)
    if k == "map":
        return t[:3] + (evaluated(t[3]), evaluated(t[4]))
    if k in ("tuple", "union"):
        return t[:2] + ([evaluated(x) for x in t[2]],)
    if k in ("newtype", "alias"):
        return t[:2] + (evaluated(t[2]),)
    if k in ("final", "classvar"):
        return (k, evaluated(t[1]))
    return t


def fgroup(env, roots, suppressed):
    """Group whose module source has the members as written and whose model environment has them evaluated"""
    import coremodel
    g = coremodel.Group(env, roots, suppressed)
    for n, d in g.env["defs"].items():
        if d[0] == "class":
            g.env["defs"][n] = d[:3] + ([(f, evaluated(t), dv) for f, t, dv in d[3]],)
    g.reg.build_reverse(g.roots)
    # a string-valued alias member is resolved lazily through the public factory: the model needs the node order of
    # every class, not only of the roots
    g.order_types = list(g.pytys) + [getattr(g.mod, cname(n)) for n, d in g.env["defs"].items() if d[0] == "class"]
    return g


def build(seed, thorough, suppressed, notes, per_group=24):
    """-> (groups, pairs): groups are coremodel.Group (for the three correspondence streams), pairs are the oracle's
    (twin root, instance root) observations in class-independent form"""
    import random
    import coregen
    import coremodel
    rng = random.Random(seed * 131 + 7)
    todo = plan(thorough, seed)
    groups, pairs = [], []
    # several (shape, position, flavour) cells per module, so that the number of modules stays small
    cells, size = [[]], 0
    for cell in todo:
        if size and size + len(cell[3]) > per_group:
            cells.append([]); size = 0
        cells[-1].append(cell); size += len(cell[3])
    for chunk in cells:
        env = {"module": coregen.new_module_name("c11f"), "defs": {}}
        insts = []
        for shape, pos, fl, chs in chunk:
            twin = Instance(env, shape, pos, None, fl)
            insts.append((twin, [Instance(env, shape, pos, ch, fl) for ch in chs]))
        roots, index = [], {}
        for twin, ws in insts:
            for inst in [twin] + ws:
                for n in inst.roots:
                    index[(id(inst), n)] = len(roots)
                    roots.append(("name", n))
        for k in ("_next", "wid"):
            env.pop(k, None)
        try:
            g = fgroup(env, roots, suppressed)
        except Exception as e:
            notes.append(f"field-chain group failed to materialise: {e!r} ({[c[:3] for c in chunk]})")
            continue
        g.ref_depth = 0
        g.meta = [("field", "root", i) for i in range(len(roots))]
        for twin, ws in insts:
            tl = labels_of(twin, g.env, g.mod)
            for k, n_t in enumerate(twin.roots):
                ri_t = index[(id(twin), n_t)]
                v_t = build_value(("name", n_t), g.env, g.mod, 3, itertools.count(1))
                wire = g.add("m", ri_t, v_t)
                inputs = [("valid", None)]
                if wire[0] == "ok":
                    w = wire[1]
                    inputs += [("wire", w), ("json", json.dumps(w)), ("corrupt", coregen.corrupt(rng, w))]
                inputs.append(("unrelated", rng.choice(coregen.UNRELATED[:13])))
                obs_t = [(tag, x, g.add("u", ri_t, v_t if tag == "valid" else x)) for tag, x in inputs]
                for inst in ws:
                    n_w = inst.roots[k]
                    ri_w = index[(id(inst), n_w)]
                    wl = labels_of(inst, g.env, g.mod)
                    v_w = build_value(("name", n_w), g.env, g.mod, 3, itertools.count(1))
                    m = (outcome(wire, tl), outcome(g.add("m", ri_w, v_w), wl))
                    u = []
                    for tag, x, a in obs_t:
                        b = g.add("u", ri_w, v_w if tag == "valid" else x)
                        u.append((tag, ("valid",) if tag == "valid" else ("lit", literal(x), repr(x)[:300]),
                                  outcome(a, tl), outcome(b, wl)))
                    pairs.append({"group": g, "plain": ri_t, "wrapped": ri_w, "tag": f"field-{inst.visit}",
                                  "field": dict(inst.spec(), root=k, visit=inst.visit, chain_label=chain_label(inst.chain)),
                                  "value": v_w, "m": m, "u": u})
        groups.append(g)
    return groups, pairs


def replay_field(spec, which, inp, suppressed):
    """rebuild twin + instance from the recorded cell and compare the two routines on the recorded input"""
    import coregen
    import coremodel
    env = {"module": coregen.new_module_name("c11f_replay"), "defs": {}}
    chain = (spec["chain"][0], tuple(spec["chain"][1]), spec["chain"][2])
    twin = Instance(env, spec["shape"], spec["pos"], None, spec["flavour"])
    inst = Instance(env, spec["shape"], spec["pos"], chain, spec["flavour"])
    roots = [("name", twin.roots[spec["root"]]), ("name", inst.roots[spec["root"]])]
    for k in ("_next", "wid"):
        env.pop(k, None)
    g = fgroup(env, roots, suppressed)
    try:
        tl, wl = labels_of(twin, g.env, g.mod), labels_of(inst, g.env, g.mod)
        vs = [build_value(r, g.env, g.mod, 3, itertools.count(1)) for r in roots]
        if which == "m" or inp[0] == "valid":
            xs = vs
        else:
            if inp[1] is None:
                return {"fails": False, "note": "the recorded input is not a literal"}
            xs = [ast.literal_eval(inp[1])] * 2
        a, b = outcome(g.observe(which, 0, xs[0]), tl), outcome(g.observe(which, 1, xs[1]), wl)
        return {"fails": a != b, "plain": repr(a)[:300], "wrapped": repr(b)[:300], "module_source": g.src}
    finally:
        g.close()
