"""Binding bridge (WP-D): ties Model/Binding.v + Model/BindingShell.v to /repo/src/typelib/binding.py on every run.

`obligations(run)` does, in this order,

  1. *translate* (fail closed): binding.py is parsed with `ast`.
       - every class derived from `AbstractBinding` that has a concrete `__call__` is found; the body of that
         `__call__` is evaluated SYMBOLICALLY over a tiny expression language (`self.binding`, `self.varpos`,
         `self.varkwd`, `self.startpos`, `args`, `kwargs`, slices of `args` by `startpos`, tuples of starred
         comprehensions / `tuple(...)`, one dict comprehension over `kwargs.items()`), local aliases are resolved,
         and the returned pair is matched STRUCTURALLY against the idioms of Model/Binding.v:
             (binding[i](v) if i in binding else v for i, v in enumerate(X))   -> by_index X
             (varpos(v) for v in X)                                            -> var X
             args itself                                                       -> untouched
             by_index args                        -> PosIndex      var args     -> PosVar
             by_index args[:startpos] ++ var args[startpos:]                   -> PosSplit
             {k: binding.get(k, varkwd)(v) ...} -> KwGet    {k: varkwd(v) ...} -> KwVar
             {k: binding[k](v) if k in binding else v ...} -> KwElseV      ... else k -> KwElseK
             kwargs itself -> KwUntouched
         Anything else (an unknown statement, another slice bound, another default, a generator that is not
         consumed, keyword conversions evaluated before positional ones ...) raises `Closed`: the obligation
         fails and the class gets no row, so C10Modes.v cannot compile.  Nothing is ever guessed.
       - the max_pos statements of `_get_binding`'s loop and its `startpos=` expression are translated into
         `mp_rule`s; the two registration statements into the kind lists they test.
       - cross-check against the LIVE module: the classes found are exactly the subclasses of the live
         `AbstractBinding`, each live `__call__` / `_get_binding` starts on the parsed line of the parsed file.
     The result is written as GenBinderModes.v into the run's build dir.
  2. *theorems*: coq/dyn/C10/C10Modes.v is compiled against GenBinderModes.v and GenBindingMatrix.v (the latter is
     C10's reflected matrix; written here with C10's own writer when this run has not produced it yet).
  3. *shell theorems*: Props/C10Shell.v is re-checked (Print Assumptions of its 29 theorems), coq/dyn/C10/C10Shell.v
     (the headline theorems instantiated with the reflected matrix) is compiled.
  4. *correspondence* `bind-shell`: bind / wrap / bind over wrap / two wrap layers on functions, bound methods, class
     methods, callable instances and classes (under bind), and wrap(cls) on chains of 2-3 classes with or without an
     __init__ of their own, wrapped in generated orders (repeats included), then constructed.  Signatures come from C10's
     generator (all kind shapes up to 5 parameters, keyword-only markers, defaults, bare *args / **kwargs); the
     unmarshallers of the binder objects bind/wrap built are replaced by C10's tagging `Stub`s (refusing "poisoned" values
     so that conversion errors and their ORDER are observed); accepted and rejected call shapes, calls with keywords named
     `__binding` / `self` (ordinary keywords for the repaired code: a **kwargs signature takes them; the code as pinned
     reserved them, which shows as mismatches).  Observed: the frame the body receives (defaults included), TypeError, the
     conversion error, a spy value called in the binder's place (pinned closure only) -- compared in Coq (`fn_case_ok`, `cls_case_ok`, vm_compute) with Model/BindingShell.v
     (wrap_fn / bind over call_fn = the interpreter's call rule py_bind).
     `wrap-meta`: __name__, __qualname__, __doc__, __module__, __dict__, __wrapped__ of wrap(f) against `wraps` of the
     model for 13 kinds of callables (attributes a callable instance / partial does not have stay the wrapper's).
  5. `search(run, broken)` / `replay(payload)`: oracles with typelib's real unmarshallers, independent of the model:
     keyword names (a keyword f accepts in its **kwargs reaches f through bind/wrap whatever its name) and class
     hierarchies (gives a concrete failing input when wrap(cls) skips or mis-targets a class).

Entry points for props/c10.py: `COQ_TARGETS` (add to its own), `prove(run)` (after its own prove), `correspond(run)` (after
its own correspond), `search(run, broken)` (append to its own failures), `replay(payload)` (payloads with a "hierarchy" or
"reserved" key).  `obligations(run)` = prove + correspond in one call.
"""
from __future__ import annotations

import ast
import inspect
import json
import os
import sys

import impl
import lib
from lib import coq_bool, coq_list, coq_nat, coq_opt, coq_pair

_HERE = os.path.dirname(os.path.abspath(__file__))
if os.path.join(_HERE, "props") not in sys.path:
    sys.path.insert(0, os.path.join(_HERE, "props"))

COQ_TARGETS = ["theories/Proofs/BindingLemmas.vo", "theories/Model/BindingEq.vo",
               "theories/Model/BindingShell.vo", "theories/Proofs/BindingShellLemmas.vo"]

MODES_THEOREMS = ["C10_modes_tied", "C10_modes_all", "C10_src_is_model", "C10_converts_src",
                  "C10_rejected_or_shape_src", "C10_mp_rules_ok", "C10_startpos_src", "C10_reg_kinds_ok",
                  "C10_registration_src"]

KIND_OF_ATTR = {"POSITIONAL_ONLY": "PO", "POSITIONAL_OR_KEYWORD": "PK", "VAR_POSITIONAL": "VP",
                "KEYWORD_ONLY": "KO", "VAR_KEYWORD": "VK"}


class Closed(Exception):
    """the source is outside what the translator understands: fail closed"""


# ----------------------------------------------------------------------------------
# 1a. binder classes: symbolic evaluation of __call__
# ----------------------------------------------------------------------------------

SELF_ATTRS = ("binding", "varpos", "varkwd", "startpos")


def _is_name(node, name=None):
    return isinstance(node, ast.Name) and (name is None or node.id == name)


class CallBody:
    """symbolic evaluation of one `__call__(self, args, kwargs)` body"""

    def __init__(self, fn: ast.FunctionDef, cls: str):
        self.cls = cls
        self.env: dict[str, tuple] = {}
        self.clock = 0
        a = fn.args
        names = [x.arg for x in a.args]
        if (names != ["self", "args", "kwargs"] or a.posonlyargs or a.kwonlyargs or a.vararg or a.kwarg
                or a.defaults or a.kw_defaults):
            raise Closed(f"{cls}.__call__: parameters are not (self, args, kwargs): {ast.unparse(a)}")
        if fn.decorator_list:
            raise Closed(f"{cls}.__call__ is decorated")
        self.fn = fn

    # -- expressions -------------------------------------------------------------
    def sym(self, e) -> tuple:
        """value of an expression: ('args',) ('kwargs',) ('attr', name) ('slice_to',) ('slice_from',)
        ('pos', segments, t) ('kw', mode, t) -- t = evaluation time of an expression that calls unmarshallers"""
        if isinstance(e, ast.Name) and isinstance(e.ctx, ast.Load):
            if e.id in self.env:
                return self.env[e.id]
            if e.id in ("args", "kwargs"):
                return (e.id,)
            raise Closed(f"{self.cls}: unknown name {e.id}")
        if isinstance(e, ast.Attribute) and _is_name(e.value, "self") and e.attr in SELF_ATTRS:
            return ("attr", e.attr)
        if isinstance(e, ast.Subscript) and isinstance(e.slice, ast.Slice):
            base = self.sym(e.value)
            sl = e.slice
            if base != ("args",) or sl.step is not None:
                raise Closed(f"{self.cls}: slice of something else than args: {ast.unparse(e)}")
            if sl.lower is None and sl.upper is not None and self.sym(sl.upper) == ("attr", "startpos"):
                return ("slice_to",)
            if sl.upper is None and sl.lower is not None and self.sym(sl.lower) == ("attr", "startpos"):
                return ("slice_from",)
            raise Closed(f"{self.cls}: slice bound is not startpos: {ast.unparse(e)}")
        if isinstance(e, ast.Tuple) and e.elts and all(isinstance(x, ast.Starred) for x in e.elts):
            segs = []
            for x in e.elts:
                segs += self.segments(x.value)
            self.clock += 1
            return ("pos", tuple(segs), self.clock)
        if (isinstance(e, ast.Call) and _is_name(e.func, "tuple") and len(e.args) == 1 and not e.keywords
                and "tuple" not in self.env):
            segs = self.segments(e.args[0])
            self.clock += 1
            return ("pos", tuple(segs), self.clock)
        if isinstance(e, ast.DictComp):
            mode = self.kwmode(e)
            self.clock += 1
            return ("kw", mode, self.clock)
        raise Closed(f"{self.cls}: expression not understood: {ast.unparse(e)}")

    def source_of(self, e) -> str:
        v = self.sym(e)
        if v in (("args",), ("slice_to",), ("slice_from",)):
            return v[0]
        raise Closed(f"{self.cls}: iteration over something else than args / a startpos slice of args: {ast.unparse(e)}")

    def one_generator(self, comp):
        if len(comp.generators) != 1:
            raise Closed(f"{self.cls}: nested comprehension: {ast.unparse(comp)}")
        g = comp.generators[0]
        if g.ifs or g.is_async:
            raise Closed(f"{self.cls}: filtered comprehension: {ast.unparse(comp)}")
        return g

    def fresh(self, *names):
        """loop variables must not shadow anything the element expression means"""
        for n in names:
            if n in self.env or n in ("args", "kwargs", "self", "tuple", "enumerate"):
                raise Closed(f"{self.cls}: loop variable {n} shadows a name in use")
        if len(set(names)) != len(names):
            raise Closed(f"{self.cls}: loop variables not distinct")

    def segments(self, e) -> list:
        """a (consumed) iterable of converted positional values"""
        if isinstance(e, (ast.GeneratorExp, ast.ListComp)):
            g = self.one_generator(e)
            it, tg, elt = g.iter, g.target, e.elt
            if (isinstance(it, ast.Call) and _is_name(it.func, "enumerate") and len(it.args) == 1 and not it.keywords
                    and "enumerate" not in self.env):
                src = self.source_of(it.args[0])
                if not (isinstance(tg, ast.Tuple) and len(tg.elts) == 2 and all(_is_name(x) for x in tg.elts)):
                    raise Closed(f"{self.cls}: enumerate target: {ast.unparse(tg)}")
                i, v = tg.elts[0].id, tg.elts[1].id
                self.fresh(i, v)
                # binding[i](v) if i in binding else v
                if (isinstance(elt, ast.IfExp) and self.is_member_test(elt.test, i) and self.is_item_call(elt.body, i, v)
                        and _is_name(elt.orelse, v)):
                    return [("by_index", src)]
                raise Closed(f"{self.cls}: by-index element not understood: {ast.unparse(elt)}")
            src = self.source_of(it)
            if not _is_name(tg):
                raise Closed(f"{self.cls}: loop target: {ast.unparse(tg)}")
            v = tg.id
            self.fresh(v)
            # varpos(v)
            if (isinstance(elt, ast.Call) and len(elt.args) == 1 and not elt.keywords and _is_name(elt.args[0], v)
                    and not _is_name(elt.func, v) and self.sym(elt.func) == ("attr", "varpos")):
                return [("var", src)]
            raise Closed(f"{self.cls}: var-positional element not understood: {ast.unparse(elt)}")
        v = self.sym(e)
        if v[0] == "pos":
            return list(v[1])
        if v == ("args",):
            return [("raw", "args")]
        raise Closed(f"{self.cls}: not a sequence of converted positionals: {ast.unparse(e)}")

    def is_binding(self, e) -> bool:
        try:
            return self.sym(e) == ("attr", "binding")
        except Closed:
            return False

    def is_member_test(self, t, key: str) -> bool:
        return (isinstance(t, ast.Compare) and len(t.ops) == 1 and isinstance(t.ops[0], ast.In)
                and _is_name(t.left, key) and self.is_binding(t.comparators[0]))

    def is_item_call(self, c, key: str, v: str) -> bool:
        """binding[key](v)"""
        return (isinstance(c, ast.Call) and len(c.args) == 1 and not c.keywords and _is_name(c.args[0], v)
                and isinstance(c.func, ast.Subscript) and self.is_binding(c.func.value)
                and _is_name(c.func.slice, key))

    def kwmode(self, e: ast.DictComp) -> str:
        g = self.one_generator(e)
        it, tg = g.iter, g.target
        if not (isinstance(it, ast.Call) and not it.args and not it.keywords and isinstance(it.func, ast.Attribute)
                and it.func.attr == "items" and self.sym(it.func.value) == ("kwargs",)):
            raise Closed(f"{self.cls}: dict comprehension does not iterate kwargs.items(): {ast.unparse(it)}")
        if not (isinstance(tg, ast.Tuple) and len(tg.elts) == 2 and all(_is_name(x) for x in tg.elts)):
            raise Closed(f"{self.cls}: items target: {ast.unparse(tg)}")
        k, v = tg.elts[0].id, tg.elts[1].id
        self.fresh(k, v)
        if not _is_name(e.key, k):
            raise Closed(f"{self.cls}: keyword names are not preserved: key is {ast.unparse(e.key)}")
        val = e.value
        if isinstance(val, ast.Call) and len(val.args) == 1 and not val.keywords and _is_name(val.args[0], v):
            f = val.func
            # binding.get(k, varkwd)(v)
            if (isinstance(f, ast.Call) and isinstance(f.func, ast.Attribute) and f.func.attr == "get"
                    and self.is_binding(f.func.value) and len(f.args) == 2 and not f.keywords
                    and _is_name(f.args[0], k) and not _is_name(f.args[1], k) and not _is_name(f.args[1], v)
                    and self.sym(f.args[1]) == ("attr", "varkwd")):
                return "KwGet"
            # varkwd(v)
            if not isinstance(f, ast.Call) and not _is_name(f, k) and not _is_name(f, v) and \
                    self.sym(f) == ("attr", "varkwd"):
                return "KwVar"
        if isinstance(val, ast.IfExp) and self.is_member_test(val.test, k) and self.is_item_call(val.body, k, v):
            if _is_name(val.orelse, v):
                return "KwElseV"
            if _is_name(val.orelse, k):
                return "KwElseK"
        raise Closed(f"{self.cls}: keyword value not understood: {ast.unparse(val)}")

    # -- statements --------------------------------------------------------------
    def run(self) -> tuple[str, str]:
        body = list(self.fn.body)
        if body and isinstance(body[0], ast.Expr) and isinstance(body[0].value, ast.Constant) \
                and isinstance(body[0].value.value, str):
            body = body[1:]
        for n, st in enumerate(body):
            if isinstance(st, ast.Assign) and len(st.targets) == 1 and _is_name(st.targets[0]):
                self.bind(st.targets[0].id, st.value)
            elif isinstance(st, ast.AnnAssign) and _is_name(st.target) and st.value is not None and st.simple:
                self.bind(st.target.id, st.value)
            elif isinstance(st, ast.Return) and n == len(body) - 1:
                return self.result(st.value)
            else:
                raise Closed(f"{self.cls}.__call__: statement not understood: {ast.unparse(st)}")
        raise Closed(f"{self.cls}.__call__: no return")

    def bind(self, name: str, value):
        if name in ("self", "args", "kwargs", "tuple", "enumerate"):
            raise Closed(f"{self.cls}.__call__: rebinds {name}")
        self.env[name] = self.sym(value)

    def result(self, e) -> tuple[str, str]:
        if not (isinstance(e, ast.Tuple) and len(e.elts) == 2):
            raise Closed(f"{self.cls}.__call__: does not return a pair: {ast.unparse(e)}")
        p = self.sym(e.elts[0])
        k = self.sym(e.elts[1])
        # positional
        if p == ("args",):
            segs, tp = (("raw", "args"),), None
        elif p[0] == "pos":
            segs, tp = p[1], p[2]
        else:
            raise Closed(f"{self.cls}.__call__: first component is not the positional tuple: {ast.unparse(e.elts[0])}")
        pm = {(("by_index", "args"),): "PosIndex", (("var", "args"),): "PosVar", (("raw", "args"),): "PosUntouched",
              (("by_index", "slice_to"), ("var", "slice_from")): "PosSplit"}.get(tuple(segs))
        if pm is None:
            raise Closed(f"{self.cls}.__call__: positional part {segs} is none of the modelled idioms")
        # keyword
        if k == ("kwargs",):
            km, tk = "KwUntouched", None
        elif k[0] == "kw":
            km, tk = k[1], k[2]
        else:
            raise Closed(f"{self.cls}.__call__: second component is not the keyword dict: {ast.unparse(e.elts[1])}")
        if tp is not None and tk is not None and not tp < tk:
            raise Closed(f"{self.cls}.__call__: keyword conversions are evaluated before positional ones")
        return pm, km


def binder_classes(tree: ast.Module):
    """[(class name, ClassDef, __call__ FunctionDef or name of the base it inherits it from)] in source order"""
    known = {"AbstractBinding": None}      # name -> translated modes (None: abstract)
    out = []
    for st in tree.body:
        if not isinstance(st, ast.ClassDef):
            continue
        bases = []
        for b in st.bases:
            b = b.value if isinstance(b, ast.Subscript) else b
            if isinstance(b, ast.Name):
                bases.append(b.id)
            elif isinstance(b, ast.Attribute):
                bases.append(b.attr)
        binder_bases = [b for b in bases if b in known]
        if not binder_bases:
            continue
        calls = [x for x in st.body if isinstance(x, (ast.FunctionDef, ast.AsyncFunctionDef)) and x.name == "__call__"]
        other = [x for x in st.body if isinstance(x, (ast.FunctionDef, ast.AsyncFunctionDef)) and x.name != "__call__"]
        problems = []
        if st.decorator_list or st.keywords:
            problems.append(f"{st.name}: decorated class / metaclass keywords")
        if other:
            problems.append(f"{st.name}: defines other methods ({', '.join(x.name for x in other)})")
        if len(calls) > 1 or any(isinstance(x, ast.AsyncFunctionDef) for x in calls):
            problems.append(f"{st.name}: more than one / async __call__")
        known[st.name] = None
        out.append((st.name, st, calls[0] if calls else None, binder_bases, problems))
    return out


def translate_classes(tree: ast.Module):
    table, problems = {}, []
    lines = {}
    for name, cdef, call, bases, probs in binder_classes(tree):
        problems += probs
        if probs:
            continue
        if call is None:
            inh = [b for b in bases if b in table]
            if len(inh) == 1 and len(bases) == 1:
                table[name] = table[inh[0]]
                lines[name] = lines[inh[0]]
            else:
                problems.append(f"{name}: no __call__ of its own and no single translated base")
            continue
        try:
            table[name] = CallBody(call, name).run()
            lines[name] = call.lineno
        except Closed as e:
            problems.append(str(e))
    return table, lines, problems


# ----------------------------------------------------------------------------------
# 1b. _get_binding: max_pos rules, registration kinds
# ----------------------------------------------------------------------------------

def _kind_attr(e):
    """param.KIND / inspect.Parameter.KIND -> 'PO'..."""
    if isinstance(e, ast.Attribute) and e.attr in KIND_OF_ATTR:
        v = e.value
        if _is_name(v, "param") or (isinstance(v, ast.Attribute) and v.attr == "Parameter" and _is_name(v.value, "inspect")):
            return KIND_OF_ATTR[e.attr]
    return None


def _is_param_kind(e):
    return isinstance(e, ast.Attribute) and e.attr == "kind" and _is_name(e.value, "param")


def _kind_eq_test(t):
    if isinstance(t, ast.Compare) and len(t.ops) == 1 and isinstance(t.ops[0], ast.Eq):
        a, b = t.left, t.comparators[0]
        if _is_param_kind(a) and _kind_attr(b):
            return _kind_attr(b)
        if _is_param_kind(b) and _kind_attr(a):
            return _kind_attr(a)
    return None


def _kind_in_test(t):
    if (isinstance(t, ast.Compare) and len(t.ops) == 1 and isinstance(t.ops[0], ast.In) and _is_param_kind(t.left)
            and isinstance(t.comparators[0], (ast.Tuple, ast.List, ast.Set))):
        ks = [_kind_attr(x) for x in t.comparators[0].elts]
        if all(ks):
            return ks
    return None


def _stores(node, names):
    return [n.id for n in ast.walk(node) if isinstance(n, ast.Name) and isinstance(n.ctx, (ast.Store, ast.Del))
            and n.id in names]


def _jumps(node):
    return [type(n).__name__ for n in ast.walk(node)
            if isinstance(n, (ast.Continue, ast.Break, ast.Return, ast.Raise, ast.Try, ast.While, ast.For, ast.With,
                              ast.Yield, ast.YieldFrom, ast.Await, ast.NamedExpr, ast.Global, ast.Nonlocal))]


def _offset(e, var="i"):
    """i, i + c, i - c -> c"""
    if _is_name(e, var):
        return 0
    if (isinstance(e, ast.BinOp) and _is_name(e.left, var) and isinstance(e.right, ast.Constant)
            and type(e.right.value) is int):
        if isinstance(e.op, ast.Add):
            return e.right.value
        if isinstance(e.op, ast.Sub):
            return -e.right.value
    raise Closed(f"_get_binding: max_pos is assigned something else than i + c: {ast.unparse(e)}")


def translate_get_binding(tree: ast.Module):
    fns = [x for x in tree.body if isinstance(x, ast.FunctionDef) and x.name == "_get_binding"]
    if len(fns) != 1:
        raise Closed("_get_binding: not exactly one module-level definition")
    fn = fns[0]
    loops = [x for x in fn.body if isinstance(x, (ast.For, ast.While, ast.AsyncFor))]
    if len(loops) != 1 or not isinstance(loops[0], ast.For) or loops[0].orelse:
        raise Closed("_get_binding: not exactly one plain for loop")
    loop = loops[0]
    at = fn.body.index(loop)
    # the loop header: for i, (name, param) in enumerate(params.items())
    tg = loop.target
    if not (isinstance(tg, ast.Tuple) and len(tg.elts) == 2 and _is_name(tg.elts[0], "i")
            and isinstance(tg.elts[1], ast.Tuple) and len(tg.elts[1].elts) == 2
            and _is_name(tg.elts[1].elts[0], "name") and _is_name(tg.elts[1].elts[1], "param")):
        raise Closed(f"_get_binding: loop target is not i, (name, param): {ast.unparse(tg)}")
    it = loop.iter
    if not (isinstance(it, ast.Call) and _is_name(it.func, "enumerate") and len(it.args) == 1 and not it.keywords
            and isinstance(it.args[0], ast.Call) and isinstance(it.args[0].func, ast.Attribute)
            and it.args[0].func.attr == "items" and _is_name(it.args[0].func.value, "params")
            and not it.args[0].args and not it.args[0].keywords):
        raise Closed(f"_get_binding: loop does not enumerate params.items(): {ast.unparse(it)}")
    # before the loop: params = sig.parameters; max_pos = None (and nothing else touches them)
    seen_params = seen_init = False
    for st in fn.body[:at]:
        if isinstance(st, (ast.Assign, ast.AnnAssign)):
            tgt = st.targets[0] if isinstance(st, ast.Assign) else st.target
            if _is_name(tgt, "params"):
                v = st.value
                seen_params = isinstance(v, ast.Attribute) and v.attr == "parameters" and _is_name(v.value, "sig")
                if not seen_params:
                    raise Closed(f"_get_binding: params is not sig.parameters: {ast.unparse(st)}")
                continue
            if _is_name(tgt, "max_pos"):
                seen_init = isinstance(st.value, ast.Constant) and st.value.value is None
                if not seen_init:
                    raise Closed(f"_get_binding: max_pos does not start as None: {ast.unparse(st)}")
                continue
        if _stores(st, ("max_pos", "params", "enumerate")) or _jumps(st):
            raise Closed(f"_get_binding: statement before the loop not understood: {ast.unparse(st)[:80]}")
    if not (seen_params and seen_init):
        raise Closed("_get_binding: params = sig.parameters / max_pos = None not found before the loop")
    # the loop body
    rules, idx_kinds, name_kinds = [], None, None
    var_assign = {}
    for st in loop.body:
        if isinstance(st, ast.If) and not st.orelse and _kind_eq_test(st.test):
            k = _kind_eq_test(st.test)
            off, cont = None, False
            for j, x in enumerate(st.body):
                if isinstance(x, ast.Continue) and j == len(st.body) - 1:
                    cont = True
                elif isinstance(x, ast.Assign) and len(x.targets) == 1 and _is_name(x.targets[0]) and not _jumps(x):
                    t = x.targets[0].id
                    if t == "max_pos":
                        off = _offset(x.value)
                    elif t in ("i", "param", "name", "params", "unmarshaller", "binding"):
                        raise Closed(f"_get_binding: loop rebinds {t}")
                    elif t in ("varpos", "varkwd"):
                        if not _is_name(x.value, "unmarshaller") or any(r["cont"] and r["kind"] == k for r in rules):
                            raise Closed(f"_get_binding: {ast.unparse(x)} not understood")
                        var_assign[t] = k
                else:
                    raise Closed(f"_get_binding: statement under `if param.kind == {k}` not understood: {ast.unparse(x)}")
            rules.append({"kind": k, "off": off, "cont": cont})
            continue
        if isinstance(st, ast.If) and not st.orelse and _kind_in_test(st.test) and len(st.body) == 1:
            x = st.body[0]
            if (isinstance(x, ast.Assign) and len(x.targets) == 1 and isinstance(x.targets[0], ast.Subscript)
                    and _is_name(x.targets[0].value, "binding") and _is_name(x.value, "unmarshaller")):
                key = x.targets[0].slice
                if any(r["cont"] for r in rules):
                    raise Closed("_get_binding: registration after a `continue`")
                if _is_name(key, "i") and idx_kinds is None:
                    idx_kinds = _kind_in_test(st.test)
                    continue
                if _is_name(key, "name") and name_kinds is None:
                    name_kinds = _kind_in_test(st.test)
                    continue
            raise Closed(f"_get_binding: registration statement not understood: {ast.unparse(st)}")
        if _stores(st, ("max_pos", "i", "param", "name", "params", "varpos", "varkwd")) or _jumps(st):
            raise Closed(f"_get_binding: loop statement not understood: {ast.unparse(st)[:100]}")
        for n in ast.walk(st):
            if isinstance(n, ast.Subscript) and isinstance(n.ctx, ast.Store) and _is_name(n.value, "binding"):
                raise Closed(f"_get_binding: unguarded registration: {ast.unparse(st)[:100]}")
        # `unmarshaller = unmarshals.unmarshaller(param.annotation)` must be exactly that
        if _stores(st, ("unmarshaller",)):
            ok = (isinstance(st, (ast.Assign, ast.AnnAssign)) and isinstance(st.value, ast.Call)
                  and ast.unparse(st.value.func) == "unmarshals.unmarshaller" and len(st.value.args) == 1
                  and not st.value.keywords and ast.unparse(st.value.args[0]) == "param.annotation")
            if not ok or rules or idx_kinds is not None or name_kinds is not None:
                raise Closed(f"_get_binding: unmarshaller is not unmarshals.unmarshaller(param.annotation) computed first: "
                             f"{ast.unparse(st)[:100]}")
    if idx_kinds is None or name_kinds is None:
        raise Closed("_get_binding: registration by index / by name not found")
    if var_assign != {"varpos": "VP", "varkwd": "VK"}:
        raise Closed(f"_get_binding: varpos / varkwd are not set under VAR_POSITIONAL / VAR_KEYWORD: {var_assign}")
    # after the loop: nothing touches max_pos; startpos=max_pos + c if max_pos is not None else None
    fin = None
    for st in fn.body[at + 1:]:
        if _stores(st, ("max_pos", "varpos", "varkwd", "binding")):
            raise Closed(f"_get_binding: state reassigned after the loop: {ast.unparse(st)[:80]}")
        for n in ast.walk(st):
            if isinstance(n, ast.keyword) and n.arg == "startpos":
                e = n.value
                ok = (isinstance(e, ast.IfExp) and isinstance(e.test, ast.Compare) and len(e.test.ops) == 1
                      and isinstance(e.test.ops[0], ast.IsNot) and _is_name(e.test.left, "max_pos")
                      and isinstance(e.test.comparators[0], ast.Constant) and e.test.comparators[0].value is None
                      and isinstance(e.orelse, ast.Constant) and e.orelse.value is None)
                if not ok or fin is not None:
                    raise Closed(f"_get_binding: startpos expression not understood: {ast.unparse(e)}")
                fin = _offset(e.body, "max_pos")
            elif isinstance(n, ast.keyword) and n.arg in ("varpos", "varkwd", "binding"):
                if not _is_name(n.value, n.arg):
                    raise Closed(f"_get_binding: {n.arg}= is passed something else: {ast.unparse(n.value)}")
    if fin is None:
        raise Closed("_get_binding: no startpos= keyword found after the loop")
    return {"rules": rules, "fin": fin, "idx_kinds": idx_kinds, "name_kinds": name_kinds, "line": fn.lineno}


# ----------------------------------------------------------------------------------
# 1c. cross-check with the live module, emission
# ----------------------------------------------------------------------------------

def _all_subclasses(c):
    out = []
    for s in c.__subclasses__():
        out.append(s)
        out += _all_subclasses(s)
    return out


def translate():
    """-> (GenBinderModes.v text, problems, summary)"""
    from typelib import binding
    path = inspect.getsourcefile(binding)
    problems = []
    if os.path.realpath(path) != os.path.realpath(os.path.join(lib.REPO, "src", "typelib", "binding.py")):
        problems.append(f"typelib.binding is loaded from {path}, not from {lib.REPO}")
    tree = ast.parse(open(path).read(), path)
    table, lines, probs = translate_classes(tree)
    problems += probs
    live = {c.__name__: c for c in _all_subclasses(binding.AbstractBinding)
            if not getattr(c.__call__, "__isabstractmethod__", False)}
    if sorted(live) != sorted(table):
        problems.append("concrete binder classes of the live module differ from the translated ones: "
                        f"{sorted(set(live) ^ set(table))}")
    for n, c in live.items():
        if n in table:
            code = getattr(c.__call__, "__code__", None)
            if code is None or code.co_firstlineno != lines[n] or os.path.realpath(code.co_filename) != os.path.realpath(path):
                problems.append(f"{n}.__call__ of the live class is not the function parsed at line {lines[n]}")
    gb = None
    try:
        gb = translate_get_binding(tree)
        code = inspect.unwrap(binding._get_binding).__code__
        if code.co_firstlineno not in (gb["line"], gb["line"] - 1) or os.path.realpath(code.co_filename) != os.path.realpath(path):
            problems.append("_get_binding of the live module is not the function parsed")
    except Closed as e:
        problems.append(str(e))
    rows = ['("%s"%%string, (%s, %s))' % (n, pm, km) for n, (pm, km) in table.items()]
    text = ("(* generated by harness/bindtie.py from the SOURCE of typelib/binding.py (ast) on this run *)\n"
            "From Coq Require Import String List ZArith. Import ListNotations.\n"
            "Require Import TL.Model.Binding TL.Model.BindingShell.\n"
            "Definition translated_modes : mode_table :=\n  " + coq_list(rows, "(string * (posmode * kwmode))").replace("; (", ";\n    (") + ".\n")
    if gb is not None:
        rules = ["{| mr_kind := %s; mr_off := %s; mr_cont := %s |}" % (
            r["kind"], coq_opt(None if r["off"] is None else lib.coq_Z(r["off"]), "Z"), coq_bool(r["cont"])) for r in gb["rules"]]
        text += ("Definition translated_mp_rules : list mp_rule :=\n  " + coq_list(rules, "mp_rule").replace("; {|", ";\n    {|") + ".\n"
                 "Definition translated_mp_fin : Z := %s.\n" % lib.coq_Z(gb["fin"]) +
                 "Definition translated_idx_kinds : list kind := %s.\n" % coq_list(gb["idx_kinds"], "kind") +
                 "Definition translated_name_kinds : list kind := %s.\n" % coq_list(gb["name_kinds"], "kind"))
    summary = {"classes": {n: list(v) for n, v in table.items()}, "get_binding": gb}
    return text, problems, summary


def matrix_present(run) -> bool:
    """GenBindingMatrix.vo of this run (C10's prove writes it); produce it with C10's own writer otherwise"""
    if os.path.exists(os.path.join(run.build, "GenBindingMatrix.vo")):
        return True
    import c10
    text, problems = c10.reflect_matrix()
    run.oblige("bindtie:reflect binding matrix (C10 writer)", not problems, "; ".join(problems))
    return run.compile_dyn("GenBindingMatrix.v", text=text)


def modes_obligations(run: lib.Run) -> bool:
    text, problems, summary = translate()
    run.oblige("bindtie:translate binder classes and _get_binding (ast of binding.py -> idiom pairs, max_pos rules; "
               "every concrete binder class of the live module translated, nothing unrecognised)",
               not problems, "; ".join(problems[:4]))
    run.extra_cov["binder_translation"] = summary
    ok = matrix_present(run)
    ok = run.compile_dyn("GenBinderModes.v", text=text) and ok
    if ok:
        ok = run.compile_dyn("C10Modes.v", src=os.path.join(lib.DYN, "C10", "C10Modes.v"), theorems=MODES_THEOREMS)
    else:
        for t in MODES_THEOREMS:
            run.oblige(f"theorem:{t}", False, "generated tables do not compile")
    run.assumptions += [
        "C10 source tie: harness/bindtie.py (ast -> idiom pair, fail closed) is trusted to read the 16 __call__ bodies "
        "as Model/Binding.v's run_pos/run_kw idioms; the binder-class correspondence checks the same reading by running "
        "the classes",
    ]
    return ok and not problems



# ==================================================================================
# 2. the shell: Props/C10Shell.v, dyn/C10/C10Shell.v, streams bind-shell and wrap-meta
# ==================================================================================

PROPS = [("Props/C10Shell.v", [
    "C10S_trace_pos", "C10S_trace_kw", "C10S_api_is_shell", "C10S_bind_converts", "C10S_wrap_converts",
    "C10S_shell_cases", "C10S_frame_accepts", "C10S_frame_rejects", "C10S_frame_rejects_total",
    "C10S_api_frame_accepts", "C10S_api_frame_rejects", "C10S_py_bind_shape", "C10S_init_self_untouched",
    "C10S_twice", "C10S_twice_defined", "C10S_idempotent_layers", "C10S_wrap_class_adds_layer",
    "C10S_wrap_class_other", "C10S_wrap_order_inherited", "C10S_wrap_order_own_init", "C10S_wraps_meta",
    "C10S_wraps_dict", "C10S_cache_own_binding", "C10S_pinned_is_shell", "C10S_wrap_pinned_hijacked", "C10S_bind_pinned_self_refused",
    "C10S_refuted_reserved_wrap_pinned", "C10S_refuted_reserved_bind_pinned", "C10S_refuted_double_conversion"])]
SHELL_THEOREMS = ["C10_shell_matrix_ok", "C10_bind_converts", "C10_wrap_converts", "C10_frame_accepts",
                  "C10_frame_rejects"]

RESERVED, SELF = 999, 998          # Model/BindingShell.v: tie_reserved, tie_self
EXTRA = {"zz": 100, "yy": 101}
SPY_ID = 77
HDR = ("From Coq Require Import String List Arith. Import ListNotations.\n"
       "Require Import TL.Model.Binding TL.Model.BindingShell.\nRequire Import TLRun.GenBindingMatrix.\n")


class ConvError(Exception):
    """what a tagging unmarshaller raises on a poisoned value"""


def _stub_cls():
    import c10

    class PStub(c10.Stub):
        """C10's tagging unmarshaller, refusing raw values 500..799 (Model: um_tie / poisoned)"""
        def __call__(self, v):
            if type(v) is int and 500 <= v < 800:
                raise ConvError(self.p, v)
            return ("C", self.p, v)
    return PStub


class Spy:
    """a value passed under the keyword `__binding`: an ordinary value for the repaired code (it reaches the callable,
    converted like any other keyword); wrap's closure AS PINNED called it in the binder's place"""
    def __init__(self):
        self.calls = []

    def __call__(self, args, kwargs):
        self.calls.append((args, dict(kwargs)))
        return args, kwargs


def name_id(n: str) -> int:
    if n == "__binding":
        return RESERVED
    if n == "self":
        return SELF
    if n in EXTRA:
        return EXTRA[n]
    if n.startswith("p") and n[1:].isdigit():
        return int(n[1:])
    raise ValueError(f"unencodable keyword name {n!r}")


def shift_sig(sig, off):
    """C10's signature description with parameter numbers shifted by `off` (off = 1: a self parameter in front)"""
    out = []
    for i, p in enumerate(sig):
        q = dict(p)
        q["idx"] = i + off
        q["name"] = f"p{i + off}"
        out.append(q)
    return out


def def_source(sig, fname, self_first, body):
    """def fname([self,] p<i>[: T<i>] [= 900+i] ...) with the / and * markers the kinds need"""
    parts, prev = (["self"] if self_first else []), None
    for p in sig:
        k = p["kind"]
        if prev == "PO" and k != "PO":
            parts.append("/")
        if k == "KO" and prev not in ("KO", "VP"):
            parts.append("*")
        s = {"VP": "*", "VK": "**"}.get(k, "") + p["name"]
        if p["ann"] is not None:
            s += f": T{p['idx']}"
        if p["default"]:
            s += f" = {900 + p['idx']}"
        parts.append(s)
        prev = k
    if prev == "PO":
        parts.append("/")
    names = (["'self': self"] if self_first and body == "init" else []) + [f"'{p['name']}': {p['name']}" for p in sig]
    d = "{" + ", ".join(names) + "}"
    tail = f"    self.got = {d}\n" if body == "init" else f"    return {d}\n"
    return f"def {fname}({', '.join(parts)}):\n{tail}"


def indent(src):
    return "".join("    " + l + "\n" for l in src.split("\n") if l)


def coq_sig(sig, self_first=False) -> str:
    ps = []
    if self_first:
        kind = "PO" if any(p["kind"] == "PO" for p in sig) else "PK"
        ps.append("(Build_param %s %s false)" % (coq_nat(SELF), kind))
    ps += ["(Build_param %s %s %s)" % (coq_nat(p["idx"]), p["kind"], coq_bool(p["ann"] is not None)) for p in sig]
    return coq_list(ps, "param")


def coq_defaults(sig, self_first=False) -> str:
    ds = (["(@None nat)"] if self_first else []) + \
         [coq_opt(coq_nat(900 + p["idx"]) if p["default"] else None, "nat") for p in sig]
    return coq_list(ds, "(option nat)")


class Unencodable(Exception):
    pass


def enc(v, inst_classes=()) -> str:
    if type(v) is int and 0 <= v < 5000:
        return f"(TRaw {coq_nat(v)})"
    if isinstance(v, tuple) and len(v) == 3 and v[0] == "C" and type(v[1]) is int:
        return f"(TConv {coq_nat(v[1])} {enc(v[2], inst_classes)})"
    if isinstance(v, str):
        try:
            return f"(TKey {coq_nat(name_id(v))})"
        except ValueError:
            raise Unencodable(repr(v))
    if isinstance(v, Spy):
        return f"(TRaw {coq_nat(SPY_ID)})"
    if inst_classes and isinstance(v, tuple(inst_classes)):
        return "TInst"
    raise Unencodable(repr(v))


def enc_kw(d, inst_classes=()) -> str:
    return coq_list([coq_pair(coq_nat(name_id(k)), enc(v, inst_classes)) for k, v in d.items()], "(nat * tval)")


def enc_frame(got: dict, sig, self_first, inst_classes) -> str:
    slots = []
    if self_first:
        slots.append(f"(OVal {enc(got['self'], inst_classes)})")
    for p in sig:
        v = got[p["name"]]
        if p["kind"] == "VP":
            slots.append("(OVarPos %s)" % coq_list([enc(x, inst_classes) for x in v], "tval"))
        elif p["kind"] == "VK":
            slots.append("(OVarKw %s)" % enc_kw(v, inst_classes))
        else:
            slots.append(f"(OVal {enc(v, inst_classes)})")
    return "(ORet %s)" % coq_list(slots, "oslot")


def install_stubs(bobj, PStub) -> int:
    """replace the unmarshallers of one binder object by tagging stubs (the NoOp of an unannotated parameter stays)"""
    n = 0

    def stub(u):
        nonlocal n
        if isinstance(u, PStub) or u is None:
            return u
        t = getattr(u, "t", None)
        name = getattr(t, "__name__", "")
        if name.startswith("T") and name[1:].isdigit():
            n += 1
            return PStub(int(name[1:]))
        return u          # NoOpUnmarshaller for an unannotated parameter: the real thing stays in place

    for k in list(bobj.binding):
        bobj.binding[k] = stub(bobj.binding[k])
    bobj.varpos = stub(bobj.varpos)
    bobj.varkwd = stub(bobj.varkwd)
    return n


def binder_of(fn):
    """the binder object a wrapper produced by wrap() carries: a closure variable (the code with
    proposed_fixes/C10-reserved-keywords.diff) or the keyword-only default `__binding` (the code as pinned)"""
    from typelib import binding
    kd = getattr(fn, "__kwdefaults__", None) or {}
    if isinstance(kd.get("__binding"), binding.AbstractBinding):
        return kd["__binding"]
    for cell in getattr(fn, "__closure__", None) or ():
        try:
            v = cell.cell_contents
        except ValueError:
            continue
        if isinstance(v, binding.AbstractBinding):
            return v
    return None


def stub_layers(obj, PStub):
    """install stubs on every binding layer reachable from a bound routine / wrapper"""
    from typelib import binding
    seen, cur, n = 0, obj, 0
    while cur is not None and seen < 8:
        if isinstance(cur, binding.BoundRoutine):
            b, nxt = cur.binding, cur.call
        else:
            b, nxt = binder_of(cur), getattr(cur, "__wrapped__", None)
        if b is None:
            break
        install_stubs(b, PStub)
        n += 1
        seen += 1
        cur = nxt
    return n


def observe_call(g, args, kwargs, spy, frame_of, inst=()):
    """-> Coq tobs term (or raises Unencodable)"""
    res = exc = None
    try:
        res = g(*args, **kwargs)
    except (ConvError, TypeError) as e:
        exc = e
    if spy is not None and spy.calls:
        # the spy was called in the binder's place (only the closure as pinned does that; the model never answers OHijack)
        a, k = spy.calls[0]
        return "(OHijack %s %s %s)" % (enc(spy), coq_list([enc(x, inst) for x in a], "tval"), enc_kw(k, inst)), "hijacked"
    if isinstance(exc, ConvError):
        return f"(ORaiseConv {coq_nat(exc.args[0])} {enc(exc.args[1])})", "conv-error"
    if exc is not None:
        return "ORaiseType", "type-error"
    return frame_of(res), "returned"


def call_values(sig, nargs, kwnames, rng, poison, reserved):
    args = [1 + j for j in range(nargs)]
    kwargs = {n: 20 + j for j, n in enumerate(kwnames)}
    spy = None
    if poison and (args or kwargs):
        j = rng.randrange(len(args) + len(kwargs))
        if j < len(args):
            args[j] = 500 + rng.randrange(300)
        else:
            kwargs[list(kwargs)[j - len(args)]] = 500 + rng.randrange(300)
        if rng.random() < 0.3 and len(args) + len(kwargs) > 1:      # two poisoned values: the first in call order wins
            j2 = rng.randrange(len(args) + len(kwargs))
            if j2 < len(args):
                args[j2] = 500 + rng.randrange(300)
            else:
                kwargs[list(kwargs)[j2 - len(args)]] = 500 + rng.randrange(300)
    for name in (reserved or ()):
        value = 60
        if name == "__binding":
            value = 61
            if rng.random() < 0.5:
                value = spy = Spy()
        items = list(kwargs.items())
        items.insert(rng.randint(0, len(items)), (name, value))
        kwargs = dict(items)
    return args, kwargs, spy


def pick_calls(c10, sig, rng, n):
    shapes = c10.call_shapes(sig, rng, None)
    acc = [s for s in shapes if c10.py_bind(sig, s[0], s[1]) is not None]
    rej = [s for s in shapes if c10.py_bind(sig, s[0], s[1]) is None]
    out = []
    for _ in range(n):
        pool = acc if (acc and (rng.random() < 0.7 or not rej)) else rej
        out.append(rng.choice(pool))
    return out


def fn_cases(run, n_sigs, calls_per):
    """(i) functions, methods, class methods, callable instances, classes under bind; 1-2 wrap layers, bind on top"""
    import c10
    from typelib import binding
    PStub = _stub_cls()
    rng = run.rng
    shapes = list(c10.sig_shapes(5))
    cases, coq, dist = [], [], {}
    forms = ["function", "method", "classmethod", "instance", "class-bind"]
    for si in range(n_sigs):
        shape = shapes[si % len(shapes)] if si < len(shapes) else rng.choice(shapes)
        sig = shift_sig(c10.make_sig(shape, rng, all_annotated=(si % 3 == 0), bare_var=(si % 7 == 3)), 0)
        src = "".join(f"class T{i}(int): pass\n" for i in range(len(sig) + 1))
        src += def_source(sig, "f", False, "ret")
        src += "class M:\n" + indent(def_source(sig, "meth", True, "ret")) + \
               "    @classmethod\n" + indent(def_source(sig, "cm", True, "ret").replace("(self", "(cls", 1))
        src += "class CI:\n" + indent(def_source(sig, "__call__", True, "ret"))
        src += "class K:\n" + indent(def_source(sig, "__init__", True, "init").replace("{'self': self, ", "{").replace("{'self': self}", "{}"))
        form = forms[si % len(forms)] if rng.random() < 0.7 else "function"
        if form == "class-bind":
            nwrap, top_bind = 0, True
        else:
            nwrap, top_bind = rng.choice([(1, False), (1, False), (0, True), (0, True), (2, False), (1, True), (2, True)])
        impl.clear_caches()
        ns = impl.new_module("verif_bindtie_fn", src).__dict__
        target = {"function": lambda: ns["f"], "method": lambda: ns["M"]().meth, "classmethod": lambda: ns["M"].cm,
                  "instance": lambda: ns["CI"](), "class-bind": lambda: ns["K"]}[form]()
        g, err = target, None
        try:
            for _ in range(nwrap):
                g = binding.wrap(g)
            if top_bind:
                g = binding.bind(g)
            layers = stub_layers(g, PStub)
            if layers != nwrap + (1 if top_bind else 0):
                err = f"found {layers} binding layers, built {nwrap} wrap + {int(top_bind)} bind"
        except KeyError:
            g = None
        except Exception as e:
            err = repr(e)
        head = def_source(sig, "f", False, "ret").split("\n")[0]
        for nargs, kwnames in pick_calls(c10, sig, rng, calls_per):
            r = rng.random()
            # keywords named like the closure's former keyword-only parameter / BoundRoutine.__call__'s first parameter:
            # ordinary keywords (a **kwargs signature takes them; any other signature refuses them like any unknown name)
            has_vk = any(p["kind"] == "VK" for p in sig)
            reserved = []
            if r < (0.30 if has_vk else 0.06):
                reserved.append("__binding")
            if form == "function" and (r < 0.12 or (has_vk and 0.20 <= r < 0.45)):
                reserved.append("self")      # the other forms are functions with a parameter named self / cls themselves
            args, kwargs, spy = call_values(sig, nargs, kwnames, rng, poison=(0.45 <= r < 0.62), reserved=reserved)
            desc = {"layer": "bind-shell", "kind": "fn", "form": form, "def": head, "wrap_layers": nwrap, "bind_on_top": top_bind,
                    "args": args, "kwargs": {k: (v if type(v) is int else "<spy>") for k, v in kwargs.items()},
                    "source": src, "error": err}
            cases.append(desc)
            if err:
                coq.append(None)
                continue
            try:
                if g is None:
                    obs, what = "ODecorError", "decoration-error"
                else:
                    fo = (lambda res: enc_frame(res.got, sig, False, ())) if form == "class-bind" else \
                         (lambda res: enc_frame(res, sig, False, ()))
                    obs, what = observe_call(g, args, kwargs, spy, fo)
                desc["observed"] = obs
                coq.append("(%s, %s, %s, %s, %s, %s, %s)" % (
                    coq_sig(sig), coq_defaults(sig), coq_nat(nwrap), coq_bool(top_bind),
                    coq_list([enc(a) for a in args], "tval"), enc_kw(kwargs), obs))
            except (Unencodable, ValueError, KeyError, AttributeError, TypeError) as e:
                desc["error"] = f"observation not encodable: {e!r}"
                coq.append(None)
                what = "error"
            except Exception as e:      # any other exception kind cannot be produced by the model
                desc["error"] = f"unexpected exception {e!r}"
                coq.append(None)
                what = "error"
            key = f"{form}/{nwrap}w{int(top_bind)}b/{what}" + ("/reserved" if reserved else "")
            dist[key] = dist.get(key, 0) + 1
    return cases, coq, dist


def cls_cases(run, n_hier, calls_per):
    """(ii) class hierarchies under wrap(cls): a chain of 2-3 classes, each with or without its own __init__,
    wrapped in a generated order (repeats allowed), then called"""
    import c10
    from typelib import binding
    PStub = _stub_cls()
    rng = run.rng
    shapes = [s for s in c10.sig_shapes(4)]
    cases, coq, dist = [], [], {}
    for hi in range(n_hier):
        n = rng.choice([2, 2, 3])
        own = [True] + [rng.random() < 0.5 for _ in range(n - 1)]
        sigs = {}
        src = "".join(f"class T{i}(int): pass\n" for i in range(7))
        for c in range(n):
            base = f"(C{c - 1})" if c else ""
            src += f"class C{c}{base}:\n"
            if own[c]:
                sigs[c] = shift_sig(c10.make_sig(rng.choice(shapes), rng, all_annotated=rng.random() < 0.5), 1)
                src += indent(def_source(sigs[c], "__init__", True, "init"))
            else:
                src += "    pass\n"
        ops = [rng.randrange(n) for _ in range(rng.choice([1, 2, 2, 3]))]
        if hi % 4 == 0:
            ops = list(range(n))                     # base first ... subclass last
        elif hi % 4 == 1:
            ops = list(reversed(range(n)))           # subclass first
        impl.clear_caches()
        ns = impl.new_module("verif_bindtie_cls", src).__dict__
        classes = [ns[f"C{c}"] for c in range(n)]
        err = None
        try:
            for c in ops:
                r = binding.wrap(classes[c])
                if r is not classes[c]:
                    err = "wrap(cls) did not return cls"
            for c in range(n):
                f = classes[c].__dict__.get("__init__")
                if f is not None:
                    stub_layers(f, PStub)
        except Exception as e:
            err = repr(e)
        cl = coq_list(["(%s, %s, %s)" % (coq_nat(c), coq_opt(coq_nat(c - 1) if c else None, "nat"),
                                         coq_opt(coq_nat(c) if own[c] else None, "nat")) for c in range(n)],
                      "(nat * option nat * option nat)")
        fs = coq_list(["(%s, %s, %s)" % (coq_nat(c), coq_sig(sigs[c], True), coq_defaults(sigs[c], True)) for c in sigs],
                      "(nat * sig * list (option nat))")
        for _ in range(calls_per):
            target = rng.randrange(n)
            eff = max(c for c in range(target + 1) if own[c])          # whose __init__ the target runs
            sig = sigs[eff]
            csig = [dict(p, name=f"p{j}") for j, p in enumerate(sig)]   # C10's helpers number from 0
            nargs, kwn = pick_calls(c10, csig, rng, 1)[0]
            back = {f"p{j}": p["name"] for j, p in enumerate(sig)}
            kwnames = [back.get(k, k) for k in kwn]
            r = rng.random()
            args, kwargs, spy = call_values(sig, nargs, kwnames, rng, poison=(r < 0.15),
                                            reserved=(["self"] if 0.15 <= r < 0.2 else ["__binding"] if 0.2 <= r < 0.3 else []))
            desc = {"layer": "bind-shell", "kind": "class", "own_init": own, "wrap_order": ops, "target": target,
                    "args": args, "kwargs": {k: (v if type(v) is int else "<spy>") for k, v in kwargs.items()},
                    "source": src, "error": err}
            cases.append(desc)
            if err:
                coq.append(None)
                continue
            try:
                obs, what = observe_call(classes[target], args, kwargs, spy,
                                         lambda res: enc_frame(res.got, sig, True, classes), classes)
                desc["observed"] = obs
                coq.append("(%s, %s, %s, %s, %s, %s, %s)" % (
                    cl, fs, coq_list([coq_nat(c) for c in ops], "nat"), coq_nat(target),
                    coq_list([enc(a) for a in args], "tval"), enc_kw(kwargs), obs))
            except Exception as e:
                desc["error"] = f"observation not encodable / unexpected exception: {e!r}"
                coq.append(None)
                what = "error"
            nl = sum(1 for c in ops if c == target or (c < target and not any(own[c + 1:target + 1]))) if False else None
            key = f"class/{n}cls/own={''.join(str(int(o)) for o in own)}/ops={''.join(map(str, ops))}/{what}"
            dist[key] = dist.get(key, 0) + 1
    return cases, coq, dist


# -- metadata ------------------------------------------------------------------------

def meta_cases():
    import functools
    from typelib import binding

    src = ('class T0(int): pass\n'
           'def documented(a: T0, b=2):\n    "the doc of documented"\n    return a\n'
           'documented.tag = "a function attribute"\ndocumented.level = 3\n'
           'def plain(a, *b, c=1, **d):\n    return a\n'
           'lam = lambda x, /, y=1: x\n'
           'class M:\n    "doc of M"\n    def meth(self, a: T0, /):\n        "doc of meth"\n        return a\n'
           '    @classmethod\n    def cm(cls, a):\n        return a\n'
           '    @staticmethod\n    def sm(a, *, k: T0 = 1):\n        "doc of sm"\n        return a\n'
           'class CI:\n    "doc of CI"\n    def __call__(self, a: T0):\n        return a\n'
           'class CJ:\n    def __call__(self, *a, **k):\n        return a\n'
           'class K:\n    "doc of K"\n    def __init__(self, a: T0, b=1):\n        "doc of K.__init__"\n        self.a = a\n')
    impl.clear_caches()
    ns = impl.new_module("verif_bindtie_meta", src).__dict__
    objs = [("function with doc and attributes", ns["documented"]), ("function without doc", ns["plain"]),
            ("lambda", ns["lam"]), ("bound method", ns["M"]().meth), ("class method", ns["M"].cm),
            ("static method", ns["M"].sm), ("callable instance, class with doc", ns["CI"]()),
            ("callable instance, class without doc", ns["CJ"]()),
            ("functools.partial", functools.partial(ns["documented"], 1)), ("builtin", len)]
    table: dict = {}

    def intern(v):
        key = ("s", v) if isinstance(v, str) else ("n",) if v is None else ("o", repr(v))
        return table.setdefault(key, len(table))

    missing = object()

    def fields(o):
        out = {}
        for a in ("__name__", "__qualname__", "__doc__", "__module__"):
            v = getattr(o, a, missing)
            out[a] = None if v is missing else intern(v)
        d = getattr(o, "__dict__", None)
        out["dict"] = [(intern(k), intern(v)) for k, v in dict(d).items() if k != "__wrapped__"] if isinstance(d, dict) or \
            hasattr(d, "items") else []
        return out

    def emit(f, wrapped):
        return "{| m_name := %s; m_qualname := %s; m_doc := %s; m_module := %s; m_dict := %s; m_wrapped := %s |}" % (
            coq_opt(None if f["__name__"] is None else coq_nat(f["__name__"]), "nat"),
            coq_opt(None if f["__qualname__"] is None else coq_nat(f["__qualname__"]), "nat"),
            coq_opt(None if f["__doc__"] is None else coq_nat(f["__doc__"]), "nat"),
            coq_opt(None if f["__module__"] is None else coq_nat(f["__module__"]), "nat"),
            coq_list([coq_pair(coq_nat(a), coq_nat(b)) for a, b in f["dict"]], "(nat * nat)"),
            coq_opt(None if wrapped is None else coq_nat(wrapped), "nat"))

    cases, coq, dist = [], [], {}

    def one(label, o, w):
        desc = {"layer": "wrap-meta", "object": label, "error": None}
        cases.append(desc)
        dist[label] = dist.get(label, 0) + 1
        try:
            code = w.__code__
            own = {"__name__": intern(code.co_name), "__qualname__": intern(code.co_qualname), "__doc__": intern(None),
                   "__module__": intern(w.__globals__["__name__"]), "dict": []}
            fs, fw = fields(o), fields(w)
            has = getattr(w, "__wrapped__", missing)
            wid = None if has is missing else (1 if has is o else 2)
            desc.update(src={a: getattr(o, a, "<absent>") for a in ("__name__", "__qualname__", "__doc__", "__module__")},
                        wrapper={a: getattr(w, a, "<absent>") for a in ("__name__", "__qualname__", "__doc__", "__module__")},
                        wrapped_is_src=(has is o))
            coq.append("(%s, %s, %s, %s)" % (coq_nat(1), emit(fs, None), emit(own, None), emit(fw, wid)))
        except Exception as e:
            desc["error"] = repr(e)
            coq.append(None)

    for label, o in objs:
        try:
            w = binding.wrap(o)
        except Exception as e:
            cases.append({"layer": "wrap-meta", "object": label, "error": f"wrap raised {e!r}"})
            coq.append(None)
            continue
        one(label, o, w)
        if label in ("function with doc and attributes", "callable instance, class with doc"):
            try:
                one(label + ", wrapped twice", w, binding.wrap(w))
            except Exception as e:
                cases.append({"layer": "wrap-meta", "object": label + ", wrapped twice", "error": repr(e)})
                coq.append(None)
    # wrap(cls): the class itself comes back, its __init__ is a wrapper of the original __init__
    K = ns["K"]
    orig = K.__dict__["__init__"]
    try:
        r = binding.wrap(K)
        if r is not K:
            cases.append({"layer": "wrap-meta", "object": "class", "error": "wrap(cls) is not cls"})
            coq.append(None)
        one("class: __init__ after wrap(cls)", orig, K.__dict__["__init__"])
    except Exception as e:
        cases.append({"layer": "wrap-meta", "object": "class", "error": repr(e)})
        coq.append(None)
    return cases, coq, dist


# -- evaluation ----------------------------------------------------------------------

def eval_stream(run, tag, ctype, okfn, coq_cases, per_file=50):
    idx = [i for i, c in enumerate(coq_cases) if c is not None]
    bad = [i for i, c in enumerate(coq_cases) if c is None]
    files, owners = {}, {}
    for n, start in enumerate(range(0, len(idx), per_file)):
        part = idx[start:start + per_file]
        name = f"cases_{tag}_{n}.v"
        files[name] = (HDR + f"Definition cases : list {ctype} :=\n " +
                       coq_list([coq_cases[i] for i in part]).replace("; (", ";\n  (") +
                       f".\nEval vm_compute in bad_cases {okfn} cases.\n")
        owners[name] = part
    if files:
        res = run.coq_eval_many(files)
        for name, out in res.items():
            if out is None:
                run.oblige(f"evaluate:{name}", False, "model evaluation did not compile")
                bad += owners[name]
            else:
                bad += [owners[name][j] for j in lib.parse_nat_list(out[-1])]
    return sorted(set(bad))


def model_answer(run, ctype, modelfn, coq_case):
    """what the model says on one case (for the mismatch report)"""
    out = run.coq_eval("case_explain.v", HDR + f"Eval vm_compute in {modelfn} {coq_case}.\n")
    return out[-1][:600] if out else None


def shell_streams(run: lib.Run):
    n_sigs, per = run.budget(150, 800), run.budget(5, 6)
    cases, coq, dist = fn_cases(run, n_sigs, per)
    bad = eval_stream(run, "shell_fn", "fn_case", "(fn_case_ok rows)", coq)
    n_h, per_h = run.budget(60, 300), run.budget(5, 6)
    cases2, coq2, dist2 = cls_cases(run, n_h, per_h)
    bad2 = eval_stream(run, "shell_cls", "cls_case", "(cls_case_ok rows)", coq2)
    mism = [cases[i] for i in bad] + [cases2[i] for i in bad2]
    for i, (cs, cq, b, fn) in enumerate(((cases, coq, bad, "fn_case_model rows"), (cases2, coq2, bad2, "cls_case_model rows"))):
        if b and cq[b[0]] is not None:
            cs[b[0]]["model"] = model_answer(run, None, fn, cq[b[0]])
    for m in mism[2:]:
        m.pop("source", None)
    allc = cases + cases2
    nontriv = len({json.dumps([c.get("def"), c.get("form"), c.get("wrap_layers"), c.get("bind_on_top"), c.get("own_init"),
                               c.get("wrap_order"), c.get("target"), c["args"], c["kwargs"]], default=str) for c in allc})
    dist.update(dist2)
    run.record_corr("bind-shell", len(allc), mism, nontriv, dist)
    if allc:
        run.samples.append({k: v for k, v in allc[0].items() if k != "source"})
    cases4, coq4, dist4 = cache_cases(run, run.budget(120, 1200))
    bad4 = eval_stream(run, "shell_cache", "cache_case", "cache_case_ok", coq4)
    if bad4 and coq4[bad4[0]] is not None:
        cases4[bad4[0]]["model"] = model_answer(run, None, "cache_case_model", coq4[bad4[0]])
    run.record_corr("binding-cache", len(cases4), [cases4[i] for i in bad4],
                    len({json.dumps([c["def"], c["history"], c.get("asked")]) for c in cases4}), dist4)
    cases3, coq3, dist3 = meta_cases()
    bad3 = eval_stream(run, "shell_meta", "meta_case", "meta_case_ok", coq3)
    run.record_corr("wrap-meta", len(cases3), [cases3[i] for i in bad3], len(cases3), dist3)


def shell_obligations(run: lib.Run, streams: bool = True) -> bool:
    ok = True
    for rel, thms in PROPS:
        ok = run.check_props(rel, thms) and ok
    if matrix_present(run):
        ok = run.compile_dyn("C10Shell.v", src=os.path.join(lib.DYN, "C10", "C10Shell.v"), theorems=SHELL_THEOREMS) and ok
        if streams:
            shell_streams(run)
    else:
        ok = False
        for t in SHELL_THEOREMS:
            run.oblige(f"theorem:{t}", False, "reflected matrix does not compile")
    run.assumptions += [
        "C10 shell: py_bind (Model/BindingShell.v) is CPython's argument binding for Python-level functions; it is compared "
        "with the interpreter on every bind-shell case (accepted/rejected, frame)",
        "C10 shell: the tagging unmarshallers of the bind-shell stream stand in for typelib's (installed on the binder objects "
        "bind/wrap built); real unmarshallers are exercised by C10's oracle",
    ]
    return ok


def prove(run: lib.Run) -> bool:
    """the obligations (translation, C10Modes.v, Props/C10Shell.v, C10Shell.v): call from props/c10.py prove(), after
    its own GenBindingMatrix.v / C10.v"""
    ok = modes_obligations(run)
    return shell_obligations(run, streams=False) and ok


def correspond(run: lib.Run):
    """the streams bind-shell and wrap-meta: call from props/c10.py correspond()"""
    if matrix_present(run):
        shell_streams(run)
    else:
        run.record_corr("bind-shell", 1, [{"error": "reflected matrix did not compile"}], 0, {})


def obligations(run: lib.Run, streams: bool = True) -> bool:
    """everything WP-D adds to C10's check in one call (prove + correspond)"""
    ok = prove(run)
    if streams:
        correspond(run)
    return ok


# ==================================================================================
# 3. oracle for class hierarchies (independent of the model; real unmarshallers)
# ==================================================================================

H_ANN = ["int", "str", "float", "decimal.Decimal", "fractions.Fraction"]     # unmarshalling twice = once on these


def _hier_source(rng, k):
    """a chain C0 <- C1 <- ..; every class with an __init__ of its own has its own parameters"""
    src = "import decimal, fractions\n"
    inits = {}
    for c in range(k):
        src += f"class C{c}" + (f"(C{c - 1})" if c else "") + ":\n"
        if c == 0 or rng.random() < 0.6:
            npar = rng.randint(1, 3)
            pars = []
            for j in range(npar):
                ann = rng.choice(H_ANN + [None])
                kwonly = j == npar - 1 and rng.random() < 0.4
                pars.append({"name": f"c{c}_{j}", "ann": ann, "kwonly": kwonly})
            parts = ["self"]
            for q in pars:
                if q["kwonly"]:
                    parts.append("*")
                parts.append(q["name"] + (f": {q['ann']}" if q["ann"] else ""))
            names = ", ".join(f"'{q['name']}': {q['name']}" for q in pars)
            src += f"    def __init__({', '.join(parts)}):\n        self.got = {{{names}}}\n"
            inits[c] = pars
        else:
            src += "    pass\n"
    return src, inits


def check_hierarchy(src, inits, order, k):
    import decimal
    import fractions
    from typelib import binding, unmarshals
    anns = {"int": int, "str": str, "float": float, "decimal.Decimal": decimal.Decimal, "fractions.Fraction": fractions.Fraction}
    inits = {int(c): v for c, v in inits.items()}
    impl.clear_caches()
    ns = impl.new_module("verif_bindtie_hier", src).__dict__
    classes = [ns[f"C{c}"] for c in range(k)]
    fails = []
    for c in order:
        binding.wrap(classes[c])
    for target in range(k):
        eff = max(c for c in range(target + 1) if c in inits)
        pars = inits[eff]
        args = [str(j + 1).encode() for j, q in enumerate(pars) if not q["kwonly"]]
        kwargs = {q["name"]: str(j + 11).encode() for j, q in enumerate(pars) if q["kwonly"]}
        vals = dict(zip([q["name"] for q in pars if not q["kwonly"]], args), **kwargs)
        expected = {q["name"]: (vals[q["name"]] if q["ann"] is None else unmarshals.unmarshal(anns[q["ann"]], vals[q["name"]]))
                    for q in pars}
        try:
            got = classes[target](*args, **kwargs).got
        except Exception as e:
            got = repr(e)
        if repr(got) != repr(expected):
            fails.append({"symptom": "class argument not converted by its own parameter", "api": "wrap", "form": "class-hierarchy",
                          "target": f"C{target}", "runs_init_of": f"C{eff}", "wrap_order": [f"C{c}" for c in order],
                          "args": [repr(a) for a in args], "kwargs": {n: repr(v) for n, v in kwargs.items()},
                          "got": repr(got), "expected": repr(expected),
                          "hierarchy": {"source": src, "inits": inits, "order": list(order), "k": k}})
    return fails


R_SOURCES = [
    ("def f(a: int, **kw: int):\n    return {'a': a, 'kw': kw}\n", [b"1"], {"a": "int"}, "int"),
    ("def f(**kw: float):\n    return {'kw': kw}\n", [], {}, "float"),
    ("def f(a: int = b'0', *b: int, c: str = '', **kw: decimal.Decimal):\n    return {'a': a, 'b': b, 'c': c, 'kw': kw}\n",
     [], {}, "decimal.Decimal"),
    ("def f(a: str, /, **kw):\n    return {'a': a, 'kw': kw}\n", [b"1"], {"a": "str"}, None),
]


def check_reserved(src, args, kwargs, api):
    """a keyword argument f itself accepts in its **kwargs must reach f through bind(f) / wrap(f), converted by the
    **kwargs annotation -- whatever its name"""
    import decimal
    import fractions
    from typelib import binding, unmarshals
    anns = {"int": int, "str": str, "float": float, "decimal.Decimal": decimal.Decimal, "fractions.Fraction": fractions.Fraction}
    row = next(r for r in R_SOURCES if r[0] == src)
    impl.clear_caches()
    ns = impl.new_module("verif_bindtie_resv", "import decimal, fractions\n" + src).__dict__
    f = ns["f"]
    args = [a.encode() if isinstance(a, str) else a for a in args]
    kwargs = {k: (v.encode() if isinstance(v, str) else v) for k, v in kwargs.items()}
    pos_ann = list(row[2].values())
    ea = [unmarshals.unmarshal(anns[pos_ann[i]], a) if i < len(pos_ann) else a for i, a in enumerate(args)]
    ek = {k: (v if row[3] is None else unmarshals.unmarshal(anns[row[3]], v)) for k, v in kwargs.items()}
    expected = f(*ea, **ek)           # Python accepts the call: f has **kwargs
    try:
        got = getattr(binding, api)(f)(*args, **kwargs)
    except Exception as e:
        got = repr(e)
    if repr(got) == repr(expected):
        return []
    return [{"symptom": "keyword argument that the callable accepts is not passed on converted", "api": api, "form": "f",
             "def": src.split("\n")[0], "args": [repr(a) for a in args], "kwargs": {k: repr(v) for k, v in kwargs.items()},
             "got": repr(got), "expected": repr(expected),
             "reserved": {"source": src, "args": [a.decode() for a in args], "kwargs": {k: v.decode() for k, v in kwargs.items()},
                          "api": api}}]


def search_reserved(run) -> list:
    fails, evals = [], 0
    for src, args, _, _ in R_SOURCES:
        for api in ("wrap", "bind"):
            for names in (["__binding"], ["self"], ["cls"], ["args"], ["kwargs"], ["binding"], ["obj"], ["__binding", "self"]):
                kwargs = {n: str(2 + j).encode() for j, n in enumerate(names)}
                fs = check_reserved(src, args, kwargs, api)
                evals += 1
                for f in fs:
                    f["key"] = json.dumps([f["symptom"], api, names])
                fails += fs
    run.search_stats["oracle_keyword_names"] = {
        "evaluations": evals, "distinct_nontrivial": evals, "failures": len(fails),
        "rule": "4 signatures with **kwargs x bind/wrap x keyword names an implementation might reserve (__binding, self, cls, "
                "args, kwargs, binding, obj); expected = f called with unmarshal(annotation of **kwargs, value)"}
    # one per (api, first reserved name), shortest definition first
    best = {}
    for f in sorted(fails, key=lambda f: (len(f["kwargs"]), len(f["def"]))):
        names = sorted(f["kwargs"])
        if len(names) > 1 and any(a == f["api"] and n in names for a, n in best):
            continue                      # already reported with one of these names alone
        best.setdefault((f["api"], names[0]), f)
    return list(best.values())


# ==================================================================================
# 4. one def reached through different callables, bound / wrapped in one process (no cache clearing in between)
# ==================================================================================

PATHS = ["func", "bound", "bound-again", "bound-other", "cm", "cm-inst", "cm-func", "sm", "sm-inst"]


def _paths_source(params_src: str, ret: str) -> str:
    """class A with the same parameter list as method m, class method cm, static method sm"""
    sep = ", " if params_src else ""
    return ("class A:\n"
            f"    def m(self{sep}{params_src}):\n        return {ret}\n"
            f"    @classmethod\n    def cm(cls{sep}{params_src}):\n        return {ret}\n"
            f"    @staticmethod\n    def sm({params_src}):\n        return {ret}\n")


def _access(ns, insts, path):
    A = ns["A"]
    return {"func": lambda: A.m, "bound": lambda: insts[0].m, "bound-again": lambda: insts[0].m,
            "bound-other": lambda: insts[1].m, "cm": lambda: A.cm, "cm-inst": lambda: insts[0].cm,
            "cm-func": lambda: A.__dict__["cm"].__func__, "sm": lambda: A.sm, "sm-inst": lambda: insts[0].sm}[path]()


def _has_first(path) -> bool:      # the callable's own signature starts with self / cls
    return path in ("func", "cm-func")


def cache_cases(run, n_hist):
    """stream binding-cache: after a history of _get_binding calls over the access paths of one class, the table each
    callable gets = Binding.get_binding of ITS OWN signature (Model: binding_after; keys = classes of == on the callables)"""
    import c10
    from typelib import binding
    rng = run.rng
    shapes = [s for s in c10.sig_shapes(4)]
    cases, coq, dist = [], [], {}
    for hi in range(n_hist):
        sig = shift_sig(c10.make_sig(rng.choice(shapes), rng, all_annotated=True), 1)
        params = def_source(sig, "x", False, "ret").split("\n")[0][len("def x("):-2]
        src = "".join(f"class T{i}(int): pass\n" for i in range(len(sig) + 2)) + _paths_source(params, "None")
        impl.clear_caches()
        ns = impl.new_module("verif_bindtie_cache", src).__dict__
        insts = [ns["A"](), ns["A"]()]
        hist = [rng.choice(PATHS) for _ in range(rng.choice([2, 2, 3, 4]))]
        if hi % 3 == 0:
            hist = rng.choice([["func", "bound"], ["bound", "func"], ["cm-func", "cm"], ["cm", "cm-func"],
                               ["bound", "bound-other", "func"]])
        objs = [_access(ns, insts, p_) for p_ in hist]
        # key classes under == (what a table keyed by the callable distinguishes)
        keys = []
        for i, o in enumerate(objs):
            keys.append(next((keys[j] for j in range(i) if objs[j] == o and hash(objs[j]) == hash(o)), i))

        def own_sig(path):
            first = [{"idx": 0, "name": "self", "kind": "PO" if any(q["kind"] == "PO" for q in sig) else "PK",
                      "ann": None, "default": False}] if _has_first(path) else []
            return first, sig

        def coq_own(path):
            first, s = own_sig(path)
            ps = ["(Build_param %s %s false)" % (coq_nat(SELF), first[0]["kind"])] if first else []
            ps += ["(Build_param %s %s true)" % (coq_nat(q["idx"]), q["kind"]) for q in s]
            return coq_list(ps, "param")

        desc = {"layer": "binding-cache", "def": f"def m(self, {params})", "history": hist, "error": None}
        try:
            tables = [binding._get_binding(o) for o in objs]          # the history: no cache clearing in between
            q = rng.randrange(len(objs))
            b = binding._get_binding(_access(ns, insts, hist[q]))      # asked again: the memoised answer
            off = 0 if _has_first(hist[q]) else 1                      # T<i> is numbered along (self, p1, p2, ...)

            def pidx(u):
                name = getattr(getattr(u, "t", None), "__name__", "")
                return int(name[1:]) - off if name.startswith("T") and name[1:].isdigit() else 0
            names = [(SELF if k in ("self", "cls") else int(k[1:]), pidx(v)) for k, v in b.binding.items()
                     if isinstance(k, str)]
            idxs = [k for k in b.binding if isinstance(k, int)]
            bad = [k for k in idxs if pidx(b.binding[k]) != k]
            if bad or any(i < 0 for _, i in names):
                desc["error"] = f"index keys not bound to their own parameter: {bad} (table of {hist[q]})"
            vp = None if b.varpos is None else pidx(b.varpos)
            vk = None if b.varkwd is None else pidx(b.varkwd)
            desc.update(asked=hist[q], observed=repr((names, idxs, b.startpos, vp, vk)))
            obs = c10.emit_bstate(names, idxs, b.startpos, vp, vk)
        except Exception as e:
            desc["error"] = repr(e)
        cases.append(desc)
        kd = "/".join(hist)
        dist[kd] = dist.get(kd, 0) + 1
        if desc["error"]:
            coq.append(None)
            continue
        coq.append("(%s, %s, %s, %s)" % (
            coq_list(["(%s, %s)" % (coq_nat(keys[i]), coq_own(hist[i])) for i in range(len(hist))], "(nat * sig)"),
            coq_list([coq_nat(i) for i in range(len(hist))], "nat"), coq_nat(q), obs))
    return cases, coq, dist


H_SIGS = ["a: int, b: str = b'0', /, c: float = b'0', *r: int, k: decimal.Decimal = b'0', **kw: float",
          "a: float, b: int = b'0'", "a: str, /, *r: fractions.Fraction", "a: int, *, k: str = b'0', **kw: decimal.Decimal",
          "a: decimal.Decimal, b, c: int = b'0'"]


def check_history(params, hist, apis):
    """bind / wrap the access paths in order (one process, no cache clearing in between), then call each: every argument
    must be converted by its own parameter (reference: inspect.Signature.bind + unmarshal(annotation) per parameter)"""
    import inspect
    from typelib import binding, unmarshals
    names = [x.split(":")[0].split("=")[0].strip().lstrip("*") for x in params.split(",") if x.strip() not in ("/", "*")]
    ret = "{" + ", ".join(f"'{n}': {n}" for n in names) + "}"
    src = "import decimal, fractions\n" + _paths_source(params, ret)
    impl.clear_caches()
    ns = impl.new_module("verif_bindtie_hist", src).__dict__
    insts = [ns["A"](), ns["A"]()]
    P = inspect.Parameter
    bound = []
    for path, api in zip(hist, apis):
        o = _access(ns, insts, path)
        bound.append((path, api, o, getattr(binding, api)(o)))
    fails = []
    for step, (path, api, o, g) in enumerate(bound):
        sig = inspect.signature(o)
        npos = sum(1 for q in sig.parameters.values() if q.kind in (P.POSITIONAL_ONLY, P.POSITIONAL_OR_KEYWORD))
        has_vp = any(q.kind is P.VAR_POSITIONAL for q in sig.parameters.values())
        first = [insts[0]] if path == "func" else [ns["A"]] if path == "cm-func" else []
        for nargs in sorted({1, min(2, npos - len(first)), npos - len(first) + (1 if has_vp else 0)}):
            if nargs < 0:
                continue
            args = first + [str(j + 1).encode() for j in range(nargs)]
            kwargs = {"k": b"9"} if "k" in sig.parameters and sig.parameters["k"].kind is P.KEYWORD_ONLY else {}
            try:
                ba = sig.bind(*args, **kwargs)
            except TypeError:
                continue
            for n, v in list(ba.arguments.items()):
                q = sig.parameters[n]
                if q.annotation is P.empty:
                    continue
                ann = eval(q.annotation, ns) if isinstance(q.annotation, str) else q.annotation
                if q.kind is P.VAR_POSITIONAL:
                    ba.arguments[n] = tuple(unmarshals.unmarshal(ann, x) for x in v)
                elif q.kind is P.VAR_KEYWORD:
                    ba.arguments[n] = {k: unmarshals.unmarshal(ann, x) for k, x in v.items()}
                else:
                    ba.arguments[n] = unmarshals.unmarshal(ann, v)
            expected = o(*ba.args, **ba.kwargs)
            try:
                got = g(*args, **kwargs)
            except Exception as e:
                got = repr(e)
            if repr(got) != repr(expected):
                fails.append({"symptom": "argument not converted by its own parameter after another access path of the same "
                                         "def was bound first", "api": api, "form": path, "def": f"def m(self, {params})",
                              "history": [f"{a}({p_})" for p_, a in zip(hist, apis)], "called": f"step {step}: {api}({path})",
                              "args": [repr(a) for a in args[len(first):]], "kwargs": {k: repr(v) for k, v in kwargs.items()},
                              "got": repr(got), "expected": repr(expected),
                              "history_replay": {"params": params, "hist": list(hist), "apis": list(apis)}})
    return fails


def search_histories(run, broken) -> list:
    import itertools
    import random
    rng = random.Random(run.seed + 13)
    fails, evals, nh = [], 0, 0
    pairs = [("func", "bound"), ("bound", "func"), ("bound", "bound-other"), ("bound", "bound-again"), ("cm", "cm-func"),
             ("cm-func", "cm"), ("cm", "cm-inst"), ("sm", "sm-inst"), ("func", "sm"), ("cm", "bound")]
    hists = [list(p_) for p_ in pairs]
    for _ in range(run.budget(20, 200) * (2 if broken else 1)):
        hists.append([rng.choice(PATHS) for _ in range(rng.choice([2, 3, 4]))])
    for params in H_SIGS:
        for hist in hists:
            for apis in ([["bind"] * len(hist), ["wrap"] * len(hist)] + [[rng.choice(["bind", "wrap"]) for _ in hist]]):
                fs = check_history(params, hist, apis)
                nh += 1
                evals += len(hist)
                for f in fs:
                    f["key"] = json.dumps([f["symptom"], sorted(set(hist))[:2], f["form"]])
                fails += fs
        if len(fails) > 60:
            break
    run.search_stats["oracle_access_paths"] = {
        "evaluations": evals, "distinct_nontrivial": evals, "histories": nh, "failures": len(fails),
        "rule": "one def as method / class method / static method of a class, reached as Cls.m, inst.m (same instance twice, "
                "another instance), Cls.cm, inst.cm, the raw function of cm, Cls.sm, inst.sm; histories of 2-4 bind/wrap calls "
                "in one process without cache clearing; then every bound callable is called with 1..n positionals; expected = "
                "inspect.Signature.bind + unmarshal(annotation, argument) per parameter"}
    fails.sort(key=lambda f: (len(f["history"]), len(f["def"]), len(f["args"])))
    best = {}
    for f in fails:
        best.setdefault(f["key"], f)
    return list(best.values())[:3]


def search(run: lib.Run, broken) -> list:
    """(a) keyword names: see search_reserved.  (b) every class of a chain handed to wrap() once, in every generated
    order: constructing any class of the chain converts each argument of the __init__ it runs by that parameter's own
    annotation"""
    import itertools
    import random
    out = search_reserved(run) + search_histories(run, broken)
    rng = random.Random(run.seed + 11)
    n = run.budget(40, 300) * (3 if broken else 1)
    fails, evals = [], 0
    for h in range(n):
        k = rng.choice([2, 2, 3])
        src, inits = _hier_source(rng, k)
        for order in itertools.permutations(range(k)):
            fs = check_hierarchy(src, inits, order, k)
            evals += k
            for f in fs:
                f["key"] = json.dumps([f["symptom"], f["form"], f["runs_init_of"] == f["target"], len(f["wrap_order"])])
            fails += fs
        if len(fails) > 50:
            break
    fails.sort(key=lambda f: (f["hierarchy"]["k"], len(f["hierarchy"]["source"])))
    run.search_stats["oracle_class_hierarchies"] = {
        "evaluations": evals, "distinct_nontrivial": evals, "hierarchies": n, "failures": len(fails),
        "rule": "chains of 2-3 classes, each with its own __init__ (own parameters) or inheriting; every class wrapped once, "
                "all orders; every class constructed; expected = unmarshal(annotation, argument) per parameter of the __init__ "
                "that runs (annotations on which unmarshalling twice equals once)"}
    return out + fails[:3]


def replay(payload) -> dict:
    if payload.get("history_replay"):
        r = payload["history_replay"]
        fs = check_history(r["params"], r["hist"], r["apis"])
        return {"fails": bool(fs), "failures": fs}
    if payload.get("reserved"):
        r = payload["reserved"]
        fs = check_reserved(r["source"], r["args"], r["kwargs"], r["api"])
        return {"fails": bool(fs), "failures": fs}
    h = payload.get("hierarchy")
    if not h:
        return {"fails": False, "failures": []}
    fs = check_hierarchy(h["source"], h["inits"], h["order"], h["k"])
    return {"fails": bool(fs), "failures": fs}
