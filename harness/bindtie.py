"""Binding bridge (WP-D): ties Model/Binding.v + Model/BindingShell.v to /repo/src/typelib/binding.py on every run.

`obligations(run)` does, in this order,

  1. *translate* (fail closed): binding.py is parsed with `ast`.
       - every class derived from `AbstractBinding` that has a concrete `__call__` is found; the body of that
         `__call__` is evaluated SYMBOLICALLY over a tiny expression language (`self.binding`, `self.varpos`,
         `self.varkwd`, `self.startpos`, `args`, `kwargs`, slices of `args` by `startpos`, tuples of starred
         comprehensions / `tuple(...)`, one dict comprehension over `kwargs.items()`), local aliases are resolved,
         and the returned pair is matched STRUCTURALLY against the idioms of Model/Binding.v:
             (binding[i](v) if i in binding else v for i, v in enumerate(X))   -> by_index X
             (varpos(v) for v in X)                                            -> var X
             args itself                                                       -> untouched
             by_index args                        -> PosIndex      var args     -> PosVar
             by_index args[:startpos] ++ var args[startpos:]                   -> PosSplit
             {k: binding.get(k, varkwd)(v) ...} -> KwGet    {k: varkwd(v) ...} -> KwVar
             {k: binding[k](v) if k in binding else v ...} -> KwElseV      ... else k -> KwElseK
             kwargs itself -> KwUntouched
         Anything else (an unknown statement, another slice bound, another default, a generator that is not
         consumed, keyword conversions evaluated before positional ones ...) raises `Closed`: the obligation
         fails and the class gets no row, so C10Modes.v cannot compile.  Nothing is ever guessed.
       - the max_pos statements of `_get_binding`'s loop and its `startpos=` expression are translated into
         `mp_rule`s; the two registration statements into the kind lists they test.
       - cross-check against the LIVE module: the classes found are exactly the subclasses of the live
         `AbstractBinding`, each live `__call__` / `_get_binding` starts on the parsed line of the parsed file.
     The result is written as GenBinderModes.v into the run's build dir.
  2. *theorems*: coq/dyn/C10/C10Modes.v is compiled against GenBinderModes.v and GenBindingMatrix.v (the latter is
     C10's reflected matrix; written here with C10's own writer when this run has not produced it yet).
  3. *shell*: Props/C10Shell.v is re-checked; the `bind-shell` and `wrap-meta` correspondence streams compare
     bind / wrap / wrap(cls) on functions, methods, callable instances and class hierarchies of /repo with
     Model/BindingShell.v (see the second half of this file).

Called from props/c10.py (prove/correspond); everything is recorded on the given `run`.
"""
from __future__ import annotations

import ast
import inspect
import os
import sys

import impl
import lib
from lib import coq_bool, coq_list, coq_nat, coq_opt, coq_pair

_HERE = os.path.dirname(os.path.abspath(__file__))
if os.path.join(_HERE, "props") not in sys.path:
    sys.path.insert(0, os.path.join(_HERE, "props"))

COQ_TARGETS = ["theories/Proofs/BindingLemmas.vo", "theories/Model/BindingEq.vo",
               "theories/Model/BindingShell.vo", "theories/Proofs/BindingShellLemmas.vo"]

MODES_THEOREMS = ["C10_modes_tied", "C10_modes_all", "C10_src_is_model", "C10_converts_src",
                  "C10_rejected_or_shape_src", "C10_mp_rules_ok", "C10_startpos_src", "C10_reg_kinds_ok",
                  "C10_registration_src"]

KIND_OF_ATTR = {"POSITIONAL_ONLY": "PO", "POSITIONAL_OR_KEYWORD": "PK", "VAR_POSITIONAL": "VP",
                "KEYWORD_ONLY": "KO", "VAR_KEYWORD": "VK"}


class Closed(Exception):
    """the source is outside what the translator understands: fail closed"""


# ----------------------------------------------------------------------------------
# 1a. binder classes: symbolic evaluation of __call__
# ----------------------------------------------------------------------------------

SELF_ATTRS = ("binding", "varpos", "varkwd", "startpos")


def _is_name(node, name=None):
    return isinstance(node, ast.Name) and (name is None or node.id == name)


class CallBody:
    """symbolic evaluation of one `__call__(self, args, kwargs)` body"""

    def __init__(self, fn: ast.FunctionDef, cls: str):
        self.cls = cls
        self.env: dict[str, tuple] = {}
        self.clock = 0
        a = fn.args
        names = [x.arg for x in a.args]
        if (names != ["self", "args", "kwargs"] or a.posonlyargs or a.kwonlyargs or a.vararg or a.kwarg
                or a.defaults or a.kw_defaults):
            raise Closed(f"{cls}.__call__: parameters are not (self, args, kwargs): {ast.unparse(a)}")
        if fn.decorator_list:
            raise Closed(f"{cls}.__call__ is decorated")
        self.fn = fn

    # -- expressions -------------------------------------------------------------
    def sym(self, e) -> tuple:
        """value of an expression: ('args',) ('kwargs',) ('attr', name) ('slice_to',) ('slice_from',)
        ('pos', segments, t) ('kw', mode, t) -- t = evaluation time of an expression that calls unmarshallers"""
        if isinstance(e, ast.Name) and isinstance(e.ctx, ast.Load):
            if e.id in self.env:
                return self.env[e.id]
            if e.id in ("args", "kwargs"):
                return (e.id,)
            raise Closed(f"{self.cls}: unknown name {e.id}")
        if isinstance(e, ast.Attribute) and _is_name(e.value, "self") and e.attr in SELF_ATTRS:
            return ("attr", e.attr)
        if isinstance(e, ast.Subscript) and isinstance(e.slice, ast.Slice):
            base = self.sym(e.value)
            sl = e.slice
            if base != ("args",) or sl.step is not None:
                raise Closed(f"{self.cls}: slice of something else than args: {ast.unparse(e)}")
            if sl.lower is None and sl.upper is not None and self.sym(sl.upper) == ("attr", "startpos"):
                return ("slice_to",)
            if sl.upper is None and sl.lower is not None and self.sym(sl.lower) == ("attr", "startpos"):
                return ("slice_from",)
            raise Closed(f"{self.cls}: slice bound is not startpos: {ast.unparse(e)}")
        if isinstance(e, ast.Tuple) and e.elts and all(isinstance(x, ast.Starred) for x in e.elts):
            segs = []
            for x in e.elts:
                segs += self.segments(x.value)
            self.clock += 1
            return ("pos", tuple(segs), self.clock)
        if (isinstance(e, ast.Call) and _is_name(e.func, "tuple") and len(e.args) == 1 and not e.keywords
                and "tuple" not in self.env):
            segs = self.segments(e.args[0])
            self.clock += 1
            return ("pos", tuple(segs), self.clock)
        if isinstance(e, ast.DictComp):
            mode = self.kwmode(e)
            self.clock += 1
            return ("kw", mode, self.clock)
        raise Closed(f"{self.cls}: expression not understood: {ast.unparse(e)}")

    def source_of(self, e) -> str:
        v = self.sym(e)
        if v in (("args",), ("slice_to",), ("slice_from",)):
            return v[0]
        raise Closed(f"{self.cls}: iteration over something else than args / a startpos slice of args: {ast.unparse(e)}")

    def one_generator(self, comp):
        if len(comp.generators) != 1:
            raise Closed(f"{self.cls}: nested comprehension: {ast.unparse(comp)}")
        g = comp.generators[0]
        if g.ifs or g.is_async:
            raise Closed(f"{self.cls}: filtered comprehension: {ast.unparse(comp)}")
        return g

    def fresh(self, *names):
        """loop variables must not shadow anything the element expression means"""
        for n in names:
            if n in self.env or n in ("args", "kwargs", "self", "tuple", "enumerate"):
                raise Closed(f"{self.cls}: loop variable {n} shadows a name in use")
        if len(set(names)) != len(names):
            raise Closed(f"{self.cls}: loop variables not distinct")

    def segments(self, e) -> list:
        """a (consumed) iterable of converted positional values"""
        if isinstance(e, (ast.GeneratorExp, ast.ListComp)):
            g = self.one_generator(e)
            it, tg, elt = g.iter, g.target, e.elt
            if (isinstance(it, ast.Call) and _is_name(it.func, "enumerate") and len(it.args) == 1 and not it.keywords
                    and "enumerate" not in self.env):
                src = self.source_of(it.args[0])
                if not (isinstance(tg, ast.Tuple) and len(tg.elts) == 2 and all(_is_name(x) for x in tg.elts)):
                    raise Closed(f"{self.cls}: enumerate target: {ast.unparse(tg)}")
                i, v = tg.elts[0].id, tg.elts[1].id
                self.fresh(i, v)
                # binding[i](v) if i in binding else v
                if (isinstance(elt, ast.IfExp) and self.is_member_test(elt.test, i) and self.is_item_call(elt.body, i, v)
                        and _is_name(elt.orelse, v)):
                    return [("by_index", src)]
                raise Closed(f"{self.cls}: by-index element not understood: {ast.unparse(elt)}")
            src = self.source_of(it)
            if not _is_name(tg):
                raise Closed(f"{self.cls}: loop target: {ast.unparse(tg)}")
            v = tg.id
            self.fresh(v)
            # varpos(v)
            if (isinstance(elt, ast.Call) and len(elt.args) == 1 and not elt.keywords and _is_name(elt.args[0], v)
                    and not _is_name(elt.func, v) and self.sym(elt.func) == ("attr", "varpos")):
                return [("var", src)]
            raise Closed(f"{self.cls}: var-positional element not understood: {ast.unparse(elt)}")
        v = self.sym(e)
        if v[0] == "pos":
            return list(v[1])
        if v == ("args",):
            return [("raw", "args")]
        raise Closed(f"{self.cls}: not a sequence of converted positionals: {ast.unparse(e)}")

    def is_binding(self, e) -> bool:
        try:
            return self.sym(e) == ("attr", "binding")
        except Closed:
            return False

    def is_member_test(self, t, key: str) -> bool:
        return (isinstance(t, ast.Compare) and len(t.ops) == 1 and isinstance(t.ops[0], ast.In)
                and _is_name(t.left, key) and self.is_binding(t.comparators[0]))

    def is_item_call(self, c, key: str, v: str) -> bool:
        """binding[key](v)"""
        return (isinstance(c, ast.Call) and len(c.args) == 1 and not c.keywords and _is_name(c.args[0], v)
                and isinstance(c.func, ast.Subscript) and self.is_binding(c.func.value)
                and _is_name(c.func.slice, key))

    def kwmode(self, e: ast.DictComp) -> str:
        g = self.one_generator(e)
        it, tg = g.iter, g.target
        if not (isinstance(it, ast.Call) and not it.args and not it.keywords and isinstance(it.func, ast.Attribute)
                and it.func.attr == "items" and self.sym(it.func.value) == ("kwargs",)):
            raise Closed(f"{self.cls}: dict comprehension does not iterate kwargs.items(): {ast.unparse(it)}")
        if not (isinstance(tg, ast.Tuple) and len(tg.elts) == 2 and all(_is_name(x) for x in tg.elts)):
            raise Closed(f"{self.cls}: items target: {ast.unparse(tg)}")
        k, v = tg.elts[0].id, tg.elts[1].id
        self.fresh(k, v)
        if not _is_name(e.key, k):
            raise Closed(f"{self.cls}: keyword names are not preserved: key is {ast.unparse(e.key)}")
        val = e.value
        if isinstance(val, ast.Call) and len(val.args) == 1 and not val.keywords and _is_name(val.args[0], v):
            f = val.func
            # binding.get(k, varkwd)(v)
            if (isinstance(f, ast.Call) and isinstance(f.func, ast.Attribute) and f.func.attr == "get"
                    and self.is_binding(f.func.value) and len(f.args) == 2 and not f.keywords
                    and _is_name(f.args[0], k) and not _is_name(f.args[1], k) and not _is_name(f.args[1], v)
                    and self.sym(f.args[1]) == ("attr", "varkwd")):
                return "KwGet"
            # varkwd(v)
            if not isinstance(f, ast.Call) and not _is_name(f, k) and not _is_name(f, v) and \
                    self.sym(f) == ("attr", "varkwd"):
                return "KwVar"
        if isinstance(val, ast.IfExp) and self.is_member_test(val.test, k) and self.is_item_call(val.body, k, v):
            if _is_name(val.orelse, v):
                return "KwElseV"
            if _is_name(val.orelse, k):
                return "KwElseK"
        raise Closed(f"{self.cls}: keyword value not understood: {ast.unparse(val)}")

    # -- statements --------------------------------------------------------------
    def run(self) -> tuple[str, str]:
        body = list(self.fn.body)
        if body and isinstance(body[0], ast.Expr) and isinstance(body[0].value, ast.Constant) \
                and isinstance(body[0].value.value, str):
            body = body[1:]
        for n, st in enumerate(body):
            if isinstance(st, ast.Assign) and len(st.targets) == 1 and _is_name(st.targets[0]):
                self.bind(st.targets[0].id, st.value)
            elif isinstance(st, ast.AnnAssign) and _is_name(st.target) and st.value is not None and st.simple:
                self.bind(st.target.id, st.value)
            elif isinstance(st, ast.Return) and n == len(body) - 1:
                return self.result(st.value)
            else:
                raise Closed(f"{self.cls}.__call__: statement not understood: {ast.unparse(st)}")
        raise Closed(f"{self.cls}.__call__: no return")

    def bind(self, name: str, value):
        if name in ("self", "args", "kwargs", "tuple", "enumerate"):
            raise Closed(f"{self.cls}.__call__: rebinds {name}")
        self.env[name] = self.sym(value)

    def result(self, e) -> tuple[str, str]:
        if not (isinstance(e, ast.Tuple) and len(e.elts) == 2):
            raise Closed(f"{self.cls}.__call__: does not return a pair: {ast.unparse(e)}")
        p = self.sym(e.elts[0])
        k = self.sym(e.elts[1])
        # positional
        if p == ("args",):
            segs, tp = (("raw", "args"),), None
        elif p[0] == "pos":
            segs, tp = p[1], p[2]
        else:
            raise Closed(f"{self.cls}.__call__: first component is not the positional tuple: {ast.unparse(e.elts[0])}")
        pm = {(("by_index", "args"),): "PosIndex", (("var", "args"),): "PosVar", (("raw", "args"),): "PosUntouched",
              (("by_index", "slice_to"), ("var", "slice_from")): "PosSplit"}.get(tuple(segs))
        if pm is None:
            raise Closed(f"{self.cls}.__call__: positional part {segs} is none of the modelled idioms")
        # keyword
        if k == ("kwargs",):
            km, tk = "KwUntouched", None
        elif k[0] == "kw":
            km, tk = k[1], k[2]
        else:
            raise Closed(f"{self.cls}.__call__: second component is not the keyword dict: {ast.unparse(e.elts[1])}")
        if tp is not None and tk is not None and not tp < tk:
            raise Closed(f"{self.cls}.__call__: keyword conversions are evaluated before positional ones")
        return pm, km


def binder_classes(tree: ast.Module):
    """[(class name, ClassDef, __call__ FunctionDef or name of the base it inherits it from)] in source order"""
    known = {"AbstractBinding": None}      # name -> translated modes (None: abstract)
    out = []
    for st in tree.body:
        if not isinstance(st, ast.ClassDef):
            continue
        bases = []
        for b in st.bases:
            b = b.value if isinstance(b, ast.Subscript) else b
            if isinstance(b, ast.Name):
                bases.append(b.id)
            elif isinstance(b, ast.Attribute):
                bases.append(b.attr)
        binder_bases = [b for b in bases if b in known]
        if not binder_bases:
            continue
        calls = [x for x in st.body if isinstance(x, (ast.FunctionDef, ast.AsyncFunctionDef)) and x.name == "__call__"]
        other = [x for x in st.body if isinstance(x, (ast.FunctionDef, ast.AsyncFunctionDef)) and x.name != "__call__"]
        problems = []
        if st.decorator_list or st.keywords:
            problems.append(f"{st.name}: decorated class / metaclass keywords")
        if other:
            problems.append(f"{st.name}: defines other methods ({', '.join(x.name for x in other)})")
        if len(calls) > 1 or any(isinstance(x, ast.AsyncFunctionDef) for x in calls):
            problems.append(f"{st.name}: more than one / async __call__")
        known[st.name] = None
        out.append((st.name, st, calls[0] if calls else None, binder_bases, problems))
    return out


def translate_classes(tree: ast.Module):
    table, problems = {}, []
    lines = {}
    for name, cdef, call, bases, probs in binder_classes(tree):
        problems += probs
        if probs:
            continue
        if call is None:
            inh = [b for b in bases if b in table]
            if len(inh) == 1 and len(bases) == 1:
                table[name] = table[inh[0]]
                lines[name] = lines[inh[0]]
            else:
                problems.append(f"{name}: no __call__ of its own and no single translated base")
            continue
        try:
            table[name] = CallBody(call, name).run()
            lines[name] = call.lineno
        except Closed as e:
            problems.append(str(e))
    return table, lines, problems


# ----------------------------------------------------------------------------------
# 1b. _get_binding: max_pos rules, registration kinds
# ----------------------------------------------------------------------------------

def _kind_attr(e):
    """param.KIND / inspect.Parameter.KIND -> 'PO'..."""
    if isinstance(e, ast.Attribute) and e.attr in KIND_OF_ATTR:
        v = e.value
        if _is_name(v, "param") or (isinstance(v, ast.Attribute) and v.attr == "Parameter" and _is_name(v.value, "inspect")):
            return KIND_OF_ATTR[e.attr]
    return None


def _is_param_kind(e):
    return isinstance(e, ast.Attribute) and e.attr == "kind" and _is_name(e.value, "param")


def _kind_eq_test(t):
    if isinstance(t, ast.Compare) and len(t.ops) == 1 and isinstance(t.ops[0], ast.Eq):
        a, b = t.left, t.comparators[0]
        if _is_param_kind(a) and _kind_attr(b):
            return _kind_attr(b)
        if _is_param_kind(b) and _kind_attr(a):
            return _kind_attr(a)
    return None


def _kind_in_test(t):
    if (isinstance(t, ast.Compare) and len(t.ops) == 1 and isinstance(t.ops[0], ast.In) and _is_param_kind(t.left)
            and isinstance(t.comparators[0], (ast.Tuple, ast.List, ast.Set))):
        ks = [_kind_attr(x) for x in t.comparators[0].elts]
        if all(ks):
            return ks
    return None


def _stores(node, names):
    return [n.id for n in ast.walk(node) if isinstance(n, ast.Name) and isinstance(n.ctx, (ast.Store, ast.Del))
            and n.id in names]


def _jumps(node):
    return [type(n).__name__ for n in ast.walk(node)
            if isinstance(n, (ast.Continue, ast.Break, ast.Return, ast.Raise, ast.Try, ast.While, ast.For, ast.With,
                              ast.Yield, ast.YieldFrom, ast.Await, ast.NamedExpr, ast.Global, ast.Nonlocal))]


def _offset(e, var="i"):
    """i, i + c, i - c -> c"""
    if _is_name(e, var):
        return 0
    if (isinstance(e, ast.BinOp) and _is_name(e.left, var) and isinstance(e.right, ast.Constant)
            and type(e.right.value) is int):
        if isinstance(e.op, ast.Add):
            return e.right.value
        if isinstance(e.op, ast.Sub):
            return -e.right.value
    raise Closed(f"_get_binding: max_pos is assigned something else than i + c: {ast.unparse(e)}")


def translate_get_binding(tree: ast.Module):
    fns = [x for x in tree.body if isinstance(x, ast.FunctionDef) and x.name == "_get_binding"]
    if len(fns) != 1:
        raise Closed("_get_binding: not exactly one module-level definition")
    fn = fns[0]
    loops = [x for x in fn.body if isinstance(x, (ast.For, ast.While, ast.AsyncFor))]
    if len(loops) != 1 or not isinstance(loops[0], ast.For) or loops[0].orelse:
        raise Closed("_get_binding: not exactly one plain for loop")
    loop = loops[0]
    at = fn.body.index(loop)
    # the loop header: for i, (name, param) in enumerate(params.items())
    tg = loop.target
    if not (isinstance(tg, ast.Tuple) and len(tg.elts) == 2 and _is_name(tg.elts[0], "i")
            and isinstance(tg.elts[1], ast.Tuple) and len(tg.elts[1].elts) == 2
            and _is_name(tg.elts[1].elts[0], "name") and _is_name(tg.elts[1].elts[1], "param")):
        raise Closed(f"_get_binding: loop target is not i, (name, param): {ast.unparse(tg)}")
    it = loop.iter
    if not (isinstance(it, ast.Call) and _is_name(it.func, "enumerate") and len(it.args) == 1 and not it.keywords
            and isinstance(it.args[0], ast.Call) and isinstance(it.args[0].func, ast.Attribute)
            and it.args[0].func.attr == "items" and _is_name(it.args[0].func.value, "params")
            and not it.args[0].args and not it.args[0].keywords):
        raise Closed(f"_get_binding: loop does not enumerate params.items(): {ast.unparse(it)}")
    # before the loop: params = sig.parameters; max_pos = None (and nothing else touches them)
    seen_params = seen_init = False
    for st in fn.body[:at]:
        if isinstance(st, (ast.Assign, ast.AnnAssign)):
            tgt = st.targets[0] if isinstance(st, ast.Assign) else st.target
            if _is_name(tgt, "params"):
                v = st.value
                seen_params = isinstance(v, ast.Attribute) and v.attr == "parameters" and _is_name(v.value, "sig")
                if not seen_params:
                    raise Closed(f"_get_binding: params is not sig.parameters: {ast.unparse(st)}")
                continue
            if _is_name(tgt, "max_pos"):
                seen_init = isinstance(st.value, ast.Constant) and st.value.value is None
                if not seen_init:
                    raise Closed(f"_get_binding: max_pos does not start as None: {ast.unparse(st)}")
                continue
        if _stores(st, ("max_pos", "params", "enumerate")) or _jumps(st):
            raise Closed(f"_get_binding: statement before the loop not understood: {ast.unparse(st)[:80]}")
    if not (seen_params and seen_init):
        raise Closed("_get_binding: params = sig.parameters / max_pos = None not found before the loop")
    # the loop body
    rules, idx_kinds, name_kinds = [], None, None
    var_assign = {}
    for st in loop.body:
        if isinstance(st, ast.If) and not st.orelse and _kind_eq_test(st.test):
            k = _kind_eq_test(st.test)
            off, cont = None, False
            for j, x in enumerate(st.body):
                if isinstance(x, ast.Continue) and j == len(st.body) - 1:
                    cont = True
                elif isinstance(x, ast.Assign) and len(x.targets) == 1 and _is_name(x.targets[0]) and not _jumps(x):
                    t = x.targets[0].id
                    if t == "max_pos":
                        off = _offset(x.value)
                    elif t in ("i", "param", "name", "params", "unmarshaller", "binding"):
                        raise Closed(f"_get_binding: loop rebinds {t}")
                    elif t in ("varpos", "varkwd"):
                        if not _is_name(x.value, "unmarshaller") or any(r["cont"] and r["kind"] == k for r in rules):
                            raise Closed(f"_get_binding: {ast.unparse(x)} not understood")
                        var_assign[t] = k
                else:
                    raise Closed(f"_get_binding: statement under `if param.kind == {k}` not understood: {ast.unparse(x)}")
            rules.append({"kind": k, "off": off, "cont": cont})
            continue
        if isinstance(st, ast.If) and not st.orelse and _kind_in_test(st.test) and len(st.body) == 1:
            x = st.body[0]
            if (isinstance(x, ast.Assign) and len(x.targets) == 1 and isinstance(x.targets[0], ast.Subscript)
                    and _is_name(x.targets[0].value, "binding") and _is_name(x.value, "unmarshaller")):
                key = x.targets[0].slice
                if any(r["cont"] for r in rules):
                    raise Closed("_get_binding: registration after a `continue`")
                if _is_name(key, "i") and idx_kinds is None:
                    idx_kinds = _kind_in_test(st.test)
                    continue
                if _is_name(key, "name") and name_kinds is None:
                    name_kinds = _kind_in_test(st.test)
                    continue
            raise Closed(f"_get_binding: registration statement not understood: {ast.unparse(st)}")
        if _stores(st, ("max_pos", "i", "param", "name", "params", "varpos", "varkwd")) or _jumps(st):
            raise Closed(f"_get_binding: loop statement not understood: {ast.unparse(st)[:100]}")
        for n in ast.walk(st):
            if isinstance(n, ast.Subscript) and isinstance(n.ctx, ast.Store) and _is_name(n.value, "binding"):
                raise Closed(f"_get_binding: unguarded registration: {ast.unparse(st)[:100]}")
        # `unmarshaller = unmarshals.unmarshaller(param.annotation)` must be exactly that
        if _stores(st, ("unmarshaller",)):
            ok = (isinstance(st, (ast.Assign, ast.AnnAssign)) and isinstance(st.value, ast.Call)
                  and ast.unparse(st.value.func) == "unmarshals.unmarshaller" and len(st.value.args) == 1
                  and not st.value.keywords and ast.unparse(st.value.args[0]) == "param.annotation")
            if not ok or rules or idx_kinds is not None or name_kinds is not None:
                raise Closed(f"_get_binding: unmarshaller is not unmarshals.unmarshaller(param.annotation) computed first: "
                             f"{ast.unparse(st)[:100]}")
    if idx_kinds is None or name_kinds is None:
        raise Closed("_get_binding: registration by index / by name not found")
    if var_assign != {"varpos": "VP", "varkwd": "VK"}:
        raise Closed(f"_get_binding: varpos / varkwd are not set under VAR_POSITIONAL / VAR_KEYWORD: {var_assign}")
    # after the loop: nothing touches max_pos; startpos=max_pos + c if max_pos is not None else None
    fin = None
    for st in fn.body[at + 1:]:
        if _stores(st, ("max_pos", "varpos", "varkwd", "binding")):
            raise Closed(f"_get_binding: state reassigned after the loop: {ast.unparse(st)[:80]}")
        for n in ast.walk(st):
            if isinstance(n, ast.keyword) and n.arg == "startpos":
                e = n.value
                ok = (isinstance(e, ast.IfExp) and isinstance(e.test, ast.Compare) and len(e.test.ops) == 1
                      and isinstance(e.test.ops[0], ast.IsNot) and _is_name(e.test.left, "max_pos")
                      and isinstance(e.test.comparators[0], ast.Constant) and e.test.comparators[0].value is None
                      and isinstance(e.orelse, ast.Constant) and e.orelse.value is None)
                if not ok or fin is not None:
                    raise Closed(f"_get_binding: startpos expression not understood: {ast.unparse(e)}")
                fin = _offset(e.body, "max_pos")
            elif isinstance(n, ast.keyword) and n.arg in ("varpos", "varkwd", "binding"):
                if not _is_name(n.value, n.arg):
                    raise Closed(f"_get_binding: {n.arg}= is passed something else: {ast.unparse(n.value)}")
    if fin is None:
        raise Closed("_get_binding: no startpos= keyword found after the loop")
    return {"rules": rules, "fin": fin, "idx_kinds": idx_kinds, "name_kinds": name_kinds, "line": fn.lineno}


# ----------------------------------------------------------------------------------
# 1c. cross-check with the live module, emission
# ----------------------------------------------------------------------------------

def _all_subclasses(c):
    out = []
    for s in c.__subclasses__():
        out.append(s)
        out += _all_subclasses(s)
    return out


def translate():
    """-> (GenBinderModes.v text, problems, summary)"""
    from typelib import binding
    path = inspect.getsourcefile(binding)
    problems = []
    if os.path.realpath(path) != os.path.realpath(os.path.join(lib.REPO, "src", "typelib", "binding.py")):
        problems.append(f"typelib.binding is loaded from {path}, not from {lib.REPO}")
    tree = ast.parse(open(path).read(), path)
    table, lines, probs = translate_classes(tree)
    problems += probs
    live = {c.__name__: c for c in _all_subclasses(binding.AbstractBinding)
            if not getattr(c.__call__, "__isabstractmethod__", False)}
    if sorted(live) != sorted(table):
        problems.append("concrete binder classes of the live module differ from the translated ones: "
                        f"{sorted(set(live) ^ set(table))}")
    for n, c in live.items():
        if n in table:
            code = getattr(c.__call__, "__code__", None)
            if code is None or code.co_firstlineno != lines[n] or os.path.realpath(code.co_filename) != os.path.realpath(path):
                problems.append(f"{n}.__call__ of the live class is not the function parsed at line {lines[n]}")
    gb = None
    try:
        gb = translate_get_binding(tree)
        code = inspect.unwrap(binding._get_binding).__code__
        if code.co_firstlineno not in (gb["line"], gb["line"] - 1) or os.path.realpath(code.co_filename) != os.path.realpath(path):
            problems.append("_get_binding of the live module is not the function parsed")
    except Closed as e:
        problems.append(str(e))
    rows = ['("%s"%%string, (%s, %s))' % (n, pm, km) for n, (pm, km) in table.items()]
    text = ("(* generated by harness/bindtie.py from the SOURCE of typelib/binding.py (ast) on this run *)\n"
            "From Coq Require Import String List ZArith. Import ListNotations.\n"
            "Require Import TL.Model.Binding TL.Model.BindingShell.\n"
            "Definition translated_modes : mode_table :=\n  " + coq_list(rows, "(string * (posmode * kwmode))").replace("; (", ";\n    (") + ".\n")
    if gb is not None:
        rules = ["{| mr_kind := %s; mr_off := %s; mr_cont := %s |}" % (
            r["kind"], coq_opt(None if r["off"] is None else lib.coq_Z(r["off"]), "Z"), coq_bool(r["cont"])) for r in gb["rules"]]
        text += ("Definition translated_mp_rules : list mp_rule :=\n  " + coq_list(rules, "mp_rule").replace("; {|", ";\n    {|") + ".\n"
                 "Definition translated_mp_fin : Z := %s.\n" % lib.coq_Z(gb["fin"]) +
                 "Definition translated_idx_kinds : list kind := %s.\n" % coq_list(gb["idx_kinds"], "kind") +
                 "Definition translated_name_kinds : list kind := %s.\n" % coq_list(gb["name_kinds"], "kind"))
    summary = {"classes": {n: list(v) for n, v in table.items()}, "get_binding": gb}
    return text, problems, summary


def matrix_present(run) -> bool:
    """GenBindingMatrix.vo of this run (C10's prove writes it); produce it with C10's own writer otherwise"""
    if os.path.exists(os.path.join(run.build, "GenBindingMatrix.vo")):
        return True
    import c10
    text, problems = c10.reflect_matrix()
    run.oblige("bindtie:reflect binding matrix (C10 writer)", not problems, "; ".join(problems))
    return run.compile_dyn("GenBindingMatrix.v", text=text)


def modes_obligations(run: lib.Run) -> bool:
    text, problems, summary = translate()
    run.oblige("bindtie:translate binder classes and _get_binding (ast of binding.py -> idiom pairs, max_pos rules; "
               "every concrete binder class of the live module translated, nothing unrecognised)",
               not problems, "; ".join(problems[:4]))
    run.extra_cov["binder_translation"] = summary
    ok = matrix_present(run)
    ok = run.compile_dyn("GenBinderModes.v", text=text) and ok
    if ok:
        ok = run.compile_dyn("C10Modes.v", src=os.path.join(lib.DYN, "C10", "C10Modes.v"), theorems=MODES_THEOREMS)
    else:
        for t in MODES_THEOREMS:
            run.oblige(f"theorem:{t}", False, "generated tables do not compile")
    run.assumptions += [
        "C10 source tie: harness/bindtie.py (ast -> idiom pair, fail closed) is trusted to read the 16 __call__ bodies "
        "as Model/Binding.v's run_pos/run_kw idioms; the binder-class correspondence checks the same reading by running "
        "the classes",
    ]
    return ok and not problems


def obligations(run: lib.Run, streams: bool = True) -> bool:
    ok = modes_obligations(run)
    return ok
