"""Generator for the (T, v) universe of property C02 (DESIGN 3, restricted as C02's quantifier says).

A case is (module source, type expression, value expression, flags); everything is text, so a case
can be stored in a replay file and rebuilt with `build(case)`.

flags:
  inq       (T, v) is inside C02's quantifier: str-keyed mappings, |ints| < 2**63, valid-Unicode
            strings, finite floats, no bytes below the root.  Outside it only the agreement clause
            is required (all entry points must still do the same thing, usually raise the same way).
  c01_safe  (T, v) is not in a region where C01 itself is known to fail (see C01_EXCLUSIONS; currently always
            True); only then the round-trip clause is demanded.
  union     a union / optional / multi-valued literal is involved: round trip demanded where C01's statement holds.
  bytes_t   T is bytes-like (root).
"""
from __future__ import annotations

import random
import string

PRELUDE = ("import collections, collections.abc, dataclasses, datetime, decimal, enum, fractions, pathlib, "
           "typing, uuid\n")

# Regions where C01 itself fails and the round-trip clause is therefore not demanded.  On the tree this check is
# meant for (/repo 590805a + proposed_fixes/C02-api-bytes-verbatim.diff) the former exclusions -- timedeltas outside
# (0, 7 days), aware times with a non-UTC offset, enum/path text that serdes.load reads as JSON, sequences / named
# tuples whose first element is a 2-element collection (DESIGN 9 #4 #5 #7 #12 #14) -- are repaired and are demanded
# again; the generator still tags such values (`why`) so that the distribution shows they are exercised.
C01_EXCLUSIONS = {
    "union": "unions / optionals / multi-valued literals: the round trip is demanded only where C01's own statement "
             "unmarshal(T, marshal(v, t=T)) == v holds for this (T, v) -- which member accepts a wire form is C08's "
             "subject (declared order), and the two member orders of one union in one process are never mixed (C12)",
}

WORDS = ["abc", "x", "hello world", "Zed", "k_1", "qq-rr", "a/b", "sp ace", "tab\tbed", "unié", "中文",
         "emoji\U0001F600", "quote\"d", "back\\slash", "new\nline"]
TRICKY = ["", "1", "null", "true", "None", "True", "[1]", "{\"a\": 1}", "1.5", "2020-01-02", "ab", "\"q\"", "P1D",
          "0", "-3", "1e5", "nan", "Infinity"]
FLAVOURS = ["dataclass", "dc_slots", "dc_frozen", "dc_kwonly", "namedtuple", "typeddict", "td_nottotal", "plain",
            "slots_cls"]
SAFE_ALPHA = ["alpha", "beta", "gamma", "delta", "omega", "kappa"]


class Gen:
    def __init__(self, rng: random.Random, depth: int = 3):
        self.rng = rng
        self.depth = depth
        self.defs: list[str] = []
        self.ncls = 0
        self.inq = True
        self.safe = True
        self.why: set[str] = set()
        self.union = False

    # ---- bookkeeping ----
    def unsafe(self, why):
        """tag a value from a formerly C01-failing region (no longer excluded from the round trip)"""
        self.why.add(why)

    def outq(self, why):
        self.inq = False
        self.why.add("outq:" + why)

    # ---- types ----
    SCALARS = ["int", "bool", "float", "str", "decimal", "fraction", "uuid", "path", "date", "datetime", "time",
               "timedelta", "none", "enum", "literal"]

    def gen_type(self, depth=None, hashable=False, allow_outq=True):
        depth = self.depth if depth is None else depth
        r = self.rng
        kinds = list(self.SCALARS) * (1 if depth == self.depth else 2)
        if not hashable and depth > 0:
            kinds += ["list", "set", "frozenset", "deque", "tuple_var", "tuple_fix", "dict", "dict", "opt", "union",
                      "cls", "cls", "cls", "seq_abc", "map_abc", "newtype"]
            if allow_outq and r.random() < 0.15:
                kinds += ["dict_nonstr", "bytes_nested"] * 3
        k = r.choice(kinds)
        if k in ("list", "deque", "tuple_var", "seq_abc"):
            return (k, self.gen_type(depth - 1))
        if k in ("set", "frozenset"):
            return (k, self.gen_type(0, hashable=True))
        if k == "tuple_fix":
            return (k, [self.gen_type(depth - 1) for _ in range(r.randint(1, 4))])
        if k in ("dict", "map_abc"):
            return (k, ("str",), self.gen_type(depth - 1))
        if k == "dict_nonstr":
            return ("dict", (r.choice(["int", "uuid", "date", "bool"]),), self.gen_type(depth - 1))
        if k == "bytes_nested":
            return ("list", (r.choice(["bytes", "bytearray"]),))
        if k == "opt":
            return (k, self.gen_type(depth - 1), r.choice(["Optional", "pipe", "Union"]))
        if k == "union":
            n = r.randint(2, 3)
            ms, seen = [], set()
            while len(ms) < n:
                m = self.gen_type(depth - 1)
                if m[0] in seen or m[0] in ("opt", "union", "none"):
                    continue
                seen.add(m[0])
                ms.append(m)
            if r.random() < 0.3:
                ms.insert(r.randint(0, len(ms)), ("none",))
            return (k, ms, r.choice(["Union", "pipe"]))
        if k == "cls":
            flavour = r.choice(FLAVOURS + ["dataclass", "typeddict"])
            nf = r.randint(0, 4) if flavour not in ("namedtuple", "plain", "slots_cls") else r.randint(1, 4)
            fields = [(f"f{i}", self.gen_type(depth - 1)) for i in range(nf)]
            return self.def_class(flavour, fields)
        if k == "enum":
            return self.def_enum(r.choice(["plain_int", "plain_str", "intenum", "strmixin", "mixed"]))
        if k == "literal":
            vals = r.sample([1, 2, 7, "a", "bee", True, None, "1"], r.randint(1, 4))
            return ("literal", vals)
        if k == "newtype":
            self.ncls += 1
            name = f"NT{self.ncls}"
            inner = self.gen_type(0)
            while inner[0] == "none" and r.random() < 0.9:      # NewType of None cannot be built (kept rare)
                inner = self.gen_type(0)
            self.defs.append(f"{name} = typing.NewType('{name}', {self.texpr(inner)})")
            return ("newtype", name, inner)
        return (k,)

    def def_class(self, flavour, fields):
        self.ncls += 1
        name = f"C{self.ncls}"
        lines = []
        if flavour.startswith("d"):
            opts = {"dataclass": "", "dc_slots": "(slots=True)", "dc_frozen": "(frozen=True)",
                    "dc_kwonly": "(kw_only=True)"}[flavour]
            lines.append(f"@dataclasses.dataclass{opts}")
            lines.append(f"class {name}:")
        elif flavour == "namedtuple":
            lines.append(f"class {name}(typing.NamedTuple):")
        elif flavour == "typeddict":
            lines.append(f"class {name}(typing.TypedDict):")
        elif flavour == "td_nottotal":
            lines.append(f"class {name}(typing.TypedDict, total=False):")
        else:           # "plain": annotated class with a matching __init__; "slots_cls": the same with __slots__
            lines.append(f"class {name}:")
            if flavour == "slots_cls":
                lines.append("    __slots__ = (" + "".join(f"'{fn}', " for fn, _ in fields) + ")")
        if not fields and flavour not in ("plain", "slots_cls"):
            lines.append("    pass")
        for fn, ft in fields:
            lines.append(f"    {fn}: {self.texpr(ft)}")
        if flavour in ("plain", "slots_cls"):
            lines.append("    def __init__(self" + "".join(f", {fn}: {self.texpr(ft)}" for fn, ft in fields) + "):")
            lines += [f"        self.{fn} = {fn}" for fn, _ in fields] or ["        pass"]
        self.defs.append("\n".join(lines))
        return ("cls", flavour, name, fields)

    def def_enum(self, kind):
        self.ncls += 1
        name = f"E{self.ncls}"
        r = self.rng
        base = {"plain_int": "enum.Enum", "plain_str": "enum.Enum", "intenum": "enum.IntEnum",
                "strmixin": "str, enum.Enum", "mixed": "enum.Enum"}[kind]
        n = r.randint(1, 3)
        if kind in ("plain_int", "intenum"):
            vals = r.sample(range(-3, 50), n)
        elif kind in ("plain_str", "strmixin"):
            pool = SAFE_ALPHA + (["1", "null", "[1]", "true"] if r.random() < 0.25 else [])
            vals = r.sample(pool, n)
        else:
            vals = r.sample([1, "alpha", 2, "beta", 5], n)
        lines = [f"class {name}({base}):"] + [f"    M{i} = {v!r}" for i, v in enumerate(vals)]
        self.defs.append("\n".join(lines))
        return ("enum", kind, name, vals)

    def texpr(self, t) -> str:
        k = t[0]
        simple = {"int": "int", "bool": "bool", "float": "float", "str": "str", "decimal": "decimal.Decimal",
                  "fraction": "fractions.Fraction", "uuid": "uuid.UUID", "path": "pathlib.PurePosixPath",
                  "date": "datetime.date", "datetime": "datetime.datetime", "time": "datetime.time",
                  "timedelta": "datetime.timedelta", "none": "None", "bytes": "bytes", "bytearray": "bytearray",
                  "memoryview": "memoryview"}
        if k in simple:
            return simple[k]
        if k == "list":
            return f"list[{self.texpr(t[1])}]"
        if k == "deque":
            return f"collections.deque[{self.texpr(t[1])}]"
        if k == "seq_abc":
            return f"typing.Sequence[{self.texpr(t[1])}]"
        if k == "tuple_var":
            return f"tuple[{self.texpr(t[1])}, ...]"
        if k == "set":
            return f"set[{self.texpr(t[1])}]"
        if k == "frozenset":
            return f"frozenset[{self.texpr(t[1])}]"
        if k == "tuple_fix":
            return "tuple[" + ", ".join(self.texpr(x) for x in t[1]) + "]"
        if k == "dict":
            return f"dict[{self.texpr(t[1])}, {self.texpr(t[2])}]"
        if k == "map_abc":
            return f"typing.Mapping[{self.texpr(t[1])}, {self.texpr(t[2])}]"
        if k == "opt":
            inner = self.texpr(t[1])
            if t[2] == "pipe" and t[1][0] not in ("none", "literal") and not inner.startswith("'"):
                return f"({inner} | None)"
            if t[2] == "Union":
                return f"typing.Union[{inner}, None]"
            return f"typing.Optional[{inner}]"
        if k == "union":
            ms = [self.texpr(m) for m in t[1]]
            return "typing.Union[" + ", ".join(ms) + "]"
        if k in ("cls", "enum"):
            return t[2]
        if k == "newtype":
            return t[1]
        if k == "literal":
            return "typing.Literal[" + ", ".join(repr(v) for v in t[1]) + "]"
        raise ValueError(t)

    # ---- values ----
    def gen_str(self, in_union=False):
        r = self.rng
        x = r.random()
        if x < 0.55:
            return r.choice(WORDS)
        if x < 0.8:
            return r.choice(TRICKY)
        if x < 0.97:
            return "".join(r.choice(string.ascii_letters + string.digits + " _-{}[]\",:") for _ in range(r.randint(0, 12)))
        self.outq("lone surrogate")
        return "bad\ud800"

    def gen_int(self):
        r = self.rng
        x = r.random()
        if x < 0.5:
            return r.randint(-100, 100)
        if x < 0.8:
            return r.choice([0, 1, -1, 2**31, -2**31, 2**53 + 1, 2**63 - 1, -2**63, 10**15])
        if x < 0.96:
            return r.randint(-2**63, 2**63 - 1)
        self.outq("int beyond 64 bits")
        return r.choice([2**64, -2**63 - 1, 2**70, 10**30])   # 2**63..2**64-1 is accepted by orjson as u64

    def is_pairlike(self, vexpr_val):
        """2-element collection / 2-char string: what iteritems takes for a pair"""
        try:
            return hasattr(vexpr_val, "__len__") and len(vexpr_val) == 2
        except Exception:
            return False

    def gen_value(self, t, in_union=False):
        """returns (expr, approx) where approx is a plain Python stand-in used only for the pair-first test"""
        r = self.rng
        k = t[0]
        if k == "int":
            v = self.gen_int()
            return repr(v), v
        if k == "bool":
            v = r.random() < 0.5
            return repr(v), v
        if k == "float":
            v = r.choice([0.0, -0.0, 1.5, -2.25, 1e22, 1e-7, 5e-324, 1.7976931348623157e308, 0.1, 3.0, 1 / 3,
                          r.uniform(-1e6, 1e6), r.random()])
            if in_union and v == int(v):
                self.unsafe("float-int")
            return repr(v), v
        if k == "str":
            v = self.gen_str()
            return repr(v), v
        if k == "decimal":
            v = r.choice(["1.10", "0", "-0", "1E+5", "123456789.123456789", "1e-30", "-7.5", "0.000"])
            return f"decimal.Decimal({v!r})", 0
        if k == "fraction":
            return f"fractions.Fraction({r.randint(-50, 50)}, {r.randint(1, 30)})", 0
        if k == "uuid":
            return f"uuid.UUID(int={r.getrandbits(128)})", 0
        if k == "path":
            if r.random() < 0.12:
                self.unsafe("loadable-text")
                return f"pathlib.PurePosixPath({r.choice(['1', 'null', '[1]', '1.5'])!r})", 0
            parts = [r.choice(SAFE_ALPHA) for _ in range(r.randint(1, 3))]
            return f"pathlib.PurePosixPath({('/' if r.random() < 0.5 else '') + '/'.join(parts)!r})", 0
        if k == "date":
            y, m, d = r.choice([(2020, 2, 29), (1, 1, 1), (9999, 12, 31), (1970, 1, 1),
                                (r.randint(1000, 3000), r.randint(1, 12), r.randint(1, 28))])
            return f"datetime.date({y}, {m}, {d})", 0
        if k == "datetime":
            off = r.choice([0, 0, 60, -300, 330, 765, -720, r.randint(-1439, 1439)])
            us = r.choice([0, 0, 1, 999999, r.randint(0, 999999)])
            return (f"datetime.datetime({r.randint(1971, 2200)}, {r.randint(1, 12)}, {r.randint(1, 28)}, "
                    f"{r.randint(0, 23)}, {r.randint(0, 59)}, {r.randint(0, 59)}, {us}, "
                    f"tzinfo=datetime.timezone(datetime.timedelta(minutes={off})))"), 0
        if k == "time":
            off = 0 if r.random() < 0.75 else r.choice([60, -300, 330, r.randint(-1439, 1439)])
            if off != 0:
                self.unsafe("time-offset")
            us = r.choice([0, 0, 1, 999999])
            return (f"datetime.time({r.randint(0, 23)}, {r.randint(0, 59)}, {r.randint(0, 59)}, {us}, "
                    f"tzinfo=datetime.timezone(datetime.timedelta(minutes={off})))"), 0
        if k == "timedelta":
            if r.random() < 0.7:
                d, s, us = r.randint(0, 6), r.randint(0, 86399), r.choice([0, 0, 1, 500000, 999999])
                if d == 0 and s == 0 and us == 0:
                    s = 1
            else:
                self.unsafe("timedelta")
                d, s, us = r.choice([(0, 0, 0), (7, 0, 0), (8, 3, 0), (-1, 0, 0), (400, 59, 999999), (-3, 5, 1), (14, 0, 0)])
            return f"datetime.timedelta(days={d}, seconds={s}, microseconds={us})", 0
        if k == "none":
            return "None", None
        if k == "enum":
            i = r.randrange(len(t[3]))
            val = t[3][i]
            if isinstance(val, str) and val not in SAFE_ALPHA:
                self.unsafe("loadable-text")
            return f"{t[2]}.M{i}", (val if t[1] == "strmixin" else 0)
        if k == "literal":
            v = r.choice(t[1])
            if len(t[1]) > 1:
                self.union = True
            return repr(v), v
        if k in ("bytes", "bytearray", "memoryview"):
            b = bytes(r.choice([b"", b"abc", b"\"abc\"", b"123", b"{\"a\":1}", b"\xff\x00\xfe", b"null",
                                bytes(r.getrandbits(8) for _ in range(r.randint(0, 12)))]))
            if k == "bytes":
                return repr(b), b
            return f"{k}({b!r})", b
        if k == "newtype":
            return self.gen_value(t[2], in_union)
        if k in ("list", "deque", "tuple_var", "seq_abc", "set", "frozenset"):
            n = r.choice([0, 1, 2, 2, 3, 5])
            if t[1][0] in ("bytes", "bytearray"):
                n = max(n, 1)
                self.outq("bytes below the root")
            items = [self.gen_value(t[1], in_union) for _ in range(n)]
            if k in ("set", "frozenset"):
                # distinct by expression; python dedups equal values itself
                seen, uniq = set(), []
                for e, a in items:
                    if e not in seen:
                        seen.add(e)
                        uniq.append((e, a))
                items = uniq
                if any(self.is_pairlike(a) for _, a in items):
                    self.unsafe("pair-first")
            elif items and self.is_pairlike(items[0][1]):
                self.unsafe("pair-first")
            exprs = [e for e, _ in items]
            approx = [a for _, a in items]
            if k == "list" or k == "seq_abc":
                return "[" + ", ".join(exprs) + "]", approx
            if k == "deque":
                return "collections.deque([" + ", ".join(exprs) + "])", approx
            if k == "tuple_var":
                return "(" + "".join(e + ", " for e in exprs) + ")", approx
            if k == "set":
                return ("{" + ", ".join(exprs) + "}" if exprs else "set()"), approx
            return "frozenset([" + ", ".join(exprs) + "])", approx
        if k == "tuple_fix":
            items = [self.gen_value(x, in_union) for x in t[1]]
            if self.is_pairlike(items[0][1]):
                self.unsafe("pair-first")
            return "(" + "".join(e + ", " for e, _ in items) + ")", [a for _, a in items]
        if k in ("dict", "map_abc"):
            n = r.choice([0, 1, 2, 3])
            if t[1][0] != "str":
                n = max(n, 1)
                self.outq("non-str mapping key")
            ks, items = set(), []
            for _ in range(n):
                ke, ka = self.gen_value(t[1])
                if ke in ks or (t[1][0] == "bool" and ks):
                    continue
                ks.add(ke)
                ve, va = self.gen_value(t[2], in_union)
                items.append((ke, ve, ka, va))
            return "{" + ", ".join(f"{ke}: {ve}" for ke, ve, _, _ in items) + "}", {str(i): 0 for i in range(len(items))}
        if k == "opt":
            if r.random() < 0.3:
                return "None", None
            self.union = True
            return self.gen_value(t[1], in_union=True)
        if k == "union":
            self.union = True      # round trip demanded only where C01's own statement holds (decided at run time)
            m = r.choice(t[1])
            return self.gen_value(m, in_union=True)
        if k == "cls":
            flavour, name, fields = t[1], t[2], t[3]
            items = []
            for fn, ft in fields:
                if flavour == "td_nottotal" and r.random() < 0.3:
                    continue
                e, a = self.gen_value(ft, in_union)
                items.append((fn, e, a))
            if flavour == "namedtuple" and items and self.is_pairlike(items[0][2]):
                self.unsafe("pair-first")
            approx = {fn: 0 for fn, _, _ in items} if flavour != "namedtuple" else [a for _, _, a in items]
            return f"{name}(" + ", ".join(f"{fn}={e}" for fn, e, _ in items) + ")", approx
        raise ValueError(t)


def root_kinds():
    return ["any"] * 27 + ["bytes", "bytearray", "memoryview"]


BYTES_WRAPPERS = ["final", "classvar", "newtype", "alias", "str", "fref", "final-newtype", "alias-str", "final-alias-str",
                  "alias-str-chain", "alias-str-newtype"]


def bytes_sweep_cases(rng: random.Random) -> list:
    """every bytes-like root kind behind every transparent wrapper shape (systematic, not sampled)"""
    return [gen_case(rng, 2, forced_root=rk, forced_wrapper=w) for rk in root_kinds() if rk != "any" for w in [""] + BYTES_WRAPPERS]


def gen_case(rng: random.Random, depth: int, forced_root=None, forced_wrapper=None) -> dict:
    g = Gen(rng, depth)
    rk = forced_root if forced_root is not None else rng.choice(root_kinds())
    if rk == "any":
        t = g.gen_type()
    else:
        t = (rk,)
    texpr = g.texpr(t)
    vexpr, _ = g.gen_value(t)
    if rk != "any":
        g.inq = True
        # a bytes-like root behind the transparent wrappers of the universe (qualifiers, NewType, alias, references):
        # still a bytes-like T, still carried verbatim by every entry point
        w = forced_wrapper if forced_wrapper is not None else rng.choice([""] + BYTES_WRAPPERS)
        if w in ("alias-str", "final-alias-str", "alias-str-chain"):
            # a STRING-valued alias: unwrap() stops at the reference to its text (repaired in /repo by 6dde95d)
            g.defs.append("from typelib.py.compat import TypeAliasType as _TAT")
            g.defs.append(f"BWrapS = _TAT('BWrapS', {texpr!r})")
            texpr = "BWrapS"
            if w == "alias-str-chain":
                g.defs.append("BWrapS2 = _TAT('BWrapS2', 'BWrapS')")
                texpr = "BWrapS2"
            elif w == "final-alias-str":
                texpr = "typing.Final[BWrapS]"
        elif w == "alias-str-newtype":
            g.defs.append("from typelib.py.compat import TypeAliasType as _TAT")
            g.defs.append(f"BWrapN = typing.NewType('BWrapN', {texpr})")
            g.defs.append("BWrapSN = _TAT('BWrapSN', 'BWrapN')")
            texpr = "BWrapSN"
        elif w in ("newtype", "final-newtype"):
            g.defs.append(f"BWrapN = typing.NewType('BWrapN', {texpr})")
            texpr = "BWrapN" if w == "newtype" else "typing.Final[BWrapN]"
        elif w == "alias":
            g.defs.append("from typelib.py.compat import TypeAliasType as _TAT")
            g.defs.append(f"BWrapA = _TAT('BWrapA', {texpr})")
            texpr = "BWrapA"
        elif w == "final":
            texpr = f"typing.Final[{texpr}]"
        elif w == "classvar":
            texpr = f"typing.ClassVar[{texpr}]"
        elif w == "str":
            texpr = repr(texpr)
        elif w == "fref":
            texpr = f"typing.ForwardRef({texpr!r})"
    return {"source": PRELUDE + "\n".join(g.defs) + "\n", "texpr": texpr, "vexpr": vexpr, "head": t[0],
            "inq": g.inq, "c01_safe": g.safe, "why": sorted(g.why), "union": g.union, "bytes_t": rk != "any",
            "depth": type_depth(t)}


def type_depth(t) -> int:
    d = 0
    for x in t[1:]:
        if isinstance(x, tuple):
            d = max(d, 1 + type_depth(x))
        elif isinstance(x, list):
            for y in x:
                if isinstance(y, tuple) and len(y) == 2 and isinstance(y[0], str) and isinstance(y[1], tuple):
                    d = max(d, 1 + type_depth(y[1]))      # (field name, type)
                elif isinstance(y, tuple):
                    d = max(d, 1 + type_depth(y))
    return d


_modcount = 0


def build(case: dict):
    """-> (module name, T, v).  A fresh module per case."""
    import impl
    global _modcount
    _modcount += 1
    name = f"verif_c02_m{_modcount % 7}"
    mod = impl.new_module(name, case["source"])
    T = eval(case["texpr"], mod.__dict__)
    v = eval(case["vexpr"], mod.__dict__)
    return name, T, v


# ---- canonical form of a Python object: class at every position ----
def canon(x):
    import collections
    import dataclasses
    import datetime
    import enum
    tn = f"{type(x).__module__}.{type(x).__qualname__}"
    if isinstance(x, enum.Enum):
        return [tn, "member", x.name]
    if x is None or isinstance(x, (bool, int, str)):
        return [tn, repr(x)]
    if isinstance(x, float):
        return [tn, x.hex()]
    if isinstance(x, (bytes, bytearray)):
        return [tn, bytes(x).hex()]
    if isinstance(x, memoryview):
        return [tn, x.tobytes().hex()]
    if isinstance(x, dict):
        return [tn, sorted(([canon(k), canon(v)] for k, v in x.items()), key=repr)]
    if isinstance(x, (set, frozenset)):
        return [tn, sorted((canon(e) for e in x), key=repr)]
    if isinstance(x, (list, tuple, collections.deque)):
        return [tn, [canon(e) for e in x]]
    if dataclasses.is_dataclass(x) and not isinstance(x, type):
        return [tn, [[f.name, canon(getattr(x, f.name))] for f in dataclasses.fields(x)]]
    if type(x).__module__.startswith("verif_c02") and getattr(type(x), "__annotations__", None) is not None \
            and not isinstance(x, type):
        # generated plain / __slots__ class (no __eq__, no useful repr): compare field by field
        return [tn, [[n, canon(getattr(x, n, "<unset>"))] for n in type(x).__annotations__]]
    if isinstance(x, (datetime.datetime, datetime.time)):
        return [tn, x.isoformat()]
    return [tn, repr(x)]


# ---- systematic sweep: every structured flavour x members whose marshalled form differs from the value ----
MEMBER_KINDS = ["decimal", "fraction", "uuid", "path", "date", "datetime", "time", "timedelta", "enum",
                "nested:dataclass", "nested:typeddict", "nested:namedtuple", "nested:plain",
                "list:uuid", "dict:date", "opt:datetime", "tuple_fix:decimal", "set:path"]


def sweep_cases(rng: random.Random) -> list[dict]:
    out = []
    for flavour in FLAVOURS:
        for mk in MEMBER_KINDS:
            g = Gen(rng, 2)
            if mk == "enum":
                m = g.def_enum(rng.choice(["plain_int", "plain_str", "intenum", "strmixin"]))
            elif mk.startswith("nested:"):
                m = g.def_class(mk[7:], [("g0", (rng.choice(["uuid", "datetime", "decimal", "date"]),)), ("g1", ("int",))])
            elif mk.startswith("list:"):
                m = ("list", (mk[5:],))
            elif mk.startswith("dict:"):
                m = ("dict", ("str",), (mk[5:],))
            elif mk.startswith("opt:"):
                m = ("opt", (mk[4:],), "Optional")
            elif mk.startswith("tuple_fix:"):
                m = ("tuple_fix", [(mk[10:],), ("int",)])
            elif mk.startswith("set:"):
                m = ("set", (mk[4:],))
            else:
                m = (mk,)
            t = g.def_class(flavour, [("f0", ("int",)), ("f1", m), ("f2", ("str",))])
            for _ in range(40):
                g.inq, g.why = True, set()
                vexpr, _a = g.gen_value(t)
                if "f1=" in vexpr and "f1=None" not in vexpr and g.inq:
                    break
            out.append({"source": PRELUDE + "\n".join(g.defs) + "\n", "texpr": g.texpr(t), "vexpr": vexpr, "head": "cls",
                        "inq": g.inq, "c01_safe": g.safe, "why": sorted(g.why) + [f"sweep:{flavour}:{mk}"],
                        "union": g.union, "bytes_t": False, "depth": type_depth(t)})
    return out
