#!/bin/bash
# Re-check every compiled theory of the development with Coq's independent checker and print the axioms it relies on.
# usage: bash harness/coqchk_all.sh   (after bash setup.sh); takes about two minutes.
cd "$(dirname "$0")/../coq" || exit 2
mods=$(find theories -name "*.vo" | sed 's#theories/#TL.#; s#/#.#g; s#\.vo$##' | sort | tr '\n' ' ')
timeout 3000 coqchk -silent -o -Q theories TL $mods
